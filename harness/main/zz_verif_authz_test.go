//go:build verif

package main

// Suite `authz` (C08): the real validator (newValidatorImpl with a real, reloaded
// authenticated-emails file), isEmailValidWithDomains, ProviderData.Authorize,
// authOnlyAuthorize and the whole proxy (login, later requests after rule changes, the
// auth-only endpoint) against the Lean model O2P.Authz, plus an independent, label-based
// oracle restating C08: served ⇒ the oracle allows (e-mail, groups) under the rules in force;
// refused by the rules ⇒ 401/403, nothing forwarded, session cookie cleared.

import (
	"context"
	"crypto/rand"
	"crypto/rsa"
	"encoding/base64"
	"fmt"
	"net/http"
	"net/url"
	"os"
	"path/filepath"
	"strings"
	"sync"
	"sync/atomic"
	"time"

	"github.com/oauth2-proxy/oauth2-proxy/v7/pkg/apis/sessions"
	"github.com/oauth2-proxy/oauth2-proxy/v7/providers"
)

// ---------------------------------------------------------------------------------------
// the independent oracle (labels, last atom; never calls the code under test)

func azLabels(host string) []string { return strings.Split(host, ".") }

func azLabelsEqual(a, b []string) bool {
	if len(a) != len(b) {
		return false
	}
	for i := range a {
		if a[i] != b[i] {
			return false
		}
	}
	return true
}

// azSubdomainOf: host has strictly more labels than dom and ends with dom's labels
func azSubdomainOf(host, dom string) bool {
	h, d := azLabels(host), azLabels(dom)
	if len(h) <= len(d) {
		return false
	}
	return azLabelsEqual(h[len(h)-len(d):], d)
}

// azHost: what follows the last '@'; ok=false when the address has no '@' at all
func azHost(email string) (string, bool) {
	i := strings.LastIndexByte(email, '@')
	if i < 0 {
		return "", false
	}
	return email[i+1:], true
}

// azDomainRule: does host satisfy the configured domain d (already lower-cased, '@'-free)?
// bareToo: leading-dot / wildcard entries also admit the bare domain (auth-only semantics)
func azDomainRule(host, d string, bareToo bool) bool {
	switch {
	case strings.HasPrefix(d, "*."):
		return host == d || azSubdomainOf(host, d[2:]) || (bareToo && host == d[2:])
	case strings.HasPrefix(d, "."):
		return azSubdomainOf(host, d[1:]) || (bareToo && host == d[1:])
	default:
		return azLabelsEqual(azLabels(host), azLabels(d))
	}
}

// azEmailAllowed restates the global e-mail rule. sane=false: the rule set contains entries
// the label oracle does not interpret (an '@' inside a domain), the monitor then abstains.
func azEmailAllowed(email string, domains, fileSet []string) (allowed, sane bool) {
	sane = true
	if email == "" {
		return false, true
	}
	le := strings.ToLower(email)
	for _, d := range domains {
		if d == "*" {
			return true, true
		}
	}
	for _, f := range fileSet {
		if f == le {
			return true, true
		}
	}
	host, hasAt := azHost(le)
	for _, d := range domains {
		dl := strings.ToLower(d)
		if strings.Contains(dl, "@") {
			sane = false
			continue
		}
		if hasAt && azDomainRule(host, dl, false) {
			return true, sane
		}
	}
	return false, sane
}

func azGroupsAllowed(allowed, groups []string) bool {
	if len(allowed) == 0 {
		return true
	}
	for _, g := range groups {
		for _, a := range allowed {
			if g == a {
				return true
			}
		}
	}
	return false
}

func azEntities(q [][2]string, key string) []string {
	var out []string
	for _, kv := range q {
		if kv[0] != key {
			continue
		}
		for _, it := range strings.Split(kv[1], ",") {
			if it != "" {
				out = append(out, it)
			}
		}
	}
	return out
}

// azAuthOnlyAllowed restates the three query constraints of the auth-only endpoint
func azAuthOnlyAllowed(q [][2]string, email string, groups []string) bool {
	if ag := azEntities(q, "allowed_groups"); len(ag) > 0 && !azGroupsAllowed(ag, groups) {
		return false
	}
	if ae := azEntities(q, "allowed_emails"); len(ae) > 0 {
		ok := false
		for _, e := range ae {
			if strings.EqualFold(e, email) {
				ok = true
			}
		}
		if !ok {
			return false
		}
	}
	if ad := azEntities(q, "allowed_email_domains"); len(ad) > 0 {
		host, hasAt := azHost(strings.ToLower(email))
		ok := false
		for _, d := range ad {
			if hasAt && azDomainRule(host, strings.ToLower(d), true) {
				ok = true
			}
		}
		if !ok {
			return false
		}
	}
	return true
}

// ---------------------------------------------------------------------------------------
// generators

var azEmails = []string{"user@example.com", "user@sub.example.com", "user@evilexample.com", "a@b@example.com",
	"a@example.com@evil.com", "noat.example.com", "u@example.com:8080", "u@[example.com]", "u@example.com:", "",
	"U@Example.COM", "u@", "@example.com", "u@.example.com", "u@x.evil.com", "bob@corp.io", "u@example.com:*", "u@[::1]:80",
	"u@*.example.com", "u@*", "*", "@", "a@@example.com", "u@sub.Example.com", "o'hara+tag@example.com", "user@example.com.evil.com",
	"user@xexample.com", "user@example.comx", "user@a.b.example.com", "a@sub.example.com@evil.com", "a@corp.example.com@evil.test", "a@example.com@sub.example.com",
	"a@sub.example.com@", "@sub.example.com@evil.com"}
var azDomains = []string{"example.com", ".example.com", "*.example.com", "*", "Example.COM", "", ".", "*.", "com",
	"example.com:8080", "example.com:*", "[example.com]", "evil.com", "corp.io", ".Example.com", "*.evil.com", ":80", "[::1]:80", "[::1]",
	"*.example.com:*", "sub.example.com", "b@example.com"}
var azGroupPool = []string{"g1", "g2", "admins", "", "a,b", "G1", "dev", "ops"}

func azMut(r *rng, s string) string {
	if r.intn(4) != 0 || len(s) == 0 {
		return s
	}
	b := []byte(s)
	alphabet := "@.*:[]aE1"
	switch r.intn(3) {
	case 0:
		b[r.intn(len(b))] = alphabet[r.intn(len(alphabet))]
	case 1:
		i := r.intn(len(b) + 1)
		b = append(b[:i], append([]byte{alphabet[r.intn(len(alphabet))]}, b[i:]...)...)
	default:
		i := r.intn(len(b))
		b = append(b[:i], b[i+1:]...)
	}
	return string(b)
}

func azList(r *rng, pool []string, max int, mut bool) []string {
	n := r.intn(max + 1)
	out := []string{}
	for i := 0; i < n; i++ {
		s := r.pick(pool)
		if mut {
			s = azMut(r, s)
		}
		out = append(out, s)
	}
	return out
}

func encQuery(q [][2]string) string {
	if len(q) == 0 {
		return "-"
	}
	out := make([]string, len(q))
	for i, kv := range q {
		out[i] = hx(kv[0]) + ":" + hx(kv[1])
	}
	return strings.Join(out, ",")
}

func rawQuery(q [][2]string) string {
	parts := make([]string, len(q))
	for i, kv := range q {
		parts[i] = url.QueryEscape(kv[0]) + "=" + url.QueryEscape(kv[1])
	}
	return strings.Join(parts, "&")
}

func encAzSess(email string, groups []string, present bool) string {
	if !present {
		return "-"
	}
	return hx(email) + ";" + hxl(groups)
}

func genAzQuery(r *rng, email string, groups []string, sane bool) [][2]string {
	keys := []string{"allowed_groups", "allowed_email_domains", "allowed_emails", "other", "Allowed_Groups"}
	var q [][2]string
	for i := r.intn(4); i > 0; i-- {
		k := r.pick(keys)
		var items []string
		switch k {
		case "allowed_groups":
			items = azList(r, azGroupPool, 3, !sane)
			if r.intn(3) == 0 && len(groups) > 0 {
				items = append(items, groups[r.intn(len(groups))])
			}
		case "allowed_email_domains":
			if sane {
				items = azList(r, []string{"example.com", ".example.com", "*.example.com", "evil.com", "corp.io", "sub.example.com", "Example.COM"}, 3, false)
			} else {
				items = azList(r, azDomains, 3, true)
			}
		default:
			items = azList(r, azEmails, 3, !sane)
			if r.intn(3) == 0 {
				items = append(items, email)
			}
		}
		if r.intn(4) == 0 {
			items = append(items, "") // empty item
		}
		if r.intn(5) == 0 {
			// blank-but-not-empty item, as in hand-written 'a, b' / 'a, ' lists
			items = append(items, r.pick([]string{" ", "  ", "\t", " \t "}))
			if len(items) > 1 && r.bool() {
				items[0], items[len(items)-1] = items[len(items)-1], items[0]
			}
		}
		q = append(q, [2]string{k, strings.Join(items, ",")})
	}
	return q
}

// ---------------------------------------------------------------------------------------

func init() {
	registerSuite("authz", func(c *suiteCtx) {
		azCorpus(c)
		azUnit(c)
		azValidatorReload(c)
		azE2E(c)
		azDeployments(c)
		c.close([]string{"az:bearer-under-email-rules", "az:behind-proxy", "az:refused-while-deletes-fail", "az:refreshed-elsewhere", "az:refresh-grows-and-fails", "va:reload-under-traffic", "iv:true", "iv:false", "va:true", "va:false", "va:reload", "va:emptied-file", "gr:true", "gr:false", "ao:true", "ao:false", "ao:nil-session",
			"ao:domain-check-pass", "ao:domain-check-fail", "login:session", "login:forbidden", "gate:ok", "gate:denied", "gate:login", "gate:bypass",
			"history:file-rewrite-denied", "history:second-proxy-denied", "history:second-proxy-ok", "authonly:202", "authonly:403", "authonly:401",
			"htpasswd:exempt-served", "htpasswd:groups-denied", "monitor:served-allowed", "monitor:refused-cleared"})
	})
}

func azIV(c *suiteCtx, email string, ds []string) {
	got := isEmailValidWithDomains(email, ds)
	c.emit(bs(got), "iv", hx(email), hxl(ds))
	c.count("iv:" + fmt.Sprint(got))
}

var azAOSeq int

func azAO(c *suiteCtx, q [][2]string, email string, groups []string, present bool) {
	// every fourth case carries a malformed SIBLING parameter: the constraints as written stay in force (url.Values semantics:
	// pairs that do not parse are dropped, the others count)
	raw := rawQuery(q)
	azAOSeq++
	if azAOSeq%4 == 0 {
		raw += []string{"&rd=%zz", "&x=1;y=2", "&%", "&=&&", "&next=%2"}[(azAOSeq/4)%5]
	}
	req, err := http.NewRequest("GET", "http://h/oauth2/auth?"+raw, nil)
	if err != nil {
		return
	}
	var s *sessions.SessionState
	if present {
		s = &sessions.SessionState{Email: email, Groups: groups}
		// the constraints are about the session's E-MAIL ADDRESS and GROUPS: its other identity fields are spelled like
		// something the query allows (a user name that looks like a listed address, a preferred user name inside an
		// allowed domain, a user name equal to an allowed group) and must not count
		if ae := azEntities(q, "allowed_emails"); len(ae) > 0 {
			s.User = ae[azAOSeq%len(ae)]
			s.PreferredUsername = ae[(azAOSeq/2)%len(ae)]
		} else if ad := azEntities(q, "allowed_email_domains"); len(ad) > 0 {
			s.User = "someone@" + strings.TrimPrefix(strings.TrimPrefix(ad[azAOSeq%len(ad)], "*"), ".")
			s.PreferredUsername = s.User
		} else if ag := azEntities(q, "allowed_groups"); len(ag) > 0 {
			s.User = ag[azAOSeq%len(ag)]
			s.PreferredUsername = s.User
		}
	}
	got := authOnlyAuthorize(req, s)
	c.emit(bs(got), "ao", encQuery(q), encAzSess(email, groups, present))
	c.count("ao:" + fmt.Sprint(got))
	if !present {
		c.count("ao:nil-session")
		return
	}
	// independent oracle: a 'true' answer must be explained by the constraints as written in the query
	plainRules := true
	for _, d := range azEntities(q, "allowed_email_domains") {
		if strings.ContainsAny(d, "[]:@") {
			plainRules = false // a rule that is itself a host form (brackets, port, '@') is parsed as a URL host: operator-side syntax, not judged here
		}
	}
	if got && plainRules && !azAuthOnlyAllowed(q, email, groups) {
		host, _ := azHost(email)
		if len(azEntities(q, "allowed_email_domains")) > 0 && strings.ContainsAny(host, "[]:") {
			c.known("C08", "C08-authonly-domain-host-forms", fmt.Sprintf("auth-only: e-mail %q passes allowed_email_domains=%q because its domain part is parsed as a URL host (brackets / port stripped)", email, azEntities(q, "allowed_email_domains")))
			c.count("known:authonly-host-forms")
		} else {
			c.violation("C08", fmt.Sprintf("authOnlyAuthorize accepts a session (%q, groups %q) that does not satisfy the query constraints", email, groups),
				map[string]interface{}{"query": raw, "email": email, "groups": groups})
		}
	}
	if len(azEntities(q, "allowed_email_domains")) > 0 {
		if checkAllowedEmailDomains(req, s) {
			c.count("ao:domain-check-pass")
		} else {
			c.count("ao:domain-check-fail")
		}
	}
}

func azCorpus(c *suiteCtx) {
	for _, k := range []struct {
		e string
		d []string
	}{
		{"x@evilexample.com", []string{"example.com"}}, {"x@evilexample.com", []string{".example.com"}}, {"x@evilexample.com", []string{"*.example.com"}},
		{"x@example.com", []string{"example.com"}}, {"x@a.example.com", []string{".example.com"}}, {"x@a.example.com", []string{"*.example.com"}},
		{"x@example.com", []string{".example.com"}}, {"a@example.com@evil.org", []string{"example.com"}}, {"a@example.com@evil.org", []string{"evil.org"}},
		{"foo.example.com", []string{".example.com"}}, {"x@example.com.evil.org", []string{"example.com"}}, {"x@example.comx", []string{"example.com"}},
		{"x@", []string{""}}, {"", []string{"*"}},
	} {
		azIV(c, k.e, k.d)
	}
	for _, k := range []struct {
		q [][2]string
		e string
		g []string
	}{
		{[][2]string{{"allowed_email_domains", "example.com"}}, "u@[example.com]", nil},
		{[][2]string{{"allowed_email_domains", "example.com"}}, "u@example.com:", nil},
		{[][2]string{{"allowed_email_domains", "example.com"}}, "u@example.com:8080", nil},
		{[][2]string{{"allowed_email_domains", "example.com"}}, "u@evilexample.com", nil},
		{[][2]string{{"allowed_groups", "a,,b"}, {"allowed_groups", "c"}}, "u@example.com", []string{"c"}},
		{[][2]string{{"allowed_groups", ",,"}}, "u@example.com", nil},
		{[][2]string{{"allowed_emails", "u@example.com"}}, "U@example.com", nil},
		{[][2]string{{"allowed_email_domains", "example.com"}}, "a@b@example.com", nil},
		// whitespace-only / blank items must not turn into an empty entity that an empty e-mail or an empty group name matches
		{[][2]string{{"allowed_emails", "admin@example.com, "}}, "", nil},
		{[][2]string{{"allowed_emails", "admin@example.com,\t"}}, "", []string{"staff"}},
		{[][2]string{{"allowed_emails", " "}}, "", nil},
		{[][2]string{{"allowed_groups", "admins, ,ops"}}, "u@example.com", []string{""}},
		{[][2]string{{"allowed_groups", " "}}, "u@example.com", []string{"", "x"}},
		{[][2]string{{"allowed_groups", "a, b"}}, "u@example.com", []string{"b"}},
		{[][2]string{{"allowed_groups", "a, b"}}, "u@example.com", []string{" b"}},
		{[][2]string{{"allowed_email_domains", " "}}, "u@", nil},
		{[][2]string{{"allowed_emails", " u@example.com"}}, "u@example.com", nil},
	} {
		azAO(c, k.q, k.e, k.g, true)
	}
}

func azUnit(c *suiteCtx) {
	r := c.rng.fork()
	for i := 0; i < 25000*c.scale; i++ {
		e := azMut(r, r.pick(azEmails))
		ds := azList(r, azDomains, 6, true)
		if i%3 == 0 && len(ds) > 0 {
			// bias towards the boundary: a domain derived from the address itself
			h, ok := azHost(e)
			if parts := strings.Split(e, "@"); len(parts) > 2 && r.bool() {
				// a rule derived from ANY '@'-separated component, not only the real (last) domain
				h, ok = strings.ToLower(parts[1+r.intn(len(parts)-1)]), true
			}
			if ok && h != "" {
				switch r.intn(4) {
				case 0:
					ds[0] = h
				case 1:
					ds[0] = "." + h
				case 2:
					if j := strings.IndexByte(h, '.'); j >= 0 {
						ds[0] = "*" + h[j:]
					}
				default:
					ds[0] = h[1:]
				}
			}
		}
		azIV(c, e, ds)
	}
	for i := 0; i < 5000*c.scale; i++ {
		al := azList(r, azGroupPool, 3, false)
		gs := azList(r, azGroupPool, 3, false)
		pd := &providers.ProviderData{AllowedGroups: map[string]struct{}{}}
		for _, g := range al {
			pd.AllowedGroups[g] = struct{}{}
		}
		ok, _ := pd.Authorize(context.Background(), &sessions.SessionState{Groups: gs})
		c.emit(bs(ok), "gr", hxl(al), hxl(gs))
		c.count("gr:" + fmt.Sprint(ok))
		if ok != azGroupsAllowed(al, gs) {
			c.violation("C08", "ProviderData.Authorize disagrees with the allowed-groups rule", map[string]interface{}{"allowed": al, "groups": gs, "authorized": ok})
		}
	}
	for i := 0; i < 30000*c.scale; i++ {
		email := azMut(r, r.pick(azEmails))
		groups := azList(r, azGroupPool, 3, false)
		azAO(c, genAzQuery(r, email, groups, i%2 == 0), email, groups, r.intn(10) != 0)
	}
	for i := 0; i < 4000*c.scale; i++ {
		h := azMut(r, azMut(r, r.pick(azDomains)))
		u, _ := url.Parse("")
		u.Host = h
		c.emit(hx(u.Hostname())+" "+hx(u.Port()), "hp", hx(h))
	}
}

// emailsFile writes an authenticated-emails file the way an operator would (mixed case,
// blanks, comments) and returns the set the loader is specified to produce
func writeEmailsFile(r *rng, path string, entries []string, sentinel string) []string {
	var sb strings.Builder
	set := []string{}
	sb.WriteString("# authenticated emails\n")
	for _, e := range append(append([]string{}, entries...), sentinel) {
		n := strings.ToLower(strings.TrimSpace(e))
		if n == "" || strings.ContainsAny(e, ",\"#\n\r") {
			continue
		}
		line := e
		if r != nil && r.intn(3) == 0 {
			line = "  " + strings.ToUpper(e) + " "
		}
		sb.WriteString(line + "\n")
		set = append(set, n)
	}
	tmp := path + ".tmp"
	os.WriteFile(tmp, []byte(sb.String()), 0o600)
	os.Rename(tmp, path)
	return set
}

type watchedValidator struct {
	validate func(string) bool
	done     chan bool
	updates  chan struct{}
}

func newWatchedValidator(domains []string, file string) *watchedValidator {
	w := &watchedValidator{done: make(chan bool), updates: make(chan struct{}, 64)}
	w.validate = newValidatorImpl(append([]string{}, domains...), file, w.done, func() {
		select {
		case w.updates <- struct{}{}:
		default:
		}
	})
	return w
}

// waitFor polls until the validator reflects the rewritten file (fsnotify reload is asynchronous)
func (w *watchedValidator) waitFor(sentinel string, old string) bool {
	deadline := time.Now().Add(20 * time.Second)
	for time.Now().Before(deadline) {
		if w.validate(sentinel) && (old == "" || !w.validate(old)) {
			return true
		}
		select {
		case <-w.updates:
		case <-time.After(20 * time.Millisecond):
		}
	}
	return false
}

func azValidatorReload(c *suiteCtx) {
	r := c.rng.fork()
	dir, _ := os.MkdirTemp("", "verif-authz")
	defer os.RemoveAll(dir)
	for i := 0; i < 120*c.scale; i++ {
		ds := azList(r, azDomains, 3, true)
		// without a "*" the sentinel probe is meaningful
		var dsNoStar []string
		for _, d := range ds {
			if d != "*" && !strings.Contains(strings.ToLower(d), "probe.test") {
				dsNoStar = append(dsNoStar, d)
			}
		}
		if i%4 != 0 {
			ds = dsNoStar
		}
		file := ""
		var set []string
		var w *watchedValidator
		sentinel := fmt.Sprintf("sentinel-%d-0@probe.test", i)
		if i%5 != 4 {
			file = filepath.Join(dir, fmt.Sprintf("emails-%d", i))
			set = writeEmailsFile(r, file, azList(r, azEmails, 4, true), sentinel)
		}
		w = newWatchedValidator(ds, file)
		probe := func() {
			for j := 0; j < 12; j++ {
				e := azMut(r, r.pick(azEmails))
				if j%4 == 0 && len(set) > 0 {
					e = randCase(r, set[r.intn(len(set))])
				}
				got := w.validate(e)
				c.emit(bs(got), "va", hxl(ds), hxl(set), hx(e))
				c.count("va:" + fmt.Sprint(got))
				if allowed, sane := azEmailAllowed(e, ds, set); sane && got && !allowed {
					azUnexpectedAllow(c, "validator", e, ds, set, nil, nil)
				}
			}
		}
		probe()
		if file != "" && i%2 == 0 {
			hasStar := false
			for _, d := range ds {
				if d == "*" {
					hasStar = true
				}
			}
			old := sentinel
			sentinel = fmt.Sprintf("sentinel-%d-1@probe.test", i)
			set = writeEmailsFile(r, file, azList(r, azEmails, 4, true), sentinel)
			if hasStar {
				time.Sleep(150 * time.Millisecond)
			} else if !w.waitFor(sentinel, old) {
				c.violation("HARNESS", "authenticated-emails file reload not observed", map[string]interface{}{"file": file})
				c.violation("C08", "20 s after the authenticated-emails file was replaced (written aside, renamed over the old file) the validator still answers from the old contents: a removed address stays authorised, an added one is refused",
					map[string]interface{}{"removed_address_still_valid": w.validate(old), "added_address_valid": w.validate(sentinel), "update": "atomic rename over the watched file"})
				close(w.done)
				continue
			}
			c.count("va:reload")
			probe()
		}
		if file != "" && i%4 == 1 && len(set) > 0 {
			// the operator removes EVERY entry (empty / comment-only file): nobody from the file stays authorised.
			// Driven SYNCHRONOUSLY through the real loader (no file watcher: its events are asynchronous and may still
			// belong to an earlier rewrite), on a copy of the file.
			prev := set
			content := "# nobody\n"
			if i%8 == 1 {
				content = ""
			}
			f2 := file + ".sync"
			writeEmailsFile(nil, f2, prev, "sentinel-sync@probe.test")
			um := NewUserMap("", nil, func() {})
			um.usersFile = f2
			um.LoadAuthenticatedEmailsFile()
			loaded := um.IsValid("sentinel-sync@probe.test")
			os.WriteFile(f2, []byte(content), 0o600)
			um.LoadAuthenticatedEmailsFile()
			if !loaded {
				c.violation("HARNESS", "synchronous load of the authenticated-emails file did not take effect", map[string]interface{}{"file": f2})
			}
			for _, e := range append(append([]string{}, prev...), "sentinel-sync@probe.test") {
				got := um.IsValid(e)
				c.emit(bs(got), "va", "-", "-", hx(e))
				c.count("va:emptied-file")
				if got {
					c.violation("C08", "an e-mail removed from the authenticated-emails file (file emptied) is still accepted after the reload", map[string]interface{}{"email": e, "file_content": content})
				}
			}
		}
		close(w.done)
	}
	// a LARGE authenticated-emails file is replaced while requests for the address it removes keep arriving: once the new list
	// is in force (the address it adds is accepted) the removed one is refused — nothing decided during the reload outlives it
	for round := 0; round < 2; round++ {
		file := filepath.Join(dir, fmt.Sprintf("emails-large-%d", round))
		var sb strings.Builder
		for k := 0; k < 150000; k++ {
			fmt.Fprintf(&sb, "user%06d@bulk.test\n", k)
		}
		bulk := sb.String()
		writeAtomic(file, bulk+"leaver@probe.test\n")
		w := newWatchedValidator([]string{"example.org"}, file)
		if !w.validate("leaver@probe.test") {
			c.violation("HARNESS", "large authenticated-emails file not loaded", nil)
			close(w.done)
			continue
		}
		var stop int32
		var wg sync.WaitGroup
		for g := 0; g < 4; g++ {
			wg.Add(1)
			go func() {
				defer wg.Done()
				for atomic.LoadInt32(&stop) == 0 {
					w.validate("leaver@probe.test")
					w.validate("Leaver@Probe.test")
				}
			}()
		}
		time.Sleep(30 * time.Millisecond)
		writeAtomic(file, bulk+"joiner@probe.test\n")
		ok := w.waitFor("joiner@probe.test", "leaver@probe.test")
		atomic.StoreInt32(&stop, 1)
		wg.Wait()
		c.casen(fmt.Sprintf("va|reload-under-traffic|%d", round), fmt.Sprint(ok))
		c.count("va:reload-under-traffic")
		if !ok {
			c.violation("C08", "a large authenticated-emails file was replaced (atomic rename) while validations of the address it removes kept arriving: 20 s later the added address is accepted="+fmt.Sprint(w.validate("joiner@probe.test"))+" and the REMOVED address is still accepted="+fmt.Sprint(w.validate("leaver@probe.test")),
				map[string]interface{}{"file_lines": 150001, "concurrent_validations_of_the_removed_address": 4})
		}
		close(w.done)
	}
}

// azUnexpectedAllow: the implementation allowed what the oracle refuses. Either one of the
// documented quirks (reported as a known finding) or a violation.
func azUnexpectedAllow(c *suiteCtx, where, email string, domains, fileSet, allowedGroups, groups []string) {
	if !strings.Contains(email, "@") && email != "" {
		c.known("C08", "C08-email-without-at", fmt.Sprintf("%s: address %q without '@' accepted by leading-dot/wildcard domain rule %q", where, email, domains))
		c.count("known:email-without-at")
		return
	}
	c.violation("C08", fmt.Sprintf("%s: identity (%q, groups %q) accepted although it fails the rules", where, email, groups),
		map[string]interface{}{"email": email, "groups": groups, "email_domains": domains, "emails_file": fileSet, "allowed_groups": allowedGroups})
}

// ---------------------------------------------------------------------------------------
// end-to-end histories

type azRules struct {
	domains []string
	file    []string // entries; nil = no file
	groups  []string
}

// cfg builds the proxy configuration. The e-mail validator is NOT configured through the options:
// the caller installs newValidatorImpl(domains, file, done, onUpdate) itself (the function
// NewValidator wraps), so that reloads are observable and the file watcher can be shut down
// (inotify instances are a scarce per-user resource shared by all concurrently running suites).
func (ru azRules) cfg(dir string, tag string, htpasswd bool) (proxyCfg, []string, string) {
	pc := proxyCfg{EmailDomains: []string{"placeholder.invalid"}, AllowedGroups: ru.groups, SkipProviderButton: true, SkipAuthRoutes: []string{"^/open"}}
	if htpasswd {
		pc.Htpasswd = map[string]string{"bob": "pw"}
		pc.HtpasswdGroups = []string{"hg1", "hg2"}
	}
	var set []string
	file := ""
	if ru.file != nil {
		file = filepath.Join(dir, "emails-"+tag)
		set = writeEmailsFile(nil, file, ru.file, "sentinel-0@probe.test")
	}
	return pc, set, file
}

var azE2EEmails = []string{"alice@example.com", "alice@sub.example.com", "alice@evilexample.com", "a@b@example.com",
	"a@example.com@evil.org", "Alice@Example.COM", "alice@example.com.evil.org", "noat.example.com", "alice@.example.com",
	"o'hara+tag@example.com", "bob@corp.io", "u@[example.com]", "u@example.com:", "alice@xexample.com", "a@sub.example.com@evil.org", "a@x.corp.io@evil.org"}
var azE2EDomains = []string{"example.com", ".example.com", "*.example.com", "Example.COM", "evil.org", "sub.example.com", "com", "corp.io"}
var azE2EGroups = []string{"dev", "ops", "admins", "g1", "a,b"}

func genRules(r *rng, email string, groups []string, wantAllow bool) azRules {
	ru := azRules{}
	switch r.intn(4) {
	case 0:
		ru.domains = []string{"*"}
	case 1:
		ru.domains = azList(r, azE2EDomains, 3, false)
	case 2:
		ru.file = azList(r, azE2EEmails, 3, false)
	default:
		ru.domains = azList(r, azE2EDomains, 2, false)
		ru.file = azList(r, azE2EEmails, 2, false)
	}
	if wantAllow {
		if h, ok := azHost(strings.ToLower(email)); ok && r.bool() && ru.file == nil {
			switch r.intn(3) {
			case 0:
				ru.domains = append(ru.domains, h)
			case 1:
				if j := strings.IndexByte(h, '.'); j > 0 {
					ru.domains = append(ru.domains, h[j:])
				} else {
					ru.domains = append(ru.domains, h)
				}
			default:
				if j := strings.IndexByte(h, '.'); j > 0 {
					ru.domains = append(ru.domains, "*"+h[j:])
				} else {
					ru.domains = append(ru.domains, h)
				}
			}
		} else if ru.file != nil {
			ru.file = append(ru.file, email)
		} else {
			ru.domains = append(ru.domains, "*")
		}
	}
	if len(ru.domains) == 0 && ru.file == nil {
		ru.domains = []string{"example.com"}
	}
	if r.intn(2) == 0 {
		ru.groups = azList(r, azE2EGroups, 2, false)
		if wantAllow && len(ru.groups) > 0 && len(groups) > 0 {
			ru.groups = append(ru.groups, groups[r.intn(len(groups))])
		}
	}
	return ru
}

func sessionCleared(e *testEnv, r *respView) bool {
	name := e.opts.Cookie.Name
	for _, ck := range r.Cookies {
		if ck.Name == name || strings.HasPrefix(ck.Name, name+"_") {
			if ck.MaxAge < 0 || (!ck.Expires.IsZero() && ck.Expires.Before(time.Now())) {
				return true
			}
		}
	}
	return false
}

func sessionSet(e *testEnv, r *respView) bool {
	name := e.opts.Cookie.Name
	for _, ck := range r.Cookies {
		if (ck.Name == name || strings.HasPrefix(ck.Name, name+"_")) && ck.Value != "" && ck.MaxAge >= 0 {
			return true
		}
	}
	return false
}

// azRequest sends one proxied request and ties it to the model and to the oracle
func azRequest(c *suiteCtx, e *testEnv, where string, ru azRules, set []string, target, cookie, auth string, email string, groups []string, present bool) string {
	hdr := http.Header{}
	if auth != "" {
		hdr.Set("Authorization", auth)
	}
	r := e.do(reqSpec{Target: target, Cookie: cookie, Header: hdr})
	bypass := strings.HasPrefix(target, "/open")
	// a session that did not come from a cookie (htpasswd) leaves nothing to clear
	hadCookie := strings.Contains(cookie, e.opts.Cookie.Name+"=") || strings.Contains(cookie, e.opts.Cookie.Name+"_")
	cleared := func() bool { return !hadCookie || sessionCleared(e, r) }
	out := fmt.Sprintf("other:%d", r.Status)
	switch {
	case r.Status == 200 && len(r.Hits) == 1:
		out = "ok"
	case r.Status == 403 && len(r.Hits) == 0 && cleared():
		out = "denied"
	case r.Status == 403 && len(r.Hits) == 0:
		out = "denied-noclear"
	case r.Status == 302 && len(r.Hits) == 0:
		out = "login"
	}
	c.emit(out, "gate", hxl(ru.domains), hxl(set), hxl(ru.groups), bs(bypass), encAzSess(email, groups, present))
	c.count("gate:" + out)
	if bypass {
		c.count("gate:bypass")
		return out
	}
	// --- monitor
	emailOK, sane := azEmailAllowed(email, ru.domains, set)
	allowed := present && (email == "" || emailOK) && azGroupsAllowed(ru.groups, groups)
	c.casen("c08:"+where+":"+out+":"+email+":"+strings.Join(ru.domains, ",")+":"+strings.Join(ru.groups, ","), "")
	if len(r.Hits) > 0 {
		if !present {
			c.violation("C08", where+": request without a session was forwarded upstream", map[string]interface{}{"target": target})
		} else if sane && !allowed {
			if azGroupsAllowed(ru.groups, groups) {
				azUnexpectedAllow(c, where, email, ru.domains, set, ru.groups, groups)
			} else {
				c.violation("C08", fmt.Sprintf("%s: session (%q, groups %q) served although it fails the rules", where, email, groups),
					map[string]interface{}{"email": email, "groups": groups, "email_domains": ru.domains, "emails_file": set, "allowed_groups": ru.groups, "target": target})
			}
		} else {
			c.count("monitor:served-allowed")
		}
	} else if present && sane && !allowed {
		if (r.Status == 401 || r.Status == 403) && cleared() {
			c.count("monitor:refused-cleared")
		} else {
			c.violation("C08", fmt.Sprintf("%s: session failing the rules refused with status %d, session cookie cleared: %v", where, r.Status, sessionCleared(e, r)),
				map[string]interface{}{"email": email, "groups": groups, "email_domains": ru.domains, "emails_file": set, "allowed_groups": ru.groups, "set_cookie": r.Header.Values("Set-Cookie")})
		}
	}
	return out
}

func azAuthOnly(c *suiteCtx, e *testEnv, where string, ru azRules, set []string, q [][2]string, cookie string, email string, groups []string, present bool) {
	r := e.do(reqSpec{Target: "/oauth2/auth?" + rawQuery(q), Cookie: cookie})
	out := is(r.Status)
	c.emit(out, "authonly_e2e", hxl(ru.domains), hxl(set), hxl(ru.groups), "0", encAzSess(email, groups, present), encQuery(q))
	c.count("authonly:" + out)
	emailOK, sane := azEmailAllowed(email, ru.domains, set)
	globalOK := present && (email == "" || emailOK) && azGroupsAllowed(ru.groups, groups)
	c.casen("c08:authonly:"+out+":"+email+":"+rawQuery(q), "")
	gatePassed := r.Status == 202 || r.Status == 403 // 401 = refused by getAuthenticatedSession, 403 = query constraints
	switch {
	case r.Status != 202 && r.Status != 401 && r.Status != 403:
		c.violation("C08", fmt.Sprintf("auth-only answered %d", r.Status), map[string]interface{}{"query": q})
	case gatePassed && !present:
		c.violation("C08", fmt.Sprintf("auth-only answered %d without a session", r.Status), map[string]interface{}{"query": q})
	case gatePassed && sane && !globalOK:
		if azGroupsAllowed(ru.groups, groups) {
			azUnexpectedAllow(c, where+"/auth-only", email, ru.domains, set, ru.groups, groups)
		} else {
			c.violation("C08", "auth-only let a session pass that fails the allowed-groups rule", map[string]interface{}{"email": email, "groups": groups, "rules": fmt.Sprintf("%+v", ru)})
		}
	case r.Status == 202 && !azAuthOnlyAllowed(q, email, groups):
		host, _ := azHost(email)
		if len(azEntities(q, "allowed_email_domains")) > 0 && strings.ContainsAny(host, "[]:") {
			c.known("C08", "C08-authonly-domain-host-forms", fmt.Sprintf("auth-only: e-mail %q passes allowed_email_domains=%q because its domain part is parsed as a URL host (brackets / port stripped)", email, azEntities(q, "allowed_email_domains")))
			c.count("known:authonly-host-forms")
		} else {
			c.violation("C08", fmt.Sprintf("auth-only answered 202 although the query constraints are not satisfied by (%q, %q)", email, groups),
				map[string]interface{}{"query": q, "email": email, "groups": groups})
		}
	case r.Status == 202:
		c.count("monitor:served-allowed")
	case r.Status == 401 && present && sane && !globalOK:
		if sessionCleared(e, r) {
			c.count("monitor:refused-cleared")
		} else {
			c.violation("C08", "auth-only refused a session failing the global rules without clearing its cookie", map[string]interface{}{"email": email, "rules": fmt.Sprintf("%+v", ru), "set_cookie": r.Header.Values("Set-Cookie")})
		}
	}
}

func azE2E(c *suiteCtx) {
	r := c.rng.fork()
	dir, _ := os.MkdirTemp("", "verif-authz-e2e")
	defer os.RemoveAll(dir)
	n := 150 * c.scale
	for i := 0; i < n; i++ {
		email := r.pick(azE2EEmails)
		groups := azList(r, azE2EGroups, 3, false)
		gi := make([]interface{}, len(groups))
		for j, g := range groups {
			gi[j] = g
		}
		user := idpUser{Sub: "sub-" + is(i), Email: email, EmailVerified: true, Groups: gi}
		ru0 := genRules(r, email, groups, i%4 != 3)
		htpasswd := i < 10 // each htpasswd proxy leaks one inotify instance (its watcher has no shutdown)
		pc, set0, file := ru0.cfg(dir, is(i)+"-0", htpasswd)
		e, err := newEnv(c, pc)
		if err != nil {
			c.count("e2e:cfg-rejected")
			fmt.Println("cfg rejected:", err, fmt.Sprintf("%+v", ru0))
			continue
		}
		// same validator the proxy would build (NewValidator = newValidatorImpl), with an observable reload
		w := newWatchedValidator(ru0.domains, file)
		e.proxy.Validator = w.validate
		// ---- login under R0
		b := newBrowser()
		lr := e.login(b, user, "/")
		lout := "other"
		switch {
		case lr.OK:
			lout = "session"
		case lr.CallbackResp != nil && lr.CallbackResp.Status == 403:
			lout = "forbidden"
		case lr.CallbackResp != nil:
			lout = fmt.Sprintf("other:%d", lr.CallbackResp.Status)
		}
		c.emit(lout, "login", hxl(ru0.domains), hxl(set0), hxl(ru0.groups), hx(email), hxl(groups))
		c.count("login:" + lout)
		emailOK, sane := azEmailAllowed(email, ru0.domains, set0)
		allowed0 := emailOK && azGroupsAllowed(ru0.groups, groups)
		if lr.OK && sane && !allowed0 {
			if azGroupsAllowed(ru0.groups, groups) {
				azUnexpectedAllow(c, "login", email, ru0.domains, set0, ru0.groups, groups)
			} else {
				c.violation("C08", "login created a session for an identity failing the rules", map[string]interface{}{"email": email, "groups": groups, "rules": fmt.Sprintf("%+v", ru0)})
			}
		}
		if !lr.OK && lr.CallbackResp != nil {
			if sessionSet(e, lr.CallbackResp) || b.jar[e.opts.Cookie.Name] != "" {
				c.violation("C08", "a refused login still set a session cookie", map[string]interface{}{"email": email, "rules": fmt.Sprintf("%+v", ru0), "set_cookie": lr.CallbackResp.Header.Values("Set-Cookie")})
			}
			// no session: a request is sent to login, never forwarded
			azRequest(c, e, "after-refused-login", ru0, set0, "/app", b.cookieHeader(), "", "", nil, false)
			azAuthOnly(c, e, "after-refused-login", ru0, set0, nil, b.cookieHeader(), "", nil, false)
		}
		// ---- an identity WITHOUT an e-mail that the provider itself does not refuse (providers built on the ProviderData
		// defaults): no e-mail rule can admit it, so it must get no session and never be served with identity
		if i%6 == 2 && !azHasStar(ru0.domains) {
			e.instrument()
			nb := newBrowser()
			_, loc := e.startLogin(nb, "/")
			if cb, _, err := e.idp.authorize(loc, idpUser{Sub: "no-email-" + is(i), Groups: gi}); err == nil {
				if cu, perr := url.Parse(cb); perr == nil {
					e.proxy.provider.(*recProvider).forceEnrichOK = true
					cr := e.do(reqSpec{Target: cu.RequestURI(), Cookie: nb.cookieHeader()})
					e.proxy.provider.(*recProvider).forceEnrichOK = false
					if cr.raw != nil {
						nb.apply(cr.raw)
					}
					c.count("login:no-email-identity")
					r2 := e.do(reqSpec{Target: "/app/after", Cookie: nb.cookieHeader()})
					asUser := len(r2.Hits) > 0 && r2.Hits[0].Header.Get("X-Forwarded-User") != ""
					c.casen("c08:noemail:"+is(i), fmt.Sprint(cr.Status))
					if sessionSet(e, cr) || asUser {
						c.violation("C08", "an identity without an e-mail address obtained a session although e-mail rules are configured that cannot admit it",
							map[string]interface{}{"callback_status": cr.Status, "served_as_user": asUser, "rules": fmt.Sprintf("%+v", ru0)})
					}
				}
			}
		}
		// ---- htpasswd users carry no e-mail: exempt from the e-mail rules, subject to the group rule
		if htpasswd {
			hg := []string{"hg1", "hg2"}
			if i%2 == 1 {
				ru0h := ru0
				ru0h.groups = []string{"admins"} // forces the group rule to bite for the htpasswd user
				e.close()
				pch, _, _ := ru0h.cfg(dir, is(i)+"-h", true)
				if eh, err := newEnv(c, pch); err == nil {
					eh.proxy.Validator = w.validate
					if azRequest(c, eh, "htpasswd", ru0h, set0, "/app", "", "Basic "+base64.StdEncoding.EncodeToString([]byte("bob:pw")), "", hg, true) == "denied" {
						c.count("htpasswd:groups-denied")
					}
					eh.close()
				}
				close(w.done)
				continue
			}
			hout := azRequest(c, e, "htpasswd", ru0, set0, "/app", "", "Basic "+base64.StdEncoding.EncodeToString([]byte("bob:pw")), "", hg, true)
			if hout == "ok" {
				c.count("htpasswd:exempt-served")
			} else if hout == "denied" {
				c.count("htpasswd:groups-denied")
			}
		}
		if lr.OK {
			cookie := b.cookieHeader()
			azRequest(c, e, "same-rules", ru0, set0, "/app", cookie, "", email, groups, true)
			azRequest(c, e, "bypass", ru0, set0, "/open/x", cookie, "", email, groups, true)
			for k := 0; k < 4; k++ {
				azAuthOnly(c, e, "same-rules", ru0, set0, genAzQuery(r, email, groups, true), cookie, email, groups, true)
			}
			// ---- history 1: the authenticated-emails file changes under the running proxy
			if file != "" {
				var entries []string
				for _, f := range ru0.file {
					if !strings.EqualFold(strings.TrimSpace(f), email) || r.intn(4) == 0 {
						entries = append(entries, f)
					}
				}
				set1 := writeEmailsFile(nil, file, entries, "sentinel-1@probe.test")
				if !w.waitFor("sentinel-1@probe.test", "sentinel-0@probe.test") {
					c.violation("HARNESS", "reload of the authenticated-emails file not observed", nil)
					c.violation("C08", "20 s after the authenticated-emails file was replaced (atomic rename) the proxy still authorises from the old contents",
						map[string]interface{}{"removed_address_still_valid": w.validate("sentinel-0@probe.test"), "added_address_valid": w.validate("sentinel-1@probe.test")})
				} else {
					ru1 := ru0
					ru1.file = entries
					out := azRequest(c, e, "file-rewritten", ru1, set1, "/app", cookie, "", email, groups, true)
					if out == "denied" {
						c.count("history:file-rewrite-denied")
						// the cookie was cleared: a browser honouring it is sent to login next
						azAuthOnly(c, e, "file-rewritten", ru1, set1, nil, cookie, email, groups, true)
					}
				}
			}
			// ---- history 2: a proxy with the same cookie secret but other rules sees the same cookie
			for k := 0; k < 2; k++ {
				ru2 := genRules(r, email, groups, k == 0 && r.bool())
				pc2, set2, file2 := ru2.cfg(dir, is(i)+"-2-"+is(k), false)
				e2, err := newEnv(c, pc2)
				if err != nil {
					continue
				}
				w2 := newWatchedValidator(ru2.domains, file2)
				e2.proxy.Validator = w2.validate
				out := azRequest(c, e2, "second-proxy", ru2, set2, "/app", cookie, "", email, groups, true)
				switch out {
				case "denied":
					c.count("history:second-proxy-denied")
				case "ok":
					c.count("history:second-proxy-ok")
				}
				azAuthOnly(c, e2, "second-proxy", ru2, set2, genAzQuery(r, email, groups, true), cookie, email, groups, true)
				close(w2.done)
				e2.close()
			}
		}
		close(w.done)
		e.close()
	}
}

func azHasStar(ds []string) bool {
	for _, d := range ds {
		if d == "*" {
			return true
		}
	}
	return false
}

// azDeployments: the rules in deployments the other parts do not build.
//   - behind another proxy (nginx auth_request / forwardAuth): the auth-only constraints are the ones on the URL the FRONT PROXY
//     asks (`/oauth2/auth?allowed_groups=…`), whatever query the user's original URI (X-Forwarded-Uri) carries or lacks;
//   - a session failing the global rules is refused AND its cookie cleared also while the session store refuses deletes
//     (a read-only Redis replica during fail-over): the deletion of the cookie does not depend on the store's answer.
func azDeployments(c *suiteCtx) {
	u := defaultUser() // groups dev, ops; alice@example.com
	if e, err := newEnv(c, proxyCfg{ReverseProxy: true, InjectRequest: defaultInject()}); err == nil {
		ck := e.issueSessionCookie(e.sessionFor(u, time.Minute))
		for _, k := range []struct {
			target, fwd string
			want        int
		}{
			{"/oauth2/auth?allowed_groups=nobody", "/app/page", 403},
			{"/oauth2/auth?allowed_groups=nobody", "/app/page?allowed_groups=dev", 403},
			{"/oauth2/auth?allowed_groups=dev", "/app/page?allowed_groups=nobody", 202},
			{"/oauth2/auth?allowed_emails=someone.else@example.com", "/app", 403},
			{"/oauth2/auth?allowed_emails=someone.else@example.com", "/app?allowed_emails=alice@example.com", 403},
			{"/oauth2/auth?allowed_email_domains=elsewhere.org", "/x?allowed_email_domains=example.com", 403},
			{"/oauth2/auth?allowed_email_domains=example.com", "/x?allowed_email_domains=elsewhere.org", 202},
			{"/oauth2/auth", "/app?allowed_groups=nobody&allowed_emails=x@y.z", 202},
			{"/oauth2/auth?allowed_groups=dev&allowed_emails=alice@example.com", "", 202},
		} {
			h := http.Header{}
			if k.fwd != "" {
				h.Set("X-Forwarded-Uri", k.fwd)
				h.Set("X-Forwarded-Host", "app.example.com")
				h.Set("X-Forwarded-Proto", "https")
			}
			v := e.do(reqSpec{Target: k.target, Header: h, Cookie: ck})
			c.casen("az|behind-proxy|"+k.target+"|"+k.fwd, fmt.Sprint(v.Status))
			c.count("az:behind-proxy")
			if v.Status != k.want {
				c.violation("C08", fmt.Sprintf("auth-only endpoint behind another proxy: the constraints on the auth URL were not the ones applied (status %d, want %d)", v.Status, k.want),
					map[string]interface{}{"auth_url": k.target, "x_forwarded_uri": k.fwd, "session_groups": []string{"dev", "ops"}, "session_email": u.Email, "status": v.Status})
			}
		}
		e.close()
	} else {
		c.violation("HARNESS", "env: "+err.Error(), nil)
	}
	// bearer tokens (--skip-jwt-bearer-tokens) under an e-mail restriction: a token that LACKS the configured e-mail claim, or whose
	// other claims merely spell an allowed address, is judged like any identity — an identity without an allowed e-mail is refused
	// (only htpasswd sessions are exempt from the e-mail rules)
	{
		x := newFakeIDP("unused")
		if k, kerr := rsa.GenerateKey(rand.Reader, 2048); kerr == nil {
			x.ownKey = k
		}
		for _, variant := range []string{"custom-claim-missing", "extra-issuer-username-lookalike", "main-issuer-username-lookalike"} {
			cfg := proxyCfg{SkipJwtBearer: true, EmailDomains: []string{"example.com"}, InjectRequest: defaultInject(), ExtraJwtIssuers: []string{x.url() + "=extra-aud"}}
			if variant == "custom-claim-missing" {
				cfg.EmailClaim = "upn"
			}
			e, err := newEnv(c, cfg)
			if err != nil {
				c.violation("HARNESS", "env (bearer under e-mail rules): "+err.Error(), nil)
				continue
			}
			issuer := e.idp
			over := map[string]interface{}{"email": nil, "email_verified": nil, "preferred_username": "ceo@example.com"}
			if variant == "extra-issuer-username-lookalike" {
				issuer = x
				over["aud"] = "extra-aud"
			}
			if variant == "custom-claim-missing" {
				over = map[string]interface{}{"upn": nil} // (the standard `email` stays in the token: it is not the configured claim)
			}
			who := idpUser{Sub: "contractor-4711", Email: "someone@elsewhere.org", EmailVerified: true, PreferredUser: "ceo@example.com", Groups: []interface{}{"dev"}}
			issuer.mu.Lock()
			issuer.claimOverride = over
			issuer.mu.Unlock()
			tok := issuer.idToken(who, "")
			issuer.mu.Lock()
			issuer.claimOverride = nil
			issuer.mu.Unlock()
			for _, target := range []string{"/app/x", "/oauth2/auth", "/oauth2/auth?allowed_emails=ceo@example.com", "/oauth2/userinfo"} {
				v := e.do(reqSpec{Target: target, Header: http.Header{"Authorization": {"Bearer " + tok}}})
				c.casen("az|bearer-under-email-rules|"+variant+"|"+target, fmt.Sprint(v.Status))
				c.count("az:bearer-under-email-rules")
				if len(v.Hits) > 0 || v.Status == 200 || v.Status == 202 {
					c.violation("C08", "a bearer token whose identity has no allowed e-mail was served under an e-mail-domain restriction ("+variant+"): "+
						map[string]string{"custom-claim-missing": "it lacks the configured e-mail claim, its session carries no e-mail and was exempted like an htpasswd session",
							"extra-issuer-username-lookalike": "it has no e-mail; its self-chosen preferred_username spells an allowed address and was judged in its place",
							"main-issuer-username-lookalike":  "it has no e-mail; its self-chosen preferred_username spells an allowed address and was judged in its place"}[variant],
						map[string]interface{}{"variant": variant, "target": target, "status": v.Status, "email_domains": []string{"example.com"}, "token_sub": who.Sub, "token_preferred_username": who.PreferredUser})
				}
			}
			e.close()
		}
		x.close()
	}
	// several instances (server-side store): while this request waited for the refresh lock ANOTHER instance refreshed the session,
	// and the refresh changed who the user is (groups, address).  The request goes on with the session it re-read — all of it:
	// the rules are judged on the re-read groups / address, never on the copy read before the wait
	if e, err := newEnv(c, proxyCfg{Redis: true, CookieRefresh: time.Second, AllowedGroups: []string{"dev"}, InjectRequest: defaultInject()}); err == nil {
		rec := e.instrument()
		for i, target := range []string{"/app/x", "/oauth2/auth", "/oauth2/userinfo", "/app/y"} {
			old := e.sessionFor(u, 2*time.Hour) // (groups dev, ops: allowed) — due for refresh
			old.RefreshToken = fmt.Sprintf("rt-az-w-%d-%d", i, time.Now().UnixNano())
			e.registerRT(old.RefreshToken, u)
			ck := e.issueSessionCookie(old)
			other := e.sessionFor(u, 0) // what the other instance's refresh stored under the same ticket
			other.AccessToken, other.RefreshToken = "at-by-other-instance", "rt-by-other-instance"
			allowedAfter := i == 3
			if allowedAfter {
				other.Groups = []string{"dev", "night-shift"}
				other.Email = "alice.renamed@example.com"
			} else {
				other.Groups = []string{"contractors"}
			}
			rec.reset(&faultPlan{hooks: map[string]func(){"load#2": func() {
				e.proxy.sessionStore.(*recStore).inner.Save(&respRecorder{h: http.Header{}}, mustReq(e, ck), other)
			}}})
			v := e.do(reqSpec{Target: target, Cookie: ck})
			reread := len(rec.byOp("load")) >= 2
			rec.reset(nil)
			c.casen(fmt.Sprintf("az|refreshed-by-another-instance|%s|%v", target, allowedAfter), fmt.Sprint(v.Status))
			if !reread {
				c.count("az:refreshed-elsewhere-not-reached")
				continue
			}
			c.count("az:refreshed-elsewhere")
			in := map[string]interface{}{"target": target, "status": v.Status, "allowed_groups": []string{"dev"}, "groups_read_before_the_wait": old.Groups, "groups_re_read_under_the_lock": other.Groups}
			servedNow := len(v.Hits) > 0 || v.Status == 200 || v.Status == 202
			if !allowedAfter && servedNow {
				c.violation("C08", "another instance refreshed the session while this request waited for the refresh lock, and the refreshed session no longer satisfies allowed-groups: the request was served on the groups it had read BEFORE the wait", in)
			}
			if allowedAfter {
				if !servedNow {
					c.violation("C08", "another instance refreshed the session while this request waited for the refresh lock; the re-read session satisfies the rules but the request was refused", in)
				}
				for _, h := range v.Hits {
					if got := h.Header.Get("X-Forwarded-Email"); got != other.Email {
						c.violation("C08", "the request went on with a MIX of two sessions: tokens of the re-read session, identity of the copy read before the wait", map[string]interface{}{"x_forwarded_email": got, "re_read_email": other.Email, "x_forwarded_access_token": h.Header.Get("X-Forwarded-Access-Token")})
					}
				}
			}
			e.mr.FlushAll()
		}
		e.close()
	} else {
		c.violation("HARNESS", "env: "+err.Error(), nil)
	}
	// cookie store: ONE request in which the refresh both makes the session fail the rules and makes it outgrow a single cookie
	// (the provider now reports many groups, none of them allowed).  The refusal must leave the browser without a usable session
	if e, err := newEnv(c, proxyCfg{CookieRefresh: time.Second, AllowedGroups: []string{"dev"}, InjectRequest: defaultInject()}); err == nil {
		for _, target := range []string{"/app/x", "/oauth2/auth"} {
			old := e.sessionFor(u, 2*time.Hour)
			old.RefreshToken = fmt.Sprintf("rt-az-g-%d", time.Now().UnixNano())
			big := u
			var gs []interface{}
			for k := 0; k < 260; k++ {
				gs = append(gs, fmt.Sprintf("cn=project-%04d-contractors,ou=groups,dc=example,dc=com", k*7919%10007))
			}
			big.Groups = gs
			e.registerRT(old.RefreshToken, big)
			b := newBrowser()
			b.jarFromHeader(e.issueSessionCookie(old))
			single := len(b.jar) == 1
			v := e.do(reqSpec{Target: target, Cookie: b.cookieHeader()})
			if v.raw != nil {
				b.apply(v.raw)
			}
			r2 := e.do(reqSpec{Target: "/app/again", Cookie: b.cookieHeader()})
			if os.Getenv("VERIF_DEBUG") != "" {
				fmt.Fprintln(os.Stderr, "DEBUG grows", target, v.Status, r2.Status, single, setCookieNames(v), len(b.jar))
			}
			c.casen("az|refresh-grows-and-fails|"+target, fmt.Sprintf("%d/%d", v.Status, r2.Status))
			c.count("az:refresh-grows-and-fails")
			in := map[string]interface{}{"target": target, "status": v.Status, "session_was_one_cookie": single, "groups_after_refresh": 260, "set_cookie_names": setCookieNames(v), "replay_status": r2.Status}
			if len(v.Hits) > 0 || v.Status == 200 || v.Status == 202 {
				c.violation("C08", "a session whose refresh (in this very request) left it outside allowed-groups was served", in)
			} else if hasAnySessionCookie(b, e.opts.Cookie.Name) {
				in["cookies_left_in_the_browser"] = jarNamesOf(b)
				c.violation("C08", "a request whose refresh left the session outside allowed-groups was refused, but its cookie is NOT cleared: after the response the browser still holds session cookies (the parts the refresh wrote under names the browser had not presented were neither taken back nor deleted)", in)
			} else if len(r2.Hits) > 0 {
				c.violation("C08", "a request whose refresh left the session outside allowed-groups was refused, but the response leaves the browser with a complete, valid session (the refreshed session's cookie parts were set and not taken back): the next request is served", in)
			}
		}
		e.close()
	} else {
		c.violation("HARNESS", "env: "+err.Error(), nil)
	}
	if e, err := newEnv(c, proxyCfg{Redis: true, AllowedGroups: []string{"admins"}, InjectRequest: defaultInject()}); err == nil {
		for _, target := range []string{"/app/x", "/oauth2/auth", "/oauth2/userinfo"} {
			ck := e.issueSessionCookie(e.sessionFor(u, time.Minute)) // a valid session whose groups no longer satisfy the rule
			e.setRedisFault(map[string]string{"DEL": "always"})
			v := e.do(reqSpec{Target: target, Cookie: ck})
			e.setRedisFault(nil)
			cleared := false
			for _, sc := range v.Cookies {
				if isSessionCookieNameH(e.opts.Cookie.Name, sc.Name) && (sc.MaxAge < 0 || sc.Value == "") {
					cleared = true
				}
			}
			c.casen("az|refused-del-fails|"+target, fmt.Sprint(v.Status))
			c.count("az:refused-while-deletes-fail")
			if len(v.Hits) > 0 || v.Status == 200 || v.Status == 202 {
				c.violation("C08", "a session failing the allowed-groups rule was served while the session store refused deletes", map[string]interface{}{"target": target, "status": v.Status})
			} else if !cleared {
				c.violation("C08", "a session failing the global rules was refused but its cookie was not cleared (the session store refused the delete at that moment: the cookie deletion must not depend on it)",
					map[string]interface{}{"target": target, "status": v.Status, "set_cookie": fmt.Sprint(v.Header["Set-Cookie"])})
			}
			e.mr.FlushAll()
		}
		e.close()
	} else {
		c.violation("HARNESS", "env: "+err.Error(), nil)
	}
}

func setCookieNames(v *respView) []string {
	var out []string
	for _, ck := range v.Cookies {
		out = append(out, fmt.Sprintf("%s(max-age %d, %d bytes)", ck.Name, ck.MaxAge, len(ck.Value)))
	}
	return out
}
