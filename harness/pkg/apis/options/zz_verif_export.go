//go:build verif

package options

// VerifConvert exposes (*LegacyHeaders).convert to the verification harness.
func (l *LegacyHeaders) VerifConvert() ([]Header, []Header) { return l.convert() }
