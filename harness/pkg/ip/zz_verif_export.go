//go:build verif

package ip

// Export shim for the verification harness (overlaid at build time; /repo is not modified).

import (
	"net"

	ipapi "github.com/oauth2-proxy/oauth2-proxy/v7/pkg/apis/ip"
)

// VerifNetMap is one ipNetMap: its mask and the keys of its ips map (unsorted).
type VerifNetMap struct {
	Mask net.IPMask
	Keys []string
}

func verifDump(ms []ipNetMap) []VerifNetMap {
	out := make([]VerifNetMap, 0, len(ms))
	for _, m := range ms {
		v := VerifNetMap{Mask: m.mask}
		for k := range m.ips {
			v.Keys = append(v.Keys, k)
		}
		out = append(out, v)
	}
	return out
}

// VerifDump exposes the two internal slices of a NetSet, in order.
func (w *NetSet) VerifDump() (ip4, ip6 []VerifNetMap) {
	return verifDump(w.ip4NetMaps), verifDump(w.ip6NetMaps)
}

// VerifParserHeader returns the header a parser built by GetRealClientIPParser reads.
func VerifParserHeader(p ipapi.RealClientIPParser) (string, bool) {
	switch x := p.(type) {
	case *xForwardedForClientIPParser:
		return x.header, true
	case xForwardedForClientIPParser:
		return x.header, true
	}
	return "", false
}
