//go:build verif

package middleware

import "regexp"

// Export shim for the verification harness (overlaid at build time; /repo is not edited).

var verifJwtLoader = &jwtSessionLoader{jwtRegex: regexp.MustCompile(jwtRegexFormat)}

// VerifFindToken runs the real findTokenFromHeader (incl. getBasicToken) on an Authorization value.
func VerifFindToken(header string) (string, error) { return verifJwtLoader.findTokenFromHeader(header) }

// VerifJwtRegexMatch is the verdict of the real JWT-shape regular expression.
func VerifJwtRegexMatch(s string) bool { return verifJwtLoader.jwtRegex.MatchString(s) }
