//go:build verif

package basic

// Export shim for the verification harness (overlaid at build time; /repo is not edited).

// VerifNewHTPasswd builds the real htpasswdMap from the file like NewHTPasswdValidator does,
// but without starting the fsnotify watcher, so that the harness controls when reloads run.
func VerifNewHTPasswd(path string) (Validator, error) {
	h := &htpasswdMap{users: make(map[string]interface{})}
	if err := h.loadHTPasswdFile(path); err != nil {
		return nil, err
	}
	return h, nil
}

// VerifReload runs the watcher callback's reload on the real validator.
func VerifReload(v Validator, path string) error {
	return v.(*htpasswdMap).loadHTPasswdFile(path)
}
