//go:build verif

package cookie

// Export shim for the verification harness (overlaid into the package at build time; /repo is
// never modified). Thin wrappers only — no logic of its own.

import (
	"net/http"
	"time"
)

const VerifMaxCookieLength = maxCookieLength

func VerifSplitCookie(c *http.Cookie) []*http.Cookie { return splitCookie(c) }

func VerifSplitCookieName(name string, count int) string { return splitCookieName(name, count) }

func VerifLoadCookie(req *http.Request, cookieName string) (*http.Cookie, error) {
	return loadCookie(req, cookieName)
}

func VerifJoinCookies(cookies []*http.Cookie, cookieName string) (*http.Cookie, error) {
	return joinCookies(cookies, cookieName)
}

func VerifIsSessionCookieName(name, candidate string) bool {
	return isSessionCookieName(name, candidate)
}

func VerifCopyCookie(c *http.Cookie) *http.Cookie { return copyCookie(c) }

func VerifMakeSessionCookie(s *SessionStore, req *http.Request, value []byte, now time.Time) ([]*http.Cookie, error) {
	return s.makeSessionCookie(req, value, now)
}

func VerifSetSessionCookie(s *SessionStore, rw http.ResponseWriter, req *http.Request, value []byte, now time.Time) error {
	return s.setSessionCookie(rw, req, value, now)
}

func VerifMakeCookie(s *SessionStore, req *http.Request, name, value string, expiration time.Duration) *http.Cookie {
	return s.makeCookie(req, name, value, expiration)
}
