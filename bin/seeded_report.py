#!/usr/bin/env python3
"""Write seeded/RESULTS.md from seeded/*/meta.json (confirmed seeded changes and which checks catch them)."""
import json, glob, os
V = os.path.dirname(os.path.dirname(os.path.abspath(__file__)))
rows = []
for f in sorted(glob.glob(os.path.join(V, 'seeded', '*', 'meta.json'))):
    m = json.load(open(f)); v = m.get('verification', {})
    name = os.path.basename(os.path.dirname(f))
    checks = v.get('checks', {})
    cell = '; '.join(f"{p}: {c['result']}" + (f" ({', '.join(k+':'+n for k,n in c.get('broken', [])[:3])})" if c.get('broken') else '') for p, c in checks.items())
    fr = m.get('first_run')
    firstcell = '; '.join(f"{p}: {c['result']}" for p, c in fr.items()) if fr else cell
    rows.append((name, m.get('property'), m.get('summary', '').replace('\n', ' ')[:160], m.get('needs', '').replace('\n', ' ')[:140], firstcell, (cell if fr else '')))
out = ['# Seeded property-breaking changes and what catches them', '',
       'Each change was produced by a fresh sub-agent that saw only the property text and a scratch worktree; it compiles, passes the',
       'existing suite, and its demonstration fails with / passes without the change (re-confirmed by `bin/mutrun`). `caught-concrete` =',
       '`VIOLATION` with a concrete failing input from an independent monitor; `caught-no-failing-input` = only a theorem / expectation /',
       'correspondence broke; `missed` = the check printed OK.', '',
       '| seeded change | prop | what it does | needs | first run of `VERIF_REPO=<tree> bin/check` | after strengthening (re-run) |', '|---|---|---|---|---|---|']
for r in rows: out.append('| ' + ' | '.join(x.replace('|', '\\|') for x in r) + ' |')
caught = sum(1 for r in rows if 'caught' in r[4].split(';')[0])
out += ['', f'{len(rows)} confirmed changes; caught by the property\'s own check on first run: {caught}.']
open(os.path.join(V, 'seeded', 'RESULTS.md'), 'w').write('\n'.join(out) + '\n')
print('\n'.join(out[-3:]))
