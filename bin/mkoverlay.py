#!/usr/bin/env python3
"""Write the go -overlay file mapping /verif/harness/<pkgdir>/*.go into /repo/<pkgdir>/."""
import json, os, sys
H = '/verif/harness'
out = sys.argv[1]
rep = {}
for d, _, files in os.walk(H):
    rel = os.path.relpath(d, H)
    for f in files:
        if not f.endswith('.go'): continue
        if rel == 'main': tgt = os.path.join('/repo', f)
        else: tgt = os.path.join('/repo', rel, f)
        rep[tgt] = os.path.join(d, f)
json.dump({'Replace': rep}, open(out, 'w'), indent=1)
