#!/usr/bin/env python3
"""Write the go -overlay file mapping /verif/harness/<pkgdir>/*.go into /repo/<pkgdir>/."""
import json, os, sys
H = os.path.join(os.path.dirname(os.path.dirname(os.path.abspath(__file__))), 'harness')
out = sys.argv[1]
REPO = sys.argv[2] if len(sys.argv) > 2 else '/repo'
rep = {}
for d, _, files in os.walk(H):
    rel = os.path.relpath(d, H)
    for f in files:
        if not f.endswith('.go'): continue
        if rel == 'main': tgt = os.path.join(REPO, f)
        else: tgt = os.path.join(REPO, rel, f)
        rep[tgt] = os.path.join(d, f)
json.dump({'Replace': rep}, open(out, 'w'), indent=1)
