#!/usr/bin/env python3
"""(Re)write lean/O2P/Expect/<Cxx>.lean from the CURRENT facts: used by the author after
reviewing a facts change, never by a check. Each expectation pins one extracted fact to the
reviewed value the hand-written model encodes; `rfl` fails as soon as the source changes it."""
import re, sys, os, json
VERIF = os.path.dirname(os.path.dirname(os.path.abspath(__file__)))
facts = open(os.path.join(VERIF, 'lean/O2P/Gen/Facts.lean')).read()
defs = {}
for m in re.finditer(r'^def (\S+) : ([^:=]+?) := (.*?)(?=^def |^/--|^end )', facts, re.M | re.S):
    defs[m.group(1)] = (m.group(2).strip(), m.group(3).strip())
MAP = json.load(open(os.path.join(VERIF, 'expect_map.json')))
os.makedirs(os.path.join(VERIF, 'lean/O2P/Expect'), exist_ok=True)
only = sys.argv[1:]
for prop, names in MAP.items():
    if only and prop not in only: continue
    out = ['import O2P.Gen.Facts', f'/-! Reviewed expectations about the source facts that the model parts used for {prop} encode.',
           '    Written by bin/mkexpect.py from reviewed facts; a change of /repo that alters one of these facts breaks the `rfl`. -/',
           'namespace O2P.Expect.' + prop, 'open O2P.Facts', '']
    expanded = []
    for n in names:
        if n.endswith('*'):   # a family of facts (one per source file), e.g. providerReach_*
            fam = sorted(k for k in defs if k.startswith(n[:-1]))
            if not fam:
                print('missing fact family', n); sys.exit(1)
            expanded += fam
        else:
            expanded.append(n)
    for n in expanded:
        if n not in defs:
            print('missing fact', n); sys.exit(1)
        ty, val = defs[n]
        out.append(f'theorem {n}_ok : {n} = ({val} : {ty}) := rfl\n')
    out.append('end O2P.Expect.' + prop)
    open(os.path.join(VERIF, f'lean/O2P/Expect/{prop}.lean'), 'w').write('\n'.join(out) + '\n')
print('ok')
