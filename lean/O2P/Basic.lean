/-
  O2P.Basic — shared conventions for the oauth2-proxy model.

  * A Go `string`/`[]byte` is modelled as `Str := List Char`, one `Char` per *byte*
    (code points 0..255).  Nothing in the model depends on a char being < 256 except
    the byte-level codecs (base64/sha256), which state it as an explicit hypothesis.
  * Go functions that may fail return `Option`/`Except`; functions that can panic return
    `Outcome`.
  * Everything here is core Lean only (no Mathlib), so it can be linked into the driver.
-/

abbrev Str := List Char

namespace O2P

/-- Result of a Go computation that may return an error or panic. -/
inductive Outcome (α : Type) where
  | ok    : α → Outcome α
  | err   : String → Outcome α
  | panic : String → Outcome α
  deriving Repr, DecidableEq

def Outcome.isPanic {α} : Outcome α → Bool
  | .panic _ => true
  | _ => false

/-- `strings.Split(s, sep)` for a one-byte separator: always at least one element. -/
def splitOn (sep : Char) : Str → List Str
  | [] => [[]]
  | c :: cs =>
    if c = sep then [] :: splitOn sep cs
    else match splitOn sep cs with
      | [] => [[c]]           -- unreachable
      | p :: ps => (c :: p) :: ps

theorem splitOn_ne_nil (sep : Char) (s : Str) : splitOn sep s ≠ [] := by
  induction s with
  | nil => simp [splitOn]
  | cons c cs ih =>
    unfold splitOn
    split
    · simp
    · split <;> simp

/-- `strings.Join(parts, sep)` for a one-byte separator. -/
def joinWith (sep : Char) : List Str → Str
  | [] => []
  | [p] => p
  | p :: q :: ps => p ++ sep :: joinWith sep (q :: ps)

theorem joinWith_splitOn (sep : Char) (s : Str) : joinWith sep (splitOn sep s) = s := by
  induction s with
  | nil => simp [splitOn, joinWith]
  | cons c cs ih =>
    unfold splitOn
    split
    · rename_i h
      have hne := splitOn_ne_nil sep cs
      cases hsp : splitOn sep cs with
      | nil => exact absurd hsp hne
      | cons p ps => rw [hsp] at ih; simp [joinWith, ih, h]
    · split
      · rename_i hsp; exact absurd hsp (splitOn_ne_nil sep cs)
      · rename_i p ps hsp
        rw [hsp] at ih
        cases ps with
        | nil => simp [joinWith] at ih ⊢; exact ih
        | cons q qs => simp [joinWith] at ih ⊢; exact ih

/-- every piece returned by `splitOn` is free of the separator -/
theorem splitOn_no_sep (sep : Char) (s : Str) : ∀ p ∈ splitOn sep s, sep ∉ p := by
  induction s with
  | nil => simp [splitOn]
  | cons c cs ih =>
    unfold splitOn
    split
    · intro p hp
      simp at hp
      rcases hp with rfl | hp
      · simp
      · exact ih p hp
    · rename_i hc
      split
      · intro p hp; simp at hp; subst hp; simp; exact fun h => hc h.symm
      · rename_i q qs hsp
        intro p hp
        simp at hp
        rcases hp with rfl | hp
        · have := ih q (by rw [hsp]; simp)
          simp; exact ⟨fun h => hc h.symm, this⟩
        · exact ih p (by rw [hsp]; simp [hp])

/-- a separator-free string splits into itself -/
theorem splitOn_of_not_mem (sep : Char) (s : Str) (h : sep ∉ s) : splitOn sep s = [s] := by
  induction s with
  | nil => simp [splitOn]
  | cons c cs ih =>
    simp at h
    unfold splitOn
    rw [if_neg (fun hc => h.1 hc.symm), ih h.2]

theorem splitOn_cons_eq (sep : Char) (cs : Str) : splitOn sep (sep :: cs) = [] :: splitOn sep cs := by
  simp [splitOn]

theorem splitOn_cons_ne (sep c : Char) (cs p : Str) (ps : List Str) (h : c ≠ sep)
    (hsp : splitOn sep cs = p :: ps) : splitOn sep (c :: cs) = (c :: p) :: ps := by
  rw [splitOn, if_neg h, hsp]

theorem splitOn_append_sep (sep : Char) (a b : Str) (h : sep ∉ a) :
    splitOn sep (a ++ sep :: b) = a :: splitOn sep b := by
  induction a with
  | nil => simp [splitOn]
  | cons c cs ih =>
    simp at h
    have : splitOn sep (cs ++ sep :: b) = cs :: splitOn sep b := ih h.2
    simp only [List.cons_append]
    exact splitOn_cons_ne sep c _ _ _ (fun hc => h.1 hc.symm) this

/-- `strings.SplitN(s, sep, 2)` -/
def splitFirst (sep : Char) : Str → Str × Option Str
  | [] => ([], none)
  | c :: cs =>
    if c = sep then ([], some cs)
    else let (a, b) := splitFirst sep cs; (c :: a, b)

def isDigit (c : Char) : Bool := '0' ≤ c && c ≤ '9'

def asciiLower (c : Char) : Char :=
  if 'A' ≤ c && c ≤ 'Z' then Char.ofNat (c.toNat + 32) else c
def asciiUpper (c : Char) : Char :=
  if 'a' ≤ c && c ≤ 'z' then Char.ofNat (c.toNat - 32) else c

def lower (s : Str) : Str := s.map asciiLower
def upper (s : Str) : Str := s.map asciiUpper

/-- decimal rendering (`strconv.Itoa` for naturals) -/
def natToStr (n : Nat) : Str := (toString n).toList

def intToStr (i : Int) : Str :=
  if i < 0 then '-' :: natToStr i.natAbs else natToStr i.toNat

/-- digits → number -/
def digitsToNat (s : Str) : Nat := s.foldl (fun acc c => acc * 10 + (c.toNat - 48)) 0

/-- `strconv.Atoi` restricted to what matters here: optional sign, then one or more ASCII
    digits; range errors (beyond int64) are reported as `none`. Underscores are not accepted
    (base-10 `Atoi` does not accept them). -/
def atoi (s : Str) : Option Int :=
  let (neg, ds) := match s with
    | '-' :: r => (true, r)
    | '+' :: r => (false, r)
    | r => (false, r)
  if ds.isEmpty || !ds.all isDigit then none
  else
    let n := digitsToNat ds
    if neg then (if n ≤ 9223372036854775808 then some (-(n : Int)) else none)
    else (if n ≤ 9223372036854775807 then some (n : Int) else none)

def hasPrefix (p s : Str) : Bool := p.isPrefixOf s
def hasSuffix (p s : Str) : Bool := p.isSuffixOf s

def trimPrefix (p s : Str) : Str := if hasPrefix p s then s.drop p.length else s

/-- `strings.Contains` -/
def containsSub (sub : Str) : Str → Bool
  | [] => sub.isEmpty
  | c :: cs => hasPrefix sub (c :: cs) || containsSub sub cs

def lastIndexOf (c : Char) (s : Str) : Option Nat :=
  let rec go (i : Nat) (best : Option Nat) : Str → Option Nat
    | [] => best
    | d :: ds => go (i + 1) (if d = c then some i else best) ds
  go 0 none s

end O2P
