import O2P.Drv.Common
import O2P.Model.Authz
/-!
  Driver operations for suite `authz` (C08).

  Field encodings: `session` = `-` (nil) | `hex(email);G` with G = `-` | hex groups joined by `,`;
  `query` = `-` | `hex(key):hex(value)` joined by `,` (decoded url.Values in arrival order).
-/
namespace O2P.Drv.AuthzDrv
open O2P O2P.Drv O2P.Proto O2P.Authz

def parseSess (f : String) : Option (Option Sess) :=
  if f == "-" then some none else
  match f.splitOn ";" with
  | [e, g] => do pure (some { email := (← str e), groups := (← strs g) })
  | _ => none

def parseQuery (f : String) : Option (List (Str × Str)) :=
  if f == "-" then some [] else
  (f.splitOn ",").mapM (fun t => match t.splitOn ":" with
    | [k, v] => do pure ((← str k), (← str v))
    | _ => none)

def opIV : Op
  | [email, domains] => do pure (b (isEmailValidWithDomains (← str email) (← strs domains)))
  | _ => none

def opVA : Op
  | [domains, fileSet, email] => do pure (b (emailValid (← strs domains) (← strs fileSet) (← str email)))
  | _ => none

def opGR : Op
  | [allowed, groups] => do pure (b (groupsOK (← strs allowed) (← strs groups)))
  | _ => none

def opAO : Op
  | [query, sess] => do pure (b (authOnly (← parseQuery query) (← parseSess sess)))
  | _ => none

def opHP : Op
  | [h] => do let h ← str h; pure s!"{hex (hostnameOf h)} {hex (portOf h)}"
  | _ => none

def gateOf (domains fileSet allowed : List Str) (bypass : Bool) (sess : Option Sess) : AuthzResult :=
  getAuthenticatedSessionAuthz bypass sess (emailValid domains fileSet) (groupsOK allowed)

/-- a proxied request: `ok` (forwarded upstream) | `login` | `denied` (403 + session cookie cleared) -/
def opGate : Op
  | [domains, fileSet, allowed, bypass, sess] => do
    let r := gateOf (← strs domains) (← strs fileSet) (← strs allowed) (← Proto.bool bypass) (← parseSess sess)
    pure (match r with
      | .ok _ => "ok"
      | .needsLogin => "login"
      | .accessDenied true => "denied"
      | .accessDenied false => "denied-noclear")
  | _ => none

/-- OAuthCallback: `Validator(email) && Authorize` (no empty-e-mail exemption at login) -/
def opLogin : Op
  | [domains, fileSet, allowed, email, groups] => do
    let ok := emailValid (← strs domains) (← strs fileSet) (← str email) && groupsOK (← strs allowed) (← strs groups)
    pure (if ok then "session" else "forbidden")
  | _ => none

/-- `/oauth2/auth?query`: 401 unless the gate passes, then 202 iff the query constraints hold, else 403 -/
def opAuthOnlyE2E : Op
  | [domains, fileSet, allowed, bypass, sess, query] => do
    let r := gateOf (← strs domains) (← strs fileSet) (← strs allowed) (← Proto.bool bypass) (← parseSess sess)
    let q ← parseQuery query
    pure (match r with
      | .ok s => if authOnly q s then "202" else "403"
      | _ => "401")
  | _ => none

def ops : List (String × Op) :=
  [("iv", opIV), ("va", opVA), ("gr", opGR), ("ao", opAO), ("hp", opHP),
   ("gate", opGate), ("login", opLogin), ("authonly_e2e", opAuthOnlyE2E)]

end O2P.Drv.AuthzDrv

namespace O2P.Drv
def authzOps : List (String × Op) := AuthzDrv.ops
end O2P.Drv
