import O2P.Model.Proto
/-! Shared driver helpers: regex oracle table shipped by the harness. -/
namespace O2P.Drv
open O2P O2P.Proto

abbrev Op := List String → Option String

/-- regex oracle table: `hex(pattern),hex(subject),0|1;…` (`-` = empty). The harness ships the
    real `regexp` verdicts so that the regex engine stays a parameter of the model. -/
def parseRx (f : String) : Option (List (Str × Str × Bool)) :=
  if f == "-" then some [] else
  (f.splitOn ";").mapM (fun t => match t.splitOn "," with
    | [p, s, v] => do pure ((← str p), (← str s), (← Proto.bool v))
    | _ => none)

def rxOf (tbl : List (Str × Str × Bool)) (p s : Str) : Bool :=
  match tbl.find? (fun t => t.1 == p && t.2.1 == s) with
  | some t => t.2.2
  | none => false

end O2P.Drv
