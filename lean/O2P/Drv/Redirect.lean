import O2P.Drv.Common
import O2P.Model.Redirect
/-!
  Driver operations for the redirect model (property C06).

  `url.Parse` stays a parameter of the model: the harness ships, for every candidate string the
  model may look at, the real outcome as a table
      `hex(s),ok,hex(Hostname()),hex(Port()),rw ; …`        (`-` = empty table)
  where `ok` = `url.Parse(s)` succeeded and `rw` = it succeeded with empty scheme and host (the
  branch of `http.Redirect` that rewrites the target with `path.Clean`).  A candidate the model
  needs but the table lacks answers `bad-op` (never a default).

  Operations (fields after the op name → output):
    rd.str   s reqPath rw                       → valid(empty whitelist) hex(path.Clean s) hex(Location) hex(wire Location)
    rd.abs   s ok host port wl1;wl2;…           → one 0/1 per whitelist: IsValidRedirect(s)
    rd.shp   s                                  → hex(host) hex(port)            (util.SplitHostPort)
    rd.ep    hostname port allowed              → 0/1                            (util.IsEndpointAllowed)
    rd.get   allowed prefix rd xauth isF proto host uri reqURI tbl
                                                → hex(director prefix) hex(GetRedirect)
    rd.loc   (same as rd.get) reqPath           → hex(Location of http.Redirect(GetRedirect(req)))
    rd.start (same as rd.get) cbPath            → hex(redirect put into the OAuth state) hex(callback Location)
    rd.cb    allowed s tbl reqPath              → hex(callback Location for a state carrying s)
    rd.page  (same as rd.get) signInPath emptyToRoot
                                                → hex(redirect embedded in the sign-in / error page)
-/
namespace O2P.Drv
open O2P O2P.Proto O2P.Redirect

structure ParseEnt where
  s : Str
  ok : Bool
  host : Str
  port : Str
  rw : Bool

def parseEnts (f : String) : Option (List ParseEnt) :=
  if f == "-" then some [] else
  (f.splitOn ";").mapM (fun t => match t.splitOn "," with
    | [s, ok, h, p, rw] => do
      pure { s := (← str s), ok := (← Proto.bool ok), host := (← str h), port := (← str p),
             rw := (← Proto.bool rw) }
    | _ => none)

def entOf (t : List ParseEnt) (s : Str) : Option ParseEnt := t.find? (fun e => e.s == s)

/-- the oracle as the model wants it (strings missing from the table read as parse errors; the
    ops below check beforehand that no needed candidate is missing) -/
def oracleOf (t : List ParseEnt) (s : Str) : Option (Str × Str) :=
  match entOf t s with
  | some e => if e.ok then some (e.host, e.port) else none
  | none => none

def needsOracle (s : Str) : Bool := hasPrefix httpPrefix s || hasPrefix httpsPrefix s

/-- every candidate that reaches `url.Parse` in the validator must be in the table -/
def covered (t : List ParseEnt) (cands : List Str) : Bool :=
  cands.all (fun c => !needsOracle c || (entOf t c).isSome)

/-- `Location` written by `http.Redirect(w, req, r, 302)`; needs the `rw` flag of `r` -/
def locOf (t : List ParseEnt) (reqPath r : Str) : Option Str :=
  match entOf t r with
  | some e => some (if e.rw then goRedirectRewrite reqPath r else goRedirectVerbatim r)
  | none => none

structure GetIn where
  allowed : List Str
  prefix0 : Str
  rd : Str
  xauth : Str
  isF : Bool
  proto : Str
  host : Str
  uri : Str
  reqURI : Str
  tbl : List ParseEnt

def parseGetIn : List String → Option GetIn
  | [allowed, prefix0, rd, xauth, isF, proto, host, uri, reqURI, tbl] => do
    pure { allowed := (← strs allowed), prefix0 := (← str prefix0), rd := (← str rd),
           xauth := (← str xauth), isF := (← Proto.bool isF), proto := (← str proto),
           host := (← str host), uri := (← str uri), reqURI := (← str reqURI),
           tbl := (← parseEnts tbl) }
  | _ => none

def GetIn.candidates (g : GetIn) : List Str :=
  let np := normPrefix g.prefix0
  let u := if hasPrefix np g.uri then ['/'] else g.uri
  [g.rd, g.xauth, g.proto ++ schemeSep ++ g.host ++ u, g.uri, g.reqURI]

def GetIn.run (g : GetIn) : Option Str :=
  if !covered g.tbl g.candidates then none
  else some (getRedirect g.allowed (oracleOf g.tbl) g.rd g.xauth g.isF g.proto g.host g.uri g.reqURI
               (normPrefix g.prefix0))

def opStr : Op
  | [s, reqPath, rw] => do
    let s ← str s
    let reqPath ← str reqPath
    let rw ← Proto.bool rw
    let loc := if rw then goRedirectRewrite reqPath s else goRedirectVerbatim s
    pure s!"{b (isValidRedirect [] s none)} {hex (goClean s)} {hex loc} {hex (wireHeaderValue loc)}"
  | _ => none

def opAbs : Op
  | [s, ok, host, port, wls] => do
    let s ← str s
    let ok ← Proto.bool ok
    let host ← str host
    let port ← str port
    let wls ← (wls.splitOn ";").mapM strs
    let parsed := if ok then some (host, port) else none
    pure (String.join (wls.map (fun wl => b (isValidRedirect wl s parsed))))
  | _ => none

def opShp : Op
  | [s] => do
    let r := splitHostPort (← str s)
    pure s!"{hex r.1} {hex r.2}"
  | _ => none

def opEp : Op
  | [h, p, allowed] => do
    pure (b (isEndpointAllowed (← str h) (← str p) (← strs allowed)))
  | _ => none

def opGet : Op := fun fs => do
  let g ← parseGetIn fs
  let r ← g.run
  pure s!"{hex (normPrefix g.prefix0)} {hex r}"

def opLoc : Op := fun fs =>
  match fs.reverse with
  | reqPath :: rest => do
    let g ← parseGetIn rest.reverse
    let reqPath ← str reqPath
    let r ← g.run
    let loc ← locOf g.tbl reqPath r
    pure (hex loc)
  | [] => none

def opStart : Op := fun fs =>
  match fs.reverse with
  | cbPath :: rest => do
    let g ← parseGetIn rest.reverse
    let cbPath ← str cbPath
    let r ← g.run
    -- OAuthCallback validates the redirect carried by the state once more
    let r2 := if isValidRedirect g.allowed r (oracleOf g.tbl r) then r else ['/']
    let loc ← locOf g.tbl cbPath r2
    pure s!"{hex r} {hex loc}"
  | [] => none

def opCb : Op
  | [allowed, s, tbl, reqPath] => do
    let allowed ← strs allowed
    let s ← str s
    let tbl ← parseEnts tbl
    let reqPath ← str reqPath
    if !covered tbl [s] then none
    let r := if isValidRedirect allowed s (oracleOf tbl s) then s else ['/']
    let loc ← locOf tbl reqPath r
    pure (hex loc)
  | _ => none

def opPage : Op := fun fs =>
  match fs.reverse with
  | emptyToRoot :: signIn :: rest => do
    let g ← parseGetIn rest.reverse
    let signIn ← str signIn
    let emptyToRoot ← Proto.bool emptyToRoot
    let r ← g.run
    let r := if r == signIn || (emptyToRoot && r == []) then ['/'] else r
    pure (hex r)
  | _ => none

def redirectOps : List (String × Op) :=
  [("rd.str", opStr), ("rd.abs", opAbs), ("rd.shp", opShp), ("rd.ep", opEp), ("rd.get", opGet),
   ("rd.loc", opLoc), ("rd.start", opStart), ("rd.cb", opCb), ("rd.page", opPage)]

end O2P.Drv
