import O2P.Drv.Common
import O2P.Model.Serve
import O2P.Model.Upstream
import O2P.Model.Sha256
import O2P.Model.Base64
import O2P.Model.Signed
import O2P.Model.CookieJar
import O2P.Model.Redirect
import O2P.Model.Authz
/-!
  Driver glue for the Layer-A correspondence (`serve` op): decode Cfg / Req / Env from the
  `key=value` fields the harness recorded, run `O2P.serve`, print the canonical answer.
-/
namespace O2P.Drv
open O2P O2P.Proto

abbrev KV := List (String × String)

def parseKVs (f : String) : KV :=
  (f.splitOn " ").filterMap (fun p => match p.splitOn "=" with
    | k :: rest => some (k, "=".intercalate rest)
    | _ => none)

def kvGet (m : KV) (k : String) : Option String := (m.find? (fun p => p.1 == k)).map (·.2)

def kStr (m : KV) (k : String) : Option Str := kvGet m k >>= str
def kStrs (m : KV) (k : String) : Option (List Str) := kvGet m k >>= strs
def kBool (m : KV) (k : String) : Option Bool := kvGet m k >>= Proto.bool
def kInt (m : KV) (k : String) : Option Int := kvGet m k >>= Proto.int

/-- `a:b,c:d` → pairs of strings -/
def pairs (f : String) : Option (List (Str × Str)) :=
  if f == "-" then some [] else
  (f.splitOn ",").mapM (fun t => match t.splitOn ":" with
    | [a, b] => do pure ((← str a), (← str b))
    | _ => none)

def parseTime (f : String) : Option (Option Int) :=
  if f == "-" then some none else f.toInt?.map some

def parseSession (f : String) : Option Session :=
  match f.splitOn "," with
  | [em, us, pu, gr, atk, itk, rtk, no, ca, eo] => do
    let groups ← if gr == "-" then some [] else (gr.splitOn ":").mapM str
    pure { email := ← str em, user := ← str us, preferredUsername := ← str pu, groups := groups,
           accessToken := ← str atk, idToken := ← str itk, refreshToken := ← str rtk, nonce := ← str no,
           createdAt := ← parseTime ca, expiresOn := ← parseTime eo }
  | _ => none

def parseOptSession (f : String) : Option (Option Session) :=
  if f == "-" then some none else (parseSession f).map some

def parseLoad (f : String) : Option LoadRes :=
  if f == "nocookie" then some .noCookie
  else if f == "err" then some .err
  else match f.splitOn ";" with
    | ["ok", s] => (parseSession s).map .ok
    | _ => none

def sessKey (s : Session) : String := s!"{hex s.user}:{hex s.email}:{hex s.accessToken}"

def b64urlNoPad (s : Str) : Str := b64Encode true false s

/-- `encryption.HashNonce` on real bytes -/
def hashNonceReal (n : Str) : Str := b64urlNoPad (Sha.sha256 n)

def challengeReal (method verifier : Str) : Option Str :=
  if method == "plain".toList then some verifier
  else if method == "S256".toList then some (b64urlNoPad (Sha.sha256 verifier))
  else none

def csrfName (cookieName sub : Str) : Str :=
  if sub.isEmpty then cookieName ++ "_csrf".toList else cookieName ++ '_' :: sub ++ "_csrf".toList

def isDigits (s : Str) : Bool := !s.isEmpty && s.all isDigit

/-- name or name_<digits> (short names: no truncation in these suites) -/
def isSessionCookieNameD (base n : Str) : Bool :=
  n == base || (hasPrefix (base ++ ['_']) n && isDigits (n.drop (base.length + 1)))

def kindStr : Kind → String
  | .httpsRedirect => "httpsRedirect" | .okText => "okText" | .notReady => "notReady" | .clean301 => "clean301"
  | .robots => "robots" | .static => "static" | .upstream => "upstream" | .accepted => "accepted"
  | .userInfo => "userInfo" | .emptyUserInfo => "emptyUserInfo" | .signInPage => "signInPage"
  | .idpRedirect => "idpRedirect" | .redirect => "redirect" | .jsonErr => "jsonErr" | .textErr => "textErr"
  | .errorPage => "errorPage"

def sortStrs (l : List String) : List String := (l.toArray.qsort (· < ·)).toList
def dedup (l : List String) : List String := l.foldr (fun x acc => if acc.head? == some x then acc else x :: acc) []

def opServe : Op
  | [cfgF, reqF, envF, rxF] => do
    let c := parseKVs cfgF
    let q := parseKVs reqF
    let e := parseKVs envF
    let tbl ← parseRx rxF
    let legacy ← kStrs c "legacy"
    let rules ← kStrs c "routes"
    let redis ← kBool c "redis"
    let cfg : Cfg := {
      proxyPrefix := ← kStr c "prefix", pingPath := ← kStr c "ping", pingUserAgent := ← kStr c "pingua",
      readyPath := ← kStr c "ready", forceHTTPS := ← kBool c "forcehttps", reverseProxy := ← kBool c "rp",
      realIPHeader := ← kStr c "realip", skipPreflight := ← kBool c "preflight",
      routes := buildRoutes legacy rules, apiRoutes := ← kStrs c "api", hasTrustedIPs := ← kBool c "trustedips",
      jwtEnabled := ← kBool c "jwt", basicEnabled := ← kBool c "basic", basicGroups := ← kStrs c "basicgroups",
      forceJSON := ← kBool c "json", skipProviderButton := ← kBool c "skipbutton",
      refreshPeriod := ← kInt c "refresh", cookieExpire := ← kInt c "expire", allowedGroups := ← kStrs c "groups",
      pkceMethod := ← kStr c "pkce", skipNonce := ← kBool c "skipnonce", encodeState := ← kBool c "encstate",
      csrfPerRequest := ← kBool c "csrfper", cookieName := ← kStr c "cookiename" }
    let req : Req := {
      method := ← kStr q "method", path := ← kStr q "path", uri := ← kStr q "uri",
      query := ← (kvGet q "query" >>= pairs), form := ← (kvGet q "form" >>= pairs),
      headers := ← (kvGet q "headers" >>= pairs), accept := ← kStrs q "accept",
      cookies := ← (kvGet q "cookies" >>= pairs), host := ← kStr q "host", remoteAddr := ← kStr q "remote",
      scheme := ← kStr q "scheme", tls := ← kBool q "tls", userAgent := ← kStr q "ua" }
    -- env
    let tokens ← (do
      let f ← kvGet e "tokens"
      if f == "-" then pure [] else
      (f.splitOn ",").mapM (fun t => match t.splitOn ":" with
        | [tok, v, "none"] => do pure ((← str tok), (← Proto.bool v), (none : Option Str))
        | [tok, v, "some", n] => do pure ((← str tok), (← Proto.bool v), some (← str n))
        | _ => none))
    let emails ← (do
      let f ← kvGet e "emails"
      if f == "-" then pure [] else
      (f.splitOn ",").mapM (fun t => match t.splitOn ":" with
        | [em, v] => do pure ((← str em), (← Proto.bool v))
        | _ => none))
    let csrfs ← (do
      let f ← kvGet e "csrf"
      if f == "-" then pure [] else
      (f.splitOn ",").mapM (fun t => match t.splitOn ":" with
        | [n, s, no, v] => do pure ((← str n), ({ state := ← str s, nonce := ← str no, verifier := ← str v } : CSRF))
        | _ => none))
    let hts ← (do
      let f ← kvGet e "htpasswd"
      if f == "-" then pure [] else
      (f.splitOn ",").mapM (fun t => match t.splitOn ":" with
        | [u, p, v] => do pure ((← str u), (← str p), (← Proto.bool v))
        | _ => none))
    let trusted ← (do
      let f ← kvGet e "trusted"
      (f.splitOn ",").mapM (fun t => match t.splitOn ":" with
        | [h, x, v] => do pure ((← Proto.bool h), (← str x), (← Proto.bool v))
        | _ => none))
    let paths ← (kvGet e "paths" >>= pairs)
    let constraints := (← kvGet e "constraints") |> fun f =>
      if f == "-" then [] else (f.splitOn ",").filterMap (fun t => match t.splitOn "=" with
        | [k, v] => some (k, v == "1")
        | _ => none)
    let fresh ← (do
      let f ← kvGet e "fresh"
      if f == "-" then pure (([] : Str), ([] : Str), ([] : Str)) else
      match f.splitOn ":" with
      | [s, n, v] => do pure ((← str s), (← str n), (← str v))
      | _ => none)
    let refresh ← (do
      let f ← kvGet e "refresh"
      if f == "err" then pure (RefreshRes.err)
      else if f == "notimpl" then pure .notImplemented
      else if f == "no" then pure .notRefreshed
      else match f.splitOn ";" with
        | ["ok", s] => (parseSession s).map .refreshed
        | _ => none)
    let redeem ← (do
      let f ← kvGet e "redeem"
      if f == "err" then pure RedeemRes.err
      else match f.splitOn ";" with
        | ["ok", s] => (parseSession s).map .ok
        | _ => none)
    let apprd ← (do
      let f ← kvGet e "apprd"
      match f.splitOn ":" with
      | [s, v] => do pure ((← str s), (← Proto.bool v))
      | _ => none)
    let redirect ← kStr e "redirect"
    let whitelist ← kStrs c "whitelist"
    let ptbl ← (do
      let f ← kvGet e "parsetbl"
      if f == "-" then pure ([] : List (Str × Option (Str × Str))) else
      (f.splitOn ",").mapM (fun t => match t.splitOn ":" with
        | [x, "0"] => do pure ((← str x), (none : Option (Str × Str)))
        | [x, "1", h, p] => do pure ((← str x), some ((← str h), (← str p)))
        | _ => none))
    let oauthru ← kStr e "oauthru"
    let stateParsed ← kStr e "stateparsed"
    let bearer ← (kvGet e "bearer" >>= parseOptSession)
    let basic ← (kvGet e "basic" >>= parseOptSession)
    let env : Env := {
      rx := rxOf tbl,
      clean := O2P.Upstream.cleanPath,
      trustedText := fun h t => match trusted.find? (fun x => x.1 == h && x.2.1 == t) with
        | some x => x.2.2 | none => false,
      bearerOf := fun _ => bearer,
      basicOf := fun _ => basic,
      load1 := ← (kvGet e "load1" >>= parseLoad),
      lock := ← (do let f ← kvGet e "lock"
                    if f == "obtained" then pure LockRes.obtained else if f == "held" then pure .held
                    else if f == "err" then pure .err else none),
      load2 := ← (kvGet e "load2" >>= parseLoad),
      refresh := fun _ => refresh,
      saveOK := ← kBool e "saveok",
      tokenVerifies := fun t => match tokens.find? (fun x => x.1 == t) with | some x => x.2.1 | none => false,
      nonceClaim := fun t => match tokens.find? (fun x => x.1 == t) with | some x => x.2.2 | none => none,
      clearOK := ← kBool e "clearok",
      emailOK := fun em => match emails.find? (fun x => x.1 == em) with | some x => x.2 | none => false,
      -- composed with the C06 model (url.Parse verdicts shipped as a table); the observed value of
      -- GetRedirect is cross-checked below
      getRedirect := fun rd xa isF proto host uri reqURI =>
        O2P.Redirect.getRedirect whitelist (O2P.Redirect.tblParse ptbl) rd xa isF proto host uri reqURI
          (O2P.Redirect.normPrefix cfg.proxyPrefix),
      redirectErr := ← kBool e "redirecterr",
      isValidRedirect := fun s => O2P.Redirect.isValidRedirect whitelist s (O2P.Redirect.tblParse ptbl s),
      csrfByName := fun n => (csrfs.find? (fun x => x.1 == n)).map (·.2),
      redeem := fun _ _ _ => redeem,
      enrichOK := fun _ => (kBool e "enrichok").getD false,
      freshState := fresh.1, freshNonce := fresh.2.1, freshVerifier := fresh.2.2,
      hash := hashNonceReal,
      challenge := challengeReal,
      ready := ← kBool e "ready",
      htpasswdOK := fun u p => match hts.find? (fun x => x.1 == u && x.2.1 == p) with | some x => x.2.2 | none => false,
      oauthRedirectURIOf := fun _ _ => oauthru,
      loginURL := fun ru st no extra =>
        let g := fun k => formGet extra k
        let st := if cfg.encodeState then b64urlNoPad st else st
        let no := if cfg.skipNonce then [] else no
        s!"state:{hex st};nonce:{hex no};cc:{hex (g "code_challenge".toList)};ccm:{hex (g "code_challenge_method".toList)};ru:{hex ru}".toList,
      csrfCookieName := csrfName cfg.cookieName,
      now := ← kInt e "now" }
    let glue : Glue := {
      pathOfURI := fun u => match paths.find? (fun x => x.1 == u) with | some x => x.2 | none => stripQuery u,
      decodeB64 := fun _ => stateParsed,
      constraintsOK := fun _ s => match constraints.find? (fun x => x.1 == sessKey s) with | some x => x.2 | none => false }
    let r := serve cfg env glue req
    -- Layer-B cross-check on REAL bytes: whatever the store / CSRF loader accepted must validate in
    -- the signed-cookie model (Lean HMAC-SHA256), and "no cookie" must agree with the jar model
    let secret ← kStr c "secret"
    let seedB := secret
    let nowNs := env.now
    let jar : O2P.Jar := req.cookies
    let lbSession : Bool :=
      match env.load1, (← kBool e "loadseen") with
      | _, false => true
      | .ok _, true =>
        (match O2P.loadCookie jar cfg.cookieName with
          | some (n, v) => (O2P.validate Sha.hmac n v seedB cfg.cookieExpire nowNs).isSome
          | none => false)
      | .noCookie, true => (O2P.loadCookie jar cfg.cookieName).isNone || redis && (jar.find? (fun p => p.1 == cfg.cookieName)).isNone
      | .err, true => true
    let lbCsrf : Bool := csrfs.all (fun x =>
      req.cookies.any (fun ck => ck.1 == x.1 && (O2P.validate Sha.hmac ck.1 ck.2 seedB cfg.cookieExpire nowNs).isSome))
    let rdModel := env.redirectOf cfg req
    let lbRd : Bool := (← kBool e "redirecterr") || rdModel == redirect
    let lbApp : Bool := apprd.1.isEmpty || env.isValidRedirect apprd.1 == apprd.2
    -- C08 models cross-checked against the observed validator / auth-only verdicts
    let domains ← kStrs c "emaildomains"
    let hasFile ← kBool c "emailsfile"
    let lbEmail : Bool := hasFile || emails.all (fun x => O2P.Authz.emailValid domains [] x.1 == x.2)
    let sessOfKey := fun (k : String) => (([env.load1, env.load2].filterMap (fun l => match l with | .ok s => some s | _ => none))
        ++ (match bearer with | some s => [s] | none => []) ++ (match basic with | some s => [s] | none => [])
        ++ (match refresh with | .refreshed s => [s] | _ => [])).find? (fun s => sessKey s == k)
    let lbCon : Bool := constraints.all (fun x => match sessOfKey x.1 with
      | some s => O2P.Authz.authOnly req.query (some { email := s.email, groups := s.groups }) == x.2
      | none => true)
    let lbTag := (if lbEmail then "" else "LAYERB-EMAIL-MISMATCH ") ++ (if lbCon then "" else "LAYERB-AUTHONLY-MISMATCH ") ++ (if lbSession then "" else "LAYERB-SESSION-MISMATCH ") ++ (if lbCsrf then "" else "LAYERB-CSRF-MISMATCH ")
      ++ (if lbRd then "" else s!"LAYERB-REDIRECT-MISMATCH({hex rdModel}) ") ++ (if lbApp then "" else "LAYERB-APPRD-MISMATCH ")
    -- render
    -- the cookie store's Clear drops session cookies already written to the response (fix:); the Redis
    -- manager's ticket cookie set by an earlier Save stays in the header list next to its deletion
    let sset := r.cookies.foldl (fun acc c => match c with
      | .setSession _ => true
      | .clearSession => if redis then acc else false
      | _ => acc) false
    let cleared := r.cookies.any (fun c => match c with | .clearSession => true | _ => false)
    let presented := (req.cookies.map (·.1)).filter (isSessionCookieNameD cfg.cookieName)
    let dels : List String :=
      if cleared then (if redis then [hex cfg.cookieName] else dedup (sortStrs (presented.map hex))) else []
    let d := if sset then "*" else (if dels.isEmpty then "-" else ",".intercalate dels)
    let cset := r.cookies.filterMap (fun c => match c with
      | .setCSRF cs => some (hex (csrfName cfg.cookieName (stateSubstring cfg (hashNonceReal cs.state)))) | _ => none)
    let cdel := r.cookies.filterMap (fun c => match c with | .clearCSRF n => some (hex n) | _ => none)
    let lst := fun (l : List String) => if l.isEmpty then "-" else ",".intercalate l
    let loc := match r.kind with
      | .redirect | .clean301 => hex r.location
      | .idpRedirect => String.ofList r.location
      | _ => "-"
    let fwd := match r.forwarded with
      | none => "0"
      | some none => s!"1:{hex []}:{hex []}:{hex []}"
      | some (some s) => s!"1:{hex s.user}:{hex s.email}:{hex s.accessToken}"
    let disc := match r.kind, r.disclosed with
      | .accepted, some s => hex (if s.email.isEmpty then s.user else s.email)
      | .accepted, none => hex []
      | .userInfo, some s => s!"{hex s.user}:{hex s.email}"
      | _, _ => "-"
    let red := match r.redeemedWith with
      | some (c, v) => s!"{hex c}:{hex v}"
      | none => "-"
    pure s!"{lbTag}{r.status} {kindStr r.kind} loc={loc} S={b sset} D={d} C={lst cset} X={lst cdel} fwd={fwd} disc={disc} redeem={red}"
  | _ => none

def serveOps : List (String × Op) := [("serve", opServe)]

end O2P.Drv
