import O2P.Drv.Common
import O2P.Model.CookieJar
import O2P.Gen.Facts
/-!
  Driver operations for the cookie session store model (suites `cookiesplit`, `savehist`).
  `maxCookieLength` is taken from the regenerated source facts, so a change of the constant in
  the source is seen by the model.

  Value fields (`val`): `x<hex>` | `r<raw printable ASCII without TAB/LF/comma>` |
  `g<len>.<seed>` (deterministic generated value, see `genValue`).  A jar is shipped as two
  fields: names (`strs`) and values (comma separated `val`s, `-` = empty).
-/
namespace O2P.Drv
open O2P O2P.Proto

def cjMaxLen : Nat := O2P.Facts.maxCookieLength.toNat

def cjAlphabet : Array Char :=
  "ABCDEFGHIJKLMNOPQRSTUVWXYZabcdefghijklmnopqrstuvwxyz0123456789-_".toList.toArray

def genValue (len seed : Nat) : Str :=
  (List.range len).map (fun i => cjAlphabet[(i + i / 64 + seed) % 64]!)

def cjVal (f : String) : Option Str :=
  match f.toList with
  | 'x' :: rest => unhexList rest
  | 'r' :: rest => some rest
  | 'g' :: rest =>
    match (String.ofList rest).splitOn "." with
    | [l, s] => do pure (genValue (← l.toNat?) (← s.toNat?))
    | _ => none
  | _ => none

def cjVals (f : String) : Option (List Str) :=
  if f == "-" then some [] else (f.splitOn ",").mapM cjVal

def cjHash (s : Str) : Nat := s.foldl (fun h c => (h * 131 + c.toNat) % 1000000007) 0

def cjJar (names vals : String) : Option Jar := do
  let ns ← strs names
  let vs ← cjVals vals
  if ns.length == vs.length then pure (ns.zip vs) else none

def showNV (p : Str × Str) : String := s!"{hex p.1}:{p.2.length}:{cjHash p.2}"

def showList (xs : List String) : String := if xs.isEmpty then "-" else ",".intercalate xs

def showParts (o : Outcome (List (Str × Str))) : String :=
  match o with
  | .ok ps => "ok[" ++ showList (ps.map showNV) ++ "]"
  | .panic _ => "panic"
  | .err _ => "spin"

def showSC (c : SetCookie) : String := s!"{hex c.name}:{c.value.length}:{cjHash c.value}:{b c.del}"

def showLoad (r : Option (Str × Str)) : String :=
  match r with
  | none => "none"
  | some p => showNV p

def opCjName : Op
  | [name, count] => do pure (hex (splitCookieName (← str name) (← Proto.nat count)))
  | _ => none

def opCjMatch : Op
  | [name, cand] => do pure (b (matchesSessionName (← str name) (← str cand)))
  | _ => none

/-- real `splitCookie(c)` on a cookie built by `MakeCookieFromOptions` -/
def opCjSplit : Op
  | [name, a, v] => do
    let name ← str name
    let A ← Proto.nat a
    let v ← cjVal v
    pure (showParts (splitCookie cjMaxLen A name v))
  | _ => none

/-- real `makeSessionCookie` given the signed value it computed -/
def opCjMake : Op
  | [name, a, v] => do
    let name ← str name
    let A ← Proto.nat a
    let v ← cjVal v
    pure (showParts (makeSessionCookies cjMaxLen A name v))
  | _ => none

def opCjLoad : Op
  | [name, jn, jv] => do
    let name ← str name
    let jar ← cjJar jn jv
    pure (showLoad (loadCookie jar name))
  | _ => none

def opCjClear : Op
  | [name, jn] => do
    let name ← str name
    let ns ← strs jn
    let jar : Jar := ns.map (fun n => (n, ['v']))
    let cs := clearStore name jar
    if cs.all (fun (c : SetCookie) => c.del && c.value.isEmpty) then
      pure (hexs (cs.map (fun (c : SetCookie) => c.name)))
    else none
  | _ => none

/-- one request/response round trip of the fixed store against the presented jar -/
def opCjStep : Op
  | [name, a, op, v, jn, jv] => do
    let name ← str name
    let A ← Proto.nat a
    let jar ← cjJar jn jv
    let cs ← (if op == "save" then do
        let v ← cjVal v
        pure (saveFixed cjMaxLen A name v jar)
      else if op == "clear" then pure (.ok (clearStore name jar))
      else if op == "saveclear" then do
        let v ← cjVal v
        pure (match saveFixed cjMaxLen A name v jar with
          | .ok cs => .ok (clearAfter name cs jar)
          | .err e => .err e
          | .panic e => .panic e)
      else none : Option (Outcome (List SetCookie)))
    match cs with
    | .ok cs =>
      let jar' := applySetCookies jar cs
      pure s!"sc=[{showList (cs.map showSC)}] jar=[{showList (jar'.map showNV)}] load={showLoad (loadCookie jar' name)}"
    | .panic _ => pure "panic"
    | .err _ => pure "spin"
  | _ => none

def cookieJarOps : List (String × Op) :=
  [("cj.name", opCjName), ("cj.match", opCjMatch), ("cj.split", opCjSplit), ("cj.make", opCjMake), ("cj.load", opCjLoad),
   ("cj.clear", opCjClear), ("cj.step", opCjStep)]

end O2P.Drv
