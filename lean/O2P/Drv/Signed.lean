import O2P.Drv.Common
import O2P.Model.Signed
import O2P.Model.Sha256
import O2P.Model.CsrfLoad
/-!
  Driver operations for the signed-cookie model (C02, C09): the model runs on REAL bytes with
  `mac := O2P.Sha.hmac`, `sha := O2P.Sha.sha256`.
-/
namespace O2P.Drv
open O2P O2P.Proto

/-- optional byte string: `N` = Go nil slice -/
def optStr (f : String) : Option (Option Str) :=
  if f == "N" then some none else (str f).map some

def showValidate : Option (Str × Int) → String
  | none => "0"
  | some (v, t) => s!"1 {hex v} {t}"

def opB64Enc : Op
  | [u, p, s] => do pure (hex (b64Encode (← Proto.bool u) (← Proto.bool p) (← str s)))
  | _ => none

def opB64Dec : Op
  | [u, p, s] => do
    match b64Decode (← Proto.bool u) (← Proto.bool p) (← str s) with
    | none => pure "E"
    | some v => pure (hex v)
  | _ => none

def opAtoi : Op
  | [s] => do
    match atoi (← str s) with
    | none => pure "E"
    | some v => pure (toString v)
  | _ => none

def opSecretBytes : Op
  | [s] => do pure (hex (secretBytes (← str s)))
  | _ => none

def opHashNonce : Op
  | [n] => do pure (hex (hashNonce Sha.sha256 (← optStr n)))
  | _ => none

def opCheckNonce : Op
  | [n, h] => do pure (b (checkNonce Sha.sha256 (← optStr n) (← str h)))
  | _ => none

def opCodeChallenge : Op
  | [m, v] => do
    match codeChallenge Sha.sha256 (← str m) (← str v) with
    | none => pure "E"
    | some c => pure (hex c)
  | _ => none

def opSigned : Op
  | [seed, name, value, now] => do
    pure (hex (signedValue Sha.hmac (← str seed) (← str name) (← str value) (← Proto.int now)))
  | _ => none

/-- `validate seed name cookie expireNs beforeNs afterNs`: the model is evaluated at the wall
    clock read before and after the real call; if the two answers differ the real call
    straddled a window edge and the line answers `clock-edge` (the harness avoids that). -/
def opValidate : Op
  | [seed, name, cookie, expire, before, after] => do
    let seed ← str seed
    let name ← str name
    let cookie ← str cookie
    let expire ← Proto.int expire
    let r1 := validate Sha.hmac name cookie seed expire (← Proto.int before)
    let r2 := validate Sha.hmac name cookie seed expire (← Proto.int after)
    if r1 = r2 then pure (showValidate r1) else pure "clock-edge"
  | _ => none

/-- `csrfpick seed name expireNs beforeNs afterNs names values decodable`: `LoadCSRFCookie` on a request
    carrying the cookies `names[i]=values[i]` (header order).  `decodable` lists the validated payloads
    (as `Validate` returns them) that the AES-CFB + msgpack step decodes (shipped by the harness from its
    own decoder).  Answer: the index of the cookie whose payload is returned, or `none`. -/
def opCsrfPick : Op
  | [seed, name, expire, before, after, ns, vs, ok] => do
    let seed ← str seed
    let name ← str name
    let expire ← Proto.int expire
    let ns ← strs ns
    let vs ← strs vs
    let ok ← strs ok
    let cookies := ns.zip vs
    -- tag each cookie's payload with its index through the `state` field
    let run (now : Int) : Option Nat :=
      let idx := (List.range cookies.length).zip cookies
      idx.findSome? (fun p =>
        if p.2.1 = name then
          match validate Sha.hmac name p.2.2 seed expire now with
          | some (bytes, _) => if ok.contains bytes then some p.1 else none
          | none => none
        else none)
    -- the model definition, for the same data (decode := membership in `ok`, payload echoed as `state`)
    let viaModel (now : Int) : Option Str :=
      (ComposeCsrf.csrfLoad Sha.hmac (fun bytes => if ok.contains bytes then some { state := bytes, nonce := [], verifier := [] } else none)
        seed expire now cookies name).map (·.state)
    let tb ← Proto.int before
    let ta ← Proto.int after
    let r1 := run tb
    let r2 := run ta
    let m1 := viaModel tb
    if r1 ≠ r2 then pure "clock-edge"
    else
      -- cross-check: the indexed scan and `csrfLoad` pick the same payload
      let agree := match r1, m1 with
        | none, none => true
        | some i, some st =>
          (match cookies[i]? with
           | some c => (match validate Sha.hmac name c.2 seed expire tb with
                        | some (bytes, _) => bytes == st
                        | none => false)
           | none => false)
        | _, _ => false
      if !agree then pure "MODEL-SELF-MISMATCH"
      else match r1 with
        | none => pure "none"
        | some i => pure (toString i)
  | _ => none

def signedOps : List (String × Op) :=
  [("b64enc", opB64Enc), ("b64dec", opB64Dec), ("atoi", opAtoi), ("secretbytes", opSecretBytes),
   ("hashnonce", opHashNonce), ("checknonce", opCheckNonce), ("codechallenge", opCodeChallenge),
   ("signed", opSigned), ("validate", opValidate), ("csrfpick", opCsrfPick)]

end O2P.Drv
