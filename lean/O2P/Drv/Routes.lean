import O2P.Drv.Common
import O2P.Model.Routes
import O2P.Model.Sha256
namespace O2P.Drv
open O2P O2P.Proto

def opRoutes : Op
  | [legacy, rules, skipPre, trusted, method, path, rx] => do
    let legacy ← strs legacy
    let rules ← strs rules
    let skipPre ← Proto.bool skipPre
    let trusted ← Proto.bool trusted
    let method ← str method
    let path ← str path
    let tbl ← parseRx rx
    let routes := buildRoutes legacy rules
    let parsed := ";".intercalate (routes.map (fun r => s!"{hex r.method},{b r.negate},{hex r.pattern}"))
    pure s!"{b (isAllowedRequest (rxOf tbl) skipPre routes trusted method path)} {parsed}"
  | _ => none

def opSha : Op
  | [m] => do pure (hex (Sha.sha256 (← str m)))
  | _ => none
def opHmac : Op
  | [k, m] => do pure (hex (Sha.hmac (← str k) (← str m)))
  | _ => none

def routesOps : List (String × Op) := [("routes", opRoutes), ("sha256", opSha), ("hmac", opHmac)]

end O2P.Drv
