import O2P.Drv.Common
import O2P.Model.Cookies
import O2P.Model.Ttl
namespace O2P.Drv
open O2P O2P.Proto O2P.Ck

/-- `mkcookie domains path secure httponly samesite host name expirationNs` -/
def opMkCookie : Op
  | [doms, path, sec, ho, ss, host, name, exp] => do
    let cfg : CookieCfg := { domains := ← strs doms, path := ← str path, secure := ← Proto.bool sec,
                             httpOnly := ← Proto.bool ho, sameSite := ← str ss }
    let c := makeCookie cfg (← str host) (← str name) [] (← Proto.int exp)
    let ma := match c.maxAge with
      | none => "none"
      | some n => if n < 0 then "neg" else s!"pos:{n}"
    -- net/http omits a leading dot of Domain when serialising
    let dom := if hasPrefix ['.'] c.domain then c.domain.drop 1 else c.domain
    pure s!"{hex dom} {hex c.path} {b c.secure} {b c.httpOnly} {hex c.sameSite} {ma}"
  | _ => none

/-- `mkcookie-cfg …`: the same with the domains AS THE OPERATOR WROTE THEM (any order); validation's sort is part of the model -/
def opMkCookieCfg : Op
  | [doms, path, sec, ho, ss, host, name, exp] => do
    let cfg : CookieCfg := { domains := sortDomains (← strs doms), path := ← str path, secure := ← Proto.bool sec,
                             httpOnly := ← Proto.bool ho, sameSite := ← str ss }
    let c := makeCookie cfg (← str host) (← str name) [] (← Proto.int exp)
    let ma := match c.maxAge with
      | none => "none"
      | some n => if n < 0 then "neg" else s!"pos:{n}"
    let dom := if hasPrefix ['.'] c.domain then c.domain.drop 1 else c.domain
    pure s!"{hex dom} {hex c.path} {b c.secure} {b c.httpOnly} {hex c.sameSite} {ma}"
  | _ => none

/-- `rhist ops t` : Redis history; ops = `L:p:f:s` (p = - for none) | `R:t:s` | `Q:t` | `O:t` joined by `,` -/
def opRHist : Op
  | [ops, t] => do
    let t ← Proto.nat t
    let parsed ← (if ops == "-" then some [] else (ops.splitOn ",").mapM (fun o => match o.splitOn ":" with
      | ["L", p, f, s] => do
        let p' ← (if p == "-" then some none else (Proto.nat p).map some)
        pure (ROp.login p' (← Proto.nat f) (← Proto.nat s))
      | ["R", t, s] => do pure (ROp.refresh (← Proto.nat t) (← Proto.nat s))
      | ["Q", t] => do pure (ROp.request (← Proto.nat t))
      | ["O", t] => do pure (ROp.signOut (← Proto.nat t))
      | _ => none))
    pure (match kvGet (rrun [] parsed) t with | some s => s!"some:{s}" | none => "none")
  | _ => none

/-- `ttlhist expireSeconds ops t` : the store with lifetimes; ops = `S:t:s` | `L:t` | `D:t` | `P:seconds` joined by `,`.
    Output: what loads under `t` and the TTL the store reports (`none` no live entry, `inf` no expiry, seconds). -/
def opTtlHist : Op
  | [expire, ops, t] => do
    let t ← Proto.nat t
    let expire ← Proto.nat expire
    let parsed ← (if ops == "-" then some [] else (ops.splitOn ",").mapM (fun o => match o.splitOn ":" with
      | ["S", t, s] => do pure (Ttl.Op.save (← Proto.nat t) (← Proto.nat s))
      | ["L", t] => do pure (Ttl.Op.load (← Proto.nat t))
      | ["D", t] => do pure (Ttl.Op.del (← Proto.nat t))
      | ["P", d] => do pure (Ttl.Op.pass (← Proto.nat d))
      | _ => none))
    let st := Ttl.run expire parsed
    let g := match Ttl.get st t with | some s => s!"some:{s}" | none => "none"
    let l := match Ttl.ttl st t with | none => "none" | some none => "inf" | some (some n) => s!"{n}"
    pure s!"{g} {l}"
  | _ => none

def cookiesOps : List (String × Op) := [("mkcookie", opMkCookie), ("mkcookie-cfg", opMkCookieCfg), ("rhist", opRHist), ("ttlhist", opTtlHist)]

end O2P.Drv
