import O2P.Drv.Common
import O2P.Model.Conc
import O2P.Model.Publish
/-!
  Driver operations for C12 (refresh under lock) and C20 (snapshot publication).

  * `loadStored`   load stale obtain reload refresh saveOk expired validate
                   → nine 0/1 flags of `SeqOut`
  * `refreshSched` variant nThreads schedule("-" | "0,1,1,…")
                   → canonical summary of `runScheduleVis`
  * `publishSeq`   variant initial files roles schedule
                   snapshot = "E" (empty) | "k:v,k:v"; files = "-" | snapshot-or-"M" joined by "/";
                   roles = "w" | "r" | "v<key>" joined by ","
                   → answers of the validators (in thread order), finished reloads, linearizable flag
  * `raceFree`     fact strings ("func|var|read/write|none/R/W|plain/atomic/private", hex list) and a
                   variable name → 0/1
-/
namespace O2P.Drv
open O2P O2P.Proto

def natList (f : String) : Option (List Nat) :=
  if f == "-" then some [] else (f.splitOn ",").mapM (·.toNat?)

/-! ### C12 -/

def loadResOf : Nat → Option Conc.LoadRes
  | 0 => some .found | 1 => some .noCookie | 2 => some .err | _ => none
def obtainResOf : Nat → Option Conc.ObtainRes
  | 0 => some .ok | 1 => some .err | 2 => some .timeout | _ => none
def reloadResOf : Nat → Option Conc.ReloadRes
  | 0 => some (.found false) | 1 => some (.found true) | 2 => some .missing | 3 => some .err
  | _ => none
def refreshResOf : Nat → Option Conc.RefreshRes
  | 0 => some .ok | 1 => some .noToken | 2 => some .unsupported | 3 => some .failed | _ => none

def opLoadStored : Op
  | [l, st, ob, rl, rf, so, ex, va] => do
    let i : Conc.SeqIn :=
      { load := ← loadResOf (← nat l), stale := ← Proto.bool st, obtain := ← obtainResOf (← nat ob),
        reload := ← reloadResOf (← nat rl), refresh := ← refreshResOf (← nat rf),
        saveOk := ← Proto.bool so, expired := ← Proto.bool ex, validate := ← Proto.bool va }
    let o := Conc.loadStored i
    pure (" ".intercalate ([o.inScope, o.cleared, o.refreshCalled, o.newTokens, o.createdAtReset,
      o.saveCalled, o.saved, o.validateCalled, o.lockReleased].map b))
  | _ => none

def renderThread (t : Conc.ThreadSummary) : String :=
  if !t.done then "run"
  else if t.served then s!"served:{t.gen}:{if t.fresh then "fresh" else "stale"}"
  else "unauth"

def renderSched (s : Conc.Summary) : String :=
  let st := match s.storeGen with
    | some g => toString g ++ (if s.storeFresh then "/fresh" else "/stale")
    | none => "cleared"
  s!"calls={s.refreshCalls} stale={s.staleCalls} idpGen={s.idpGen} store={st} " ++
  s!"lock={if s.lockHeld then "held" else "free"} | " ++ " ".intercalate (s.threads.map renderThread)

def opRefreshSched : Op
  | [v, n, sched] => do
    let v ← Conc.Variant.ofString v
    let n ← nat n
    let sched ← natList sched
    pure (renderSched (Conc.runScheduleVis v n sched))
  | _ => none

/-! ### C20 -/

def parseSnap (s : String) : Option Pub.Snapshot :=
  if s == "E" then some [] else
  (s.splitOn ",").mapM fun kv =>
    match kv.splitOn ":" with
    | [k, v] => do pure ((← k.toNat?), (← v.toNat?))
    | _ => none

def parseFiles (s : String) : Option (List (Option Pub.Snapshot)) :=
  if s == "-" then some [] else
  (s.splitOn "/").mapM fun f => if f == "M" then some none else (parseSnap f).map some

def parseRole (s : String) : Option Pub.Role :=
  if s == "w" then some .writer
  else if s == "r" then some .reloader
  else match s.toList with
    | 'v' :: rest => (String.ofList rest).toNat?.map Pub.Role.validator
    | _ => none

def renderOptNat : Option Nat → String
  | some n => toString n
  | none => "-"

def opPublishSeq : Op
  | [v, initial, files, roles, sched] => do
    let v ← Pub.Variant.ofString v
    let initial ← parseSnap initial
    let files ← parseFiles files
    let roles ← if roles == "-" then some [] else (roles.splitOn ",").mapM parseRole
    let sched ← natList sched
    let s := Pub.runPublish v initial files roles sched
    let vals := s.validators.map fun x =>
      if x.done then s!"{x.tid}={renderOptNat x.answer}@{x.startV}-{x.endV}" else s!"{x.tid}=run"
    let rels := s.reloads.map fun (t, k) => s!"{t}>{renderOptNat k}"
    pure (s!"versions={s.versions} lin={b s.linearizable} | " ++ " ".intercalate vals ++ " | " ++
      " ".intercalate rels)
  | _ => none

/-- same parser as `O2P.Race.parseFact` in `O2P/Props/C20Facts.lean`, kept here on `String`
    so that the driver stays independent of the Props modules -/
def parseFactStr (s : String) : Option (Race.AccessFact × Bool) :=
  match s.splitOn "|" with
  | [f, v, rw, mode, kind] => do
    let w ← if rw == "write" then some true else if rw == "read" then some false else none
    let m ← if mode == "none" then some Race.LockMode.none else if mode == "R" then some .R
            else if mode == "W" then some .W else none
    let (atomic, priv) ← if kind == "plain" then some (false, false)
            else if kind == "atomic" then some (true, false)
            else if kind == "private" then some (false, true) else none
    pure (⟨f, v, w, if m == .none then "" else "rwm", m, atomic⟩, priv)
  | _ => none

def opRaceFree : Op
  | [facts, var] => do
    let facts ← strs facts
    let var ← str var
    let parsed ← facts.mapM (fun f => parseFactStr (String.ofList f))
    let shared := (parsed.filter (fun p => !p.2 && p.1.var == String.ofList var)).map (·.1)
    pure (b (Race.raceFree shared))
  | _ => none

def concOps : List (String × Op) :=
  [("loadStored", opLoadStored), ("refreshSched", opRefreshSched),
   ("publishSeq", opPublishSeq), ("raceFree", opRaceFree)]

end O2P.Drv
