import O2P.Drv.Common
import O2P.Model.Headers
/-!
  Driver operations for suite `headers` (C07).

  Field encodings (besides the generic ones of `O2P.Proto`):
    cfg      `-` | entries joined by `;`; entry = `hex(name),0|1[,V]*`,
             V = `S:hex(secret)` | `C:hex(claim):hex(prefix):-` | `C:hex(claim):hex(prefix):hex(password)`
    session  `-` (nil) | `hex(email),hex(user),hex(preferredUsername),hex(accessToken),hex(idToken),
             hex(refreshToken),G,T,T` with G = `-` | hex groups joined by `:`, T = `-` (nil pointer) | hex(text)
    pairs    `-` | `hex(name):hex(value)` joined by `,`       (client / pre-set response headers, in order)
  Output of a header map: entries sorted by key bytes, `hex(key)=hexs(values)` joined by `;`, `-` if empty.
-/
namespace O2P.Drv.HeadersDrv
open O2P O2P.Drv O2P.Proto O2P.Hdr

def parseOptStr (f : String) : Option (Option Str) :=
  if f == "-" then some none else (str f).map some

def parseVal (t : String) : Option ValueSource :=
  match t.splitOn ":" with
  | ["S", v] => do pure (.secret (← str v))
  | ["C", c, p, pw] => do pure (.claim (← str c) (← str p) (← parseOptStr pw))
  | _ => none

def parseCfgEntry (t : String) : Option HeaderCfg :=
  match t.splitOn "," with
  | n :: p :: vs => do
    pure { name := (← str n), preserve := (← Proto.bool p), values := (← vs.mapM parseVal) }
  | _ => none

def parseCfg (f : String) : Option (List HeaderCfg) :=
  if f == "-" then some [] else (f.splitOn ";").mapM parseCfgEntry

def parseColonStrs (f : String) : Option (List Str) :=
  if f == "-" then some [] else (f.splitOn ":").mapM str

def parseSession (f : String) : Option (Option Session) :=
  if f == "-" then some none else
  match f.splitOn "," with
  | [e, u, pu, a, i, r, g, ca, eo] => do
    pure (some { email := (← str e), user := (← str u), preferredUsername := (← str pu),
                 accessToken := (← str a), idToken := (← str i), refreshToken := (← str r),
                 groups := (← parseColonStrs g), createdAt := (← parseOptStr ca), expiresOn := (← parseOptStr eo) })
  | _ => none

def parsePairs (f : String) : Option (List (Str × Str)) :=
  if f == "-" then some [] else
  (f.splitOn ",").mapM (fun t => match t.splitOn ":" with
    | [n, v] => do pure ((← str n), (← str v))
    | _ => none)

def strLt : Str → Str → Bool
  | [], [] => false
  | [], _ :: _ => true
  | _ :: _, [] => false
  | a :: as, c :: cs =>
    if a.toNat < c.toNat then true else if c.toNat < a.toNat then false else strLt as cs

def insertSorted (e : Str × List Str) : Headers → Headers
  | [] => [e]
  | x :: xs => if strLt e.1 x.1 then e :: x :: xs else x :: insertSorted e xs

def showHeaders (h : Headers) : String :=
  let h := (h.filter (fun e => !e.2.isEmpty)).foldr insertSorted []
  if h.isEmpty then "-" else ";".intercalate (h.map (fun e => s!"{hex e.1}={hexs e.2}"))

def showOutcome : Outcome Headers → String
  | .ok h => showHeaders h
  | .err _ => "ERR"
  | .panic _ => "PANIC"

def showCfgVal : ValueSource → String
  | .secret v => s!"S:{hex v}"
  | .claim c p none => s!"C:{hex c}:{hex p}:-"
  | .claim c p (some pw) => s!"C:{hex c}:{hex p}:{hex pw}"

def showCfg (cfg : List HeaderCfg) : String :=
  if cfg.isEmpty then "-" else
  ";".intercalate (cfg.map (fun c => ",".intercalate ([hex c.name, b c.preserve] ++ c.values.map showCfgVal)))

def opCanonKey : Op
  | [s] => do pure (hex (canonKey (← str s)))
  | _ => none

/-- the repository's code is the repaired one (`fixed := true`): a nil timestamp yields no value -/
def opHdrReq : Op
  | [cfg, sess, client] => do
    pure (showOutcome (pipelineRequest true b64Std (← parseCfg cfg) (← parseSession sess) (fromClient (← parsePairs client))))
  | _ => none

def opHdrResp : Op
  | [cfg, sess, resp] => do
    pure (showOutcome (pipelineResponse true b64Std (← parseCfg cfg) (← parseSession sess) (fromClient (← parsePairs resp))))
  | _ => none

/-- end-to-end: for each listed name, the values the upstream (kind `req`) / the auth-only client
    (kind `resp`) sees under that name -/
def opHdrE2E : Op
  | [kind, cfg, sess, client, names] => do
    let cfg ← parseCfg cfg
    let sess ← parseSession sess
    let client ← parsePairs client
    let names ← strs names
    let out ← (if kind == "req" then some (pipelineRequest true b64Std cfg sess (fromClient client))
               else if kind == "resp" then some (pipelineResponse true b64Std cfg sess (fromClient client))
               else none)
    match out with
    | .ok h => pure (if names.isEmpty then "-" else
        ";".intercalate (names.map (fun n => s!"{hex (canonKey n)}={hexs (hValues h n)}")))
    | .err _ => pure "ERR"
    | .panic _ => pure "PANIC"
  | _ => none

def opLegacy : Op
  | [flags, pw] => do
    let m ← nat flags
    let bit := fun (i : Nat) => (m >>> i) % 2 == 1
    let l : LegacyHeaders := LegacyHeaders.mk (bit 0) (bit 1) (bit 2) (bit 3) (bit 4) (bit 5) (bit 6) (bit 7) (← str pw) (bit 8)
    let r := legacyConvert l
    pure s!"{showCfg r.1} {showCfg r.2}"
  | _ => none

def ops : List (String × Op) :=
  [("canonkey", opCanonKey), ("hdr_req", opHdrReq), ("hdr_resp", opHdrResp), ("hdr_e2e", opHdrE2E), ("legacy", opLegacy)]

end O2P.Drv.HeadersDrv

namespace O2P.Drv
def headersOps : List (String × Op) := HeadersDrv.ops
end O2P.Drv
