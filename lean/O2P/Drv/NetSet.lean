import O2P.Drv.Common
import O2P.Model.NetSet
import O2P.Model.ClientIP
import O2P.Model.Routes
/-!
  Driver operations for the trusted-IP part of C15 (suites `netset`, `trustedip`).

  Wire formats (all numbers decimal):
  * a configured network   `is4text,addrBits,prefix`   (`is4text` 0/1, `prefix` = `-` for a bare
    address); a list of them is `;`-separated, `-` = empty list
  * a lookup address       `kind,bits`   (kinds of `O2P.decodeLookup`: 0 ParseIP of dotted
    quad, 1 ParseIP of IPv6 text, 2 raw 4-byte slice, other = nil)
  * a parsed network       `ipLen:ipBits:maskLen:maskBits` or `nil`
  * a NetSet slice         `maskLen:maskBits:ones[k,k,…]` per map, `;`-separated, keys sorted,
    key = `4:bits` / `16:bits`
-/
namespace O2P.Drv
open O2P O2P.Proto

def parseNetSpec (t : String) : Option (Bool × Nat × Option Nat) :=
  match t.splitOn "," with
  | [f, a, p] => do
    let f ← Proto.bool f
    let a ← nat a
    let p ← if p == "-" then some none else (nat p).map some
    pure (f, a, p)
  | _ => none

def parseNetSpecs (f : String) : Option (List (Bool × Nat × Option Nat)) :=
  if f == "-" then some [] else (f.splitOn ";").mapM parseNetSpec

def parseLookup (f : String) : Option (Nat × Nat) :=
  match f.splitOn "," with
  | [k, a] => do pure ((← nat k), (← nat a))
  | _ => none

def keyStr : RawIP → String
  | .ip4 a => s!"4:{a.toNat}"
  | .ip16 a => s!"16:{a.toNat}"
  | .malformed => "bad"

def dumpMaps (ms : List IPNetMap) : String :=
  ";".intercalate (ms.map fun m =>
    let (l, bts) : Nat × Nat := match m.mask with | .m4 x => (4, x.toNat) | .m16 x => (16, x.toNat)
    let ks := ((m.ips.map keyStr).toArray.qsort (· < ·)).toList
    s!"{l}:{bts}:{m.mask.size}[{",".intercalate ks}]")

def outcomeStr : Outcome Bool → String
  | .ok true => "1"
  | .ok false => "0"
  | .err _ => "err"
  | .panic _ => "panic"

/-- `netset <nets> <lookup>` ⇒ `P <parsed;…> | H <has> | S <ip4 maps> / <ip6 maps>`
    (the same computation as `O2P.NetSet.run`, with the set built once and also dumped) -/
def opNetSet : Op
  | [nets, lk] => do
    let nets ← parseNetSpecs nets
    let lk ← parseLookup lk
    let parsed := nets.map (fun x => parseIPNetSem (decodeNetInput x))
    let good := parsed.filterMap id
    let ip := decodeLookup lk
    let (has, st) := match NetSet.build good with
      | .ok w => (w.has ip, s!"{dumpMaps w.ip4NetMaps} / {dumpMaps w.ip6NetMaps}")
      | .err e => (.err e, "err")
      | .panic e => (.panic e, "panic")
    let net : Option (Nat × Nat × Nat × Nat) → String
      | none => "nil"
      | some (a, b, c, d) => s!"{a}:{b}:{c}:{d}"
    pure s!"P {";".intercalate (parsed.map (fun o => net (o.map encodeIPNet)))} | H {outcomeStr has} | S {st}"
  | _ => none

/-- oracle table for `net.SplitHostPort`: `hex(s),0|1,hex(host);…` -/
def parseSplitTbl (f : String) : Option (List (Str × Option Str)) :=
  if f == "-" then some [] else
  (f.splitOn ";").mapM (fun t => match t.splitOn "," with
    | [s, ok, h] => do
      let s ← str s
      let ok ← Proto.bool ok
      let h ← str h
      pure (s, if ok then some h else none)
    | _ => none)

/-- oracle table for `net.ParseIP`: `hex(s),0|1,bits128;…` -/
def parseIPTbl (f : String) : Option (List (Str × Option Nat)) :=
  if f == "-" then some [] else
  (f.splitOn ";").mapM (fun t => match t.splitOn "," with
    | [s, ok, a] => do
      let s ← str s
      let ok ← Proto.bool ok
      let a ← nat a
      pure (s, if ok then some a else none)
    | _ => none)

def parseHeaders (f : String) : Option Headers :=
  if f == "-" then some [] else
  (f.splitOn ";").mapM (fun t => match t.splitOn "," with
    | k :: vs => do pure ((← str k), (← vs.mapM str))
    | [] => none)

/-- `NetText` from the shipped tables; `miss` selects what an entry that was NOT shipped
    answers, so that the driver can detect a dependence on a missing entry (it runs the model
    with both defaults and refuses to answer when they differ). -/
def textOf (st : List (Str × Option Str)) (pt : List (Str × Option Nat)) (miss : Bool) : NetText where
  splitHostPort s := match st.find? (·.1 == s) with
    | some e => e.2
    | none => if miss then some "\x00missing".toList else none
  parseIP s := match pt.find? (·.1 == s) with
    | some e => e.2.map (BitVec.ofNat 128)
    | none => if miss then some 0 else none

def clientIPStr : ClientIP → String
  | .addr a => s!"ip:{a.toNat}"
  | .absent => "nil"
  | .error => "err"

/-- `trustedip <nets|nil> <parser|-> <headers> <remoteAddr> <skipPreflight> <method> <splitTbl> <parseTbl>`
    ⇒ `<GetClientIP result> <isTrustedIP> <IsAllowedRequest (no routes)>` -/
def opTrustedIP : Op
  | [nets, parser, hdrs, ra, skipPre, method, stbl, ptbl] => do
    let nets ← if nets == "nil" then some none else (parseNetSpecs nets).map some
    let parser ← if parser == "-" then some none else (str parser).map some
    let hdrs ← parseHeaders hdrs
    let ra ← str ra
    let skipPre ← Proto.bool skipPre
    let method ← str method
    let st ← parseSplitTbl stbl
    let pt ← parseIPTbl ptbl
    let good := nets.map (fun ns => (ns.map (fun x => parseIPNetSem (decodeNetInput x))).filterMap id)
    let go (miss : Bool) : String :=
      let T := textOf st pt miss
      let cip := getClientIP T parser hdrs ra
      let tr := isTrustedIP T good parser hdrs ra
      let allowed :=
        if isPreflight skipPre method then "1"
        else outcomeStr tr   -- `isAllowedRoute` is false without routes
      s!"{clientIPStr cip} {outcomeStr tr} {allowed}"
    let a := go false
    let b := go true
    if a == b then pure a else none
  | _ => none

/-- `realip-parser <headerKey>` ⇒ `ok <canonical header>` | `err` -/
def opRealIPParser : Op
  | [k] => do
    let k ← str k
    pure (match getRealClientIPParser k with
      | some h => s!"ok {hex h}"
      | none => "err")
  | _ => none

/-- `realip-trimspace <s>` ⇒ `strings.TrimSpace(s)` -/
def opTrimSpace : Op
  | [s] => do pure (hex (trimSpace (← str s)))
  | _ => none

/-- `realip-canonkey <s>` ⇒ `http.CanonicalHeaderKey(s)` -/
def opCanonKey : Op
  | [s] => do pure (hex (canonicalHeaderKey (← str s)))
  | _ => none

def netsetOps : List (String × Op) :=
  [("netset", opNetSet), ("trustedip", opTrustedIP), ("realip-parser", opRealIPParser),
   ("realip-trimspace", opTrimSpace), ("realip-canonkey", opCanonKey)]

end O2P.Drv
