import O2P.Drv.Common
import O2P.Model.Token
/-!
  Driver operations for suite `tokens` (C04).

  JSON wire encoding (one protocol field, tokens separated by one space):
    `n` | `t` | `f` | `#x<hex>` number literal | `sx<hex>` string |
    `[x<hex>` items… `]`   array;  the hex is `json.Marshal` of the whole array (the `render` oracle)
    `{x<hex>` (x<hex key> value)… `}`   object, same
  `render` is the table of every array/object node met while parsing (looked up by structural
  equality), so `json.Marshal` stays a parameter shipped by the harness.

  cfg field: `audClaims;clientID;extraAudiences;userClaim;emailClaim;groupsClaim;allowUnverified;profileEnabled`.
-/
namespace O2P.Drv.TokenDrv
open O2P O2P.Drv O2P.Proto O2P.Tok

abbrev RTab := List (Json × Str)

/-- recursive-descent parser with fuel; returns the value, the rest of the tokens and the render
    entries collected -/
def parseVal : Nat → List String → Option (Json × List String × RTab)
  | 0, _ => none
  | _, [] => none
  | fuel + 1, tk :: rest =>
    if tk == "n" then some (.null, rest, [])
    else if tk == "t" then some (.bool true, rest, [])
    else if tk == "f" then some (.bool false, rest, [])
    else if tk.startsWith "#" then do
      let t ← str (String.ofList (tk.toList.drop 1))
      pure (.num t, rest, [])
    else if tk.startsWith "s" then do
      let t ← str (String.ofList (tk.toList.drop 1))
      pure (.str t, rest, [])
    else if tk.startsWith "[" then do
      let rtxt ← str (String.ofList (tk.toList.drop 1))
      let rec items (f : Nat) (ts : List String) (acc : List Json) (tab : RTab) : Option (List Json × List String × RTab) :=
        match f with
        | 0 => none
        | f + 1 =>
          match ts with
          | [] => none
          | "]" :: r => some (acc.reverse, r, tab)
          | _ => do
            let (v, r, t1) ← parseVal fuel ts
            items f r (v :: acc) (tab ++ t1)
      let (xs, r, tab) ← items (fuel + 1) rest [] []
      let j := Json.arr xs
      pure (j, r, (j, rtxt) :: tab)
    else if tk.startsWith "{" then do
      let rtxt ← str (String.ofList (tk.toList.drop 1))
      let rec fields (f : Nat) (ts : List String) (acc : List (Str × Json)) (tab : RTab) : Option (List (Str × Json) × List String × RTab) :=
        match f with
        | 0 => none
        | f + 1 =>
          match ts with
          | [] => none
          | "}" :: r => some (acc.reverse, r, tab)
          | k :: r0 => do
            let key ← str k
            let (v, r, t1) ← parseVal fuel r0
            fields f r ((key, v) :: acc) (tab ++ t1)
      let (kvs, r, tab) ← fields (fuel + 1) rest [] []
      let j := Json.obj kvs
      pure (j, r, (j, rtxt) :: tab)
    else none

def parseJson (f : String) : Option (Json × RTab) :=
  let ts := f.splitOn " "
  match parseVal (ts.length + 1) ts with
  | some (j, [], tab) => some (j, tab)
  | _ => none

def renderOf (tab : RTab) (j : Json) : Str :=
  match tab.find? (fun e => e.1 == j) with
  | some e => e.2
  | none => "?unrendered?".toList

/-- `!` = unparseable / failed, otherwise JSON -/
def parseOptJson (f : String) : Option (Option Json × RTab) :=
  if f == "!" then some (none, []) else (parseJson f).map (fun (j, t) => (some j, t))

def parseProfile (f : String) : Option (Profile × RTab) :=
  if f == "!" then some (.failed, [])
  else if f == "-" then some (Profile.empty, [])
  else (parseJson f).map (fun (j, t) => (.body j, t))

def parseCfg (f : String) : Option Tok.Cfg :=
  match f.splitOn ";" with
  | [ac, cid, ex, uc, ec, gc, au, pe] => do
    pure { verifier := { audClaims := ← strs ac, clientID := ← str cid, extraAudiences := ← strs ex },
           userClaim := ← str uc, emailClaim := ← str ec, groupsClaim := ← str gc,
           allowUnverified := ← Proto.bool au, profileEnabled := ← Proto.bool pe }
  | _ => none

def outcomeStr : Outcome Unit → String
  | .ok _ => "ok"
  | .err _ => "err"
  | .panic _ => "panic"

def errStr : Err → String
  | .missingIDToken => "missing"
  | .verify => "verify"
  | .parse => "parse"
  | .profile => "profile"
  | .unverified => "unverified"
  | .typed => "typed"

/-- audience check alone: audClaims, allowed, claims object -/
def opAud : Op
  | [ac, allowed, claims] => do
    let (j, _) ← parseJson claims
    match j with
    | .obj kvs => pure (outcomeStr (verifyAudience (← strs ac) (← strs allowed) kvs))
    | _ => none
  | _ => none

/-- the pre-fix audience check (regression corpus: the harness knows which inputs used to panic) -/
def opAudOld : Op
  | [ac, allowed, claims] => do
    let (j, _) ← parseJson claims
    match j with
    | .obj kvs => pure (outcomeStr (verifyAudienceOld (← strs ac) (← strs allowed) kvs))
    | _ => none
  | _ => none

/-- one GetClaimInto: token JSON, profile, claim, destination kind (s | l | b) -/
def opClaim : Op
  | [tok, prof, claim, kind] => do
    let (tj, t1) ← parseJson tok
    let (pf, t2) ← parseProfile prof
    let render := renderOf (t1 ++ t2)
    let claim ← str claim
    match getClaim tj pf claim with
    | .error _ => pure "err"
    | .ok none => pure "absent"
    | .ok (some v) =>
      if kind == "s" then pure s!"s:{hex (toStr render v)}"
      else if kind == "l" then pure s!"l:{hexs (toStrSlice render v)}"
      else if kind == "b" then pure s!"b:{b (toBool v)}"
      else none
  | _ => none

def sessStr (s : Session) : String :=
  s!"u={hex s.user} e={hex s.email} g={hexs s.groups} p={hex s.preferredUsername}"

def oldMarker : Str := "OLD-ID-TOKEN".toList

def parseOld (f : String) : Option Session :=
  match f.splitOn ";" with
  | [u, e, g, p, rt] => do
    pure { user := ← str u, email := ← str e, groups := ← strs g, preferredUsername := ← str p,
           idToken := oldMarker, accessToken := "old-at".toList, refreshToken := ← str rt }
  | _ => none

def idtStr (raw : Str) (s : Session) : String :=
  if s.idToken == raw && !raw.isEmpty then "new"
  else if s.idToken == oldMarker then "old"
  else if s.idToken.isEmpty then "empty"
  else "other"

def expStr (s : Session) : String :=
  match s.expiresOn with
  | some e => toString e
  | none => "-"

/-- a session from a token on one of the entry paths.
    fields: path cfg raw libOK payload profile accessToken refreshToken old expiry -/
def opSession : Op
  | [path, cfg, raw, libOK, payload, prof, atk, rtk, old, expiry] => do
    let cfg ← parseCfg cfg
    let raw ← str raw
    let (pl, t1) ← parseOptJson payload
    let (pf, t2) ← parseProfile prof
    let render := renderOf (t1 ++ t2)
    let expiry ← Proto.int expiry
    let t : Token := { raw := raw, libOK := ← Proto.bool libOK, payload := pl, expiry := expiry }
    let r : TokenResp := { idToken := t, accessToken := ← str atk, refreshToken := ← str rtk, expiry := 0 }
    let full (s : Session) := s!"ok {sessStr s} at={hex s.accessToken} rt={hex s.refreshToken} idt={idtStr raw s}"
    if path == "cb" then
      pure (match Tok.callbackSession cfg render r pf 0 with
        | .ok s => full s
        | .error e => "err:" ++ errStr e)
    else if path == "rf" then do
      let o ← parseOld old
      pure (match refreshRes cfg render o (some r) pf 0 with
        | .refreshed s => full s
        | .notRefreshed => "notrefreshed"
        | .notImplemented => "notimpl"
        | .err =>
          match refreshSession cfg render o r pf 0 with
          | .error e => "err:" ++ errStr e
          | .ok _ => "err:?")
    else if path == "br" then
      pure (match bearerOIDC cfg render t 0 with
        | .ok s => full s ++ s!" exp={expStr s}"
        | .error e => "err:" ++ errStr e)
    else if path == "ex" then
      pure (match bearerExtra cfg.verifier t with
        | .ok s => full s ++ s!" exp={expStr s}"
        | .error e => "err:" ++ errStr e)
    else none
  | _ => none

/-- header → token (regex verdicts shipped as an oracle table) -/
def opHdr : Op
  | [header, rx] => do
    let tbl ← parseRx rx
    pure (match findToken (rxOf tbl "j".toList) (← str header) with
      | some t => hex t
      | none => "none")
  | _ => none

/-- the concrete reading of the JWT-shape regex against the real engine -/
def opRx : Op
  | [s] => do pure (b (jwtShape (← str s)))
  | _ => none

/-- `audience:libOK` pairs of the extra issuers -/
def parseExtras (f : String) : Option (List (Str × Bool)) :=
  if f == "-" then some [] else
  (f.splitOn ",").mapM (fun t => match t.splitOn ":" with
    | [a, v] => do pure ((← str a), (← Proto.bool v))
    | _ => none)

/-- the whole JWT session loader on an Authorization header.
    fields: header rx cfg mainLibOK extras payload expiry -/
def opJwt : Op
  | [header, rx, cfg, mainOK, extras, payload, expiry] => do
    let tbl ← parseRx rx
    let cfg ← parseCfg cfg
    let mainOK ← Proto.bool mainOK
    let extras ← parseExtras extras
    let (pl, t1) ← parseOptJson payload
    let render := renderOf t1
    let expiry ← Proto.int expiry
    let mk (ok : Bool) (raw : Str) : Token := { raw := raw, libOK := ok, payload := pl, expiry := expiry }
    let loaders := jwtLoaders cfg render 0 (mk mainOK)
      (extras.map (fun e => ({ cfg.verifier with clientID := e.1 }, mk e.2)))
    pure (match getJwtSession (rxOf tbl "j".toList) loaders (← str header) with
      | some s => "ok " ++ sessStr s
      | none => "none")
  | _ => none

def ops : List (String × Op) :=
  [("tok_aud", opAud), ("tok_aud_old", opAudOld), ("tok_claim", opClaim), ("tok_session", opSession),
   ("tok_hdr", opHdr), ("tok_rx", opRx), ("tok_jwt", opJwt)]

end O2P.Drv.TokenDrv

namespace O2P.Drv
def tokenOps : List (String × Op) := TokenDrv.ops
end O2P.Drv
