import O2P.Drv.Common
import O2P.Model.Upstream
/-!
  Driver operations for the upstream-selection model (C17).

  `ups-route`  ups order mpath target loc rx newURIs
      → `<adm> <stable> U <hexid>` | `… 301 <hexloc>` | `… 301` (loc = 0) | `… 404` | `… err500`
        (`err500`: the selected rewrite upstream's replaced URI has an unparseable query ⇒ 500 page)
  `ups-first`  ups order mpath rx
      → `<adm> <stable> U <hexid>` | `<adm> <stable> none`
  `ups-proxy`  ups extra order mpath requestURI inHost rx newURIs
      → `<adm> U <hexid> fwd <hextarget> <hexhost>` | `<adm> U <hexid> local` | `<adm> err500`
        | `<adm> 301` | `<adm> 404`
  `ups-clean`  path → hex (mux cleanPath)

  Field formats: `ups` = `;`-separated `hexid,hexpath,hexrewrite` (`-` = no upstream);
  `order` = Go's registration order as comma separated indices into `ups` (`-` = empty);
  `extra` = `;`-separated `kind,pass,hextargethost` (kind h|s|f, pass n|t|f);
  `rx` = regex oracle table (see Common); `newURIs` = `;`-separated `hexid,hexnewuri`.
  `<adm>` = is Go's order `Admissible`; `<stable>` = does it equal `sortUpstreams` (only reported
  for n ≤ 12, where Go's pdqsort is an insertion sort; `-` otherwise).
-/
namespace O2P.Drv
open O2P O2P.Proto O2P.Upstream

def parseUps (f : String) : Option (List Upstream) :=
  if f == "-" then some [] else
  (f.splitOn ";").mapM (fun t => match t.splitOn "," with
    | [i, p, r] => do pure { id := (← str i), path := (← str p), rewriteTarget := (← str r) }
    | _ => none)

def parseOrder (ups : List Upstream) (f : String) : Option (List Upstream) :=
  if f == "-" then some [] else
  (f.splitOn ",").mapM (fun t => do
    let i ← t.toNat?
    ups[i]?)

structure UpExtra where
  kind : Char
  pass : Option Bool
  targetHost : Str

def parseExtra (f : String) : Option (List UpExtra) :=
  if f == "-" then some [] else
  (f.splitOn ";").mapM (fun t => match t.splitOn "," with
    | [k, p, h] => do
      let kind ← (match k with | "h" => some 'h' | "s" => some 's' | "f" => some 'f' | _ => none)
      let pass ← (match p with | "n" => some none | "t" => some (some true) | "f" => some (some false) | _ => none)
      pure { kind := kind, pass := pass, targetHost := (← str h) }
    | _ => none)

def parseNewURIs (f : String) : Option (List (Str × Str)) :=
  if f == "-" then some [] else
  (f.splitOn ";").mapM (fun t => match t.splitOn "," with
    | [i, u] => do pure ((← str i), (← str u))
    | _ => none)

def admStr (sorted ups : List Upstream) : String :=
  b (decide (Admissible sorted ups))

def stableStr (sorted ups : List Upstream) : String :=
  if ups.length ≤ 12 then b (sortUpstreams ups == sorted) else "-"

/-- query suffix of an origin-form target: from the first `?` (inclusive) -/
def qSuffix : Str → Str
  | [] => []
  | c :: cs => if c = '?' then c :: cs else qSuffix cs

def opUpsRoute : Op
  | [ups, order, mpath, target, loc, rx, newURIs] => do
    let nu ← parseNewURIs newURIs
    let ups ← parseUps ups
    let sorted ← parseOrder ups order
    let mpath ← str mpath
    let target ← str target
    let loc ← Proto.bool loc
    let tbl ← parseRx rx
    let pre := s!"{admStr sorted ups} {stableStr sorted ups} "
    match serve cleanPath (rxOf tbl) sorted mpath with
    | .cleanRedirect l => pure (pre ++ (if loc then s!"301 {hex (l ++ qSuffix target)}" else "301"))
    | .routed .redirect301 =>
      pure (pre ++ (if loc then s!"301 {hex (slashRedirectLocation target)}" else "301"))
    | .routed .notFound => pure (pre ++ "404")
    | .routed (.upstream u) =>
      let newURI ← (if u.isRewrite then (nu.find? (fun e => e.1 == u.id)).map (·.2) else some [])
      if u.isRewrite && rewriteError queryUnescape newURI then pure (pre ++ "err500")
      else pure (pre ++ s!"U {hex u.id}")
  | _ => none

def opUpsFirst : Op
  | [ups, order, mpath, rx] => do
    let ups ← parseUps ups
    let sorted ← parseOrder ups order
    let mpath ← str mpath
    let tbl ← parseRx rx
    let pre := s!"{admStr sorted ups} {stableStr sorted ups} "
    match firstMatch (rxOf tbl) sorted mpath with
    | some u => pure (pre ++ s!"U {hex u.id}")
    | none => pure (pre ++ "none")
  | _ => none

def opUpsProxy : Op
  | [ups, extra, order, mpath, requestURI, inHost, rx, newURIs] => do
    let ups ← parseUps ups
    let extra ← parseExtra extra
    if extra.length != ups.length then none
    let sorted ← parseOrder ups order
    let mpath ← str mpath
    let requestURI ← str requestURI
    let inHost ← str inHost
    let tbl ← parseRx rx
    let nu ← parseNewURIs newURIs
    let pre := s!"{admStr sorted ups} "
    match serve cleanPath (rxOf tbl) sorted mpath with
    | .cleanRedirect _ => pure (pre ++ "301")
    | .routed .redirect301 => pure (pre ++ "301")
    | .routed .notFound => pure (pre ++ "404")
    | .routed (.upstream u) =>
      let idx ← ups.findIdx? (fun v => v.id == u.id)
      let ex ← extra[idx]?
      -- the regex replace result is an oracle field; it must be present for a rewrite upstream
      let newURI ← (if u.isRewrite then (nu.find? (fun e => e.1 == u.id)).map (·.2) else some [])
      match upstreamRequestURI? queryEscape queryUnescape urlEscapedPath u requestURI newURI with
      | none => pure (pre ++ "err500")
      | some t =>
        if ex.kind == 'h' then
          pure (pre ++ s!"U {hex u.id} fwd {hex (outgoingTarget "http".toList ['/'] t)} {hex (outgoingHost ex.pass inHost ex.targetHost)}")
        else pure (pre ++ s!"U {hex u.id} local")
  | _ => none

def opUpsClean : Op
  | [p] => do pure (hex (cleanPath (← str p)))
  | _ => none

def upstreamOps : List (String × Op) :=
  [("ups-route", opUpsRoute), ("ups-first", opUpsFirst), ("ups-proxy", opUpsProxy), ("ups-clean", opUpsClean)]

end O2P.Drv
