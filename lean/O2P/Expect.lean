import O2P.Gen.Facts
/-! Umbrella so that `lake build O2P.Expect` always has a target; per-property expectations
    are in O2P/Expect/Cxx.lean. -/
