import O2P.Gen.Tr
import O2P.Lemmas.GoPrim
import O2P.Model.Signed
/-
  O2P.Props.TrSigned — the regenerated functions of pkg/encryption/utils.go (`SecretBytes`,
  `cookieSignature`, `checkHmac`, `checkSignature`, `Validate`, `SignedValue`,
  `GenerateCodeChallenge`) against the model of O2P/Model/Signed.lean that the C02 / C09 / C05
  theorems are about — for every input, every keyed hash `E.mac`, every clock reading `E.nowNs`.
  None of them panics (`cookieSignature` indexes `args[0]`: every call site in the translated set
  passes the seed first).
-/
set_option linter.unusedSimpArgs false
set_option linter.unusedVariables false
open O2P O2P.Go

namespace O2P.TrSigned

theorem trimRight_eq (s : Str) : Go.stringsTrimRight s ['='] = trimRightEq s := by
  unfold Go.stringsTrimRight trimRightEq
  congr 2
  funext c
  by_cases h : c = '=' <;> simp [h]

theorem SecretBytes_eq (E : Go.Ext) (secret : Str) :
    Gen.Tr.SecretBytes E secret = .ok (secretBytes secret) := by
  unfold Gen.Tr.SecretBytes secretBytes
  rw [trimRight_eq]
  unfold Go.b64RawUrlDecode
  obtain ⟨r, hr⟩ : ∃ r, b64Decode true false (trimRightEq secret) = r := ⟨_, rfl⟩
  simp only [hr]
  cases r with
  | none => simp [pure, Except.pure]
  | some b =>
    simp only [Go.forRange, Go.len, bind, Except.bind, pure, Except.pure]
    by_cases h16 : b.length = 16
    · simp [h16]
    · by_cases h24 : b.length = 24
      · simp [h24]
      · by_cases h32 : b.length = 32
        · simp [h32]
        · have e16 : ¬ ((b.length : Int) = 16) := by omega
          have e24 : ¬ ((b.length : Int) = 24) := by omega
          have e32 : ¬ ((b.length : Int) = 32) := by omega
          simp [h16, h24, h32, e16, e24, e32]

theorem foldl_hmacWrite (h : Go.Hmac) (args : List Str) :
    args.foldl Go.hmacWrite h = ⟨h.key, h.written ++ args.flatten⟩ := by
  induction args generalizing h with
  | nil => simp
  | cons a as ih => simp [List.foldl_cons, ih, Go.hmacWrite, List.append_assoc]

theorem cookieSignature_eq (E : Go.Ext) (seed : Str) (args : List Str) :
    Gen.Tr.cookieSignature E () (seed :: args) = .ok (O2P.cookieSignature E.mac seed args, none) := by
  unfold Gen.Tr.cookieSignature O2P.cookieSignature
  have hloop := forRangeS_fold (ρ := Str × Go.Err) args (Go.hmacNew seed)
    (fun arg st => do
      let mut h := st
      h := Go.hmacWrite h arg
      let err : Go.Err := none
      if (err != none) then
        return Sum.inl (([] : Str), err)
      return Sum.inr h)
    Go.hmacWrite
    (fun x _ s => by simp [pure, Except.pure])
  have hlen : ¬ ((args.length : Int) + 1 < 1) := by omega
  simp [Go.idx, Go.sliceFrom, bind, Except.bind, pure, Except.pure, hlen] at hloop ⊢
  rw [hloop]
  simp [foldl_hmacWrite, Go.hmacNew, Go.hmacSum, Go.b64UrlEncode]

theorem checkHmac_eq (E : Go.Ext) (input expected : Str) :
    Gen.Tr.checkHmac E input expected = .ok (O2P.checkHmac input expected) := by
  unfold Gen.Tr.checkHmac O2P.checkHmac Go.b64UrlDecode
  obtain ⟨r1, h1⟩ : ∃ r, b64Decode true true input = r := ⟨_, rfl⟩
  obtain ⟨r2, h2⟩ : ∃ r, b64Decode true true expected = r := ⟨_, rfl⟩
  simp only [h1, h2]
  cases r1 with
  | none => simp [pure, Except.pure]
  | some a =>
    cases r2 with
    | none => simp [pure, Except.pure]
    | some b => by_cases h : a = b <;> simp [pure, Except.pure, Go.hmacEqual, h]

theorem checkSignature_eq (E : Go.Ext) (signature seed : Str) (args : List Str) :
    Gen.Tr.checkSignature E signature (seed :: args)
      = .ok (O2P.checkSignature E.mac signature seed args) := by
  unfold Gen.Tr.checkSignature O2P.checkSignature
  simp [cookieSignature_eq, checkHmac_eq, bind, Except.bind, pure, Except.pure]

/-- what a caller of `Validate` can observe: `(value, t)` if `ok`, nothing otherwise -/
def observe (r : Str × Go.Time × Bool) : Option (Str × Go.Time) :=
  if r.2.2 then some (r.1, r.2.1) else none

theorem idx3 (a b c : Str) :
    Go.idx [a, b, c] 0 = .ok a ∧ Go.idx [a, b, c] 1 = .ok b ∧ Go.idx [a, b, c] 2 = .ok c := by
  simp [Go.idx, pure, Except.pure]

theorem window_bool (now ts exp : Int) :
    ((exp == 0) || (decide (Go.timeUnix ts > now + exp * -1) &&
      decide (Go.timeUnix ts < now + Go.timeMinute * 5))) = decide (inWindow ts exp now) := by
  unfold Go.timeUnix Go.timeMinute
  rw [Bool.eq_iff_iff]
  simp only [Bool.or_eq_true, Bool.and_eq_true, beq_iff_eq, decide_eq_true_eq, Int.mul_neg, Int.mul_one]
  unfold inWindow
  constructor
  · intro h
    rcases h with h | ⟨h1, h2⟩
    · exact Or.inl h
    · exact Or.inr ⟨by omega, by omega⟩
  · intro h
    rcases h with h | ⟨h1, h2⟩
    · exact Or.inl h
    · exact Or.inr ⟨by omega, by omega⟩

theorem Validate_eq (E : Go.Ext) (cookie : Go.Cookie) (seed : Str) (expiration : Int) :
    (Gen.Tr.Validate E cookie seed expiration).map observe
      = .ok ((validate E.mac cookie.Name cookie.Value seed expiration E.nowNs).map
          (fun p => (p.1, Go.timeUnix p.2))) := by
  unfold Gen.Tr.Validate validate
  simp only [Go.stringsSplit, window_bool]
  obtain ⟨parts, hp⟩ : ∃ r, splitOn '|' cookie.Value = r := ⟨_, rfl⟩
  simp only [hp]
  by_cases h3 : parts.length = 3
  · match parts, h3 with
    | [p0, p1, p2], _ =>
      obtain ⟨i0, i1, i2⟩ := idx3 p0 p1 p2
      simp only [Go.len, i0, i1, i2, checkSignature_eq, bind, Except.bind, pure, Except.pure]
      by_cases hs : O2P.checkSignature E.mac p2 seed [cookie.Name, p0, p1] = true
      · simp only [hs, Go.strconvAtoi]
        obtain ⟨ra, ha⟩ : ∃ r, atoi p1 = r := ⟨_, rfl⟩
        simp only [ha]
        cases ra with
        | none => simp [Except.map, observe]
        | some ts =>
          simp only [Go.b64UrlDecode]
          obtain ⟨rb, hb⟩ : ∃ r, b64Decode true true p0 = r := ⟨_, rfl⟩
          simp only [hb]
          by_cases hw : inWindow ts expiration E.nowNs
          · cases rb with
            | none => simp [hw, Except.map, observe]
            | some v => simp [hw, Except.map, observe]
          · simp [hw, Except.map, observe]
      · simp [hs, Except.map, observe]
  · have h3' : ¬ ((parts.length : Int) = 3) := by omega
    simp only [Go.len, bind, Except.bind, pure, Except.pure]
    have hne : ((parts.length : Int) != 3) = true := by simp [h3']
    simp only [hne, ↓reduceIte]
    split
    · simp at h3
    · simp [Except.map, observe]

theorem SignedValue_eq (E : Go.Ext) (seed key value : Str) (now : Go.Time) :
    Gen.Tr.SignedValue E seed key value now
      = .ok (signedValue E.mac seed key value (Go.timeToUnix now), none) := by
  unfold Gen.Tr.SignedValue signedValue
  simp [cookieSignature_eq, bind, Except.bind, pure, Except.pure, Go.b64UrlEncode, Go.fmtD]

/-- `GenerateCodeChallenge`: the challenge if the error is nil, nothing otherwise -/
theorem GenerateCodeChallenge_eq (E : Go.Ext) (method verifier : Str) :
    (Gen.Tr.GenerateCodeChallenge E method verifier).map (fun r => if r.2 == none then some r.1 else none)
      = .ok (codeChallenge E.sha method verifier) := by
  unfold Gen.Tr.GenerateCodeChallenge codeChallenge
  have hp : "plain".toList = ['p', 'l', 'a', 'i', 'n'] := by decide
  have hs : "S256".toList = ['S', '2', '5', '6'] := by decide
  rw [hp, hs]
  by_cases h1 : method = ['p', 'l', 'a', 'i', 'n']
  · simp [h1, Except.map, pure, Except.pure]
  · by_cases h2 : method = ['S', '2', '5', '6']
    · simp [h1, h2, Except.map, pure, Except.pure, Go.b64RawUrlEncode]
    · simp [h1, h2, Except.map, pure, Except.pure]

/-! non-vacuity: the equalities are about definitions that compute -/
example : (Gen.Tr.validOptionalPort Go.Ext.trivial [':', '8', '0']) = .ok true := by rfl

end O2P.TrSigned
