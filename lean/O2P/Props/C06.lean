/-
  O2P.Props.C06 — redirect validation (property C06).

  C06: every redirect target taken from request data resolves, under browser URL-parsing
  rules, to a path on the same host or to a whitelisted host:port; anything else is replaced
  by "/".  A plain same-site path lands byte for byte.
-/
import O2P.Model.Redirect
import O2P.Lemmas.Redirect

/-!
  Property theorems in this file (all for strings of ANY length):

  0. `C06_invalidRel_iff`, `C06_invalidRel_iff_index` — the scanner `invalidRel` is exactly the
     regex ``[/\\](?:[\s\v]*|\.{1,2})[/\\]`` (proved in `O2P.Lemmas.Redirect`).
  1. `relRedirect_sameOrigin` (+ `relRedirect_sameOrigin'`, `relRedirect_out_shape`) — FULL, not
     partial: includes the `path.Clean` rewrite of `http.Redirect`, `hexEscapeNonASCII`, and
     the on-the-wire header sanitisation.
  2. `absRedirect_allowed`, `isHostnameAllowed_iff`, `hostMatch_exact`, `no_lookalike`,
     `no_lookalike_star`, `no_lookalike_concat`, `splitHostPort_no_colon`,
     `splitHostPort_host_port`.
  3. `getRedirectWith_valid`, `getRedirect_valid`.
  4. `landing`, `plain_landing`.
  5. `isValidRedirect_iff`, `C06_main` and the attack examples.
-/

namespace O2P
namespace Redirect

/-! ## 0. The regex scanner is the regex -/

theorem C06_invalidRel_iff (s : Str) :
    invalidRel s = true ↔
      ∃ pre a mid b post, s = pre ++ a :: (mid ++ b :: post) ∧ isSep a = true ∧ isSep b = true ∧
        (mid.all isWs = true ∨ mid = dot ∨ mid = dotdot) :=
  invalidRel_iff s

theorem C06_invalidRel_iff_index (s : Str) :
    invalidRel s = true ↔
      ∃ i j, ∃ (hij : i < j) (hj : j < s.length),
        isSep (s[i]'(Nat.lt_trans hij hj)) = true ∧ isSep s[j] = true ∧
        (((s.take j).drop (i + 1)).all isWs = true ∨ (s.take j).drop (i + 1) = dot ∨
          (s.take j).drop (i + 1) = dotdot) :=
  invalidRel_iff_index s

example : invalidRel "/x/ \t\x0b\\y".toList = true := by decide
example : invalidRel "a\\../b".toList = true := by decide
example : invalidRel "/.../".toList = false := by decide
example : invalidRel "/. /".toList = false := by decide

/-! ## 1. Accepted relative redirects stay on the origin -/

theorem pathPart_slash_cons (Y : Str) : pathPart ('/' :: Y) = '/' :: pathPart Y := by
  simp [pathPart]

theorem queryPart_slash_cons (Y : Str) : queryPart ('/' :: Y) = queryPart Y := by
  simp [queryPart]

theorem pathPart_append_queryPart (Y : Str) : pathPart Y ++ queryPart Y = Y :=
  List.takeWhile_append_dropWhile

theorem Safe_queryPart (Y : Str) : Safe (queryPart Y) := by
  induction Y with
  | nil => intro b hb; simp [queryPart] at hb
  | cons c cs ih =>
    by_cases hc : c = '?'
    · subst hc
      intro b hb
      have h1 : isTabNl '?' = false := by decide
      simp [queryPart, firstEff_cons, h1] at hb
      subst hb; decide
    · have : queryPart (c :: cs) = queryPart cs := by
        simp [queryPart, hc]
      rw [this]; exact ih

theorem goRedirectRewrite_slash_cons (reqPath Y : Str) :
    goRedirectRewrite reqPath ('/' :: Y) =
      hexEscapeNonASCII (cleanKeepSlash ('/' :: pathPart Y) ++ queryPart Y) := by
  simp [goRedirectRewrite, pathPart_slash_cons, queryPart_slash_cons]

/-- Every value `http.Redirect` can put in `Location` for an accepted relative redirect has
    the form `'/' :: Z` with the first effective code point of `Z` not a separator. -/
theorem relRedirect_out_shape (Y : Str) (hinv : invalidRel ('/' :: Y) = false) (reqPath out : Str)
    (hout : out = '/' :: Y ∨ out = goRedirectVerbatim ('/' :: Y) ∨
            out = goRedirectRewrite reqPath ('/' :: Y)) :
    ∃ Z, out = '/' :: Z ∧ Safe Z := by
  have hS : Safe Y := Safe_of_invalidRel_false hinv
  rcases hout with rfl | rfl | rfl
  · exact ⟨Y, rfl, hS⟩
  · exact ⟨hexEscapeNonASCII Y, hexEscape_slash_cons Y, Safe_hexEscape hS⟩
  · have hinv' : invalidRel ('/' :: pathPart Y ++ queryPart Y) = false := by
      rw [List.cons_append, pathPart_append_queryPart]; exact hinv
    obtain ⟨Z, hZ, hSZ⟩ := cleanKeepSlash_shape hinv' (Safe_queryPart Y)
    refine ⟨hexEscapeNonASCII Z, ?_, Safe_hexEscape hSZ⟩
    rw [goRedirectRewrite_slash_cons, hZ, hexEscape_slash_cons]

/-- **C06 / relative branch.**  If `s` passes the relative branch of `IsValidRedirect`
    (starts with `/`, not with `//`, regex does not match) then whatever `http.Redirect` writes
    into `Location` — `s` itself, `hexEscapeNonASCII s` (when `url.Parse s` fails or is not
    scheme/host-less) or the `path.Clean`-rewritten form — is resolved by a WHATWG browser on
    the origin of the base URL; this also holds for the on-the-wire header value
    (`\r`,`\n` → space, trimmed).  No length bound, any request path.
    (`h2` is implied by `h3`; it is kept to mirror the Go condition.) -/
theorem relRedirect_sameOrigin (s : Str)
    (h1 : hasPrefix ['/'] s = true) (_h2 : hasPrefix ['/', '/'] s = false)
    (h3 : invalidRel s = false) (reqPath out : Str)
    (hout : out = s ∨ out = goRedirectVerbatim s ∨ out = goRedirectRewrite reqPath s) :
    browserOffOrigin out = false ∧ browserOffOrigin (wireHeaderValue out) = false := by
  cases s with
  | nil => simp [hasPrefix] at h1
  | cons c Y =>
    have hc : c = '/' := by
      have : '/' = c := by simpa [hasPrefix] using h1
      exact this.symm
    subst hc
    obtain ⟨Z, rfl, hZ⟩ := relRedirect_out_shape Y h3 reqPath out hout
    exact ⟨browserOffOrigin_false_of_safe hZ, browserOffOrigin_wire_false hZ⟩

/-- the statement in the form asked for: `s` verbatim and the rewritten form -/
theorem relRedirect_sameOrigin' (s : Str)
    (h1 : hasPrefix ['/'] s = true) (h2 : hasPrefix ['/', '/'] s = false)
    (h3 : invalidRel s = false) (reqPath : Str) :
    browserOffOrigin s = false ∧ browserOffOrigin (goRedirectRewrite reqPath s) = false :=
  ⟨(relRedirect_sameOrigin s h1 h2 h3 reqPath s (Or.inl rfl)).1,
   (relRedirect_sameOrigin s h1 h2 h3 reqPath _ (Or.inr (Or.inr rfl))).1⟩

-- hypotheses are satisfiable by non-trivial inputs (tab inside an element, `..` at the end,
-- backslash after a real element, query containing a slash)
example : hasPrefix ['/'] "/.\t/x/..?a=/b".toList = true ∧
          hasPrefix ['/', '/'] "/.\t/x/..?a=/b".toList = false ∧
          invalidRel "/.\t/x/..?a=/b".toList = false := by decide
example : goRedirectRewrite "/r".toList "/.\t/x/..?a=/b".toList = "/.\t?a=/b".toList := by decide
example : invalidRel "/a\\b/c".toList = false := by decide

/-! ## 2. Absolute redirects: whitelist semantics -/

/-- `IsEndpointAllowed` is true iff some whitelist entry with a non-empty host part matches the
    hostname and its port part is `*` or equals the URL's port (an entry without port has
    port part `""`, hence only matches URLs without explicit port). -/
theorem absRedirect_allowed_old (host port : Str) (allowed : List Str) :
    isEndpointAllowedOld host port allowed = true ↔
      ∃ d ∈ allowed, (splitHostPort d).1 ≠ [] ∧
        isHostnameAllowed host (splitHostPort d).1 = true ∧
        ((splitHostPort d).2 = ['*'] ∨ (splitHostPort d).2 = port) := by
  unfold isEndpointAllowedOld
  rw [List.any_eq_true]
  constructor
  · rintro ⟨d, hd, h⟩
    refine ⟨d, hd, ?_⟩
    unfold domainAllows at h
    simp only at h
    split at h
    · cases h
    · rename_i hne
      simp only [Bool.and_eq_true, Bool.or_eq_true, beq_iff_eq] at h
      refine ⟨by simpa using hne, h.1, ?_⟩
      rcases h.2 with (h2 | h2) | ⟨h2, h3⟩
      · exact Or.inl h2
      · exact Or.inr h2
      · exact Or.inr (by rw [h2, h3])
  · rintro ⟨d, hd, hne, hh, hp⟩
    refine ⟨d, hd, ?_⟩
    unfold domainAllows
    simp only
    rw [if_neg (by simpa using hne)]
    simp only [Bool.and_eq_true, Bool.or_eq_true, beq_iff_eq]
    exact ⟨hh, by rcases hp with hp | hp <;> simp [hp]⟩

/-- `IsEndpointAllowed` (after the fix): the URL has a NON-EMPTY host, and some whitelist entry with a
    non-empty host part matches it with an admissible port. -/
theorem absRedirect_allowed (host port : Str) (allowed : List Str) :
    isEndpointAllowed host port allowed = true ↔
      host ≠ [] ∧ ∃ d ∈ allowed, (splitHostPort d).1 ≠ [] ∧
        isHostnameAllowed host (splitHostPort d).1 = true ∧
        ((splitHostPort d).2 = ['*'] ∨ (splitHostPort d).2 = port) := by
  have h : isEndpointAllowed host port allowed = (!host.isEmpty && isEndpointAllowedOld host port allowed) := rfl
  rw [h, Bool.and_eq_true, absRedirect_allowed_old]
  simp [List.isEmpty_iff]

/-- regression witness for the fix "never treat a redirect URL without a host as being on an allowed
    domain": before it, the degenerate whitelist entries "." and "*." matched the EMPTY host of
    `https:///evil.com` (which a browser resolves to evil.com) -/
example : isEndpointAllowedOld [] [] [".".toList] = true ∧ isEndpointAllowedOld [] [] ["*.".toList] = true ∧
          isEndpointAllowed [] [] [".".toList, "*.".toList, "".toList, ":8443".toList] = false := by decide

/-- an allowed absolute redirect always names a host -/
theorem absRedirect_has_host (host port : Str) (allowed : List Str)
    (h : isEndpointAllowed host port allowed = true) : host ≠ [] :=
  ((absRedirect_allowed host port allowed).1 h).1

theorem isHostnameAllowed_iff (h a : Str) :
    isHostnameAllowed h a = true ↔
      h = trimPrefix ['.'] a ∨ h = trimPrefix ['*', '.'] a ∨
      (['.'] <+: a ∧ a <:+ h) ∨ (['*', '.'] <+: a ∧ a.drop 1 <:+ h) := by
  simp only [isHostnameAllowed, hasPrefix, hasSuffix, Bool.or_eq_true, Bool.and_eq_true, beq_iff_eq,
    List.isPrefixOf_iff_prefix, List.isSuffixOf_iff_suffix, or_assoc]

/-- An entry without leading `.` / `*.` matches exactly itself. -/
theorem hostMatch_exact (h a : Str) (h1 : ¬ ['.'] <+: a) (h2 : ¬ ['*', '.'] <+: a) :
    isHostnameAllowed h a = true ↔ h = a := by
  rw [isHostnameAllowed_iff]
  have t1 : trimPrefix ['.'] a = a := by
    simp [trimPrefix, hasPrefix, List.isPrefixOf_iff_prefix, h1]
  have t2 : trimPrefix ['*', '.'] a = a := by
    simp [trimPrefix, hasPrefix, List.isPrefixOf_iff_prefix, h2]
  rw [t1, t2]
  simp [h1, h2]

/-- **No look-alike domains** (`.d` entries): the hostname is `d` itself or ends in `"." ++ d`,
    i.e. the match is on a label boundary. -/
theorem no_lookalike (h d : Str) :
    isHostnameAllowed h ('.' :: d) = true ↔ h = d ∨ ∃ x, h = x ++ '.' :: d := by
  rw [isHostnameAllowed_iff]
  have t1 : trimPrefix ['.'] ('.' :: d) = d := by simp [trimPrefix, hasPrefix]
  have t2 : trimPrefix ['*', '.'] ('.' :: d) = '.' :: d := by simp [trimPrefix, hasPrefix]
  have p2 : ¬ ['*', '.'] <+: '.' :: d := by
    rintro ⟨r, hr⟩; simp at hr
  rw [t1, t2]
  constructor
  · rintro (h | h | ⟨_, x, hx⟩ | ⟨hp, _⟩)
    · exact Or.inl h
    · exact Or.inr ⟨[], h⟩
    · exact Or.inr ⟨x, hx.symm⟩
    · exact absurd hp p2
  · rintro (h | ⟨x, hx⟩)
    · exact Or.inl h
    · exact Or.inr (Or.inr (Or.inl ⟨⟨d, rfl⟩, x, hx.symm⟩))

/-- the same for `*.d` entries -/
theorem no_lookalike_star (h d : Str) :
    isHostnameAllowed h ('*' :: '.' :: d) = true ↔ h = d ∨ ∃ x, h = x ++ '.' :: d := by
  rw [isHostnameAllowed_iff]
  have t1 : trimPrefix ['.'] ('*' :: '.' :: d) = '*' :: '.' :: d := by simp [trimPrefix, hasPrefix]
  have t2 : trimPrefix ['*', '.'] ('*' :: '.' :: d) = d := by simp [trimPrefix, hasPrefix]
  have p1 : ¬ ['.'] <+: '*' :: '.' :: d := by
    rintro ⟨r, hr⟩; simp at hr
  rw [t1, t2]
  constructor
  · rintro (h | h | ⟨hp, _⟩ | ⟨_, x, hx⟩)
    · exact Or.inr ⟨['*'], h⟩
    · exact Or.inl h
    · exact absurd hp p1
    · exact Or.inr ⟨x, by simpa using hx.symm⟩
  · rintro (h | ⟨x, hx⟩)
    · exact Or.inr (Or.inl h)
    · exact Or.inr (Or.inr (Or.inr ⟨⟨d, rfl⟩, x, by simpa using hx.symm⟩))

/-- Gluing a non-empty string that does not end in `.` in front of `d` never matches `.d`
    or `*.d`: `evilexample.com` is not in `.example.com`. -/
theorem no_lookalike_concat (y d : Str) (hy : y ≠ []) (hdot : y.getLast? ≠ some '.') :
    isHostnameAllowed (y ++ d) ('.' :: d) = false ∧
    isHostnameAllowed (y ++ d) ('*' :: '.' :: d) = false := by
  have key : ¬ (y ++ d = d ∨ ∃ x, y ++ d = x ++ '.' :: d) := by
    rintro (h | ⟨x, hx⟩)
    · have : y ++ d = [] ++ d := by simpa using h
      exact hy (List.append_cancel_right this)
    · have : y ++ d = (x ++ ['.']) ++ d := by simpa using hx
      have hy' := List.append_cancel_right this
      apply hdot
      rw [hy']; simp
  constructor
  · cases h : isHostnameAllowed (y ++ d) ('.' :: d) with
    | false => rfl
    | true => exact absurd ((no_lookalike _ _).mp h) key
  · cases h : isHostnameAllowed (y ++ d) ('*' :: '.' :: d) with
    | false => rfl
    | true => exact absurd ((no_lookalike_star _ _).mp h) key

/-- how a whitelist entry is read: no colon ⇒ host only, empty port part -/
theorem splitHostPort_no_colon (d : Str) (h : ':' ∉ d)
    (hb : (hasPrefix ['['] d && hasSuffix [']'] d) = false) : splitHostPort d = (d, []) := by
  unfold splitHostPort
  rw [lastIndexOf_not_mem _ _ h]
  simp [hb]

/-- how a whitelist entry is read: `host:port` with `port` = `*` or digits -/
theorem splitHostPort_host_port (h p : Str) (hp : p = ['*'] ∨ p.all isDigit = true)
    (hb : (hasPrefix ['['] h && hasSuffix [']'] h) = false) :
    splitHostPort (h ++ ':' :: p) = (h, p) := by
  have hcolon : ':' ∉ p := by
    rcases hp with rfl | hp
    · decide
    · intro hm
      have := List.all_eq_true.mp hp _ hm
      revert this; decide
  have hv : validOptionalPort (':' :: p) = true := by
    rcases hp with rfl | hp
    · decide
    · unfold validOptionalPort
      split
      · rfl
      · exact hp
  unfold splitHostPort
  rw [lastIndexOf_append _ _ _ hcolon]
  simp [hv, hb]

-- instances of the hypotheses of the theorems above
example : ¬ ['.'] <+: "example.com".toList ∧ ¬ ['*', '.'] <+: "example.com".toList := by decide
example : "evil".toList ≠ [] ∧ "evil".toList.getLast? ≠ some '.' := by decide
example : ':' ∉ ".example.com".toList ∧
    (hasPrefix ['['] ".example.com".toList && hasSuffix [']'] ".example.com".toList) = false := by
  decide
example : ("8443".toList = ['*'] ∨ "8443".toList.all isDigit = true) ∧
    (hasPrefix ['['] "a.example.com".toList && hasSuffix [']'] "a.example.com".toList) = false := by
  decide

example : isHostnameAllowed "evilexample.com".toList ".example.com".toList = false := by decide
example : isHostnameAllowed "a.example.com".toList ".example.com".toList = true := by decide
example : isHostnameAllowed "example.com".toList "*.example.com".toList = true := by decide
example : isHostnameAllowed "example.com.evil.org".toList ".example.com".toList = false := by decide
example : splitHostPort ".example.com:*".toList = (".example.com".toList, "*".toList) := by decide
example : splitHostPort "[::1]:8080".toList = ("::1".toList, "8080".toList) := by decide
example : isEndpointAllowed "a.example.com".toList "8443".toList
            [".example.com:*".toList] = true := by decide
example : isEndpointAllowed "a.example.com".toList "8443".toList
            [".example.com".toList, "a.example.com:443".toList] = false := by decide

/-! ## 3. The strategy chain of `GetRedirect` -/

theorem firstValid_spec (valid : Str → Bool) (L : List Str) :
    firstValid valid L = ['/'] ∨
      (firstValid valid L ∈ L ∧ firstValid valid L ≠ [] ∧ valid (firstValid valid L) = true) := by
  induction L with
  | nil => exact Or.inl rfl
  | cons r rs ih =>
    unfold firstValid
    split
    · rename_i h
      simp only [Bool.and_eq_true, bne_iff_ne] at h
      exact Or.inr ⟨by simp, h.1, h.2⟩
    · rcases ih with h | ⟨h1, h2, h3⟩
      · exact Or.inl h
      · exact Or.inr ⟨by simp [h1], h2, h3⟩

theorem validateRedirect_cases (v : Str → Bool) (x : Str) :
    validateRedirect v x = [] ∨ validateRedirect v x = x := by
  unfold validateRedirect; split <;> simp

theorem getXForwarded_cases (v : Str → Bool) (isForwarded : Bool) (proto host uri pp : Str) :
    getXForwarded v isForwarded proto host uri pp = [] ∨
    getXForwarded v isForwarded proto host uri pp =
      proto ++ schemeSep ++ host ++ (if hasPrefix pp uri then ['/'] else uri) := by
  unfold getXForwarded
  split
  · exact Or.inl rfl
  · exact validateRedirect_cases _ _

theorem getURI_cases (v : Str → Bool) (uri reqURI pp : Str) :
    getURI v uri reqURI pp = ['/'] ∨ getURI v uri reqURI pp = uri ∨
    getURI v uri reqURI pp = reqURI := by
  unfold getURI
  simp only
  by_cases h0 : validateRedirect v uri = []
  · rw [h0]
    simp only [beq_self_eq_true, if_true]
    split
    · exact Or.inl rfl
    · exact Or.inr (Or.inr rfl)
  · have h1 : validateRedirect v uri = uri := by
      rcases validateRedirect_cases v uri with h | h
      · exact absurd h h0
      · exact h
    have h2 : (validateRedirect v uri == []) = false := by simpa using h0
    rw [h2]
    simp only [Bool.false_eq_true, if_false]
    rw [h1]
    split
    · exact Or.inl rfl
    · exact Or.inr (Or.inl rfl)

/-- For ANY validator: the result of `GetRedirect` is `"/"`, or it is non-empty, accepted by
    the validator, and equal to one of the request-derived candidates.  In particular the
    unvalidated `req.URL.RequestURI()` fallback of `getURIRedirect` is re-validated by the
    loop in `GetRedirect`. -/
theorem getRedirectWith_valid (valid : Str → Bool) (rd xAuth : Str) (isForwarded : Bool)
    (proto host uri reqURI proxyPrefix : Str) :
    let r := getRedirectWith valid rd xAuth isForwarded proto host uri reqURI proxyPrefix
    r = ['/'] ∨ (valid r = true ∧
      (r = rd ∨ r = xAuth ∨
       r = proto ++ schemeSep ++ host ++ (if hasPrefix proxyPrefix uri then ['/'] else uri) ∨
       r = uri ∨ r = reqURI)) := by
  intro r
  rcases firstValid_spec valid
    [ getRd valid rd, getXAuth valid xAuth,
      getXForwarded valid isForwarded proto host uri proxyPrefix,
      getURI valid uri reqURI proxyPrefix ] with h | ⟨hm, hne, hval⟩
  · exact Or.inl h
  · change r ∈ _ at hm
    change r ≠ [] at hne
    change valid r = true at hval
    by_cases hroot : r = ['/']
    · exact Or.inl hroot
    refine Or.inr ⟨hval, ?_⟩
    simp only [List.mem_cons, List.not_mem_nil, or_false] at hm
    rcases hm with h | h | h | h
    · rcases validateRedirect_cases valid rd with h' | h' <;>
        (simp only [getRd] at h; rw [h'] at h)
      · exact absurd h hne
      · exact Or.inl h
    · rcases validateRedirect_cases valid xAuth with h' | h' <;>
        (simp only [getXAuth] at h; rw [h'] at h)
      · exact absurd h hne
      · exact Or.inr (Or.inl h)
    · rcases getXForwarded_cases valid isForwarded proto host uri proxyPrefix with h' | h' <;>
        rw [h'] at h
      · exact absurd h hne
      · exact Or.inr (Or.inr (Or.inl h))
    · rcases getURI_cases valid uri reqURI proxyPrefix with h' | h' | h' <;> rw [h'] at h
      · exact absurd h hroot
      · exact Or.inr (Or.inr (Or.inr (Or.inl h)))
      · exact Or.inr (Or.inr (Or.inr (Or.inr h)))

/-- `"/"` is always a valid redirect. -/
theorem isValidRedirect_root (allowed : List Str) (parsed : Option (Str × Str)) :
    isValidRedirect allowed ['/'] parsed = true := by
  rfl

/-- **C06 / strategy chain.**  Whatever the request data, the redirect chosen by `GetRedirect`
    is accepted by `IsValidRedirect` (the fallback `"/"` is itself valid), and it is `"/"` or
    one of the request-derived candidates. -/
theorem getRedirect_valid (allowed : List Str) (parse : Str → Option (Str × Str))
    (rd xAuth : Str) (isForwarded : Bool) (proto host uri reqURI proxyPrefix : Str) :
    let r := getRedirect allowed parse rd xAuth isForwarded proto host uri reqURI proxyPrefix
    isValidRedirect allowed r (parse r) = true ∧
    (r = ['/'] ∨ r = rd ∨ r = xAuth ∨
       r = proto ++ schemeSep ++ host ++ (if hasPrefix proxyPrefix uri then ['/'] else uri) ∨
       r = uri ∨ r = reqURI) := by
  intro r
  rcases getRedirectWith_valid (fun s => isValidRedirect allowed s (parse s))
    rd xAuth isForwarded proto host uri reqURI proxyPrefix with h | ⟨h1, h2⟩
  · have : r = ['/'] := h
    exact ⟨by rw [this]; exact isValidRedirect_root _ _, Or.inl this⟩
  · exact ⟨h1, Or.inr h2⟩

/-! ## 4. Plain same-site paths land byte for byte -/

/-- General landing theorem: an accepted relative redirect made of ASCII bytes whose path part
    does not end in a `.` or `..` element is written to `Location` unchanged (both in the
    rewrite outcome and in the verbatim outcome of `http.Redirect`). -/
theorem landing (p : Str) (h1 : hasPrefix ['/'] p = true) (h2 : invalidRel p = false)
    (h3 : ∀ c ∈ p, c.toNat < 0x80)
    (h4 : lastSeg (pathPart p) ≠ dot) (h5 : lastSeg (pathPart p) ≠ dotdot) (reqPath : Str) :
    goRedirectRewrite reqPath p = p ∧ goRedirectVerbatim p = p := by
  refine ⟨?_, hexEscape_id h3⟩
  cases p with
  | nil => simp [hasPrefix] at h1
  | cons c Y =>
    have hc : c = '/' := by
      have : '/' = c := by simpa [hasPrefix] using h1
      exact this.symm
    subst hc
    rw [pathPart_slash_cons, lastSeg_slash_cons] at h4 h5
    rcases List.eq_nil_or_concat (splitOn '/' (pathPart Y)) with h | ⟨init, last, hs⟩
    · exact absurd h (splitOn_ne_nil _ _)
    rw [List.concat_eq_append] at hs
    have hinv' : invalidRel ('/' :: pathPart Y ++ queryPart Y) = false := by
      rw [List.cons_append, pathPart_append_queryPart]; exact h2
    have hreal := nonlast_real hinv' hs
    have hl : lastSeg (pathPart Y) = last := by simp [lastSeg, hs]
    rw [hl] at h4 h5
    rw [goRedirectRewrite_slash_cons, cleanKeepSlash_id hs hreal h4 h5, List.cons_append,
      pathPart_append_queryPart]
    exact hexEscape_id h3

-- `landing` applies to more than plain paths (space, backslash, `..` inside the query)
example : hasPrefix ['/'] "/a b/c\\d?x=/..".toList = true ∧ invalidRel "/a b/c\\d?x=/..".toList = false ∧
    (∀ c ∈ "/a b/c\\d?x=/..".toList, c.toNat < 0x80) ∧
    lastSeg (pathPart "/a b/c\\d?x=/..".toList) ≠ dot ∧
    lastSeg (pathPart "/a b/c\\d?x=/..".toList) ≠ dotdot := by decide

/-- printable ASCII other than backslash -/
def plainChar (c : Char) : Bool := 0x20 < c.toNat && c.toNat < 0x7f && c != '\\'

/-- A *plain* same-site path: starts with `/`; only printable ASCII, no backslash; no empty,
    `.` or `..` element between two slashes anywhere (so in particular the second byte is not
    `/`); the path part (up to the first `?`) does not end in a `.` or `..` element. -/
def isPlain (p : Str) : Bool :=
  hasPrefix ['/'] p && p.all plainChar &&
  !containsSub "//".toList p && !containsSub "/./".toList p && !containsSub "/../".toList p &&
  lastSeg (pathPart p) != dot && lastSeg (pathPart p) != dotdot

theorem isPlain_invalidRel {p : Str} (hall : p.all plainChar = true)
    (c1 : containsSub "//".toList p = false) (c2 : containsSub "/./".toList p = false)
    (c3 : containsSub "/../".toList p = false) : invalidRel p = false := by
  rw [invalidRel_false_iff]
  rintro ⟨pre, a, mid, b, post, rfl, ha, hb, hm⟩
  rw [List.all_eq_true] at hall
  have hpa := hall a (by simp)
  have hpb := hall b (by simp)
  have sep_slash : ∀ x, plainChar x = true → isSep x = true → x = '/' := by
    intro x hx hs
    simp only [plainChar, Bool.and_eq_true, bne_iff_ne, ne_eq] at hx
    simp only [isSep, Bool.or_eq_true, beq_iff_eq] at hs
    rcases hs with h | h
    · exact h
    · exact absurd h hx.2
  have ha' := sep_slash a hpa ha
  have hb' := sep_slash b hpb hb
  subst ha' hb'
  have hmid : mid.all isWs = true → mid = [] := by
    intro hw
    cases mid with
    | nil => rfl
    | cons m ms =>
      exfalso
      have h1 := isWs_le (c := m) (by simp at hw; exact hw.1)
      have h2 := hall m (by simp)
      simp only [plainChar, Bool.and_eq_true, decide_eq_true_eq] at h2
      omega
  rcases hm with hm | rfl | rfl
  · have := hmid hm
    subst this
    have := containsSub_of_decomp "//".toList pre post
    simp at this c1
    rw [this] at c1; cases c1
  · have := containsSub_of_decomp "/./".toList pre post
    simp [dot] at this c2
    rw [this] at c2; cases c2
  · have := containsSub_of_decomp "/../".toList pre post
    simp [dotdot] at this c3
    rw [this] at c3; cases c3

/-- **C06 / plain landing.**  A plain same-site path is accepted (whatever the whitelist and
    whatever `url.Parse` says) and `http.Redirect` writes it to `Location` byte for byte. -/
theorem plain_landing (p : Str) (hp : isPlain p = true) (allowed : List Str)
    (parsed : Option (Str × Str)) (reqPath : Str) :
    isValidRedirect allowed p parsed = true ∧ goRedirectRewrite reqPath p = p ∧
    goRedirectVerbatim p = p ∧ wireHeaderValue p = p ∧ browserOffOrigin p = false := by
  simp only [isPlain, Bool.and_eq_true, Bool.not_eq_true', bne_iff_ne, ne_eq] at hp
  obtain ⟨⟨⟨⟨⟨⟨h1, hall⟩, c1⟩, c2⟩, c3⟩, h4⟩, h5⟩ := hp
  have hinv := isPlain_invalidRel hall c1 c2 c3
  have hall' := List.all_eq_true.mp hall
  have h3 : ∀ c ∈ p, c.toNat < 0x80 := by
    intro c hc
    have := hall' c hc
    simp only [plainChar, Bool.and_eq_true, decide_eq_true_eq] at this
    omega
  have hne : p ≠ [] := by rintro rfl; simp [hasPrefix] at h1
  have h2 : hasPrefix ['/', '/'] p = false := by
    cases h : hasPrefix ['/', '/'] p with
    | false => rfl
    | true =>
      exfalso
      obtain ⟨t, rfl⟩ := List.isPrefixOf_iff_prefix.mp h
      have := containsSub_of_decomp "//".toList [] t
      simp at this c1
      rw [this] at c1; cases c1
  obtain ⟨l1, l2⟩ := landing p h1 hinv h3 h4 h5 reqPath
  refine ⟨?_, l1, l2, ?_, (relRedirect_sameOrigin p h1 h2 hinv reqPath p (Or.inl rfl)).1⟩
  · unfold isValidRedirect
    have : (p == []) = false := by simpa using hne
    simp [this, h1, h2, hinv]
  · apply wireHeaderValue_id
    intro c hc
    cases hs : isHdrSpace c with
    | false => rfl
    | true =>
      exfalso
      have h1 := isHdrSpace_le hs
      have h2 := hall' c hc
      simp only [plainChar, Bool.and_eq_true, decide_eq_true_eq] at h2
      omega

example : isPlain "/foo/bar.html?next=/x&y=%2F..#frag".toList = true := by decide
example : isPlain "/foo/".toList = true := by decide
example : isPlain "/".toList = true := by decide
-- not plain (but `landing` may still apply): inner `//` in a query
example : isPlain "/a?u=http://x".toList = false := by decide

/-! ## C06, assembled -/

/-- Exact characterisation of `IsValidRedirect`. -/
theorem isValidRedirect_iff (allowed : List Str) (s : Str) (parsed : Option (Str × Str)) :
    isValidRedirect allowed s parsed = true ↔
      (hasPrefix ['/'] s = true ∧ hasPrefix ['/', '/'] s = false ∧ invalidRel s = false) ∨
      ((hasPrefix httpPrefix s = true ∨ hasPrefix httpsPrefix s = true) ∧
        ∃ h p, parsed = some (h, p) ∧ isEndpointAllowed h p allowed = true) := by
  have hnil : ∀ (q : Str), hasPrefix q [] = true → q = [] := by
    intro q hq; cases q <;> simp_all [hasPrefix]
  by_cases h0 : s = []
  · subst h0
    constructor
    · intro h; simp [isValidRedirect] at h
    · rintro (⟨h, _⟩ | ⟨h | h, _⟩)
      · cases hnil _ h
      · cases hnil _ h
      · cases hnil _ h
  · have h0' : (s == []) = false := by simpa using h0
    unfold isValidRedirect
    rw [h0']
    simp only [Bool.false_eq_true, if_false]
    by_cases hrel : (hasPrefix ['/'] s && !hasPrefix ['/', '/'] s && !invalidRel s) = true
    · rw [if_pos hrel]
      simp only [Bool.and_eq_true, Bool.not_eq_true'] at hrel
      simp [hrel.1.1, hrel.1.2, hrel.2]
    · rw [if_neg hrel]
      have hrel' : ¬ (hasPrefix ['/'] s = true ∧ hasPrefix ['/', '/'] s = false ∧ invalidRel s = false) := by
        intro ⟨a, b, c⟩; apply hrel; simp [a, b, c]
      by_cases habs : (hasPrefix httpPrefix s || hasPrefix httpsPrefix s) = true
      · rw [if_pos habs]
        simp only [Bool.or_eq_true] at habs
        cases parsed with
        | none => simp [hrel']
        | some hp =>
          obtain ⟨h, p⟩ := hp
          constructor
          · intro hv; exact Or.inr ⟨habs, h, p, rfl, hv⟩
          · rintro (hr | ⟨_, h', p', heq, hv⟩)
            · exact absurd hr hrel'
            · cases heq; exact hv
      · rw [if_neg habs]
        simp only [Bool.or_eq_true] at habs
        constructor
        · intro h; cases h
        · rintro (hr | ⟨ha, _⟩)
          · exact absurd hr hrel'
          · exact absurd ha habs

/-- **C06 (main statement).**  For every request, the redirect target `r` chosen by
    `GetRedirect` satisfies one of:
    * `r` is a relative reference starting with `/` and every `Location` value that
      `http.Redirect` can emit for it (verbatim, hex-escaped, or `path.Clean`-rewritten, also
      after on-the-wire sanitisation) is resolved by a WHATWG browser on the *same origin*;
    * `r` starts with `http://` or `https://`, `url.Parse r` succeeded, and its
      `Hostname()`/`Port()` are allowed by the whitelist (see `absRedirect_allowed`,
      `no_lookalike`).
    Anything else has been replaced by `"/"` (which falls under the first case). -/
theorem C06_main (allowed : List Str) (parse : Str → Option (Str × Str))
    (rd xAuth : Str) (isForwarded : Bool) (proto host uri reqURI proxyPrefix reqPath : Str) :
    let r := getRedirect allowed parse rd xAuth isForwarded proto host uri reqURI proxyPrefix
    (hasPrefix ['/'] r = true ∧
      ∀ out, (out = r ∨ out = goRedirectVerbatim r ∨ out = goRedirectRewrite reqPath r) →
        browserOffOrigin out = false ∧ browserOffOrigin (wireHeaderValue out) = false) ∨
    ((hasPrefix httpPrefix r = true ∨ hasPrefix httpsPrefix r = true) ∧
      ∃ h p, parse r = some (h, p) ∧ isEndpointAllowed h p allowed = true) := by
  intro r
  have hv := (getRedirect_valid allowed parse rd xAuth isForwarded proto host uri reqURI proxyPrefix).1
  rcases (isValidRedirect_iff allowed r (parse r)).mp hv with ⟨h1, h2, h3⟩ | h
  · exact Or.inl ⟨h1, fun out hout => relRedirect_sameOrigin r h1 h2 h3 reqPath out hout⟩
  · exact Or.inr h

/-! ## 5. Non-vacuity: classic open-redirect payloads

  `isValidRedirect [] s none` is the validator with an empty whitelist.  For each payload we
  record (a) that the validator rejects it and (b) what a browser would have done with it. -/

section Examples
private def rej (s : String) : Bool := !isValidRedirect [] s.toList none
private def off (s : String) : Bool := browserOffOrigin s.toList
private def rw_ (s : String) : String := String.ofList (goRedirectRewrite "/oauth2/callback".toList s.toList)

-- rejected, and a browser would indeed leave the origin
example : rej "//evil.com" ∧ off "//evil.com" := by decide
example : rej "/\\evil.com" ∧ off "/\\evil.com" := by decide
example : rej "/\t/evil.com" ∧ off "/\t/evil.com" := by decide
example : rej "/\n/evil.com" ∧ off "/\n/evil.com" := by decide
example : rej "/\t\\evil.com" ∧ off "/\t\\evil.com" := by decide
example : rej "/\r\n\t/evil.com" ∧ off "/\r\n\t/evil.com" := by decide
example : rej "https://evil.com/" ∧ off "https://evil.com/" := by decide
example : rej "javascript:alert(1)" ∧ off "javascript:alert(1)" := by decide
example : rej " //evil.com" ∧ off " //evil.com" := by decide
example : rej "\\evil.com" := by decide
example : rej "" := by decide
-- rejected because `path.Clean` inside `http.Redirect` WOULD turn them into an off-origin
-- Location (this is what the `\.{1,2}` alternative of the regex is for)
example : rej "/a/../\\evil.com" ∧ rw_ "/a/../\\evil.com" = "/\\evil.com" ∧ off "/\\evil.com" := by decide
example : rej "/./\\evil.com" ∧ rw_ "/./\\evil.com" = "/\\evil.com" := by decide
-- rejected although harmless (the validator is conservative)
example : rej "/.//evil.com" ∧ rw_ "/.//evil.com" = "/evil.com" ∧ !off "/.//evil.com" := by decide
example : rej "/ /evil.com" ∧ !off "/ /evil.com" := by decide
example : rej "/foo?rd=//x" ∧ !off "/foo?rd=//x" := by decide
example : rej "/a/..\\evil.com" ∧ !off "/a/..\\evil.com" := by decide
-- accepted, and same-origin (percent-encoded slash is not a separator for the browser)
example : !rej "/%2f/evil.com" ∧ !off "/%2f/evil.com" ∧ rw_ "/%2f/evil.com" = "/%2f/evil.com" := by decide
example : !rej "/.\t/x" ∧ !off "/.\t/x" := by decide
example : !rej "/a\\b" ∧ !off "/a\\b" := by decide
example : !rej "/a/.." ∧ rw_ "/a/.." = "/" := by decide
example : !rej "/foo/bar?x=1&next=/baz#frag" ∧ rw_ "/foo/bar?x=1&next=/baz#frag" = "/foo/bar?x=1&next=/baz#frag" := by decide
-- absolute URLs: whitelist decides
example : isValidRedirect [".example.com".toList] "https://a.example.com/x".toList
            (some ("a.example.com".toList, [])) = true := by decide
example : isValidRedirect [".example.com".toList] "https://evilexample.com/x".toList
            (some ("evilexample.com".toList, [])) = false := by decide
example : isValidRedirect [".example.com".toList] "https://a.example.com:8443/x".toList
            (some ("a.example.com".toList, "8443".toList)) = false := by decide
example : isValidRedirect [".example.com:*".toList] "https://a.example.com:8443/x".toList
            (some ("a.example.com".toList, "8443".toList)) = true := by decide
-- strategy chain: invalid `rd` falls through to the request URI, proxy-prefixed URI to "/"
example : getRedirect [] (fun _ => none) "//evil.com".toList [] false "https".toList
            "proxy".toList "/app?x".toList "/app?x".toList "/oauth2/".toList = "/app?x".toList := by decide
example : getRedirect [] (fun _ => none) "/\\evil.com".toList "//e".toList false "https".toList
            "proxy".toList "/oauth2/sign_in".toList "/oauth2/sign_in".toList "/oauth2/".toList
            = "/".toList := by decide
example : getRedirect [] (fun _ => none) [] [] false [] [] "/\\evil".toList "//evil".toList
            "/oauth2/".toList = "/".toList := by decide
end Examples

end Redirect
end O2P
