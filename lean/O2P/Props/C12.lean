/-
  O2P.Props.C12 — "Stale sessions are refreshed or re-validated before use, once per
  session".

  Concurrent part: for EVERY number of requests `n`, EVERY initial token generation `g` and
  EVERY schedule (`List Nat` of thread ids), in the model `O2P.Conc` (variant `.real`):
  the IdP sees at most one refresh, exactly one as soon as any request has completed; every
  completed request is served with the refreshed session carrying the new tokens; a rotated
  refresh token is never presented; there is no deadlock.

  Standing assumptions, built into the model (see `O2P/Model/Conc.lean`): store, lock and
  IdP operations do not fail for infrastructure reasons; the lock does not expire while
  held (the property's proviso — `proviso_needed` shows it cannot be dropped); all requests
  start from the same stale stored session.

  Sequential part: `loadStored` theorems.
-/
import O2P.Lemmas.ConcProgress

namespace O2P.Conc

/-! ## 1. exactly one refresh -/

/-- The IdP receives at most one refresh request, in every reachable configuration. -/
theorem refresh_at_most_once (n g : Nat) (sched : List Nat) :
    (run .real (init n g) sched).idp.calls ≤ 1 :=
  (inv_run g _ sched (inv_init n g)).calls

/-- As soon as some request has completed, the IdP has received exactly one refresh. -/
theorem refresh_exactly_once_if_any_done (n g : Nat) (sched : List Nat) (t : Nat) (r : Res)
    (hd : ((run .real (init n g) sched).threads t).pc = .done r) :
    (run .real (init n g) sched).idp.calls = 1 := by
  have h := (inv_run g _ sched (inv_init n g)).thr t
  simp only [ThreadOK, hd] at h
  exact h.2.2.2

-- hypothesis of `refresh_exactly_once_if_any_done` is satisfiable (2 requests, both done)
example : ((run .real (init 2 7) [0,0,0,0,0,0,0,0,0,0,1,1,1]).threads 1).pc = .done .served := by
  decide

/-! ## 2. everybody is served, with the new tokens -/

/-- Every request that has completed was served (never unauthenticated), its session is the
refreshed one (`fresh`), and it carries the NEW tokens: its token generation is the IdP's
current one, which is the initial generation plus one. -/
theorem all_served (n g : Nat) (sched : List Nat) (t : Nat) (r : Res)
    (hd : ((run .real (init n g) sched).threads t).pc = .done r) :
    r = .served ∧
    ((run .real (init n g) sched).threads t).sess.fresh = true ∧
    ((run .real (init n g) sched).threads t).sess.gen = (run .real (init n g) sched).idp.cur ∧
    (run .real (init n g) sched).idp.cur = g + 1 := by
  have hI := inv_run g _ sched (inv_init n g)
  have h := hI.thr t
  simp only [ThreadOK, hd] at h
  obtain ⟨hr, hf, hg, hc⟩ := h
  exact ⟨hr, hf, hg, by rw [hI.cur, hc]⟩

/-- Once all requests have completed, the store holds the refreshed session with the new
tokens (so later requests load the new tokens as well), and the lock is free. -/
theorem store_refreshed_at_end (n g : Nat) (sched : List Nat) (hn : 0 < n)
    (hall : ∀ t, t < n → ∃ r, ((run .real (init n g) sched).threads t).pc = .done r) :
    (run .real (init n g) sched).store = some { fresh := true, gen := g + 1 } ∧
    (run .real (init n g) sched).lock = none := by
  have hI := inv_run g _ sched (inv_init n g)
  have hnn : (run .real (init n g) sched).n = n := run_n _ _ _
  have hlock : (run .real (init n g) sched).lock = none := by
    cases hl : (run .real (init n g) sched).lock with
    | none => rfl
    | some h =>
      have hcs := (hI.lockCS h).1 hl
      by_cases hh : h < n
      · obtain ⟨r, hr⟩ := hall h hh
        simp [hr, inCS] at hcs
      · have := hI.absent h (by omega)
        simp [this, inCS] at hcs
  refine ⟨?_, hlock⟩
  obtain ⟨r0, hr0⟩ := hall 0 hn
  have h0 := hI.thr 0
  simp only [ThreadOK, hr0] at h0
  obtain ⟨st, hst, hfr, hsl⟩ := hI.store
  cases hf : st.fresh with
  | true =>
    obtain ⟨_, hg, hc⟩ := hfr hf
    rw [hst]
    have : st.gen = g + 1 := by rw [hg, hI.cur, hc]
    cases st; simp_all
  | false =>
    rcases hsl hf with ⟨hc, _⟩ | ⟨h, hh, _⟩
    · have := h0.2.2.2; omega
    · rw [hlock] at hh; cases hh

-- hypotheses of `store_refreshed_at_end` are satisfiable (both requests completed)
example : ∀ t, t < 2 →
    ∃ r, ((run .real (init 2 7) [0,0,0,0,0,0,0,0,0,0,1,1,1]).threads t).pc = .done r := by
  intro t ht
  match t, ht with
  | 0, _ => exact ⟨.served, by decide⟩
  | 1, _ => exact ⟨.served, by decide⟩

/-! ## 3. a rotated refresh token is never presented -/

/-- No refresh request ever presents a rotated (stale) refresh token. -/
theorem no_stale_rt_use (n g : Nat) (sched : List Nat) :
    (run .real (init n g) sched).idp.staleCalls = 0 :=
  (inv_run g _ sched (inv_init n g)).stale

/-- Mutual exclusion: two threads inside the locked region are the same thread. -/
theorem mutual_exclusion (n g : Nat) (sched : List Nat) (t₁ t₂ : Nat)
    (h₁ : inCS ((run .real (init n g) sched).threads t₁).pc = true)
    (h₂ : inCS ((run .real (init n g) sched).threads t₂).pc = true) : t₁ = t₂ := by
  have hI := inv_run g _ sched (inv_init n g)
  have a := (hI.lockCS t₁).2 h₁
  have b := (hI.lockCS t₂).2 h₂
  rw [a] at b
  exact Option.some.inj b

-- hypothesis of `mutual_exclusion` is satisfiable: thread 0 holds the lock, thread 1 spins
example : inCS ((run .real (init 2 0) [0,0,0,1,1,1,1]).threads 0).pc = true ∧
    ((run .real (init 2 0) [0,0,0,1,1,1,1]).threads 1).pc = .obtain := by decide

/-! ## 4. no deadlock -/

/-- From every reachable configuration some continuation of the schedule completes all
requests (a lock holder can always finish and release; then everybody else can). -/
theorem progress (n g : Nat) (sched : List Nat) :
    ∃ more, ∀ t, t < n →
      ∃ r, ((run .real (init n g) (sched ++ more)).threads t).pc = .done r := by
  have hI := inv_run g _ sched (inv_init n g)
  generalize hc : run .real (init n g) sched = c at hI
  have hcn : c.n = n := by
    subst hc; exact run_n _ _ _
  -- first let a lock holder (if any) finish
  have hfree : ∃ s1, Inv g (run .real c s1) ∧ (run .real c s1).n = c.n ∧
      (run .real c s1).lock = none := by
    cases hl : c.lock with
    | none => exact ⟨[], hI, rfl, hl⟩
    | some h =>
      have hh : h < c.n := by
        by_cases hh : h < c.n
        · exact hh
        · have := hI.absent h (by omega)
          have hcs := (hI.lockCS h).1 hl
          simp [this, inCS] at hcs
      obtain ⟨a, b, _, d, _⟩ := run_self g h 10 c hI hh (Or.inr hl) (rank_le_ten _)
      exact ⟨_, a, b, d⟩
  obtain ⟨s1, hI1, hn1, hl1⟩ := hfree
  obtain ⟨s2, _, _, _, hd⟩ := finish_upto g _ hI1 hl1 n (by omega)
  refine ⟨s1 ++ s2, fun t ht => ?_⟩
  rw [run_append, hc, run_append]
  exact hd t ht

/-! ## 5. the cookie store is not claimed -/

/-- With the cookie store's `NoOpLock` (Obtain always succeeds) two requests can both pass
the re-check before either refreshes: the IdP receives two refresh requests, the second one
with a rotated refresh token. -/
theorem cookie_store_not_claimed :
    (run .noopLock (init 2 0) [0,0,0,0,0, 1,1,1,1,1, 0, 1]).idp.calls = 2 ∧
    (run .noopLock (init 2 0) [0,0,0,0,0, 1,1,1,1,1, 0, 1]).idp.staleCalls = 1 := by
  decide

/-- The same schedule under the real lock: one refresh. -/
example : (run .real (init 2 0) [0,0,0,0,0, 1,1,1,1,1, 0, 1]).idp.calls = 1 := by decide

/-- The proviso ("the provider answers within the lock's duration") cannot be dropped: if
the lock expires between thread 0's re-check and its refresh, thread 1 enters the locked
region as well and the IdP sees two refreshes. -/
theorem proviso_needed :
    (run .real (expireLock (run .real (init 2 0) [0,0,0,0,0])) [1,1,1,1,1, 0, 1]).idp.calls = 2 := by
  decide

/-! ## 6. mutant sanity: each mutated step function violates 1 or 3 on a concrete schedule -/

/-- (a) re-check under the lock removed: thread 1 passes the first check, thread 0 completes,
thread 1 then refreshes again (2 refreshes). -/
example : (runSchedule .noRecheck 2 [1,1, 0,0,0,0,0,0,0,0,0,0, 1,1,1,1]).refreshCalls = 2 := by
  decide

/-- (b) reload skipped: thread 1 presents the rotated refresh token. -/
example :
    (runSchedule .skipReload 2 [1,1, 0,0,0,0,0,0,0,0,0,0, 1,1,1,1]).staleCalls = 1 ∧
    (runSchedule .skipReload 2 [1,1, 0,0,0,0,0,0,0,0,0,0, 1,1,1,1]).refreshCalls = 2 := by
  decide

/-- (b') … and that request ends unauthenticated with the shared store entry cleared. -/
example :
    ((runSchedule .skipReload 2 [1,1, 0,0,0,0,0,0,0,0,0,0, 1,1,1,1,1,1,1,1]).threads.map (·.pc),
     (runSchedule .skipReload 2 [1,1, 0,0,0,0,0,0,0,0,0,0, 1,1,1,1,1,1,1,1]).storeGen)
      = (["served", "unauth"], none) := by
  decide

/-- (c) lock released before save: thread 1 reloads the not yet saved session and presents
the rotated refresh token. -/
example :
    (runSchedule .releaseBeforeSave 2 [0,0,0,0,0,0,0, 1,1,1,1,1,1]).staleCalls = 1 ∧
    (runSchedule .releaseBeforeSave 2 [0,0,0,0,0,0,0, 1,1,1,1,1,1]).refreshCalls = 2 := by
  decide

/-- The real step function on the mutants' schedules: one refresh, no stale use. -/
example :
    (runSchedule .real 2 [1,1, 0,0,0,0,0,0,0,0,0,0, 1,1,1,1]).refreshCalls = 1 ∧
    (runSchedule .real 2 [0,0,0,0,0,0,0, 1,1,1,1,1,1]).refreshCalls = 1 ∧
    (runSchedule .real 2 [0,0,0,0,0,0,0, 1,1,1,1,1,1]).staleCalls = 0 := by
  decide

/-! ## Sequential part -/

/-- A stale session is never honoured without a peer's refresh (seen by the reload under
the lock), or the IdP's validation succeeding on an unexpired session after the refresh
attempt; a successful refresh implies the new tokens are in scope, and they were saved
unless `Save` itself failed. -/
theorem c12_stale_never_honoured (i : SeqIn) (hs : i.stale = true)
    (hscope : (loadStored i).inScope = true) :
    i.load = .found ∧ i.obtain = .ok ∧
    (i.reload = .found false ∨
     (i.reload = .found true ∧ (loadStored i).refreshCalled = true ∧
      i.expired = false ∧ i.validate = true ∧ (loadStored i).validateCalled = true ∧
      (i.refresh = .ok → (loadStored i).newTokens = true ∧
                          (loadStored i).saveCalled = true ∧
                          (loadStored i).saved = i.saveOk))) := by
  rcases i with ⟨l, s, o, r, f, so, e, v⟩
  simp only at hs; subst hs
  cases l <;> cases o <;> cases r <;> (try rename_i b; cases b) <;>
    simp [loadStored, SeqOut.none] at hscope ⊢ <;>
    (cases f <;> cases so <;> cases e <;> cases v <;> simp_all)

/-- The task statement's form: stale ∧ in scope ⇒ (refresh ok ∧ saved) ∨ validate = true
∨ a peer refreshed it. -/
theorem c12_stale_never_honoured_disj (i : SeqIn) (hs : i.stale = true)
    (hscope : (loadStored i).inScope = true) :
    (i.refresh = .ok ∧ (loadStored i).saved = true) ∨
    (i.validate = true ∧ (loadStored i).validateCalled = true) ∨
    i.reload = .found false := by
  have := c12_stale_never_honoured i hs hscope
  rcases this with ⟨_, _, h | h⟩
  · exact Or.inr (Or.inr h)
  · exact Or.inr (Or.inl ⟨h.2.2.2.1, h.2.2.2.2.1⟩)

/-- Otherwise: a stale session that was found but is not put in scope means the request is
unauthenticated AND the cookie/store entry is cleared. -/
theorem c12_otherwise_cleared (i : SeqIn) (hl : i.load = .found) (hs : i.stale = true)
    (hscope : (loadStored i).inScope = false) :
    (loadStored i).cleared = true := by
  rcases i with ⟨l, s, o, r, f, so, e, v⟩
  simp only at hs hl; subst hs; subst hl
  cases o <;> cases r <;> (try rename_i b; cases b) <;>
    simp [loadStored, SeqOut.none] at hscope ⊢ <;>
    (cases f <;> cases so <;> cases e <;> cases v <;> simp_all)

-- hypotheses of `c12_otherwise_cleared` are satisfiable (refresh failed, validation failed)
example : (⟨.found, true, .ok, .found true, .failed, true, false, false⟩ : SeqIn).load = .found ∧
    (loadStored ⟨.found, true, .ok, .found true, .failed, true, false, false⟩).inScope = false := by
  decide

/-- In scope and cleared are mutually exclusive; every obtained lock is released. -/
theorem c12_scope_xor_cleared (i : SeqIn) :
    ¬ ((loadStored i).inScope = true ∧ (loadStored i).cleared = true) ∧
    ((i.load = .found ∧ i.stale = true ∧ i.obtain = .ok) → (loadStored i).lockReleased = true) := by
  rcases i with ⟨l, s, o, r, f, so, e, v⟩
  cases l <;> cases s <;> cases o <;> cases r <;> (try rename_i b; cases b) <;>
    simp [loadStored, SeqOut.none] <;>
    (cases f <;> cases so <;> cases e <;> cases v <;> simp_all)

/-- The refresh-unsupported provider: `ErrNotImplemented` counts as refreshed (timer reset +
save), then validation decides. -/
example : loadStored ⟨.found, true, .ok, .found true, .unsupported, true, false, true⟩ =
    { inScope := true, cleared := false, refreshCalled := true, newTokens := false,
      createdAtReset := true, saveCalled := true, saved := true, validateCalled := true,
      lockReleased := true } := by decide

/-- refresh fails and validation fails: unauthenticated, cleared. -/
example : loadStored ⟨.found, true, .ok, .found true, .failed, true, false, false⟩ =
    { inScope := false, cleared := true, refreshCalled := true, newTokens := false,
      createdAtReset := false, saveCalled := false, saved := false, validateCalled := true,
      lockReleased := true } := by decide

-- hypotheses of `c12_stale_never_honoured` are satisfiable
example : (⟨.found, true, .ok, .found true, .ok, true, false, true⟩ : SeqIn).stale = true ∧
    (loadStored ⟨.found, true, .ok, .found true, .ok, true, false, true⟩).inScope = true := by
  decide

end O2P.Conc
