import O2P.Model.Serve
/-
  C16 — forwarding headers are ignored unless reverse-proxy mode is on.
  A two-run (non-interference) property of the Layer-A model: with `reverseProxy = false`
  the whole response — and the host the cookie domain / OAuth redirect URI are computed
  from — is unchanged by any change to the forwarding / real-client-IP headers.
-/
namespace O2P

/-- canonical keys of the headers the property is about -/
def FwdNames : List Str :=
  ["X-Forwarded-Host".toList, "X-Forwarded-Proto".toList, "X-Forwarded-Uri".toList, "X-Forwarded-For".toList,
   "X-Real-Ip".toList, "X-Proxyuser-Ip".toList, "X-Envoy-External-Address".toList, "Cf-Connecting-Ip".toList]

/-- `r'` is `r` with another header set that agrees with `r`'s outside `FwdNames` -/
def SameButFwd (r r' : Req) : Prop :=
  r' = { r with headers := r'.headers } ∧ ∀ n, n ∉ FwdNames → r'.header n = r.header n

section
variable (cfg : Cfg) (env : Env) (g : Glue) (r r' : Req)

theorem requestHost_off (h : cfg.reverseProxy = false) (hs : SameButFwd r r') :
    requestHost cfg r' = requestHost cfg r := by
  rw [hs.1]; simp [requestHost, h]
theorem requestProto_off (h : cfg.reverseProxy = false) (hs : SameButFwd r r') :
    requestProto cfg r' = requestProto cfg r := by
  rw [hs.1]; simp [requestProto, h]
theorem requestURI_off (h : cfg.reverseProxy = false) (hs : SameButFwd r r') :
    requestURI cfg r' = requestURI cfg r := by
  rw [hs.1]; simp [requestURI, h]
theorem clientAddr_off (h : cfg.reverseProxy = false) (hs : SameButFwd r r') :
    clientAddrText cfg r' = clientAddrText cfg r := by
  rw [hs.1]; simp [clientAddrText, h]

theorem auth_header_same (hs : SameButFwd r r') :
    r'.header "Authorization".toList = r.header "Authorization".toList := hs.2 _ (by decide)
theorem xauth_header_same (hs : SameButFwd r r') :
    r'.header "X-Auth-Request-Redirect".toList = r.header "X-Auth-Request-Redirect".toList := hs.2 _ (by decide)

theorem fields_same (hs : SameButFwd r r') :
    r'.method = r.method ∧ r'.path = r.path ∧ r'.uri = r.uri ∧ r'.query = r.query ∧ r'.form = r.form ∧
    r'.accept = r.accept ∧ r'.cookies = r.cookies ∧ r'.host = r.host ∧ r'.remoteAddr = r.remoteAddr ∧
    r'.scheme = r.scheme ∧ r'.tls = r.tls ∧ r'.userAgent = r.userAgent := by
  rw [hs.1]; simp

theorem trusted_off (h : cfg.reverseProxy = false) (hs : SameButFwd r r') :
    env.trusted cfg r' = env.trusted cfg r := by
  unfold Env.trusted; rw [clientAddr_off cfg r r' h hs]

theorem redirectOf_off (h : cfg.reverseProxy = false) (hs : SameButFwd r r') :
    env.redirectOf cfg r' = env.redirectOf cfg r := by
  obtain ⟨_, _, hu, _, hf, _, _, hh, _⟩ := fields_same r r' hs
  unfold Env.redirectOf isForwardedRequest
  rw [requestHost_off cfg r r' h hs, requestProto_off cfg r r' h hs, requestURI_off cfg r r' h hs,
    xauth_header_same r r' hs, hu, hf, hh]

theorem oauthRedirectURI_off (h : cfg.reverseProxy = false) (hs : SameButFwd r r') :
    env.oauthRedirectURI cfg r' = env.oauthRedirectURI cfg r := by
  unfold Env.oauthRedirectURI
  rw [requestHost_off cfg r r' h hs, requestProto_off cfg r r' h hs]

theorem classify_same (hs : SameButFwd r r') : classify cfg r' = classify cfg r := by
  obtain ⟨_, hp, _, _, _, _, _, _, _, _, _, hua⟩ := fields_same r r' hs
  unfold classify; rw [hp, hua]

theorem httpsOK_off (h : cfg.reverseProxy = false) (hs : SameButFwd r r') : httpsOK cfg r' = httpsOK cfg r := by
  obtain ⟨_, _, _, _, _, _, _, _, _, hsc, htls, _⟩ := fields_same r r' hs
  unfold httpsOK; rw [requestProto_off cfg r r' h hs, hsc, htls]

theorem sessionChain_same (hs : SameButFwd r r') : sessionChain cfg env r' = sessionChain cfg env r := by
  unfold sessionChain Env.bearer Env.basic; rw [auth_header_same r r' hs]

theorem bypass_off (h : cfg.reverseProxy = false) (hs : SameButFwd r r') :
    bypassDecision cfg env g.pathOfURI r' = bypassDecision cfg env g.pathOfURI r := by
  obtain ⟨hm, _⟩ := fields_same r r' hs
  unfold bypassDecision; rw [trusted_off cfg env r r' h hs, requestURI_off cfg r r' h hs, hm]

theorem doOAuthStart_off (h : cfg.reverseProxy = false) (hs : SameButFwd r r') (ex : List (Str × Str)) (pre : List CookieOp) :
    doOAuthStart cfg env r' ex pre = doOAuthStart cfg env r ex pre := by
  unfold doOAuthStart startRedirect
  rw [redirectOf_off cfg env r r' h hs, oauthRedirectURI_off cfg env r r' h hs]

theorem isAjax_same (hs : SameButFwd r r') : isAjax r' = isAjax r := by
  obtain ⟨_, _, _, _, _, ha, _⟩ := fields_same r r' hs
  unfold isAjax; rw [ha]

theorem isAPIPath_off (h : cfg.reverseProxy = false) (hs : SameButFwd r r') : isAPIPath cfg env r' = isAPIPath cfg env r := by
  unfold isAPIPath; rw [requestURI_off cfg r r' h hs]

theorem proxyHandler_off (h : cfg.reverseProxy = false) (hs : SameButFwd r r') (b : Bool) (ch : ChainOut) :
    proxyHandler cfg env r' b ch = proxyHandler cfg env r b ch := by
  unfold proxyHandler
  rw [isAjax_same r r' hs, isAPIPath_off cfg env r r' h hs, doOAuthStart_off cfg env r r' h hs]

theorem signOutHandler_off (h : cfg.reverseProxy = false) (hs : SameButFwd r r') (ch : ChainOut) :
    signOutHandler cfg env r' ch = signOutHandler cfg env r ch := by
  unfold signOutHandler; rw [redirectOf_off cfg env r r' h hs]

theorem signInHandler_off (h : cfg.reverseProxy = false) (hs : SameButFwd r r') :
    signInHandler cfg env r' = signInHandler cfg env r := by
  obtain ⟨hm, _, _, hq, hf, _⟩ := fields_same r r' hs
  unfold signInHandler manualSignIn
  rw [redirectOf_off cfg env r r' h hs, doOAuthStart_off cfg env r r' h hs, hm, hf, hq]

theorem callbackHandler_off (h : cfg.reverseProxy = false) (hs : SameButFwd r r') (d : Str → Str) :
    callbackHandler cfg env r' d = callbackHandler cfg env r d := by
  obtain ⟨_, _, _, _, hf, _⟩ := fields_same r r' hs
  unfold callbackHandler callbackWithState
  rw [oauthRedirectURI_off cfg env r r' h hs, hf]

/-- **fwd_noninterference**: with reverse-proxy mode off, changing, adding or removing any of
    the forwarding / real-client-IP headers changes nothing: same response (status, class,
    Location, login URL incl. redirect_uri, every cookie operation, bypass outcome, upstream
    hit) and the same host for the cookie domain. -/
theorem fwd_noninterference (h : cfg.reverseProxy = false) (hs : SameButFwd r r') :
    serve cfg env g r' = serve cfg env g r ∧ requestHost cfg r' = requestHost cfg r ∧
    bypassDecision cfg env g.pathOfURI r' = bypassDecision cfg env g.pathOfURI r := by
  refine ⟨?_, requestHost_off cfg r r' h hs, bypass_off cfg env g r r' h hs⟩
  obtain ⟨_, hp, _, hq, _⟩ := fields_same r r' hs
  unfold serve
  rw [httpsOK_off cfg r r' h hs, classify_same cfg r r' hs, hp, hq, sessionChain_same cfg env r r' hs,
    bypass_off cfg env g r r' h hs, signInHandler_off cfg env r r' h hs, callbackHandler_off cfg env r r' h hs]
  simp only [doOAuthStart_off cfg env r r' h hs, signOutHandler_off cfg env r r' h hs, proxyHandler_off cfg env r r' h hs]

/-- **on_only_configured_header**: in reverse-proxy mode the trusted-IP verdict depends on the
    request only through the ONE configured real-client-IP header: not on RemoteAddr, not on
    any other header. -/
theorem on_only_configured_header (h : cfg.reverseProxy = true) (r₁ r₂ : Req)
    (hh : r₁.header cfg.realIPHeader = r₂.header cfg.realIPHeader) :
    env.trusted cfg r₁ = env.trusted cfg r₂ := by
  unfold Env.trusted clientAddrText; simp [h, hh]

/-- and with it off, only through RemoteAddr -/
theorem off_only_remoteAddr (h : cfg.reverseProxy = false) (r₁ r₂ : Req)
    (hh : r₁.remoteAddr = r₂.remoteAddr) : env.trusted cfg r₁ = env.trusted cfg r₂ := by
  unfold Env.trusted clientAddrText; simp [h, hh]
end

/-- non-vacuity: two requests that differ in all the forwarding headers satisfy the premise -/
example : SameButFwd { method := "GET".toList, path := "/x".toList, headers := [("Authorization".toList, "a".toList)] }
    { method := "GET".toList, path := "/x".toList,
      headers := [("X-Forwarded-Host".toList, "evil.com".toList), ("Authorization".toList, "a".toList), ("X-Real-Ip".toList, "10.0.0.1".toList)] } := by
  refine ⟨rfl, ?_⟩
  intro n hn
  simp only [FwdNames, List.mem_cons, List.not_mem_nil, or_false, not_or] at hn
  obtain ⟨h1, _, _, _, h5, _⟩ := hn
  have e1 : ("X-Forwarded-Host".toList == n) = false := by
    simp only [beq_eq_false_iff_ne, ne_eq]; exact fun h => h1 h.symm
  have e5 : ("X-Real-Ip".toList == n) = false := by
    simp only [beq_eq_false_iff_ne, ne_eq]; exact fun h => h5 h.symm
  simp only [Req.header, List.find?, e1, e5]

end O2P
