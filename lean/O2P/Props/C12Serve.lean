/-
  O2P.Props.C12Serve — C12's clause "after a refresh, that request, later requests and the upstream
  headers carry the new tokens", on Layer A (the data, not only the control flow of `Conc.loadStored`).

  `getValidatedSession` re-reads the session under the refresh lock (`load2`).  Whatever the store, the lock
  and the identity provider answer:

    stale_goes_on_with_refreshed   a request whose re-read session is still due and whose refresh succeeds
                                   goes on with exactly the provider's refreshed session (re-stamped now) —
                                   never with the copy it read before, never with the pre-refresh tokens;
                                   exactly one provider call; that very session is what is saved
    waiter_goes_on_with_reloaded   a request that waited while ANOTHER request refreshed (the re-read session is
                                   no longer due) goes on with the RE-READ session, without a provider call
    forwarded_is_chain_session     the session the header injector and the upstream see (`Resp.forwarded`) is
                                   the one the chain produced: no other copy exists downstream
    proxy_forwards_refreshed       the three combined, for a proxied request carrying a stored session
-/
import O2P.Props.C01

namespace O2P.C12Serve
open O2P

/-- the stale request that performs the refresh -/
theorem stale_goes_on_with_refreshed (cfg : Cfg) (env : Env) (s0 s1 s' s : Session)
    (h1 : env.load1 = .ok s0) (hn0 : needsRefresh cfg env.now s0 = true) (hl : env.lock = .obtained)
    (h2 : env.load2 = .ok s1) (hn1 : needsRefresh cfg env.now s1 = true)
    (hr : env.refresh s1 = .refreshed s')
    (hs : (getValidatedSession cfg env).session = some s) :
    s = { s' with createdAt := some env.now } ∧
    (getValidatedSession cfg env).refreshCalls = 1 ∧
    (env.saveOK = true → (getValidatedSession cfg env).saved = some s) := by
  unfold getValidatedSession at hs ⊢
  simp only [h1, hn0, Bool.not_true, Bool.false_eq_true, ↓reduceIte, hl, h2] at hs ⊢
  unfold refreshUnderLock at hs ⊢
  simp only [hn1, Bool.not_true, Bool.false_eq_true, ↓reduceIte, refreshOutcome, hr] at hs ⊢
  split at hs
  · simp only [Option.some.injEq] at hs
    subst hs
    refine ⟨rfl, trivial, ?_⟩
    intro hsv
    simp [hsv]
  · cases hs

/-- the request that waited for the lock while another one refreshed -/
theorem waiter_goes_on_with_reloaded (cfg : Cfg) (env : Env) (s0 s1 s : Session)
    (h1 : env.load1 = .ok s0) (hn0 : needsRefresh cfg env.now s0 = true) (hl : env.lock = .obtained)
    (h2 : env.load2 = .ok s1) (hn1 : needsRefresh cfg env.now s1 = false)
    (hs : (getValidatedSession cfg env).session = some s) :
    s = s1 ∧ (getValidatedSession cfg env).refreshCalls = 0 ∧ (getValidatedSession cfg env).saved = none := by
  unfold getValidatedSession at hs ⊢
  simp only [h1, hn0, Bool.not_true, Bool.false_eq_true, ↓reduceIte, hl, h2] at hs ⊢
  unfold refreshUnderLock at hs ⊢
  simp only [hn1, Bool.not_false, ↓reduceIte, Option.some.injEq] at hs ⊢
  simp [hs.symm]

/-- whatever reaches the header injector and the upstream is the chain's session -/
theorem forwarded_is_chain_session (cfg : Cfg) (env : Env) (r : Req) (ch : ChainOut) (s : Session)
    (h : (proxyHandler cfg env r false ch).forwarded = some (some s)) : ch.session = some s := by
  unfold proxyHandler at h
  split at h
  · rename_i so hok
    simp only [Option.some.injEq] at h
    subst h
    rcases (getAuth_ok_iff cfg env false ch.session (some s)).1 hok with ⟨hb, _⟩ | ⟨_, s', hs', hso, _⟩
    · cases hb
    · simp only [Option.some.injEq] at hso
      subst hso
      exact hs'
  · split at h
    · simp at h
    · split at h
      · rw [(doOAuthStart_refused cfg env r [] ch.cookies).1] at h; cases h
      · rw [(signInPage_refused env 403 ch.cookies).1] at h; cases h
  · split at h
    · simp at h
    · rw [(errorPage_refused 403 _).1] at h; cases h

/-- **proxy_forwards_refreshed.**  A proxied request whose only credential is the stored session, which is due,
    re-read under the lock, still due and refreshed successfully: if the request is forwarded with an identity at
    all, the identity headers derive from the provider's refreshed session (new tokens, re-stamped), and the
    provider was asked exactly once. -/
theorem proxy_forwards_refreshed (cfg : Cfg) (env : Env) (r : Req) (s0 s1 s' s : Session)
    (h1 : env.load1 = .ok s0) (hn0 : needsRefresh cfg env.now s0 = true) (hl : env.lock = .obtained)
    (h2 : env.load2 = .ok s1) (hn1 : needsRefresh cfg env.now s1 = true)
    (hr : env.refresh s1 = .refreshed s')
    (h : (proxyHandler cfg env r false (storedChainOut cfg env)).forwarded = some (some s)) :
    s = { s' with createdAt := some env.now } ∧ s.accessToken = s'.accessToken ∧ s.refreshToken = s'.refreshToken ∧
    s.idToken = s'.idToken ∧ (storedChainOut cfg env).refreshCalls = 1 := by
  have hc := forwarded_is_chain_session cfg env r _ s h
  have hs : (getValidatedSession cfg env).session = some s := hc
  obtain ⟨e1, e2, _⟩ := stale_goes_on_with_refreshed cfg env s0 s1 s' s h1 hn0 hl h2 hn1 hr hs
  refine ⟨e1, ?_, ?_, ?_, e2⟩ <;> rw [e1]

/-- a proxied request (no bypass) that is forwarded with an identity carries a session the rules accept -/
theorem forwarded_is_authorised (cfg : Cfg) (env : Env) (r : Req) (ch : ChainOut) (s : Session)
    (h : (proxyHandler cfg env r false ch).forwarded = some (some s)) : Authorised cfg env s := by
  unfold proxyHandler at h
  split at h
  · rename_i so hok
    simp only [Option.some.injEq] at h
    subst h
    rcases (getAuth_ok_iff cfg env false ch.session (some s)).1 hok with ⟨hb, _⟩ | ⟨_, s', _, hso, ha⟩
    · cases hb
    · simp only [Option.some.injEq] at hso
      subst hso
      exact ha
  · split at h
    · simp at h
    · split at h
      · rw [(doOAuthStart_refused cfg env r [] ch.cookies).1] at h; cases h
      · rw [(signInPage_refused env 403 ch.cookies).1] at h; cases h
  · split at h
    · simp at h
    · rw [(errorPage_refused 403 _).1] at h; cases h

/-- **waiter_judged_on_reloaded (C08 / C12, several instances).**  A request that waited for the refresh lock while
    ANOTHER request (another instance) refreshed the session: if it is forwarded at all, the session it is forwarded
    with is the RE-READ one — its e-mail and its groups, not those of the copy read before the wait — and it is that
    session the e-mail and group rules accepted. -/
theorem waiter_judged_on_reloaded (cfg : Cfg) (env : Env) (r : Req) (s0 s1 s : Session)
    (h1 : env.load1 = .ok s0) (hn0 : needsRefresh cfg env.now s0 = true) (hl : env.lock = .obtained)
    (h2 : env.load2 = .ok s1) (hn1 : needsRefresh cfg env.now s1 = false)
    (h : (proxyHandler cfg env r false (storedChainOut cfg env)).forwarded = some (some s)) :
    s = s1 ∧ s.email = s1.email ∧ s.groups = s1.groups ∧ Authorised cfg env s1 := by
  have hc := forwarded_is_chain_session cfg env r _ s h
  have hs : (getValidatedSession cfg env).session = some s := hc
  obtain ⟨e1, _, _⟩ := waiter_goes_on_with_reloaded cfg env s0 s1 s h1 hn0 hl h2 hn1 hs
  have ha := forwarded_is_authorised cfg env r _ s h
  subst e1
  exact ⟨rfl, rfl, rfl, ha⟩

/-- ... and so a re-read session the rules refuse is never forwarded, whatever the copy read before the wait said -/
theorem waiter_refused_on_reloaded (cfg : Cfg) (env : Env) (r : Req) (s0 s1 : Session)
    (h1 : env.load1 = .ok s0) (hn0 : needsRefresh cfg env.now s0 = true) (hl : env.lock = .obtained)
    (h2 : env.load2 = .ok s1) (hn1 : needsRefresh cfg env.now s1 = false)
    (hbad : ¬ Authorised cfg env s1) (s : Session) :
    (proxyHandler cfg env r false (storedChainOut cfg env)).forwarded ≠ some (some s) := by
  intro h
  exact hbad (waiter_judged_on_reloaded cfg env r s0 s1 s h1 hn0 hl h2 hn1 h).2.2.2

/-- the refreshing request is judged on the REFRESHED session (its groups are the provider's new ones) -/
theorem refresher_judged_on_refreshed (cfg : Cfg) (env : Env) (r : Req) (s0 s1 s' s : Session)
    (h1 : env.load1 = .ok s0) (hn0 : needsRefresh cfg env.now s0 = true) (hl : env.lock = .obtained)
    (h2 : env.load2 = .ok s1) (hn1 : needsRefresh cfg env.now s1 = true)
    (hr : env.refresh s1 = .refreshed s')
    (h : (proxyHandler cfg env r false (storedChainOut cfg env)).forwarded = some (some s)) :
    s.groups = s'.groups ∧ s.email = s'.email ∧ Authorised cfg env { s' with createdAt := some env.now } := by
  obtain ⟨e1, _⟩ := proxy_forwards_refreshed cfg env r s0 s1 s' s h1 hn0 hl h2 hn1 hr h
  have ha := forwarded_is_authorised cfg env r _ s h
  subst e1
  exact ⟨rfl, rfl, ha⟩

/-- non-vacuity: a concrete environment meeting the hypotheses, forwarded with the refreshed tokens -/
def exOld : Session := { user := "u".toList, accessToken := "at-0".toList, refreshToken := "rt-0".toList, createdAt := some 1000000000 }
def exNew : Session := { user := "u".toList, accessToken := "at-1".toList, refreshToken := "rt-1".toList, createdAt := some 5 }
def exCfg : Cfg := { refreshPeriod := 1000000000, skipNonce := true }
def exEnv (base : Env) : Env :=
  { base with now := 10 * 1000000000, load1 := .ok exOld, lock := .obtained, load2 := .ok exOld,
              refresh := fun _ => .refreshed exNew, saveOK := true, tokenVerifies := fun _ => true,
              emailOK := fun _ => true }

example (base : Env) : needsRefresh exCfg (exEnv base).now exOld = true := by
  simp [needsRefresh, exEnv, exCfg, exOld, Session.ageNs]
example (base : Env) : (getValidatedSession exCfg (exEnv base)).session = some { exNew with createdAt := some (10 * 1000000000) } := by
  simp [getValidatedSession, refreshUnderLock, refreshOutcome, validateSessionStep, Env.validate, exEnv, exCfg, exOld, exNew,
    needsRefresh, Session.ageNs, Session.isExpired]

/-- non-vacuity of the waiter theorems: stale before the wait, re-read fresh (another instance refreshed meanwhile) -/
def exFresh : Session := { user := "u".toList, accessToken := "at-other".toList, refreshToken := "rt-other".toList,
                           groups := ["contractors".toList], createdAt := some (10 * 1000000000) }
def exEnvW (base : Env) : Env :=
  { exEnv base with load2 := .ok exFresh }
example (base : Env) : needsRefresh exCfg (exEnvW base).now exOld = true ∧ needsRefresh exCfg (exEnvW base).now exFresh = false := by
  simp [needsRefresh, exEnvW, exEnv, exCfg, exOld, exFresh, Session.ageNs]
example (base : Env) : (getValidatedSession exCfg (exEnvW base)).session = some exFresh := by
  simp [getValidatedSession, refreshUnderLock, exEnvW, exEnv, exCfg, exOld, exFresh, needsRefresh, Session.ageNs]

end O2P.C12Serve
