/-
  O2P.Props.C08 — authorisation rules (e-mail domains / authenticated-emails file / allowed groups /
  per-request auth-only constraints / the gate in getAuthenticatedSession).

  Vocabulary (O2P/Lemmas/Authz.lean):
    lastAtom e     what follows the last '@' of `e` (the whole string if there is none)
    domMatch e d   declarative reading of one iteration of `isEmailValidWithDomains`:
                     e ends with "@"++d,  or  d = "."++r  and lastAtom e ends with d,
                     or d = "*."++r and lastAtom e ends with "."++r
-/
import O2P.Lemmas.Authz

namespace O2P.Authz

/-! ## the e-mail validator -/

/-- **emailValid_iff** (for any lower-casing function `lw`; `emailValid` uses ASCII `lower`).
    The validator accepts exactly the non-empty addresses for which: "*" is configured, or the
    lower-cased address matches a lower-cased configured domain, or the lower-cased address is in
    the authenticated-emails file. -/
theorem emailValidWith_iff (lw : Str → Str) (domains fileSet : List Str) (email : Str) :
    emailValidWith lw domains fileSet email = true ↔
      email ≠ [] ∧
      (['*'] ∈ domains ∨ (∃ d ∈ domains, domMatch (lw email) (lw d)) ∨ lw email ∈ fileSet) := by
  unfold emailValidWith
  by_cases he : email = []
  · simp [he]
  · simp only [he, if_false, ne_eq, not_false_eq_true, true_and]
    by_cases ha : ['*'] ∈ domains
    · simp [allowAll, ha]
    · have hnorm : normDomains lw domains = domains.map lw := by
        unfold normDomains
        apply List.map_congr_left
        intro d hd
        have : d ≠ ['*'] := fun e => ha (e ▸ hd)
        simp [this]
      have hall : allowAll domains = false := by simp [allowAll, ha]
      simp only [hall, hnorm, Bool.false_eq_true, if_false, ha, false_or]
      cases hv : isEmailValidWithDomains (lw email) (domains.map lw) with
      | true =>
        have := (isEmailValidWithDomains_iff _ _).1 hv
        simp only [List.mem_map] at this
        obtain ⟨d', ⟨d, hd, rfl⟩, hm⟩ := this
        simp only [Bool.not_true, Bool.false_eq_true, if_false, true_iff]
        exact Or.inl ⟨d, hd, hm⟩
      | false =>
        have hno : ¬ ∃ d ∈ domains, domMatch (lw email) (lw d) := by
          rintro ⟨d, hd, hm⟩
          have : isEmailValidWithDomains (lw email) (domains.map lw) = true :=
            (isEmailValidWithDomains_iff _ _).2 ⟨lw d, List.mem_map.2 ⟨d, hd, rfl⟩, hm⟩
          rw [hv] at this; cases this
        simp [hno]

/-- **emailValid_iff** — the ASCII instance actually used by the driver. -/
theorem emailValid_iff (domains fileSet : List Str) (email : Str) :
    emailValid domains fileSet email = true ↔
      email ≠ [] ∧
      (['*'] ∈ domains ∨ (∃ d ∈ domains, domMatch (lower email) (lower d)) ∨ lower email ∈ fileSet) :=
  emailValidWith_iff lower domains fileSet email

/-- the empty address is never valid, even with "*" -/
theorem emailValid_empty (domains fileSet : List Str) : emailValid domains fileSet [] = false := by
  simp [emailValid, emailValidWith]

example : emailValid ["Example.COM".toList] [] "Bob@example.com".toList = true := by decide +kernel
example : emailValid ["*.example.com".toList] [] "bob@a.example.com".toList = true := by decide +kernel
example : emailValid ["example.com".toList] ["eve@evil.org".toList] "Eve@Evil.org".toList = true := by
  decide +kernel
example : emailValid ["example.com".toList] [] "bob@evilexample.com".toList = false := by decide +kernel

/-! ## no look-alike suffixes -/

/-- **no_lookalike_suffix (general form).**  For an '@'-free domain `d`, a match always pins the
    *last atom* of the address on an '@' or '.' boundary:
      * exact rule:      last atom = d
      * leading-dot `d = "." ++ r`:  last atom = pre ++ "." ++ r
      * wildcard `d = "*." ++ r`:    last atom = pre ++ "." ++ r
    so "evilexample.com" can never satisfy "example.com", ".example.com" or "*.example.com". -/
theorem domMatch_lastAtom (e d : Str) (hd : '@' ∉ d) (h : domMatch e d) :
    lastAtom e = d ∨
    (∃ r pre, d = '.' :: r ∧ lastAtom e = pre ++ '.' :: r) ∨
    (∃ r pre, d = '*' :: '.' :: r ∧ lastAtom e = pre ++ '.' :: r) := by
  rcases h with h | ⟨r, hr, h⟩ | ⟨r, hr, h⟩
  · exact Or.inl (at_suffix_lastAtom e d hd h)
  · obtain ⟨pre, hp⟩ := h
    exact Or.inr (Or.inl ⟨r, pre, hr, by rw [← hp, hr]⟩)
  · obtain ⟨pre, hp⟩ := h
    exact Or.inr (Or.inr ⟨r, pre, hr, hp.symm⟩)

/-- a plain domain (no leading "." / "*.") matches only addresses whose last atom *is* the domain -/
theorem exact_domain_match (e d : Str)
    (h1 : ∀ r, d ≠ '.' :: r) (h2 : ∀ r, d ≠ '*' :: '.' :: r) :
    domMatch e d ↔ ('@' :: d) <:+ e := by
  constructor
  · rintro (h | ⟨r, hr, _⟩ | ⟨r, hr, _⟩)
    · exact h
    · exact absurd hr (h1 r)
    · exact absurd hr (h2 r)
  · exact Or.inl

/-- **no_lookalike_suffix (the concrete instance of the property text).** -/
theorem no_lookalike_suffix (e : Str) (h : lastAtom e = "evilexample.com".toList) :
    ¬ domMatch e "example.com".toList ∧ ¬ domMatch e ".example.com".toList ∧
    ¬ domMatch e "*.example.com".toList := by
  refine ⟨fun hm => ?_, fun hm => ?_, fun hm => ?_⟩
  · rcases domMatch_lastAtom e _ (by decide) hm with h1 | ⟨r, pre, hr, _⟩ | ⟨r, pre, hr, _⟩
    · rw [h] at h1; revert h1; decide
    · revert hr; simp
    · revert hr; simp
  · rcases domMatch_lastAtom e _ (by decide) hm with h1 | ⟨r, pre, hr, h1⟩ | ⟨r, pre, hr, _⟩
    · rw [h] at h1; revert h1; decide
    · have hr' : r = "example.com".toList := by
        have : ".example.com".toList = '.' :: "example.com".toList := by decide
        rw [this] at hr; exact (List.cons.inj hr).2.symm
      subst hr'
      rw [h] at h1
      have : ('.' :: "example.com".toList) <:+ "evilexample.com".toList := ⟨pre, h1.symm⟩
      revert this; decide
    · revert hr; simp
  · rcases domMatch_lastAtom e _ (by decide) hm with h1 | ⟨r, pre, hr, _⟩ | ⟨r, pre, hr, h1⟩
    · rw [h] at h1; revert h1; decide
    · revert hr; simp
    · have hr' : r = "example.com".toList := by
        have : "*.example.com".toList = '*' :: '.' :: "example.com".toList := by decide
        rw [this] at hr
        exact (List.cons.inj (List.cons.inj hr).2).2.symm
      subst hr'
      rw [h] at h1
      have : ('.' :: "example.com".toList) <:+ "evilexample.com".toList := ⟨pre, h1.symm⟩
      revert this; decide

example : lastAtom "x@evilexample.com".toList = "evilexample.com".toList := by decide +kernel

/-- **multi_at_uses_last_atom.**  With several '@' only what follows the *last* one counts:
    everything before it (`pre`, which may itself contain '@') is irrelevant. -/
theorem multi_at_uses_last_atom (pre host d : Str) (hh : '@' ∉ host) (hd : '@' ∉ d) :
    domMatch (pre ++ '@' :: host) d ↔
      host = d ∨ (∃ r, d = '.' :: r ∧ d <:+ host) ∨ (∃ r, d = '*' :: '.' :: r ∧ ('.' :: r) <:+ host) := by
  unfold domMatch
  rw [at_suffix_iff pre host d hh hd, lastAtom_append pre host hh]

/-- e.g. "a@example.com@evil.org" is an evil.org address, not an example.com one -/
example : domMatch "a@example.com@evil.org".toList "evil.org".toList ∧
          ¬ domMatch "a@example.com@evil.org".toList "example.com".toList := by
  have e : "a@example.com@evil.org".toList = "a@example.com".toList ++ '@' :: "evil.org".toList := by
    decide
  rw [e, multi_at_uses_last_atom _ _ _ (by decide) (by decide),
      multi_at_uses_last_atom _ _ _ (by decide) (by decide)]
  constructor
  · exact Or.inl rfl
  · rintro (h | ⟨r, hr, _⟩ | ⟨r, hr, _⟩)
    · revert h; decide
    · revert hr; simp
    · revert hr; simp

/-- Model finding (documented behaviour of the code, not a property violation): an "address"
    without any '@' is matched as a host name by leading-dot / wildcard domains. -/
example : emailValid [".example.com".toList] [] "foo.example.com".toList = true := by decide +kernel

/-! ## groups -/

/-- **groupsOK_iff** (`ProviderData.Authorize`) -/
theorem groupsOK_iff (allowed groups : List Str) :
    groupsOK allowed groups = true ↔ allowed = [] ∨ ∃ g ∈ groups, g ∈ allowed := by
  simp [groupsOK]

/-! ## the auth-only endpoint -/

/-- membership in `extractAllowedEntities(req, key)` -/
theorem mem_extractAllowed (query : List (Str × Str)) (key e : Str) :
    e ∈ extractAllowed query key ↔ e ≠ [] ∧ ∃ v, (key, v) ∈ query ∧ e ∈ splitOn ',' v := by
  simp only [extractAllowed, List.mem_filter, List.mem_flatMap, decide_eq_true_eq, ne_eq]
  constructor
  · rintro ⟨⟨⟨k, v⟩, ⟨hm, hk⟩, hs⟩, hne⟩
    simp only at hk hs
    subst hk
    exact ⟨hne, v, hm, hs⟩
  · rintro ⟨hne, v, hm, hs⟩
    exact ⟨⟨(key, v), ⟨hm, rfl⟩, hs⟩, hne⟩

/-- an e-mail splits into exactly two '@'-atoms iff it has exactly one '@' -/
theorem splitOn_at_two (email l dom : Str) :
    splitOn '@' email = [l, dom] ↔ email = l ++ '@' :: dom ∧ '@' ∉ l ∧ '@' ∉ dom := by
  constructor
  · intro h
    have hj := joinWith_splitOn '@' email
    have hn := splitOn_no_sep '@' email
    rw [h] at hj hn
    refine ⟨by simpa [joinWith] using hj.symm, hn l (by simp), hn dom (by simp)⟩
  · rintro ⟨rfl, hl, hd⟩
    rw [splitOn_append_sep '@' l dom hl, splitOn_of_not_mem '@' dom hd]

/-- the three per-request constraints, declaratively -/
def groupsConstraint (query : List (Str × Str)) (s : Sess) : Prop :=
  extractAllowed query "allowed_groups".toList = [] ∨
  ∃ g ∈ s.groups, g ∈ extractAllowed query "allowed_groups".toList

def emailsConstraint (query : List (Str × Str)) (s : Sess) : Prop :=
  extractAllowed query "allowed_emails".toList = [] ∨
  s.email ∈ extractAllowed query "allowed_emails".toList

/-- the address has exactly one '@' and its domain part, read as `host[:port]`, matches one of
    the requested domains under `util.IsEndpointAllowed`'s rule -/
def emailDomainsConstraint (query : List (Str × Str)) (s : Sess) : Prop :=
  extractAllowed query "allowed_email_domains".toList = [] ∨
  ∃ l dom, s.email = l ++ '@' :: dom ∧ '@' ∉ l ∧ '@' ∉ dom ∧ hostnameOf dom ≠ [] ∧
    ∃ ad ∈ extractAllowed query "allowed_email_domains".toList,
      endpointMatches (hostnameOf dom) (portOf dom) ad = true

theorem checkAllowedGroups_iff (q : List (Str × Str)) (s : Sess) :
    checkAllowedGroups q s = true ↔ groupsConstraint q s := by
  simp [checkAllowedGroups, groupsConstraint]

theorem checkAllowedEmails_iff (q : List (Str × Str)) (s : Sess) :
    checkAllowedEmails q s = true ↔ emailsConstraint q s := by
  simp [checkAllowedEmails, emailsConstraint]

theorem checkAllowedEmailDomains_iff (q : List (Str × Str)) (s : Sess) :
    checkAllowedEmailDomains q s = true ↔ emailDomainsConstraint q s := by
  unfold checkAllowedEmailDomains emailDomainsConstraint
  simp only [Bool.or_eq_true, List.isEmpty_iff]
  apply or_congr Iff.rfl
  constructor
  · intro h
    split at h
    · rename_i l dom hs
      obtain ⟨he, hl, hd⟩ := (splitOn_at_two _ _ _).1 hs
      simp only [isEndpointAllowed, List.any_eq_true, Bool.and_eq_true, decide_eq_true_eq] at h
      exact ⟨l, dom, he, hl, hd, h.1, h.2⟩
    · cases h
  · rintro ⟨l, dom, he, hl, hd, hne, h⟩
    rw [(splitOn_at_two _ _ _).2 ⟨he, hl, hd⟩]
    simp only [isEndpointAllowed, List.any_eq_true, Bool.and_eq_true, decide_eq_true_eq]
    exact ⟨hne, h⟩

/-- **authOnly_iff.**  `/oauth2/auth` answers 202 (rather than 403) for an authenticated request
    iff there is no session (request was allowed to bypass authentication) or all three
    query-string constraints hold. -/
theorem authOnly_iff (query : List (Str × Str)) (sess : Option Sess) :
    authOnly query sess = true ↔
      sess = none ∨
      ∃ s, sess = some s ∧ groupsConstraint query s ∧ emailDomainsConstraint query s ∧
        emailsConstraint query s := by
  cases sess with
  | none => simp [authOnly]
  | some s =>
    simp only [authOnly, Bool.and_eq_true, checkAllowedGroups_iff, checkAllowedEmailDomains_iff,
      checkAllowedEmails_iff]
    constructor
    · rintro ⟨⟨h1, h2⟩, h3⟩; exact Or.inr ⟨s, rfl, h1, h2, h3⟩
    · rintro (h | ⟨s', hs, h1, h2, h3⟩)
      · cases h
      · cases hs; exact ⟨⟨h1, h2⟩, h3⟩

/-- no constraints in the query ⇒ every session passes -/
theorem authOnly_no_constraints (query : List (Str × Str)) (s : Sess)
    (h : ∀ kv ∈ query, kv.1 ≠ "allowed_groups".toList ∧ kv.1 ≠ "allowed_email_domains".toList ∧
          kv.1 ≠ "allowed_emails".toList) :
    authOnly query (some s) = true := by
  have hnil : ∀ key, (∀ kv ∈ query, kv.1 ≠ key) → extractAllowed query key = [] := by
    intro key hk
    have : query.filter (fun kv => kv.1 = key) = [] := by
      simp only [List.filter_eq_nil_iff, decide_eq_true_eq]; exact hk
    simp [extractAllowed, this]
  rw [authOnly_iff]
  refine Or.inr ⟨s, rfl, Or.inl ?_, Or.inl ?_, Or.inl ?_⟩
  · exact hnil _ (fun kv hkv => (h kv hkv).1)
  · exact hnil _ (fun kv hkv => (h kv hkv).2.1)
  · exact hnil _ (fun kv hkv => (h kv hkv).2.2)

/-! ### reading `endpointMatches` / `isHostnameAllowed` -/

/-- declarative reading of `util.isHostnameAllowed` -/
theorem isHostnameAllowed_iff (h a : Str) :
    isHostnameAllowed h a = true ↔
      h = trimPrefix ['.'] a ∨ h = trimPrefix ['*', '.'] a ∨
      (∃ r, a = '.' :: r ∧ a <:+ h) ∨ (∃ r, a = '*' :: '.' :: r ∧ ('.' :: r) <:+ h) := by
  unfold isHostnameAllowed
  simp only [Bool.or_eq_true, Bool.and_eq_true, decide_eq_true_eq, hasSuffix_iff, hasPrefix_dot,
    hasPrefix_stardot]
  constructor
  · rintro (((h1 | h2) | ⟨⟨r, hr⟩, h3⟩) | ⟨⟨r, hr⟩, h4⟩)
    · exact Or.inl h1
    · exact Or.inr (Or.inl h2)
    · exact Or.inr (Or.inr (Or.inl ⟨r, hr, h3⟩))
    · refine Or.inr (Or.inr (Or.inr ⟨r, hr, ?_⟩))
      rw [hr] at h4; simpa using h4
  · rintro (h1 | h2 | ⟨r, hr, h3⟩ | ⟨r, hr, h4⟩)
    · exact Or.inl (Or.inl (Or.inl h1))
    · exact Or.inl (Or.inl (Or.inr h2))
    · exact Or.inl (Or.inr ⟨⟨r, hr⟩, h3⟩)
    · refine Or.inr ⟨⟨r, hr⟩, ?_⟩
      rw [hr]; simpa using h4

/-- host-name look-alikes are impossible here too: an allowed host `a` accepts only `a` itself,
    `a` without its leading "." / "*.", or names ending in "." ++ r (label boundary). -/
theorem hostname_no_lookalike (h a : Str) (hm : isHostnameAllowed h a = true) :
    h = a ∨ (∃ r, (a = '.' :: r ∨ a = '*' :: '.' :: r) ∧ (h = r ∨ ∃ pre, h = pre ++ '.' :: r)) := by
  rcases (isHostnameAllowed_iff h a).1 hm with h1 | h2 | ⟨r, hr, pre, hp⟩ | ⟨r, hr, pre, hp⟩
  · by_cases hd : hasPrefix ['.'] a = true
    · obtain ⟨r, hr⟩ := (hasPrefix_dot a).1 hd
      subst hr
      refine Or.inr ⟨r, Or.inl rfl, Or.inl ?_⟩
      simpa [trimPrefix, hasPrefix] using h1
    · left; simpa [trimPrefix, hd] using h1
  · by_cases hd : hasPrefix ['*', '.'] a = true
    · obtain ⟨r, hr⟩ := (hasPrefix_stardot a).1 hd
      subst hr
      refine Or.inr ⟨r, Or.inr rfl, Or.inl ?_⟩
      simpa [trimPrefix, hasPrefix] using h2
    · left; simpa [trimPrefix, hd] using h2
  · exact Or.inr ⟨r, Or.inl hr, Or.inr ⟨pre, by rw [← hp, hr]⟩⟩
  · exact Or.inr ⟨r, Or.inr hr, Or.inr ⟨pre, hp.symm⟩⟩

/-- for a plain domain part and a plain requested domain (no ':' / brackets on either side) the
    end-point rule is just the host-name rule -/
theorem endpointMatches_simple (dom ad : Str)
    (h1 : ':' ∉ dom) (h2 : ¬ (hasPrefix ['['] dom = true ∧ hasSuffix [']'] dom = true))
    (h3 : ':' ∉ ad) (h4 : ¬ (hasPrefix ['['] ad = true ∧ hasSuffix [']'] ad = true)) :
    endpointMatches (hostnameOf dom) (portOf dom) ad = (decide (ad ≠ []) && isHostnameAllowed dom ad) := by
  simp [endpointMatches, hostnameOf, portOf, splitHostPort_simple _ dom h1 h2,
    splitHostPort_simple _ ad h3 h4]

example : authOnly [("allowed_email_domains".toList, "example.com,*.corp.io".toList),
                    ("allowed_groups".toList, "admins,,ops".toList)]
            (some { email := "bob@eu.corp.io".toList, groups := ["dev".toList, "ops".toList] }) = true := by
  decide +kernel
example : authOnly [("allowed_email_domains".toList, "example.com".toList)]
            (some { email := "bob@evilexample.com".toList, groups := [] }) = false := by decide +kernel
example : authOnly [("allowed_emails".toList, "bob@example.com".toList)]
            (some { email := "Bob@example.com".toList, groups := [] }) = false := by decide +kernel
/-- Model findings (behaviour of the code, reported): the domain part is parsed as a URL host, so
    brackets and an (empty or numeric) port are tolerated / significant. -/
example : authOnly [("allowed_email_domains".toList, "example.com".toList)]
            (some { email := "u@[example.com]".toList, groups := [] }) = true := by decide +kernel
example : authOnly [("allowed_email_domains".toList, "example.com".toList)]
            (some { email := "u@example.com:".toList, groups := [] }) = true := by decide +kernel
example : authOnly [("allowed_email_domains".toList, "example.com".toList)]
            (some { email := "u@example.com:8080".toList, groups := [] }) = false := by decide +kernel

/-! ## the gate in getAuthenticatedSession -/

/-- **served_implies_rules.**  If `getAuthenticatedSession` returns a session for a request that
    was not allowed to bypass authentication, then that session satisfies the global rules: its
    e-mail is empty or accepted by the validator, and its groups are accepted by the provider. -/
theorem served_implies_rules (bypass : Bool) (sess : Option Sess) (ev : Str → Bool)
    (gok : List Str → Bool) (r : Option Sess)
    (h : getAuthenticatedSessionAuthz bypass sess ev gok = .ok r) (hb : bypass = false) :
    ∃ s, r = some s ∧ sess = some s ∧ (s.email = [] ∨ ev s.email = true) ∧ gok s.groups = true := by
  subst hb
  cases sess with
  | none => simp [getAuthenticatedSessionAuthz] at h
  | some s =>
    simp only [getAuthenticatedSessionAuthz, Bool.false_eq_true, if_false] at h
    split at h
    · cases h
    · rename_i hc
      simp only [AuthzResult.ok.injEq] at h
      subst h
      refine ⟨s, rfl, rfl, ?_, ?_⟩
      · by_cases he : s.email = []
        · exact Or.inl he
        · right
          cases hv : ev s.email with
          | true => rfl
          | false => exact absurd (by simp [he, hv]) hc
      · cases hg : gok s.groups with
        | true => rfl
        | false => exact absurd (by simp [hg]) hc

/-- a denial always comes with a request to clear the session cookie, and a bypass never denies -/
theorem denied_implies_cleared (bypass : Bool) (sess : Option Sess) (ev : Str → Bool)
    (gok : List Str → Bool) (c : Bool)
    (h : getAuthenticatedSessionAuthz bypass sess ev gok = .accessDenied c) :
    c = true ∧ bypass = false ∧ ∃ s, sess = some s ∧
      ((s.email ≠ [] ∧ ev s.email = false) ∨ gok s.groups = false) := by
  cases bypass with
  | true => simp [getAuthenticatedSessionAuthz] at h
  | false =>
    cases sess with
    | none => simp [getAuthenticatedSessionAuthz] at h
    | some s =>
      simp only [getAuthenticatedSessionAuthz, Bool.false_eq_true, if_false] at h
      split at h
      · rename_i hc
        simp only [AuthzResult.accessDenied.injEq] at h
        refine ⟨h.symm, rfl, s, rfl, ?_⟩
        simp only [Bool.or_eq_true, Bool.and_eq_true, decide_eq_true_eq, Bool.not_eq_true',
          ne_eq] at hc
        exact hc
      · cases h

/-- completeness of the gate: a session that satisfies the rules is served -/
theorem rules_imply_served (s : Sess) (ev : Str → Bool) (gok : List Str → Bool)
    (h1 : s.email = [] ∨ ev s.email = true) (h2 : gok s.groups = true) :
    getAuthenticatedSessionAuthz false (some s) ev gok = .ok (some s) := by
  simp only [getAuthenticatedSessionAuthz, Bool.false_eq_true, if_false, h2]
  rcases h1 with h1 | h1 <;> simp [h1]

/-- instantiated with the real validator and provider rule -/
theorem served_implies_rules_concrete (domains fileSet allowedGroups : List Str)
    (sess : Option Sess) (r : Option Sess)
    (h : getAuthenticatedSessionAuthz false sess (emailValid domains fileSet)
          (groupsOK allowedGroups) = .ok r) :
    ∃ s, r = some s ∧ sess = some s ∧
      (s.email = [] ∨ ['*'] ∈ domains ∨ (∃ d ∈ domains, domMatch (lower s.email) (lower d)) ∨
        lower s.email ∈ fileSet) ∧
      (allowedGroups = [] ∨ ∃ g ∈ s.groups, g ∈ allowedGroups) := by
  obtain ⟨s, hr, hs, he, hg⟩ := served_implies_rules false sess _ _ r h rfl
  refine ⟨s, hr, hs, ?_, (groupsOK_iff _ _).1 hg⟩
  rcases he with he | he
  · exact Or.inl he
  · exact Or.inr ((emailValid_iff _ _ _).1 he).2

example : getAuthenticatedSessionAuthz false
    (some { email := "bob@example.com".toList, groups := ["dev".toList] })
    (emailValid ["example.com".toList] []) (groupsOK ["dev".toList]) =
    .ok (some { email := "bob@example.com".toList, groups := ["dev".toList] }) := by decide +kernel
example : getAuthenticatedSessionAuthz false
    (some { email := "bob@evilexample.com".toList, groups := ["dev".toList] })
    (emailValid ["example.com".toList] []) (groupsOK ["dev".toList]) = .accessDenied true := by
  decide +kernel
example : getAuthenticatedSessionAuthz false none (emailValid [] []) (groupsOK []) = .needsLogin := by
  decide

end O2P.Authz
