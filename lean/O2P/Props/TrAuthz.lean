import O2P.Gen.Tr
import O2P.Lemmas.GoPrim
import O2P.Model.Authz
/-
  O2P.Props.TrAuthz — the regenerated `isEmailValidWithDomains` (validator.go) equals the model
  function of O2P/Model/Authz.lean that the C08 theorems are about, for every address and every
  domain list, and never panics (`atoms[len(atoms)-1]` is always in range, `domain[1:]` is only
  evaluated behind the `*.` prefix test).
-/
set_option linter.unusedSimpArgs false
set_option linter.unusedVariables false
open O2P O2P.Go

namespace O2P.TrAuthz

theorem idx_last (xs : List Str) (h : xs ≠ []) :
    Go.idx xs (Go.len xs - 1) = .ok (xs.getLastD []) := by
  unfold Go.idx Go.len
  have hl : 0 < xs.length := List.length_pos_iff.mpr h
  have h1 : ¬ ((xs.length : Int) - 1 < 0) := by omega
  have h2 : ((xs.length : Int) - 1).toNat = xs.length - 1 := by omega
  simp only [h1, if_false, h2]
  have : xs[xs.length - 1]? = some (xs.getLastD []) := by
    rw [List.getLastD_eq_getLast?, List.getLast?_eq_getElem?]
    simp [List.getElem?_eq_getElem (show xs.length - 1 < xs.length by omega)]
  rw [this]; rfl

theorem sliceFrom_one {α} (xs : List α) (h : 1 ≤ xs.length) : Go.sliceFrom xs 1 = .ok (xs.drop 1) := by
  unfold Go.sliceFrom
  have : ¬ ((xs.length : Int) < 1) := by omega
  simp [this, pure, Except.pure]

theorem body_eq (E : Go.Ext) (email domain : Str) :
    (do
      if (Go.stringsHasSuffix email (['@'] ++ domain)) then
        return some true
      let atoms := (Go.stringsSplit email ['@'])
      if (← Go.orM ((← Go.andM (Go.stringsHasPrefix domain ['.']) (do return (Go.stringsHasSuffix (← Go.idx atoms ((Go.len atoms) - (1 : Int))) domain)))) (do return ((← Go.andM (Go.stringsHasPrefix domain ['*', '.']) (do return (Go.stringsHasSuffix (← Go.idx atoms ((Go.len atoms) - (1 : Int))) (← Go.sliceFrom domain (1 : Int)))))))) then
        return some true
      return none : Go.M (Option Bool))
    = .ok (if Authz.domainMatches email domain then some true else none) := by
  have hne : splitOn '@' email ≠ [] := splitOn_ne_nil _ _
  simp only [Go.stringsSplit, idx_last _ hne, Authz.domainMatches, Authz.lastAtom,
    Go.stringsHasSuffix, Go.stringsHasPrefix, Go.andM, Go.orM]
  obtain ⟨la, hla⟩ : ∃ la, (splitOn '@' email).getLastD [] = la := ⟨_, rfl⟩
  simp only [hla]
  clear hla
  by_cases h1 : hasSuffix ('@' :: domain) email = true
  · simp [h1, pure, Except.pure]
  · by_cases hdot : hasPrefix ['.'] domain = true
    · have hstar : hasPrefix ['*', '.'] domain = false := by
        cases domain with
        | nil => simp [hasPrefix]
        | cons c t =>
          simp [hasPrefix] at hdot ⊢
          subst hdot; simp [List.isPrefixOf]
      by_cases h2 : hasSuffix domain la = true
      · simp [h1, hdot, h2, pure, Except.pure, bind, Except.bind]
      · simp [h1, hdot, h2, hstar, pure, Except.pure, bind, Except.bind]
    · by_cases hstar : hasPrefix ['*', '.'] domain = true
      · have hlen : 1 ≤ domain.length := by
          cases domain with
          | nil => simp [hasPrefix] at hstar
          | cons c t => simp
        by_cases h3 : hasSuffix domain.tail la = true
        · simp [h1, hdot, hstar, h3, sliceFrom_one domain hlen, pure, Except.pure, bind, Except.bind]
        · simp [h1, hdot, hstar, h3, sliceFrom_one domain hlen, pure, Except.pure, bind, Except.bind]
      · simp [h1, hdot, hstar, pure, Except.pure, bind, Except.bind]

theorem isEmailValidWithDomains_eq (E : Go.Ext) (email : Str) (domains : List Str) :
    Gen.Tr.isEmailValidWithDomains E email domains
      = .ok (Authz.isEmailValidWithDomains email domains) := by
  unfold Gen.Tr.isEmailValidWithDomains Authz.isEmailValidWithDomains
  have hloop := forRange_any domains (Authz.domainMatches email) true _ (fun d _ => body_eq E email d)
  simp only [bind, Except.bind, pure, Except.pure] at hloop ⊢
  rw [hloop]
  cases domains.any (Authz.domainMatches email) <;> rfl

end O2P.TrAuthz
