import O2P.Model.Cookies
/-
  C18 — cookie protection attributes and domain selection; C11 — Redis sign-out history.
-/
namespace O2P.Ck

/-- **makeCookie_attrs**: every cookie built by MakeCookieFromOptions carries the configured
    Secure / HttpOnly / SameSite / Path and the Domain given by `domainRule` -/
theorem makeCookie_attrs (cfg : CookieCfg) (host name value : Str) (e : Int) :
    (makeCookie cfg host name value e).secure = cfg.secure ∧
    (makeCookie cfg host name value e).httpOnly = cfg.httpOnly ∧
    (makeCookie cfg host name value e).sameSite = cfg.sameSite ∧
    (makeCookie cfg host name value e).path = cfg.path ∧
    (makeCookie cfg host name value e).domain = domainRule cfg.domains host ∧
    (makeCookie cfg host name value e).name = name := ⟨rfl, rfl, rfl, rfl, rfl, rfl⟩

/-- **deletion_same_triple**: a deletion uses the same name, path and domain as the cookie it
    deletes (for the same request host), whatever the expirations -/
theorem deletion_same_triple (cfg : CookieCfg) (host name v : Str) (e : Int) :
    let set := makeCookie cfg host name v e
    let del := makeCookie cfg host name [] (-3600000000000)
    del.name = set.name ∧ del.path = set.path ∧ del.domain = set.domain ∧ del.maxAge = some (-1) ∧ del.value = [] := by
  simp [makeCookie]

/-- **maxAge_eq**: Max-Age = ⌊expire / 1 s⌋ for a positive expiry, −1 for deletions, absent for 0 -/
theorem maxAge_eq (cfg : CookieCfg) (host name v : Str) (e : Int) :
    (makeCookie cfg host name v e).maxAge =
      if e > 0 then some (e / 1000000000) else if e < 0 then some (-1) else none := rfl

/-- domains as validation leaves them: longest first -/
def SortedByLen (ds : List Str) : Prop := ds.Pairwise (fun a b => b.length ≤ a.length)

theorem find_sorted_longest (ds : List Str) (p : Str → Bool) (hs : SortedByLen ds) (d : Str)
    (h : ds.find? p = some d) : d ∈ ds ∧ p d = true ∧ ∀ d' ∈ ds, p d' = true → d'.length ≤ d.length := by
  induction ds with
  | nil => simp at h
  | cons x xs ih =>
    rw [SortedByLen, List.pairwise_cons] at hs
    rw [List.find?_cons] at h
    cases hp : p x with
    | true =>
      rw [hp] at h; simp at h; subst h
      refine ⟨List.mem_cons_self, hp, ?_⟩
      intro d' hd' _
      rcases List.mem_cons.1 hd' with rfl | hm
      · exact Nat.le_refl _
      · exact hs.1 d' hm
    | false =>
      rw [hp] at h; simp only at h
      obtain ⟨h1, h2, h3⟩ := ih hs.2 h
      refine ⟨List.mem_cons_of_mem _ h1, h2, ?_⟩
      intro d' hd' hpd'
      rcases List.mem_cons.1 hd' with rfl | hm
      · rw [hp] at hpd'; cases hpd'
      · exact h3 d' hm hpd'

/-- **domainRule_spec**: with the configured domains sorted longest-first (what validation
    does), the Domain is the LONGEST configured domain that is a suffix of the request host
    NAME (port stripped); if none matches, the last = shortest configured one; none if no
    domains are configured. -/
theorem domainRule_spec (ds : List Str) (host : Str) (hs : SortedByLen ds) :
    (∀ d, getCookieDomain ds host = some d →
        domainRule ds host = d ∧ d ∈ ds ∧ hasSuffix d (hostName host) = true ∧
        ∀ d' ∈ ds, hasSuffix d' (hostName host) = true → d'.length ≤ d.length) ∧
    (getCookieDomain ds host = none →
        (∀ d ∈ ds, hasSuffix d (hostName host) = false) ∧
        domainRule ds host = ds.getLast?.getD [] ∧
        (∀ l, ds.getLast? = some l → ∀ d ∈ ds, l.length ≤ d.length)) ∧
    (ds = [] → domainRule ds host = []) := by
  refine ⟨?_, ?_, ?_⟩
  · intro d h
    obtain ⟨h1, h2, h3⟩ := find_sorted_longest ds _ hs d h
    exact ⟨by simp [domainRule, h], h1, h2, h3⟩
  · intro h
    refine ⟨?_, by simp [domainRule, h], ?_⟩
    · intro d hd
      have := List.find?_eq_none.1 h d hd
      simpa using this
    · intro l hl d hd
      clear h
      induction ds with
      | nil => simp at hd
      | cons x xs ih =>
        rw [SortedByLen, List.pairwise_cons] at hs
        cases xs with
        | nil => simp at hl hd; subst hl; subst hd; exact Nat.le_refl _
        | cons y ys =>
          have hl' : (y :: ys).getLast? = some l := by simpa [List.getLast?_cons_cons] using hl
          rcases List.mem_cons.1 hd with rfl | hm
          · have : l ∈ y :: ys := List.mem_of_getLast? hl'
            exact hs.1 l this
          · exact ih hs.2 hl' hm
  · intro h; subst h; simp [domainRule, getCookieDomain]

/-- two suffixes of the same string that have the same length are equal: the longest matching
    domain is unique -/
theorem suffix_same_length_eq (a b s : Str) (ha : hasSuffix a s = true) (hb : hasSuffix b s = true)
    (hl : a.length = b.length) : a = b := by
  simp only [hasSuffix, List.isSuffixOf_iff_suffix] at ha hb
  obtain ⟨p, hp⟩ := ha
  obtain ⟨q, hq⟩ := hb
  have hlen : p.length = q.length := by
    have h1 := congrArg List.length hp
    have h2 := congrArg List.length hq
    simp at h1 h2; omega
  have heq := hp.trans hq.symm
  exact (List.append_inj heq hlen).2

/-! ### the order validation establishes (`validateCookie` sorts the configured domains longest first)

  `domainRule_spec` assumes that order; here it is produced from ANY configured list, so that the
  statement is about what the operator wrote, in whatever order. -/

theorem mem_insertByLen (d x : Str) (xs : List Str) : x ∈ insertByLen d xs ↔ x = d ∨ x ∈ xs := by
  induction xs with
  | nil => simp [insertByLen]
  | cons y ys ih =>
    unfold insertByLen
    split
    · simp
    · simp only [List.mem_cons, ih]
      constructor
      · rintro (h | h | h)
        · exact Or.inr (Or.inl h)
        · exact Or.inl h
        · exact Or.inr (Or.inr h)
      · rintro (h | h | h)
        · exact Or.inr (Or.inl h)
        · exact Or.inl h
        · exact Or.inr (Or.inr h)

theorem mem_sortDomains (x : Str) (ds : List Str) : x ∈ sortDomains ds ↔ x ∈ ds := by
  induction ds with
  | nil => simp [sortDomains]
  | cons d ds ih => simp [sortDomains, mem_insertByLen, ih]

theorem insertByLen_sorted (d : Str) (xs : List Str) (h : SortedByLen xs) : SortedByLen (insertByLen d xs) := by
  induction xs with
  | nil => simp [insertByLen, SortedByLen]
  | cons y ys ih =>
    rw [SortedByLen, List.pairwise_cons] at h
    unfold insertByLen
    split
    · rename_i hle
      rw [SortedByLen, List.pairwise_cons]
      refine ⟨?_, by rw [List.pairwise_cons]; exact h⟩
      intro b hb
      rcases List.mem_cons.1 hb with rfl | hm
      · exact hle
      · exact Nat.le_trans (h.1 b hm) hle
    · rename_i hnle
      rw [SortedByLen, List.pairwise_cons]
      refine ⟨?_, ih h.2⟩
      intro b hb
      rcases (mem_insertByLen d b ys).1 hb with rfl | hm
      · omega
      · exact h.1 b hm

theorem sortDomains_sorted (ds : List Str) : SortedByLen (sortDomains ds) := by
  induction ds with
  | nil => simp [sortDomains, SortedByLen]
  | cons d ds ih => exact insertByLen_sorted d _ ih

/-- **domain_configured** (C18, the Domain clause without a hypothesis on the order).  For the domains the
    operator configured, in any order, after validation's sort:
    * if some configured domain is a suffix of the request host name, the Domain is a configured domain that
      is such a suffix and no configured suffix of the host name is longer;
    * if none is, the Domain is a configured domain no longer than any other (or empty when nothing is configured). -/
theorem domain_configured (ds : List Str) (host : Str) :
    let r := domainRule (sortDomains ds) host
    ((∃ d ∈ ds, hasSuffix d (hostName host) = true) →
        r ∈ ds ∧ hasSuffix r (hostName host) = true ∧
        ∀ d' ∈ ds, hasSuffix d' (hostName host) = true → d'.length ≤ r.length) ∧
    ((∀ d ∈ ds, hasSuffix d (hostName host) = false) → ds ≠ [] →
        r ∈ ds ∧ ∀ d ∈ ds, r.length ≤ d.length) ∧
    (ds = [] → r = []) := by
  intro r
  have hs := sortDomains_sorted ds
  obtain ⟨h1, h2, _⟩ := domainRule_spec (sortDomains ds) host hs
  refine ⟨?_, ?_, ?_⟩
  · rintro ⟨d, hd, hsuf⟩
    cases hg : getCookieDomain (sortDomains ds) host with
    | none =>
      have := (h2 hg).1 d ((mem_sortDomains d ds).2 hd)
      rw [hsuf] at this; cases this
    | some g =>
      obtain ⟨e1, e2, e3, e4⟩ := h1 g hg
      refine ⟨?_, ?_, ?_⟩
      · show domainRule (sortDomains ds) host ∈ ds
        rw [e1]; exact (mem_sortDomains g ds).1 e2
      · show hasSuffix (domainRule (sortDomains ds) host) (hostName host) = true
        rw [e1]; exact e3
      · intro d' hd' hs'
        show d'.length ≤ (domainRule (sortDomains ds) host).length
        rw [e1]; exact e4 d' ((mem_sortDomains d' ds).2 hd') hs'
  · intro hnone hne
    have hg : getCookieDomain (sortDomains ds) host = none := by
      unfold getCookieDomain
      rw [List.find?_eq_none]
      intro d hd
      have := hnone d ((mem_sortDomains d ds).1 hd)
      simp [this]
    obtain ⟨_, e2, e3⟩ := h2 hg
    have hne' : sortDomains ds ≠ [] := by
      intro h0
      cases ds with
      | nil => exact hne rfl
      | cons d ds' =>
        have : d ∈ sortDomains (d :: ds') := (mem_sortDomains d _).2 List.mem_cons_self
        rw [h0] at this; cases this
    obtain ⟨l, hl⟩ : ∃ l, (sortDomains ds).getLast? = some l := by
      cases hgl : (sortDomains ds).getLast? with
      | none => exact absurd (List.getLast?_eq_none_iff.1 hgl) hne'
      | some l => exact ⟨l, rfl⟩
    have hr : r = l := by show domainRule (sortDomains ds) host = l; rw [e2, hl]; rfl
    refine ⟨?_, ?_⟩
    · rw [hr]; exact (mem_sortDomains l ds).1 (List.mem_of_getLast? hl)
    · intro d hd
      rw [hr]; exact e3 l hl d ((mem_sortDomains d ds).2 hd)
  · intro h0; subst h0
    show domainRule (sortDomains []) host = []
    simp [sortDomains, domainRule, getCookieDomain]

/-- the matching domain of maximal length is unique, so WHICH length-descending sort validation uses (Go's
    `sort.Slice` is not stable) cannot matter -/
theorem domain_unique (ds : List Str) (host : Str) (a b : Str)
    (ha : a ∈ ds ∧ hasSuffix a (hostName host) = true ∧ ∀ d' ∈ ds, hasSuffix d' (hostName host) = true → d'.length ≤ a.length)
    (hb : b ∈ ds ∧ hasSuffix b (hostName host) = true ∧ ∀ d' ∈ ds, hasSuffix d' (hostName host) = true → d'.length ≤ b.length) :
    a = b :=
  suffix_same_length_eq a b (hostName host) ha.2.1 hb.2.1
    (Nat.le_antisymm (hb.2.2 a ha.1 ha.2.1) (ha.2.2 b hb.1 hb.2.1))

/-- operator order does not matter: three domains written shortest first -/
example : domainRule (sortDomains ["example.com".toList, "sub.example.com".toList, "app.sub.example.com".toList])
    "x.sub.example.com".toList = "sub.example.com".toList := by decide +kernel

/-- the port never takes part in the match (regression of the repaired defect) -/
example : domainRule [".a.example.com".toList, ".example.com".toList] "x.a.example.com:8080".toList = ".a.example.com".toList := by decide
example : domainRule [".a.example.com".toList, ".example.com".toList] "[::1]:8080".toList = ".example.com".toList := by decide
example : hostName "[::1]:8080".toList = "::1".toList := by decide
example : hostName "::1".toList = "::1".toList := by decide
example : SortedByLen [".a.example.com".toList, ".example.com".toList] := by simp [SortedByLen]

/-! ### C11: Redis sign-out history -/

theorem kvGet_del_same (kv : KV) (t : Ticket) : kvGet (kvDel kv t) t = none := by
  unfold kvGet kvDel
  have : List.find? (fun p => p.1 == t) (kv.filter (fun p => p.1 != t)) = none := by
    rw [List.find?_eq_none]
    intro p hp
    have := (List.mem_filter.1 hp).2
    simpa using this
  rw [this]; rfl

theorem kvGet_del_other (kv : KV) (t u : Ticket) (h : u ≠ t) : kvGet (kvDel kv t) u = kvGet kv u := by
  unfold kvGet kvDel
  congr 1
  induction kv with
  | nil => rfl
  | cons p ps ih =>
    rw [List.filter_cons]
    by_cases hp : p.1 = t
    · have h1 : (p.1 != t) = false := by simp [hp]
      have h2 : (p.1 == u) = false := by rw [hp]; simp; exact fun hh => h hh.symm
      simp only [h1, Bool.false_eq_true, ↓reduceIte, List.find?_cons, h2, ih]
    · have h1 : (p.1 != t) = true := by simpa using hp
      simp only [h1, ↓reduceIte, List.find?_cons, ih]

theorem kvGet_set_other (kv : KV) (t u : Ticket) (s : SessId) (h : u ≠ t) : kvGet (kvSet kv t s) u = kvGet kv u := by
  have h2 : (t == u) = false := by simp; exact fun hh => h hh.symm
  have : kvGet (kvSet kv t s) u = kvGet (kvDel kv t) u := by
    unfold kvGet kvSet
    rw [List.find?_cons]; simp only [h2]
  rw [this, kvGet_del_other kv t u h]

/-- an operation that can re-create the key of ticket `t`: only a login PRESENTING a validly
    signed cookie for `t` (Manager.Save reuses the presented ticket) or minting `t` anew -/
def Revives (t : Ticket) : ROp → Prop
  | .login (some p) _ _ => p = t
  | .login none f _ => f = t
  | _ => False

theorem rstep_keeps_dead (kv : KV) (t : Ticket) (op : ROp) (hd : kvGet kv t = none) (hr : ¬ Revives t op) :
    kvGet (rstep kv op) t = none := by
  cases op with
  | login p f s =>
    cases p with
    | some q =>
      have hq : t ≠ q := fun h => hr (by simp [Revives, h])
      simp only [rstep]; rw [kvGet_set_other kv q t s hq]; exact hd
    | none =>
      have hq : t ≠ f := fun h => hr (by simp [Revives, h])
      simp only [rstep]; rw [kvGet_set_other kv f t s hq]; exact hd
  | refresh u s =>
    simp only [rstep]
    split
    · rename_i hsome
      by_cases hu : u = t
      · subst hu; rw [hd] at hsome; cases hsome
      · rw [kvGet_set_other kv u t s (fun h => hu h.symm)]; exact hd
    · exact hd
  | request u => exact hd
  | signOut u =>
    simp only [rstep]
    by_cases hu : u = t
    · subst hu; exact kvGet_del_same kv u
    · rw [kvGet_del_other kv u t (fun h => hu h.symm)]; exact hd

/-- **c11_redis_history**: for EVERY history before the sign-out and EVERY history after it that
    contains no new login under the same ticket, replaying a cookie with the signed-out ticket
    loads nothing: requests, refreshes (which re-save only what still loads), other users'
    logins and sign-outs cannot bring it back. -/
theorem c11_redis_history (kv0 : KV) (before after : List ROp) (t : Ticket)
    (hno : ∀ op ∈ after, ¬ Revives t op) :
    kvGet (rrun kv0 (before ++ ROp.signOut t :: after)) t = none := by
  unfold rrun
  rw [List.foldl_append, List.foldl_cons]
  have hdead : kvGet (rstep (List.foldl rstep kv0 before) (ROp.signOut t)) t = none := kvGet_del_same _ t
  generalize rstep (List.foldl rstep kv0 before) (ROp.signOut t) = kv at hdead
  induction after generalizing kv with
  | nil => exact hdead
  | cons op ops ih =>
    rw [List.foldl_cons]
    exact ih (fun o ho => hno o (List.mem_cons_of_mem _ ho)) _ (rstep_keeps_dead kv t op hdead (hno op List.mem_cons_self))

/-- all saves of one browser session go to the ticket it presents: the store never holds two
    entries for one ticket -/
theorem kvSet_single (kv : KV) (t : Ticket) (s : SessId) : kvGet (kvSet kv t s) t = some s := by
  simp [kvGet, kvSet]

example : kvGet (rrun [] [.login none 7 1, .request 7, .refresh 7 2, .signOut 7, .request 7, .refresh 7 3, .login none 8 4]) 7 = none := by decide
example : kvGet (rrun [] [.login none 7 1, .refresh 7 2]) 7 = some 2 := by decide
/-- the hypothesis is necessary: a login presenting the old (still validly signed) ticket cookie
    re-creates the key — as the NEW login's session (documented ticket reuse) -/
example : kvGet (rrun [] [.login none 7 1, .signOut 7, .login (some 7) 9 5]) 7 = some 5 := by decide

end O2P.Ck
