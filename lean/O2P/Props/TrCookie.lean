import O2P.Gen.Tr
import O2P.Lemmas.GoPrim
import O2P.Lemmas.CookieJar
import O2P.Lemmas.Decimal
import O2P.Model.Cookies
/-
  O2P.Props.TrCookie — regenerated `splitCookieName`, `isSessionCookieName`
  (pkg/sessions/cookie/session_store.go) and `GetCookieDomain` (pkg/cookies/cookies.go) against
  the model functions of O2P/Model/CookieJar.lean and O2P/Model/Cookies.lean (C10, C11, C18), for
  every input; none of them panics.  `splitCookieName` slices `name[:len(name)-overflow]`: in
  range as long as the counter has at most 255 digits — every Go `int` (hypothesis `hd`, discharged
  for every counter `Atoi` can return in `isSessionCookieName_eq`).
-/
set_option linter.unusedSimpArgs false
set_option linter.unusedVariables false
open O2P O2P.Go

namespace O2P.TrCookie

theorem fmtD_nonneg (c : Int) (h : 0 ≤ c) : Go.fmtD c = natToStr c.toNat := by
  unfold Go.fmtD intToStr
  have : ¬ c < 0 := by omega
  simp [this]

theorem splitCookieName_eq (E : Go.Ext) (name : Str) (count : Int) (h0 : 0 ≤ count)
    (hd : (natToStr count.toNat).length ≤ 255) :
    Gen.Tr.splitCookieName E name count = .ok (O2P.splitCookieName name count.toNat) := by
  unfold Gen.Tr.splitCookieName O2P.splitCookieName
  rw [fmtD_nonneg count h0]
  generalize natToStr count.toNat = ds at hd ⊢
  have happ : name ++ ['_'] ++ ds = name ++ '_' :: ds := by simp
  have hnval : (name ++ '_' :: ds).length = name.length + 1 + ds.length := by simp; omega
  simp only [Go.len, happ]
  generalize (name ++ '_' :: ds).length = n at hnval ⊢
  by_cases hov : n > 256
  · have h1 : decide ((n : Int) - 256 > 0) = true := by simp; omega
    have hs : Go.sliceTo name ((name.length : Int) - ((n : Int) - 256))
        = .ok (name.take (name.length - (n - 256))) := by
      unfold Go.sliceTo
      have hc : ¬ ((name.length : Int) - ((n : Int) - 256) < 0 ∨
          (name.length : Int) - ((n : Int) - 256) > name.length) := by omega
      simp only [hc, if_false]
      have ht : ((name.length : Int) - ((n : Int) - 256)).toNat = name.length - (n - 256) := by omega
      rw [ht]; rfl
    simp only [h1, if_true, hov]
    rw [hs]
    simp [bind, Except.bind, pure, Except.pure]
  · have h1 : decide ((n : Int) - 256 > 0) = false := by simp; omega
    simp only [h1, hov]
    simp [pure, Except.pure]

theorem isSessionCookieName_eq (E : Go.Ext) (name candidate : Str) :
    Gen.Tr.isSessionCookieName E name candidate = .ok (O2P.matchesSessionName name candidate) := by
  unfold Gen.Tr.isSessionCookieName O2P.matchesSessionName
  by_cases hn : candidate = name
  · simp [hn, pure, Except.pure]
  · simp only [Go.stringsLastIndex, Go.stringsLastIndexByte]
    obtain ⟨r, hl⟩ : ∃ r, lastIndexOf '_' candidate = r := ⟨_, rfl⟩
    simp only [hl]
    cases r with
    | none => simp [hn, pure, Except.pure]
    | some idx =>
      have hlt := lastIndexOf_some_lt hl
      have hs : Go.sliceFrom candidate ((idx : Int) + 1) = .ok (candidate.drop (idx + 1)) := by
        unfold Go.sliceFrom
        have : ¬ ((idx : Int) + 1 < 0 ∨ (idx : Int) + 1 > candidate.length) := by omega
        simp only [this, if_false]
        have ht : ((idx : Int) + 1).toNat = idx + 1 := by omega
        rw [ht]; rfl
      have hneg : ¬ ((idx : Int) < 0) := by omega
      simp only [hn, hs, Go.strconvAtoi, bind, Except.bind, pure, Except.pure]
      obtain ⟨ra, ha⟩ : ∃ ra, atoi (candidate.drop (idx + 1)) = ra := ⟨_, rfl⟩
      simp only [ha]
      cases ra with
      | none => simp [hneg, hn]
      | some count =>
        by_cases hc : count < 0
        · have : ¬ (0 ≤ count) := by omega
          simp [hneg, hc, this, hn]
        · have h0 : 0 ≤ count := by omega
          have hr := atoi_range ha
          have hd : (natToStr count.toNat).length ≤ 255 := by
            have : count.toNat < 10 ^ 19 := by omega
            have := natToStr_length_le (k := 19) (by decide) this
            omega
          simp [hneg, hc, h0, hn, splitCookieName_eq E name count h0 hd]

theorem findSome?_find? {α} (xs : List α) (p : α → Bool) :
    xs.findSome? (fun x => if p x then some x else none) = xs.find? p := by
  induction xs with
  | nil => rfl
  | cons x xs ih => by_cases hp : p x <;> simp [List.findSome?_cons, List.find?_cons, hp, ih]

/-- the host name `GetCookieDomain` matches against, with `net.SplitHostPort` as a parameter -/
def hostNameWith (E : Go.Ext) (host : Str) : Str :=
  match E.splitHostPortStd host with
  | some (h, _) => h
  | none => host

/-- `GetCookieDomain`, given what the regenerated `GetRequestHost` answers for the request
    (`O2P.TrReq.GetRequestHost_eq` says what that is) -/
theorem GetCookieDomain_eq (E : Go.Ext) (req : Go.Req) (host : Str) (domains : List Str)
    (hreq : Gen.Tr.GetRequestHost E req = .ok host) :
    Gen.Tr.GetCookieDomain E req domains
      = .ok ((domains.find? (fun d => hasSuffix d (hostNameWith E host))).getD []) := by
  unfold Gen.Tr.GetCookieDomain
  have hloop := fun (H : Str) => forRange_ok domains
    (fun domain => do
      if (Go.stringsHasSuffix H domain) then
        return some domain
      return none)
    (fun d => if hasSuffix d H then some d else none)
    (fun d _ => by by_cases h : hasSuffix d H = true <;> simp [Go.stringsHasSuffix, h, pure, Except.pure])
  simp only [hreq, bind, Except.bind, Go.netSplitHostPort, hostNameWith]
  obtain ⟨rs, hsp⟩ : ∃ rs, E.splitHostPortStd host = rs := ⟨_, rfl⟩
  simp only [hsp]
  cases rs with
  | none =>
    have := hloop host
    simp [bind, Except.bind, pure, Except.pure, findSome?_find?] at this ⊢
    rw [this]
    cases domains.find? (fun d => hasSuffix d host) <;> rfl
  | some hp =>
    obtain ⟨h, p⟩ := hp
    have := hloop h
    simp [bind, Except.bind, pure, Except.pure, findSome?_find?] at this ⊢
    rw [this]
    cases domains.find? (fun d => hasSuffix d h) <;> rfl

/-- with the model of `net.SplitHostPort` plugged in: the model's `getCookieDomain` -/
theorem GetCookieDomain_model (E : Go.Ext) (req : Go.Req) (host : Str) (domains : List Str)
    (hreq : Gen.Tr.GetRequestHost E req = .ok host)
    (hE : E.splitHostPortStd = Ck.splitHostPortGo) :
    Gen.Tr.GetCookieDomain E req domains = .ok ((Ck.getCookieDomain domains host).getD []) := by
  rw [GetCookieDomain_eq E req host domains hreq]
  unfold hostNameWith Ck.getCookieDomain Ck.hostName
  rw [hE]
  cases Ck.splitHostPortGo host with
  | none => rfl
  | some hp => rfl

end O2P.TrCookie
