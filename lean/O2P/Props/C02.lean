/-
  O2P.Props.C02 — "Any alteration of a cookie the proxy issued … is either rejected or decodes
  to exactly the value that was issued; nothing the proxy did not itself produce is accepted."
  (cookie layer: `encryption.SignedValue` / `encryption.Validate`,
   /repo/pkg/encryption/utils.go)

  Everything below is proved for EVERY keyed hash `mac : key → message → tag`.

  Reading guide
  * §1  base64 facts (round trip for all four encodings, length, alphabet, `|`/`:` freedom)
  * §2  `validate_signedValue`   — what the proxy issues, it accepts and decodes correctly
  * §3  `validate_accepts_iff`   — the exact acceptance condition, i.e. exactly which bytes
                                    the MAC covers
  * §4  `tamper_*`               — wrong number of parts / wrong tag ⇒ rejected
  * §5  binding                  — what equality of the (undelimited!) MAC input determines:
        `binding_same_lengths`, `padded_decode_len`, `mac_input_binding`, `shift_rejected`,
        `c02_binding_partial`, and the machine-checked RESIDUAL witnesses
        `zero_shift_accepted`, `cross_name_accepted` which show that the full-strength
        statement `c02_full` is FALSE for the code as written, for every `mac`.
  * §6  concrete instances (toy mac, and real HMAC-SHA256 values printed by the Go code)
-/
import O2P.Lemmas.Binding
import O2P.Props.C09

namespace O2P.C02
open O2P

/-- "the keyed hash returns bytes" (true for HMAC-SHA256) -/
def MacBytes (mac : Str → Str → Str) : Prop := ∀ k m, IsBytes (mac k m)

/-! ## §1 base64 -/

/-- round trip, all four encodings (`url`/std alphabet × padded/raw), every byte string -/
theorem b64Decode_encode (url pad : Bool) (s : Str) (h : IsBytes s) :
    b64Decode url pad (b64Encode url pad s) = some s :=
  O2P.b64Decode_encode url pad s h

/-- round trip without any hypothesis (chars ≥ 256 are truncated to their low byte) -/
theorem b64Decode_encode_gen (url pad : Bool) (s : Str) :
    b64Decode url pad (b64Encode url pad s) = some (s.map truncByte) :=
  O2P.b64Decode_encode_gen url pad s

/-- Go's `EncodedLen` -/
theorem b64Encode_length (url pad : Bool) (s : Str) :
    (b64Encode url pad s).length =
      if pad then (s.length + 2) / 3 * 4 else s.length / 3 * 4 + (s.length % 3 * 8 + 5) / 6 :=
  O2P.b64Encode_length url pad s

/-- output characters lie in the 64-character alphabet (plus `=` when padded) -/
theorem b64Encode_alphabet (url pad : Bool) (s : Str) :
    ∀ c ∈ b64Encode url pad s, isB64 url c ∨ (pad = true ∧ c = '=') :=
  O2P.b64Encode_alphabet url pad s

/-- the alphabet (and `=`) contains neither `|` nor `:` -/
theorem alphabet_no_separators (url : Bool) (c : Char) (h : isB64 url c ∨ c = '=') :
    c ≠ '|' ∧ c ≠ ':' := by
  rcases h with h | h
  · exact ⟨isB64_ne_pipe h, isB64_ne_colon h⟩
  · subst h; decide

theorem b64Encode_no_pipe (url pad : Bool) (s : Str) : '|' ∉ b64Encode url pad s :=
  O2P.b64Encode_no_pipe url pad s
theorem b64Encode_no_colon (url pad : Bool) (s : Str) : ':' ∉ b64Encode url pad s :=
  O2P.b64Encode_no_colon url pad s

/-- **padded_decode_len** — a string accepted by a padded decoder has, after CR/LF removal,
    a length that is a multiple of 4 -/
theorem padded_decode_len (url : Bool) (s v : Str) (h : b64Decode url true s = some v) :
    (s.filter (fun c => !isCRLF c)).length % 4 = 0 :=
  O2P.b64Decode_pad_length url s v h

/-- decoder output is always a byte string -/
theorem b64Decode_isBytes (url pad : Bool) (s v : Str) (h : b64Decode url pad s = some v) :
    IsBytes v :=
  O2P.b64Decode_isBytes url pad s v h

/-! ## §2 round trip -/

/-- **validate_signedValue** — a cookie issued at second `ts` (any int64) for byte string `v`
    validates, under the same name and seed, to exactly `(v, ts)` whenever `ts` is inside the
    window (`inWindow ts expire now`, trivially true for `expire = 0`).  No hypothesis on `mac`. -/
theorem validate_signedValue (mac : Str → Str → Str) (seed name v : Str) (ts expireNs nowNs : Int)
    (hv : IsBytes v) (h1 : -9223372036854775808 ≤ ts) (h2 : ts ≤ 9223372036854775807)
    (hw : inWindow ts expireNs nowNs) :
    validate mac name (signedValue mac seed name v ts) seed expireNs nowNs = some (v, ts) := by
  rw [validate_eq_some_iff]
  refine ⟨_, _, _, signedValue_split mac seed name v ts, ?_, atoi_intToStr ts h1 h2, hw,
    O2P.b64Decode_encode true true v hv⟩
  unfold cookieSignature
  rw [O2P.b64Decode_encode_gen]
  simp

/-! ## §3 exact acceptance condition -/

/-- **validate_accepts_iff** — `validate` accepts with `(v, t)` iff the cookie value has exactly
    three `|`-separated parts `p0|p1|p2`, `p2` decodes (padded URL base64, leniently) to the tag
    `mac seed (name ++ p0 ++ p1)` — the MAC covers the UNDELIMITED concatenation of the cookie
    name, the still-encoded value and the timestamp text —, `p1` parses (`Atoi`) to `t`, `t` is
    in the window, and `p0` decodes (padded URL base64, leniently) to `v`. -/
theorem validate_accepts_iff (mac : Str → Str → Str) (hmac : MacBytes mac)
    (name cookieValue seed : Str) (expireNs nowNs : Int) (v : Str) (t : Int) :
    validate mac name cookieValue seed expireNs nowNs = some (v, t) ↔
      ∃ p0 p1 p2, splitOn '|' cookieValue = [p0, p1, p2]
        ∧ b64Decode true true p2 = some (mac seed (name ++ p0 ++ p1))
        ∧ atoi p1 = some t
        ∧ (expireNs = 0 ∨ (effSec t * 1000000000 > nowNs - expireNs
                            ∧ effSec t * 1000000000 < nowNs + 300 * 1000000000))
        ∧ b64Decode true true p0 = some v := by
  rw [validate_eq_some_iff]
  simp only [map_truncByte_of_isBytes (hmac _ _)]
  rfl

/-- the same for an arbitrary `mac` (tag chars ≥ 256 are byte-truncated by the encoder) -/
theorem validate_accepts_iff_gen (mac : Str → Str → Str)
    (name cookieValue seed : Str) (expireNs nowNs : Int) (v : Str) (t : Int) :
    validate mac name cookieValue seed expireNs nowNs = some (v, t) ↔
      ∃ p0 p1 p2, splitOn '|' cookieValue = [p0, p1, p2]
        ∧ b64Decode true true p2 = some ((mac seed (name ++ p0 ++ p1)).map truncByte)
        ∧ atoi p1 = some t
        ∧ inWindow t expireNs nowNs
        ∧ b64Decode true true p0 = some v :=
  validate_eq_some_iff mac name cookieValue seed expireNs nowNs v t

/-! ## §4 simple tampering -/

/-- not exactly three `|`-separated parts ⇒ rejected -/
theorem tamper_parts (mac : Str → Str → Str) (name cookieValue seed : Str) (expireNs nowNs : Int)
    (h : (splitOn '|' cookieValue).length ≠ 3) :
    validate mac name cookieValue seed expireNs nowNs = none := by
  apply validate_eq_none_of_parts
  intro p0 p1 p2 hsp
  rw [hsp] at h
  exact h rfl

/-- the presented tag does not decode to the expected tag ⇒ rejected -/
theorem tamper_tag (mac : Str → Str → Str) (name cookieValue seed : Str) (expireNs nowNs : Int)
    (p0 p1 p2 : Str) (hsp : splitOn '|' cookieValue = [p0, p1, p2])
    (h : b64Decode true true p2 ≠ some ((mac seed (name ++ p0 ++ p1)).map truncByte)) :
    validate mac name cookieValue seed expireNs nowNs = none := by
  cases hv : validate mac name cookieValue seed expireNs nowNs with
  | none => rfl
  | some r =>
    obtain ⟨v, t⟩ := r
    obtain ⟨q0, q1, q2, hsp', hsig, _⟩ := (validate_eq_some_iff ..).mp hv
    rw [hsp] at hsp'
    simp only [List.cons.injEq, and_true] at hsp'
    obtain ⟨rfl, rfl, rfl⟩ := hsp'
    exact absurd hsig h

/-- **tamper_simple** — for every byte-valued `mac`: if the presented signature part is (any
    encoding of) a tag that was computed for message `m` — e.g. the signature part of an issued
    cookie — and the presented `name/p0/p1` give a message whose tag differs, the cookie is
    rejected.  So under a collision-free `mac` any change to name, value part or timestamp part
    that changes the concatenation `name ++ p0 ++ p1` is rejected. -/
theorem tamper_simple (mac : Str → Str → Str) (hmac : MacBytes mac)
    (name cookieValue seed : Str) (expireNs nowNs : Int) (p0 p1 p2 m : Str)
    (hsp : splitOn '|' cookieValue = [p0, p1, p2])
    (hp2 : b64Decode true true p2 = some (mac seed m))
    (hne : mac seed (name ++ p0 ++ p1) ≠ mac seed m) :
    validate mac name cookieValue seed expireNs nowNs = none := by
  apply tamper_tag mac name cookieValue seed expireNs nowNs p0 p1 p2 hsp
  rw [hp2, map_truncByte_of_isBytes (hmac _ _)]
  intro h
  exact hne (Option.some.inj h).symm

/-- instance of `tamper_simple`: re-using the signature of an issued cookie with a different
    name / value part / timestamp part whose MAC differs is rejected -/
theorem tamper_issued (mac : Str → Str → Str) (hmac : MacBytes mac)
    (seed name v : Str) (ts : Int) (name' p0' p1' : Str) (expireNs nowNs : Int)
    (hp0 : '|' ∉ p0') (hp1 : '|' ∉ p1')
    (hne : mac seed (name' ++ p0' ++ p1') ≠
           mac seed (name ++ b64Encode true true v ++ intToStr ts)) :
    validate mac name'
      (p0' ++ '|' :: (p1' ++ '|' :: cookieSignature mac seed [name, b64Encode true true v, intToStr ts]))
      seed expireNs nowNs = none := by
  apply tamper_simple mac hmac name' _ seed expireNs nowNs p0' p1' _
    (name ++ b64Encode true true v ++ intToStr ts)
    (splitOn_three _ _ _ hp0 hp1 (cookieSignature_no_pipe _ _ _)) ?_ hne
  unfold cookieSignature
  rw [O2P.b64Decode_encode_gen, map_truncByte_of_isBytes (hmac _ _)]
  simp

/-! ## §5 binding: what MAC-input equality determines

  Unforgeability of the keyed hash yields (outside Lean) the hypothesis used below: an accepted
  cookie's MAC input `name' ++ p0' ++ p1'` equals the MAC input `name ++ E ++ D` of some issued
  cookie, `E = b64Encode true true v`, `D = natToStr ts`.  Because the concatenation is
  undelimited this does NOT force `(name', p0', p1') = (name, E, D)`.

  `c02_full` (the property at full strength; NOT a theorem — refuted below):
  ```
  theorem c02_full (mac) (name seed v cookie' v') (ts : Nat) (t' expire now : Int) (name' p0 p1 p2)
      (hsp : splitOn '|' cookie' = [p0, p1, p2])
      (hacc : validate mac name' cookie' seed expire now = some (v', t'))
      (hmacin : name' ++ p0 ++ p1 = name ++ b64Encode true true v ++ natToStr ts) :
      name' = name ∧ v' = v ∧ t' = ts
  ```
  Counter-examples, valid for EVERY `mac`, are `zero_shift_accepted` (same name, `v' ≠ v`) and
  `cross_name_accepted` (`name' ≠ name`); both were reproduced against the real Go `Validate`
  with real HMAC-SHA256 (see §6 and the report).
-/

/-- **binding_same_lengths** — same name and a value part of the issued length ⇒ value part
    and timestamp part are exactly the issued ones -/
theorem binding_same_lengths (name p0 p1 E D : Str)
    (h : name ++ p0 ++ p1 = name ++ E ++ D) (hl : p0.length = E.length) :
    p0 = E ∧ p1 = D := by
  rw [List.append_assoc, List.append_assoc] at h
  exact List.append_inj (List.append_cancel_left h) hl

/-- **mac_input_binding** — same name ⇒ either the parts are the issued ones, or the
    value/timestamp boundary moved (`Shift`, defined in `O2P/Lemmas/Binding.lean`) -/
theorem mac_input_binding (name p0 p1 E D : Str) (h : name ++ p0 ++ p1 = name ++ E ++ D) :
    (p0 = E ∧ p1 = D) ∨ Shift E D p0 p1 := by
  rw [List.append_assoc, List.append_assoc] at h
  exact append_trichotomy (List.append_cancel_left h)

/-- shape of an ACCEPTED shift, any expiry (also `expire = 0`, where no window check helps):
    * left shift: the moved block `B` is `4k` characters (`k ≥ 1` whole quanta), either all
      decimal digits — then the parsed timestamp is `digits(B)·10^|D| + ts` — or `-` followed by
      digits (timestamp ≤ 0);
    * right shift: at least 4 leading digits of the timestamp were moved into the value, the
      parsed timestamp satisfies `0 ≤ t'` and `1000·t' < ts`. -/
theorem shift_shape {v p0 p1 v' : Str} {ts : Nat} {t' : Int}
    (hs : Shift (b64Encode true true v) (natToStr ts) p0 p1)
    (hdec : b64Decode true true p0 = some v') (hat : atoi p1 = some t') :
    (∃ B, B ≠ [] ∧ b64Encode true true v = p0 ++ B ∧ p1 = B ++ natToStr ts ∧ B.length % 4 = 0 ∧
        ((AllDigits B ∧ t' = (digitsToNat B * 10 ^ (natToStr ts).length + ts : Nat))
          ∨ (∃ B', B = '-' :: B' ∧ t' ≤ 0)))
    ∨ (ShiftRight (b64Encode true true v) (natToStr ts) p0 p1 ∧ 0 ≤ t' ∧ 1000 * t' < (ts : Int)) := by
  rcases hs with hl | hr
  · exact .inl (shiftLeft_analysis hl hdec hat)
  · exact .inr ⟨hr, shiftRight_analysis hr hdec hat⟩

/-- **shift_rejected** — with a non-zero expiry `< 2·10⁸ s` (≈ 6.3 years), a clock `≥ 10⁹ s`
    (after 2001-09-09) and an issued cookie that is itself still inside the window, every
    shifted variant is rejected, EXCEPT the `ZeroShift` residual (whole quanta `"0000"` moved
    in front of the timestamp, where they are leading zeros and leave its numeric value
    unchanged).  Fewer digits ⇒ too old; more digits not all zero ⇒ ≥ 5 min in the future (or
    wrapped into the distant past); leading `-` ⇒ ≤ 0 ⇒ too old. -/
theorem shift_rejected (mac : Str → Str → Str) (name seed v cookie' p0 p1 p2 : Str) (ts : Nat)
    (expireNs nowNs : Int) (hexp : expireNs ≠ 0)
    (hnow : 1000000000000000000 ≤ nowNs) (hexpire : expireNs < 200000000000000000)
    (horig_lo : nowNs - expireNs < (ts : Int) * 1000000000)
    (hsp : splitOn '|' cookie' = [p0, p1, p2])
    (hshift : Shift (b64Encode true true v) (natToStr ts) p0 p1)
    (hnz : ¬ ZeroShift (b64Encode true true v) (natToStr ts) p0 p1)
    (horig_hi : (ts : Int) * 1000000000 < nowNs + 300 * 1000000000) :
    validate mac name cookie' seed expireNs nowNs = none := by
  cases hv : validate mac name cookie' seed expireNs nowNs with
  | none => rfl
  | some r =>
    exfalso
    obtain ⟨v', t'⟩ := r
    obtain ⟨q0, q1, q2, hsp', _, hat, hw, hdec⟩ := (validate_eq_some_iff ..).mp hv
    rw [hsp] at hsp'
    simp only [List.cons.injEq, and_true] at hsp'
    obtain ⟨rfl, rfl, rfl⟩ := hsp'
    obtain ⟨hlo, hhi⟩ := atoi_range hat
    rcases hw with h0 | ⟨hw1, hw2⟩
    · exact hexp h0
    rcases shift_shape hshift hdec hat with ⟨B, hB, hE, hp1, hB4, hcase⟩ | ⟨_, ht0, ht1⟩
    · rcases hcase with ⟨hBd, ht⟩ | ⟨B', _, htneg⟩
      · by_cases hz : digitsToNat B = 0
        · apply hnz
          have hBz := digitsToNat_eq_zero hBd hz
          have hBl : 0 < B.length := List.length_pos_iff.mpr hB
          refine ⟨B.length / 4, by omega, ?_, ?_⟩
          · have : 4 * (B.length / 4) = B.length := by omega
            rw [this, ← hBz]; exact hE
          · have : 4 * (B.length / 4) = B.length := by omega
            rw [this, ← hBz]; exact hp1
        · have hP := natToStr_lt ts
          have hX : 10 ^ (natToStr ts).length ≤ digitsToNat B * 10 ^ (natToStr ts).length :=
            Nat.le_mul_of_pos_left _ (Nat.pos_of_ne_zero hz)
          generalize digitsToNat B * 10 ^ (natToStr ts).length = X at ht hX
          generalize 10 ^ (natToStr ts).length = P at hP hX
          subst ht
          by_cases hbig : ((X + ts : Nat) : Int) ≤ 9223371974719179007
          · rw [effSec_eq (by omega) hbig] at hw1 hw2; omega
          · rw [effSec_wrapped (by omega) hhi] at hw1 hw2; omega
      · rw [effSec_eq (by omega) (by omega)] at hw1; omega
    · by_cases hbig : t' ≤ 9223371974719179007
      · rw [effSec_eq (by omega) hbig] at hw1 hw2; omega
      · rw [effSec_wrapped (by omega) hhi] at hw1 hw2; omega

/-- **c02_binding_partial** — the provable part of C02 for same-name alterations.
    Hypotheses: the presented cookie is accepted (`hacc`) and — this is what unforgeability of
    the MAC provides — its MAC input equals the MAC input of a cookie issued under the SAME name
    for `(v, ts)` (`hmacin`); the issued cookie is still inside the window, the expiry is non-zero
    and `< 2·10⁸ s`, the clock is `≥ 10⁹ s`.
    Conclusion: either the presented cookie carries exactly the issued value part and timestamp
    part and decodes to exactly `(v, ts)`; or it is the `ZeroShift` residual: same timestamp
    `ts`, and the returned value is the issued value with `k ≥ 1` trailing byte triples
    `D3 4D 34` (= base64 `"0000"`) cut off. -/
theorem c02_binding_partial (mac : Str → Str → Str) (name seed v cookie' v' p0 p1 p2 : Str) (ts : Nat)
    (t' expireNs nowNs : Int) (hv : IsBytes v) (hexp : expireNs ≠ 0)
    (hnow : 1000000000000000000 ≤ nowNs) (hexpire : expireNs < 200000000000000000)
    (horig_lo : nowNs - expireNs < (ts : Int) * 1000000000)
    (horig_hi : (ts : Int) * 1000000000 < nowNs + 300 * 1000000000)
    (hsp : splitOn '|' cookie' = [p0, p1, p2])
    (hacc : validate mac name cookie' seed expireNs nowNs = some (v', t'))
    (hmacin : name ++ p0 ++ p1 = name ++ b64Encode true true v ++ natToStr ts) :
    (p0 = b64Encode true true v ∧ p1 = natToStr ts ∧ v' = v ∧ t' = ts)
    ∨ (t' = ts ∧ ∃ k, 0 < k ∧ v = v' ++ zeroBlock k
          ∧ b64Encode true true v = p0 ++ List.replicate (4 * k) '0'
          ∧ p1 = List.replicate (4 * k) '0' ++ natToStr ts) := by
  obtain ⟨q0, q1, q2, hsp', _, hat, _, hdec⟩ := (validate_eq_some_iff ..).mp hacc
  rw [hsp] at hsp'
  simp only [List.cons.injEq, and_true] at hsp'
  obtain ⟨rfl, rfl, rfl⟩ := hsp'
  rcases mac_input_binding name p0 p1 _ _ hmacin with ⟨h0, h1⟩ | hshift
  · left
    subst h0 h1
    rw [O2P.b64Decode_encode true true v hv] at hdec
    rw [atoi_of_digits (natToStr_ne_nil ts) (natToStr_allDigits ts), digitsToNat_natToStr] at hat
    split at hat
    · simp only [Option.some.injEq] at hdec hat
      exact ⟨rfl, rfl, hdec.symm, hat.symm⟩
    · simp at hat
  · right
    by_cases hz : ZeroShift (b64Encode true true v) (natToStr ts) p0 p1
    · obtain ⟨k, hk, hE, hp1⟩ := hz
      refine ⟨?_, k, hk, zeroShift_value hv hk hE hdec, hE, hp1⟩
      rw [hp1, atoi_of_digits (by simp [natToStr_ne_nil])
        ((allDigits_replicate_zero _).append (natToStr_allDigits ts)),
        digitsToNat_append, digitsToNat_replicate_zero, digitsToNat_natToStr] at hat
      split at hat
      · simp only [Option.some.injEq] at hat; rw [← hat]; simp
      · simp at hat
    · have := shift_rejected mac name seed v cookie' p0 p1 p2 ts expireNs nowNs hexp hnow hexpire
        horig_lo hsp hshift hz horig_hi
      rw [this] at hacc
      simp at hacc

/-- a timestamp ≥ 10⁹ has at least 10 digits -/
theorem pow_len_ge (ts : Nat) (hts : 1000000000 ≤ ts) : 10000000000 ≤ 10 ^ (natToStr ts).length := by
  have hlt := natToStr_lt ts
  have hlen : 10 ≤ (natToStr ts).length := by
    apply Nat.le_of_not_lt
    intro h
    have : 10 ^ (natToStr ts).length ≤ 10 ^ 9 := Nat.pow_le_pow_right (by decide) (by omega)
    omega
  have : 10 ^ 10 ≤ 10 ^ (natToStr ts).length := Nat.pow_le_pow_right (by decide) hlen
  omega

/-- **shift_expired_rejected** — shifting cannot revive an EXPIRED issued cookie: if the issued
    timestamp `ts ≥ 10⁹` (issued after 2001-09-09) has expired (`ts ≤ now − expire`), the clock
    fits `UnixNano` (`now < 2⁶³ ns`, year 2262) and `now − expire ≥ 0`, then EVERY shifted
    variant (the `ZeroShift` included) is rejected. -/
theorem shift_expired_rejected (mac : Str → Str → Str) (name seed v cookie' p0 p1 p2 : Str) (ts : Nat)
    (expireNs nowNs : Int) (hexp : expireNs ≠ 0)
    (hnowmax : nowNs ≤ 9223372036854775807) (hpos : 0 ≤ nowNs - expireNs)
    (hts : 1000000000 ≤ ts)
    (horig_expired : (ts : Int) * 1000000000 ≤ nowNs - expireNs)
    (hsp : splitOn '|' cookie' = [p0, p1, p2])
    (hshift : Shift (b64Encode true true v) (natToStr ts) p0 p1) :
    validate mac name cookie' seed expireNs nowNs = none := by
  cases hv : validate mac name cookie' seed expireNs nowNs with
  | none => rfl
  | some r =>
    exfalso
    obtain ⟨v', t'⟩ := r
    obtain ⟨q0, q1, q2, hsp', _, hat, hw, hdec⟩ := (validate_eq_some_iff ..).mp hv
    rw [hsp] at hsp'
    simp only [List.cons.injEq, and_true] at hsp'
    obtain ⟨rfl, rfl, rfl⟩ := hsp'
    obtain ⟨hlo, hhi⟩ := atoi_range hat
    rcases hw with h0 | ⟨hw1, hw2⟩
    · exact hexp h0
    rcases shift_shape hshift hdec hat with ⟨B, hB, hE, hp1, hB4, hcase⟩ | ⟨_, ht0, ht1⟩
    · rcases hcase with ⟨hBd, ht⟩ | ⟨B', _, htneg⟩
      · have hP := pow_len_ge ts hts
        have hX : digitsToNat B = 0 ∨
            10 ^ (natToStr ts).length ≤ digitsToNat B * 10 ^ (natToStr ts).length := by
          by_cases hz : digitsToNat B = 0
          · exact .inl hz
          · exact .inr (Nat.le_mul_of_pos_left _ (Nat.pos_of_ne_zero hz))
        rcases hX with hz | hX
        · rw [hz, Nat.zero_mul, Nat.zero_add] at ht
          subst ht
          by_cases hbig : (ts : Int) ≤ 9223371974719179007
          · rw [effSec_eq (by omega) hbig] at hw1; omega
          · rw [effSec_wrapped (by omega) hhi] at hw1; omega
        · generalize digitsToNat B * 10 ^ (natToStr ts).length = X at ht hX
          generalize 10 ^ (natToStr ts).length = P at hP hX
          subst ht
          by_cases hbig : ((X + ts : Nat) : Int) ≤ 9223371974719179007
          · rw [effSec_eq (by omega) hbig] at hw1 hw2; omega
          · rw [effSec_wrapped (by omega) hhi] at hw1 hw2; omega
      · rw [effSec_eq (by omega) (by omega)] at hw1; omega
    · by_cases hbig : t' ≤ 9223371974719179007
      · rw [effSec_eq (by omega) hbig] at hw1 hw2; omega
      · rw [effSec_wrapped (by omega) hhi] at hw1 hw2; omega

/-- **c02_binding_partial_anyage** — like `c02_binding_partial` but WITHOUT assuming that the
    issued cookie is still unexpired: it suffices that it was issued after 2001-09-09
    (`ts ≥ 10⁹`), not from the future (`ts < now + 5 min`), and that the clock fits `UnixNano`.
    (If the issued cookie has expired, everything is rejected and the hypothesis `hacc` is
    contradictory; otherwise `c02_binding_partial` applies.) -/
theorem c02_binding_partial_anyage (mac : Str → Str → Str) (name seed v cookie' v' p0 p1 p2 : Str)
    (ts : Nat) (t' expireNs nowNs : Int) (hv : IsBytes v) (hexp : expireNs ≠ 0)
    (hnow : 1000000000000000000 ≤ nowNs) (hnowmax : nowNs ≤ 9223372036854775807)
    (hexpire : expireNs < 200000000000000000) (hts : 1000000000 ≤ ts)
    (horig_hi : (ts : Int) * 1000000000 < nowNs + 300 * 1000000000)
    (hsp : splitOn '|' cookie' = [p0, p1, p2])
    (hacc : validate mac name cookie' seed expireNs nowNs = some (v', t'))
    (hmacin : name ++ p0 ++ p1 = name ++ b64Encode true true v ++ natToStr ts) :
    (p0 = b64Encode true true v ∧ p1 = natToStr ts ∧ v' = v ∧ t' = ts)
    ∨ (t' = ts ∧ ∃ k, 0 < k ∧ v = v' ++ zeroBlock k
          ∧ b64Encode true true v = p0 ++ List.replicate (4 * k) '0'
          ∧ p1 = List.replicate (4 * k) '0' ++ natToStr ts) := by
  by_cases horig_lo : nowNs - expireNs < (ts : Int) * 1000000000
  · exact c02_binding_partial mac name seed v cookie' v' p0 p1 p2 ts t' expireNs nowNs hv hexp hnow
      hexpire horig_lo horig_hi hsp hacc hmacin
  · exfalso
    rcases mac_input_binding name p0 p1 _ _ hmacin with ⟨h0, h1⟩ | hshift
    · -- the issued cookie itself: expired
      obtain ⟨q0, q1, q2, hsp', _, hat, _, _⟩ := (validate_eq_some_iff ..).mp hacc
      rw [hsp] at hsp'
      simp only [List.cons.injEq, and_true] at hsp'
      obtain ⟨rfl, rfl, rfl⟩ := hsp'
      subst h1
      rw [atoi_of_digits (natToStr_ne_nil ts) (natToStr_allDigits ts), digitsToNat_natToStr] at hat
      split at hat
      · simp only [Option.some.injEq] at hat
        have := C09.expired_rejected mac name cookie' seed expireNs nowNs p0 (natToStr ts) p2 ts hexp hsp
          (by rw [atoi_natToStr ts (by omega)]) (by omega)
        rw [this] at hacc; simp at hacc
      · simp at hat
    · have := shift_expired_rejected mac name seed v cookie' p0 p1 p2 ts expireNs nowNs hexp hnowmax
        (by omega) hts (by omega) hsp hshift
      rw [this] at hacc; simp at hacc

/-- binding for ANY expiry (including `expire = 0`, where the window does not help): an accepted
    same-name cookie with an issued MAC input either is the issued one or is a `Shift` of the
    shape described in `shift_shape`.  With `expire = 0` every such shift IS accepted, so the
    residual is larger than `ZeroShift` there (any trailing all-digit quanta of the encoded
    value may be moved into the timestamp and any 4k leading timestamp digits into the value). -/
theorem c02_binding_any_expiry (mac : Str → Str → Str) (name seed v cookie' v' p0 p1 p2 : Str) (ts : Nat)
    (t' expireNs nowNs : Int) (hv : IsBytes v) (hts : ts ≤ 9223372036854775807)
    (hsp : splitOn '|' cookie' = [p0, p1, p2])
    (hacc : validate mac name cookie' seed expireNs nowNs = some (v', t'))
    (hmacin : name ++ p0 ++ p1 = name ++ b64Encode true true v ++ natToStr ts) :
    (p0 = b64Encode true true v ∧ p1 = natToStr ts ∧ v' = v ∧ t' = ts)
    ∨ (Shift (b64Encode true true v) (natToStr ts) p0 p1 ∧ b64Decode true true p0 = some v'
        ∧ atoi p1 = some t') := by
  obtain ⟨q0, q1, q2, hsp', _, hat, _, hdec⟩ := (validate_eq_some_iff ..).mp hacc
  rw [hsp] at hsp'
  simp only [List.cons.injEq, and_true] at hsp'
  obtain ⟨rfl, rfl, rfl⟩ := hsp'
  rcases mac_input_binding name p0 p1 _ _ hmacin with ⟨h0, h1⟩ | hshift
  · left
    subst h0 h1
    rw [O2P.b64Decode_encode true true v hv] at hdec
    rw [atoi_natToStr ts hts] at hat
    simp only [Option.some.injEq] at hdec hat
    exact ⟨rfl, rfl, hdec.symm, hat.symm⟩
  · exact .inr ⟨hshift, hdec, hat⟩

/-! ### the residual is real (for every `mac`) -/

theorem b64Encode_zeroBlock (k : Nat) :
    b64Encode true true (zeroBlock k) = List.replicate (4 * k) '0' := by
  induction k with
  | zero => rfl
  | succ k ih =>
    have hq : b64Encode true true [Char.ofNat 0xD3, Char.ofNat 0x4D, Char.ofNat 0x34]
        = ['0', '0', '0', '0'] := by decide
    have : 4 * (k + 1) = (4 * k) + 1 + 1 + 1 + 1 := by omega
    rw [this]
    show b64Encode true true ([Char.ofNat 0xD3, Char.ofNat 0x4D, Char.ofNat 0x34] ++ zeroBlock k) = _
    rw [b64Encode_append true true _ _ (by rfl), hq, ih]
    simp [List.replicate_succ]

/-- **zero_shift_accepted** — refutes `c02_full` under the SAME cookie name, for every `mac`,
    seed, name, timestamp and window: issue a cookie for the value `v0 ++ zeroBlock k`
    (`|v0|` a multiple of 3), move the `4k` trailing `'0'` characters of its encoded value in
    front of the timestamp, keep the signature: the result is accepted and decodes to `v0`,
    which the proxy never issued. -/
theorem zero_shift_accepted (mac : Str → Str → Str) (seed name v0 : Str) (ts k : Nat)
    (expireNs nowNs : Int) (hv0 : IsBytes v0) (h3 : v0.length % 3 = 0)
    (hts : ts ≤ 9223372036854775807) (hw : inWindow ts expireNs nowNs) :
    validate mac name
      (b64Encode true true v0 ++ '|' :: ((List.replicate (4 * k) '0' ++ natToStr ts) ++ '|' ::
        cookieSignature mac seed [name, b64Encode true true (v0 ++ zeroBlock k), natToStr ts]))
      seed expireNs nowNs = some (v0, (ts : Int)) := by
  have hd : AllDigits (List.replicate (4 * k) '0' ++ natToStr ts) :=
    (allDigits_replicate_zero _).append (natToStr_allDigits ts)
  rw [validate_eq_some_iff]
  refine ⟨_, _, _, splitOn_three _ _ _ (O2P.b64Encode_no_pipe _ _ _) (allDigits_no_pipe hd)
    (cookieSignature_no_pipe _ _ _), ?_, ?_, hw, O2P.b64Decode_encode true true v0 hv0⟩
  · unfold cookieSignature
    rw [O2P.b64Decode_encode_gen, b64Encode_append true true v0 _ h3, b64Encode_zeroBlock]
    simp [List.append_assoc]
  · rw [atoi_of_digits (by simp [natToStr_ne_nil]) hd, digitsToNat_append,
      digitsToNat_replicate_zero, digitsToNat_natToStr]
    simp [hts]

/-- the issued cookie of `zero_shift_accepted`, for comparison -/
theorem zero_shift_issued (mac : Str → Str → Str) (seed name v0 : Str) (ts k : Nat) :
    signedValue mac seed name (v0 ++ zeroBlock k) ts =
      b64Encode true true (v0 ++ zeroBlock k) ++ '|' :: (natToStr ts ++ '|' ::
        cookieSignature mac seed [name, b64Encode true true (v0 ++ zeroBlock k), natToStr ts]) := by
  have : intToStr (ts : Int) = natToStr ts := by
    unfold intToStr; rw [if_neg (by omega)]; simp
  simp [signedValue, this]

/-- **cross_name_accepted** — refutes `c02_full` ACROSS cookie names (the hypothesis
    `name' = name` of the binding theorems is necessary), for every `mac`: the cookie
    `_oauth2_proxy_csrf = abc0|ts|sig` issued for the 3 bytes `69 B7 34`, replayed with the same
    signature as `_oauth2_proxy = _csrfabc|0ts|sig`, is accepted and decodes to 6 bytes the proxy
    never issued under that name. -/
theorem cross_name_accepted (mac : Str → Str → Str) (seed : Str) (ts : Nat)
    (expireNs nowNs : Int) (hts : ts ≤ 9223372036854775807) (hw : inWindow ts expireNs nowNs) :
    signedValue mac seed "_oauth2_proxy_csrf".toList [Char.ofNat 0x69, Char.ofNat 0xB7, Char.ofNat 0x34] ts
      = "abc0".toList ++ '|' :: (natToStr ts ++ '|' ::
          cookieSignature mac seed ["_oauth2_proxy_csrf".toList, "abc0".toList, natToStr ts])
    ∧ validate mac "_oauth2_proxy".toList
      ("_csrfabc".toList ++ '|' :: (('0' :: natToStr ts) ++ '|' ::
        cookieSignature mac seed ["_oauth2_proxy_csrf".toList, "abc0".toList, natToStr ts]))
      seed expireNs nowNs
      = some ([Char.ofNat 0xFD, Char.ofNat 0xCB, Char.ofNat 0x2B, Char.ofNat 0x7D, Char.ofNat 0xA6,
               Char.ofNat 0xDC], (ts : Int)) := by
  constructor
  · have : intToStr (ts : Int) = natToStr ts := by
      unfold intToStr; rw [if_neg (by omega)]; simp
    have he : b64Encode true true [Char.ofNat 0x69, Char.ofNat 0xB7, Char.ofNat 0x34] = "abc0".toList := by
      decide
    simp only [signedValue, this, he]
  · have hd : AllDigits ('0' :: natToStr ts) := by
      intro c hc
      rcases List.mem_cons.mp hc with h | h
      · subst h; decide
      · exact natToStr_allDigits ts c h
    rw [validate_eq_some_iff]
    refine ⟨_, _, _, splitOn_three _ _ _ (by decide) (allDigits_no_pipe hd)
      (cookieSignature_no_pipe _ _ _), ?_, ?_, hw, by decide⟩
    · unfold cookieSignature
      rw [O2P.b64Decode_encode_gen]
      simp
    · rw [atoi_of_digits (by simp) hd, digitsToNat_cons, digitsToNat_natToStr]
      simp [hts]

/-! ## §6 concrete instances (non-vacuity) -/

theorem toyMac_macBytes : MacBytes toyMac := fun k m => toyMac_isBytes k m

theorem natToStr_1700000000 : natToStr 1700000000 = "1700000000".toList := by
  rw [natToStr_eq]; decide

-- `validate_signedValue`: hypotheses satisfiable (expire = 1 h, cookie 100 s old)
example :
    validate toyMac "n".toList (signedValue toyMac "k".toList "n".toList "hello".toList 1700000000)
      "k".toList 3600000000000 1700000100000000000 = some ("hello".toList, 1700000000) :=
  validate_signedValue toyMac _ _ _ _ _ _ (by decide) (by decide) (by decide) (by decide)

-- `tamper_parts`
example : validate toyMac "n".toList "aGk=|1700000000".toList "k".toList 0 0 = none :=
  tamper_parts _ _ _ _ _ _ (by decide)
example : validate toyMac "n".toList "aGk=|1700000000|x|".toList "k".toList 0 0 = none :=
  tamper_parts _ _ _ _ _ _ (by decide)

-- `tamper_issued`: appending a digit to the timestamp (toyMac depends on the message length)
example :
    validate toyMac "n".toList
      ("aGVsbG8=".toList ++ '|' :: ("17000000001".toList ++ '|' ::
        cookieSignature toyMac "k".toList ["n".toList, b64Encode true true "hello".toList, intToStr 1700000000]))
      "k".toList 0 0 = none :=
  tamper_issued toyMac toyMac_macBytes _ _ _ _ _ _ _ _ _ (by decide) (by decide) (by
    have : intToStr 1700000000 = "1700000000".toList := by
      unfold intToStr; rw [if_neg (by decide)]; exact natToStr_1700000000
    rw [this]; decide)

/-- value `abc` followed by D7 6D F8, whose encoding is `YWJj1234` -/
def vDigits : Str := "abc".toList ++ [Char.ofNat 0xD7, Char.ofNat 0x6D, Char.ofNat 0xF8]

-- `shift_rejected`: the trailing quantum "1234" of the value moved in front of the timestamp
example (sig : Str) (hsig : '|' ∉ sig) :
    validate toyMac "n".toList ("YWJj".toList ++ '|' :: ("12341700000000".toList ++ '|' :: sig))
      "k".toList 3600000000000 1700000100000000000 = none := by
  apply shift_rejected toyMac "n".toList "k".toList vDigits _ "YWJj".toList "12341700000000".toList sig
    1700000000 3600000000000 1700000100000000000 (by decide) (by decide) (by decide) (by decide)
    (splitOn_three _ _ _ (by decide) (by decide) hsig)
  · rw [natToStr_1700000000]
    exact .inl ⟨"1234".toList, by decide, by decide, by decide⟩
  · rw [natToStr_1700000000]
    rintro ⟨k, hk, hE, _⟩
    have hE' : "YWJj".toList ++ "1234".toList = "YWJj".toList ++ List.replicate (4 * k) '0' := by
      rw [← hE]; decide
    have := List.append_cancel_left hE'
    match k, hk with
    | k + 1, _ =>
      have h4 : 4 * (k + 1) = 4 * k + 3 + 1 := by omega
      rw [h4, List.replicate_succ] at this
      exact absurd (List.cons.inj this).1 (by decide)
  · decide

-- `c02_binding_partial(_anyage)`: all hypotheses are jointly satisfiable in the RESIDUAL branch
-- (toy mac; issued value `abc D3 4D 34`, i.e. `YWJj0000`; expire 1 h; cookie 100 s old)
example :
    let v := "abc".toList ++ zeroBlock 1
    let p0 := "YWJj".toList
    let p1 := "00001700000000".toList
    let p2 := cookieSignature toyMac "k".toList ["n".toList, b64Encode true true v, natToStr 1700000000]
    let cookie' := p0 ++ '|' :: (p1 ++ '|' :: p2)
    IsBytes v ∧ splitOn '|' cookie' = [p0, p1, p2]
      ∧ validate toyMac "n".toList cookie' "k".toList 3600000000000 1700000100000000000
          = some ("abc".toList, 1700000000)
      ∧ "n".toList ++ p0 ++ p1 = "n".toList ++ b64Encode true true v ++ natToStr 1700000000 := by
  intro v p0 p1 p2 cookie'
  refine ⟨by decide, splitOn_three _ _ _ (by decide) (by decide) (cookieSignature_no_pipe _ _ _), ?_, ?_⟩
  · have h := zero_shift_accepted toyMac "k".toList "n".toList "abc".toList 1700000000 1
      3600000000000 1700000100000000000 (by decide) (by decide) (by decide) (by decide)
    have e1 : b64Encode true true "abc".toList = p0 := by decide
    have e2 : List.replicate (4 * 1) '0' ++ natToStr 1700000000 = p1 := by
      rw [natToStr_1700000000]; decide
    rw [e1, e2] at h
    exact h
  · rw [natToStr_1700000000]; decide
-- … and in the main branch (the issued cookie itself)
example :
    validate toyMac "n".toList (signedValue toyMac "k".toList "n".toList ("abc".toList ++ zeroBlock 1) 1700000000)
      "k".toList 3600000000000 1700000100000000000 = some ("abc".toList ++ zeroBlock 1, 1700000000) :=
  validate_signedValue toyMac _ _ _ _ _ _ (by decide) (by decide) (by decide) (by decide)

/-! ### real HMAC-SHA256 values (printed by the Go test harness from `cookieSignature`) -/

def hexNib (c : Char) : Nat := if c.toNat ≤ 57 then c.toNat - 48 else c.toNat - 87
def unhex : List Char → Str
  | a :: b :: r => Char.ofNat (hexNib a * 16 + hexNib b) :: unhex r
  | _ => []

/-- oracle table: HMAC-SHA256("secret", ·) on the two messages used below, as computed by Go -/
def goMac (k m : Str) : Str :=
  if k = "secret".toList ∧ m = "_oauth2_proxyYWJj00001790398903".toList then
    unhex "d21c76aa9b63e02269e3fe25ed61554e8866bb11384943c5948fb21356038614".toList
  else if k = "secret".toList ∧ m = "_oauth2_proxy_csrfabc01790398903".toList then
    unhex "914512d733d81b7ef3ad2e3452f87fd32ad647f2fd5a84eb06a88f876c1ab3e5".toList
  else []

/-- the cookie Go's `SignedValue("secret", "_oauth2_proxy", "abc\xD3\x4D\x34", 1790398903)` returned -/
def goIssued : Str := "YWJj0000|1790398903|0hx2qptj4CJp4_4l7WFVTohmuxE4SUPFlI-yE1YDhhQ=".toList
/-- the same cookie with `0000` moved across the first `|` -/
def goShifted : Str := "YWJj|00001790398903|0hx2qptj4CJp4_4l7WFVTohmuxE4SUPFlI-yE1YDhhQ=".toList

set_option maxRecDepth 20000 in
-- model on the issued cookie = what Go's `Validate` returned (ok, "abcÓM4", 1790398903)
example : validate goMac "_oauth2_proxy".toList goIssued "secret".toList 3600000000000
    1790398903500000000 = some ("abc".toList ++ zeroBlock 1, 1790398903) := by decide

set_option maxRecDepth 20000 in
-- model on the SHIFTED cookie = what Go's `Validate` returned (ok, "abc", 1790398903):
-- an alteration of an issued cookie that is accepted with a different value
example : validate goMac "_oauth2_proxy".toList goShifted "secret".toList 3600000000000
    1790398903500000000 = some ("abc".toList, 1790398903) := by decide

set_option maxRecDepth 20000 in
-- cross-name replay, as returned by Go's `Validate` (ok, FD CB 2B 7D A6 DC, 1790398903)
example : validate goMac "_oauth2_proxy".toList
    "_csrfabc|01790398903|kUUS1zPYG37zrS40Uvh_0yrWR_L9WoTrBqiPh2was-U=".toList "secret".toList
    3600000000000 1790398903500000000
    = some ([Char.ofNat 0xFD, Char.ofNat 0xCB, Char.ofNat 0x2B, Char.ofNat 0x7D, Char.ofNat 0xA6,
             Char.ofNat 0xDC], 1790398903) := by decide

set_option maxRecDepth 20000 in
-- any other change of the signature bytes is rejected (here: first signature char `0` → `1`)
example : validate goMac "_oauth2_proxy".toList
    "YWJj0000|1790398903|1hx2qptj4CJp4_4l7WFVTohmuxE4SUPFlI-yE1YDhhQ=".toList "secret".toList
    3600000000000 1790398903500000000 = none := by decide

end O2P.C02
