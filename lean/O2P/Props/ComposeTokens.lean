/-
  O2P.Props.ComposeTokens — Layer A (whole request pipeline, `Model/Serve`) composed with the
  token model (`Model/Token`).

  Layer A treats the identity provider as opaque `Env` fields (`redeem`, `refresh`).  Here those
  fields are *instantiated* by the token model run against an ARBITRARY identity provider
  (`IdP`: any token-endpoint answer or none at all, any profile answer, any refresh answer), and
  the Layer-A theorems are composed with the token-level ones.  The results are the end-to-end
  readings of C04 (identity only from tokens the issuer signed for this client) and of C14
  (whatever the identity provider returns, a failure creates / extends no session) at the level of
  the HTTP handlers:

    login_session_token_sound      a session cookie set by the callback ⇒ CSRF clauses (C03) ∧ the token
                                   endpoint answered ∧ the ID token is sound ∧ identity = its claims
    login_fails_closed             no answer / no id_token / verification failure / unverified e-mail /
                                   unparseable payload / failing profile ⇒ the callback sets no session
    refresh_token_sound            `refreshed s` ⇒ old identity kept (no id_token in the answer) or sound new token
    refresh_fails_closed           no answer or any verification failure ⇒ `err` (never `refreshed`)
-/
import O2P.Props.C01
import O2P.Props.C03
import O2P.Props.C04

namespace O2P.ComposeTok
open O2P O2P.Tok

/-- The identity provider as the proxy sees it; every field is arbitrary. -/
structure IdP where
  /-- token endpoint on (code, verifier, redirect URI); `none` = transport error, non-2xx, undecodable body -/
  tokenAnswer : Str → Str → Str → Option TokenResp
  /-- token endpoint on a refresh token -/
  refreshAnswer : Str → Option TokenResp
  /-- profile endpoint on an access token -/
  profile : Str → Profile
  render : Json → Str
  now : Int

/-- `redeemCode` = `provider.Redeem` (token request, then `createSession(…, refresh = false)`) -/
def redeemOf (tc : Tok.Cfg) (idp : IdP) (code ver uri : Str) : RedeemRes :=
  match idp.tokenAnswer code ver uri with
  | none => .err
  | some tr =>
    match Tok.callbackSession tc idp.render tr (idp.profile tr.accessToken) idp.now with
    | .ok s => .ok s
    | .error _ => .err

/-- the profile answer that goes with a refresh answer -/
def refreshProfile (idp : IdP) (rt : Str) : Profile :=
  match idp.refreshAnswer rt with
  | some tr => idp.profile tr.accessToken
  | none => .failed

/-- `provider.RefreshSession` -/
def refreshOf (tc : Tok.Cfg) (idp : IdP) (old : Session) : RefreshRes :=
  Tok.refreshRes tc idp.render old (idp.refreshAnswer old.refreshToken) (refreshProfile idp old.refreshToken) idp.now

/-- Layer A's environment with its identity-provider fields given by the token model -/
def withIdP (tc : Tok.Cfg) (idp : IdP) (env : Env) : Env :=
  { env with redeem := redeemOf tc idp, refresh := refreshOf tc idp }

@[simp] theorem withIdP_redeem (tc : Tok.Cfg) (idp : IdP) (env : Env) : (withIdP tc idp env).redeem = redeemOf tc idp := rfl
@[simp] theorem withIdP_refresh (tc : Tok.Cfg) (idp : IdP) (env : Env) : (withIdP tc idp env).refresh = refreshOf tc idp := rfl

theorem redeemOf_ok {tc : Tok.Cfg} {idp : IdP} {code ver uri : Str} {s0 : Session}
    (h : redeemOf tc idp code ver uri = .ok s0) :
    ∃ tr, idp.tokenAnswer code ver uri = some tr ∧
      Tok.callbackSession tc idp.render tr (idp.profile tr.accessToken) idp.now = .ok s0 := by
  unfold redeemOf at h
  cases ht : idp.tokenAnswer code ver uri with
  | none => simp [ht] at h
  | some tr =>
    simp only [ht] at h
    cases hc : Tok.callbackSession tc idp.render tr (idp.profile tr.accessToken) idp.now with
    | error e => simp [hc] at h
    | ok s => simp [hc] at h; subst h; exact ⟨tr, rfl, hc⟩

/-- stamping and the nonce do not touch the identity fields -/
theorem identity_of_callbackSession (cfg : Cfg) (env : Env) (csrf : CSRF) (s0 : Session) :
    (O2P.callbackSession cfg env csrf s0).user = s0.user ∧
    (O2P.callbackSession cfg env csrf s0).email = s0.email ∧
    (O2P.callbackSession cfg env csrf s0).groups = s0.groups ∧
    (O2P.callbackSession cfg env csrf s0).preferredUsername = s0.preferredUsername ∧
    (O2P.callbackSession cfg env csrf s0).idToken = s0.idToken ∧
    (O2P.callbackSession cfg env csrf s0).accessToken = s0.accessToken ∧
    (O2P.callbackSession cfg env csrf s0).refreshToken = s0.refreshToken := by
  simp [O2P.callbackSession, stampSession, Session.withNonce]

/-- **login_session_token_sound** (C03 ∧ C04 end to end).  Whatever the identity provider answers:
    if the callback handler sets a session cookie for `s`, then the request carried the CSRF
    cookie named after its state whose stored state hash-matches it, the token endpoint answered
    the redemption made WITH THAT COOKIE'S VERIFIER, the ID token of that answer is sound
    (library verdict ⇒ by contract right key, issuer, unexpired; first existing audience claim
    contains the client id or an extra audience), its e-mail is not marked unverified, and the
    user, e-mail, groups, preferred username and tokens of `s` are exactly that answer's. -/
theorem login_session_token_sound (cfg : Cfg) (tc : Tok.Cfg) (idp : IdP) (env : Env) (g : Glue) (r : Req)
    (s : Session) (skip : Bool) (facts : Token → Facts) (hc : ∀ t, LibContract skip t (facts t))
    (h : Established (callbackHandler cfg (withIdP tc idp env) r g.decodeB64) s) :
    ∃ nonce rd csrf tr kvs,
      stateOf cfg g r = some (nonce, rd) ∧
      env.csrfByName (env.csrfCookieName (stateSubstring cfg nonce)) = some csrf ∧
      hashNonceM env csrf.state = nonce ∧
      idp.tokenAnswer (formGet r.form "code".toList) csrf.verifier (env.oauthRedirectURI cfg r) = some tr ∧
      TokenSound skip (facts tr.idToken) tc.verifier tr.idToken kvs ∧
      ¬ MarkedUnverified tc (.obj kvs) (effProfile tc tr.accessToken (idp.profile tr.accessToken)) ∧
      IdentityFrom tc idp.render (.obj kvs) (effProfile tc tr.accessToken (idp.profile tr.accessToken)) s ∧
      s.idToken = tr.idToken.raw ∧ s.accessToken = tr.accessToken ∧ s.refreshToken = tr.refreshToken := by
  obtain ⟨nonce, rd, csrf, s0, _, hst, hcs, _, hred, hf, hs, _⟩ :=
    callback_established cfg (withIdP tc idp env) g r s h
  obtain ⟨tr, hta, hcb⟩ := redeemOf_ok hred
  obtain ⟨kvs, ts, hm, hi, h1, h2, h3⟩ := Tok.callback_sound hcb (hc tr.idToken)
  obtain ⟨i1, i2, i3, i4, i5, i6, i7⟩ := identity_of_callbackSession cfg (withIdP tc idp env) csrf s0
  refine ⟨nonce, rd, csrf, tr, kvs, hst, hcs, hf.state, hta, ts, hm, ?_, ?_, ?_, ?_⟩
  · subst hs
    unfold IdentityFrom at hi ⊢
    rw [i1, i2, i3, i4]
    exact hi
  · subst hs; rw [i5]; exact h1
  · subst hs; rw [i6]; exact h2
  · subst hs; rw [i7]; exact h3

/-- what can go wrong at the identity provider during a login -/
inductive LoginFault (tc : Tok.Cfg) (idp : IdP) (code ver uri : Str) : Prop where
  /-- transport error, timeout, non-2xx, empty / truncated / non-JSON body … -/
  | noAnswer (h : idp.tokenAnswer code ver uri = none)
  /-- an answer from which no session may be built: missing id_token, library or audience verification
      failure, payload that does not parse, unverified e-mail, a needed profile look-up that failed -/
  | rejected (tr : TokenResp) (e : Tok.Err) (h : idp.tokenAnswer code ver uri = some tr)
      (he : Tok.callbackSession tc idp.render tr (idp.profile tr.accessToken) idp.now = .error e)

theorem redeemOf_err {tc : Tok.Cfg} {idp : IdP} {code ver uri : Str} (hf : LoginFault tc idp code ver uri) :
    redeemOf tc idp code ver uri = .err := by
  unfold redeemOf
  cases hf with
  | noAnswer h => simp [h]
  | rejected tr e h he => simp [h, he]

/-- `createSession` stamps the session with the clock it is given — never with a time taken from the token -/
theorem createSession_createdAt {tc : Tok.Cfg} {render : Json → Str} {refresh : Bool} {tr : TokenResp} {prof : Profile}
    {now : Int} {s0 : Session} (h : Tok.createSession tc render refresh tr prof now = .ok s0) :
    s0.createdAt = some now ∧ s0.expiresOn = some tr.expiry := by
  unfold Tok.createSession at h
  simp only at h
  split at h
  · simp at h
  · split at h
    · simp at h
    · simp only [Except.ok.injEq] at h
      subst h
      exact ⟨rfl, rfl⟩

/-- **login_session_stamped_with_proxy_clock** (C09, the issue time).  Whatever the identity provider
    answers — whatever `iat`, `auth_time`, `nbf` or `exp` its ID token carries — the session a login
    establishes is stamped with the PROXY's clock at the callback.  The lifetime `window_iff` enforces on
    the credential's timestamp therefore runs from the moment of issue, not from a time the provider
    supplied. -/
theorem login_session_stamped_with_proxy_clock (cfg : Cfg) (tc : Tok.Cfg) (idp : IdP) (env : Env) (g : Glue) (r : Req)
    (s : Session) (h : Established (callbackHandler cfg (withIdP tc idp env) r g.decodeB64) s) :
    s.createdAt = some idp.now := by
  obtain ⟨nonce, rd, csrf, s0, _, _, _, _, hred, _, hs, _⟩ :=
    callback_established cfg (withIdP tc idp env) g r s h
  obtain ⟨tr, _, hcb⟩ := redeemOf_ok hred
  have hc := (createSession_createdAt (refresh := false) hcb).1
  subst hs
  simp [O2P.callbackSession, stampSession, Session.withNonce, hc]

/-- ... and a refresh re-stamps it with the proxy's clock at the refresh (Layer A, `refreshOutcome`), again
    independent of the token answer -/
theorem refresh_stamped_with_proxy_clock (tc : Tok.Cfg) (idp : IdP) (old s' : Session)
    (h : refreshOf tc idp old = .refreshed s') : s'.createdAt = some idp.now := by
  unfold refreshOf Tok.refreshRes at h
  split at h
  · simp at h
  · split at h
    · simp at h
    · rename_i r _
      split at h
      · rename_i s hs
        simp only [RefreshRes.refreshed.injEq] at h
        subst h
        unfold Tok.refreshSession at hs
        split at hs
        · simp at hs
        · rename_i n hn
          simp only [Except.ok.injEq] at hs
          subst hs
          exact (createSession_createdAt hn).1
      · simp at h

/-- **login_fails_closed** (C14 end to end, login flow).  If the redemption the callback performs
    meets a fault of the identity provider — for EVERY CSRF cookie the request could present — the
    callback handler sets no session cookie, whatever else holds. -/
theorem login_fails_closed (cfg : Cfg) (tc : Tok.Cfg) (idp : IdP) (env : Env) (g : Glue) (r : Req)
    (hf : ∀ ver, LoginFault tc idp (formGet r.form "code".toList) ver (env.oauthRedirectURI cfg r)) :
    ∀ s, ¬ Established (callbackHandler cfg (withIdP tc idp env) r g.decodeB64) s := by
  intro s h
  obtain ⟨nonce, rd, csrf, s0, _, _, _, _, hred, _⟩ :=
    callback_established cfg (withIdP tc idp env) g r s h
  have := redeemOf_err (hf csrf.verifier)
  simp only [withIdP_redeem] at hred
  have huri : (withIdP tc idp env).oauthRedirectURI cfg r = env.oauthRedirectURI cfg r := rfl
  rw [huri, this] at hred
  cases hred

/-- the verification clauses, stated as faults of a token answer on the callback path -/
theorem callback_rejects (tc : Tok.Cfg) (render : Json → Str) (tr : TokenResp) (prof : Profile) (now : Int)
    (hbad : isBlank tr.idToken.raw = true ∨ Tok.verify tc.verifier tr.idToken ≠ .ok ()) :
    ∃ e, Tok.callbackSession tc render tr prof now = .error e := by
  unfold Tok.callbackSession Tok.createSession
  rcases hbad with hb | hv
  · simp [hb]
  · by_cases hb : isBlank tr.idToken.raw = true
    · simp [hb]
    · simp only [hb]
      cases hvv : Tok.verify tc.verifier tr.idToken with
      | ok u => exact absurd (by cases u; exact hvv) hv
      | err m => simp
      | panic m => simp

/-- **refresh_token_sound** (C04 end to end, refresh flow): a refresh that Layer A sees as
    `refreshed s` either kept the old identity (the answer carried no ID token) or replaced it by
    the identity of a sound new token. -/
theorem refresh_token_sound (tc : Tok.Cfg) (idp : IdP) (old s : Session) (skip : Bool)
    (facts : Token → Facts) (hc : ∀ t, LibContract skip t (facts t))
    (h : refreshOf tc idp old = .refreshed s) :
    old.refreshToken ≠ [] ∧ ∃ tr, idp.refreshAnswer old.refreshToken = some tr ∧
      ((tr.idToken.raw = [] ∧ s.user = old.user ∧ s.email = old.email ∧ s.groups = old.groups ∧
          s.preferredUsername = old.preferredUsername ∧ s.idToken = old.idToken) ∨
       (tr.idToken.raw ≠ [] ∧ ∃ kvs, TokenSound skip (facts tr.idToken) tc.verifier tr.idToken kvs ∧
          ¬ MarkedUnverified tc (.obj kvs) (effProfile tc tr.accessToken (idp.profile tr.accessToken)) ∧
          IdentityFrom tc idp.render (.obj kvs) (effProfile tc tr.accessToken (idp.profile tr.accessToken)) s ∧
          s.idToken = tr.idToken.raw)) ∧
      s.accessToken = tr.accessToken ∧ s.refreshToken = tr.refreshToken := by
  unfold refreshOf at h
  obtain ⟨hrt, tr, hra, hrs⟩ := Tok.refreshRes_refreshed h
  refine ⟨hrt, tr, hra, ?_⟩
  have hp : refreshProfile idp old.refreshToken = idp.profile tr.accessToken := by
    simp [refreshProfile, hra]
  rw [hp] at hrs
  rcases Tok.refresh_sound hrs (hc tr.idToken) with ⟨h0, a, b, c, d, e, f1, f2⟩ | ⟨h0, kvs, ts, hm, hi, e, f1, f2⟩
  · exact ⟨Or.inl ⟨h0, a, b, c, d, e⟩, f1, f2⟩
  · exact ⟨Or.inr ⟨h0, kvs, ts, hm, hi, e⟩, f1, f2⟩

/-- **refresh_fails_closed** (C14 end to end, refresh flow): no answer from the token endpoint, or
    an answer whose ID token does not verify, is `err` — never `refreshed`; Layer A's
    `refresh_fail_keeps_iff_valid` then keeps the OLD session only if it still validates and
    extends nothing. -/
theorem refresh_fails_closed (tc : Tok.Cfg) (idp : IdP) (old : Session) (hrt : old.refreshToken ≠ [])
    (hbad : idp.refreshAnswer old.refreshToken = none ∨
      ∃ tr, idp.refreshAnswer old.refreshToken = some tr ∧ isBlank tr.idToken.raw = false ∧
        Tok.verify tc.verifier tr.idToken ≠ .ok ()) :
    refreshOf tc idp old = .err := by
  unfold refreshOf Tok.refreshRes
  simp only [hrt, if_false]
  rcases hbad with hn | ⟨tr, hs, hb, hv⟩
  · simp [hn]
  · simp only [hs]
    have : ∃ e, Tok.refreshSession tc idp.render old tr (refreshProfile idp old.refreshToken) idp.now = .error e := by
      unfold Tok.refreshSession Tok.createSession
      simp only [hb]
      cases hvv : Tok.verify tc.verifier tr.idToken with
      | ok u => exact absurd (by cases u; exact hvv) hv
      | err m => exact ⟨.verify, by simp⟩
      | panic m => exact ⟨.verify, by simp⟩
    obtain ⟨e, he⟩ := this
    simp [he]

/-! ### bearer tokens on a request -/

/-- how the bearer loader is configured: the JWT-shape regex verdicts, the library's judgement of a raw
    token for the provider's verifier and for each extra issuer's verifier -/
structure Bearer where
  rx : Str → Bool
  asMain : Str → Token
  extras : List (VerifierCfg × (Str → Token))

/-- Layer A's `bearerOf` given by the token model's loader chain -/
def withBearer (tc : Tok.Cfg) (idp : IdP) (b : Bearer) (env : Env) : Env :=
  { env with bearerOf := Tok.getJwtSession b.rx (Tok.jwtLoaders tc idp.render idp.now b.asMain b.extras) }

/-- the clauses of the property for a bearer session, for the provider's verifier or an extra issuer's -/
def BearerSound (tc : Tok.Cfg) (b : Bearer) (skip : Bool) (facts : Token → Facts) (tok : Str) (s : Session) : Prop :=
  (∃ kvs, TokenSound skip (facts (b.asMain tok)) tc.verifier (b.asMain tok) kvs ∧
      ¬ MarkedUnverified tc (.obj kvs) Profile.empty ∧ s.idToken = tok) ∨
  (∃ e ∈ b.extras, ∃ kvs c, TokenSound false (facts (e.2 tok)) e.1 (e.2 tok) kvs ∧
      typedDecode kvs = some c ∧ c.verified ≠ some false ∧ s.user = c.subject ∧ s.idToken = tok)

/-- **bearer_session_token_sound**: a session the bearer loader derives from an Authorization value
    comes from a JWT-shaped token found in that value for which all clauses hold for one of the
    configured verifiers (the library's raw-token parameter must report the token it was given). -/
theorem bearer_session_token_sound (tc : Tok.Cfg) (idp : IdP) (b : Bearer) (env : Env) (v : Str) (s : Session)
    (skip : Bool) (facts : Token → Facts) (hc : ∀ t, LibContract skip t (facts t))
    (hc' : ∀ t, LibContract false t (facts t))
    (hraw : ∀ tok, (b.asMain tok).raw = tok) (hraw' : ∀ e ∈ b.extras, ∀ tok, (e.2 tok).raw = tok)
    (h : (withBearer tc idp b env).bearerOf v = some s) :
    ∃ tok, Tok.findToken b.rx v = some tok ∧ BearerSound tc b skip facts tok s := by
  obtain ⟨tok, hf, hs⟩ := Tok.jwt_session_sound h
  refine ⟨tok, hf, ?_⟩
  rcases hs with hm | ⟨e, he, hx⟩
  · obtain ⟨kvs, ts, hmv, _, _, _, _, hid, _⟩ := Tok.bearerOIDC_sound hm (hc (b.asMain tok))
    exact Or.inl ⟨kvs, ts, hmv, by rw [hid, hraw]⟩
  · obtain ⟨kvs, c, ts, hd, hv, hu, _, _, _, hid, _⟩ := Tok.bearerExtra_sound hx (hc' (e.2 tok))
    exact Or.inr ⟨e, he, kvs, c, ts, hd, hv, hu, by rw [hid, hraw' e he]⟩

/-- **served_request_credential_sound** (C01 ∧ C04 at the level of `serve`): a request that is
    forwarded upstream / answered 202 / shown user info without being on a bypass route carries a
    credential, and when that credential is a bearer token the token is sound. -/
theorem served_request_credential_sound (cfg : Cfg) (tc : Tok.Cfg) (idp : IdP) (b : Bearer) (env : Env) (g : Glue)
    (r : Req) (skip : Bool) (facts : Token → Facts) (hc : ∀ t, LibContract skip t (facts t))
    (hc' : ∀ t, LibContract false t (facts t))
    (hraw : ∀ tok, (b.asMain tok).raw = tok) (hraw' : ∀ e ∈ b.extras, ∀ tok, (e.2 tok).raw = tok)
    (h : Served (serve cfg (withBearer tc idp b env) g r)) :
    bypassDecision cfg (withBearer tc idp b env) g.pathOfURI r = true ∨
    ∃ s, Authorised cfg (withBearer tc idp b env) s ∧
      ((cfg.jwtEnabled = true ∧ ∃ tok, Tok.findToken b.rx (r.header "Authorization".toList) = some tok ∧
          BearerSound tc b skip facts tok s) ∨
       (cfg.basicEnabled = true ∧ (withBearer tc idp b env).basic r = some s) ∨
       StoredCred cfg (withBearer tc idp b env) s) := by
  rcases c01_served_has_credential cfg (withBearer tc idp b env) g r h with hb | ⟨s, hcr, ha⟩
  · exact Or.inl hb
  · refine Or.inr ⟨s, ha, ?_⟩
    rcases hcr with ⟨hj, hbe⟩ | hbs | hst
    · exact Or.inl ⟨hj, bearer_session_token_sound tc idp b env _ s skip facts hc hc' hraw hraw' hbe⟩
    · exact Or.inr (Or.inl hbs)
    · exact Or.inr (Or.inr hst)

/-! ### non-vacuity -/

/-- an identity provider that answers nothing: every login fails closed -/
def deadIdP : IdP :=
  { tokenAnswer := fun _ _ _ => none, refreshAnswer := fun _ => none, profile := fun _ => .failed,
    render := fun _ => [], now := 0 }

example (tc : Tok.Cfg) (code ver uri : Str) : LoginFault tc deadIdP code ver uri := .noAnswer rfl

example (tc : Tok.Cfg) (old : Session) (h : old.refreshToken ≠ []) : refreshOf tc deadIdP old = .err :=
  refresh_fails_closed tc deadIdP old h (Or.inl rfl)

end O2P.ComposeTok
