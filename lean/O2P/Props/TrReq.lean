import O2P.Gen.Tr
import O2P.Lemmas.GoPrim
import O2P.Model.Serve
/-
  O2P.Props.TrReq — the regenerated getters of pkg/requests/util (`IsProxied`, `GetRequestProto`,
  `GetRequestHost`, `GetRequestURI`, `IsForwardedRequest`) equal the functions of the Layer-A model
  (`requestProto`, `requestHost`, `requestURI`, `isForwardedRequest` of O2P/Model/Serve.lean) that
  the C16 non-interference theorems are about: for every request and both settings of reverse-proxy
  mode.  With reverse-proxy mode off — or with no request scope at all (`nil`) — the answers are
  the request's own values whatever the forwarding headers say, and nothing dereferences the nil
  scope (`= .ok …`).
-/
set_option linter.unusedSimpArgs false
set_option linter.unusedVariables false
open O2P O2P.Go

namespace O2P.TrReq

/-- the request as the translated functions read it, for a Layer-A request under a configuration -/
def reqOf (cfg : Cfg) (r : O2P.Req) : Go.Req :=
  { header := r.header, host := r.host, urlScheme := r.scheme, requestURI := r.uri,
    scope := some ⟨cfg.reverseProxy⟩, method := r.method }

theorem IsProxied_eq (E : Go.Ext) (cfg : Cfg) (r : O2P.Req) :
    Gen.Tr.IsProxied E (reqOf cfg r) = .ok cfg.reverseProxy := by
  simp [Gen.Tr.IsProxied, reqOf, Go.derefScope, pure, Except.pure, bind, Except.bind]

/-- no scope middleware ran: not proxied, and the nil scope is never dereferenced -/
theorem IsProxied_nil (E : Go.Ext) (rq : Go.Req) (h : rq.scope = none) :
    Gen.Tr.IsProxied E rq = .ok false := by
  simp [Gen.Tr.IsProxied, h, pure, Except.pure]

theorem xfh : ['X', '-', 'F', 'o', 'r', 'w', 'a', 'r', 'd', 'e', 'd', '-', 'H', 'o', 's', 't'] = "X-Forwarded-Host".toList := by decide
theorem xfp : ['X', '-', 'F', 'o', 'r', 'w', 'a', 'r', 'd', 'e', 'd', '-', 'P', 'r', 'o', 't', 'o'] = "X-Forwarded-Proto".toList := by decide
theorem xfu : ['X', '-', 'F', 'o', 'r', 'w', 'a', 'r', 'd', 'e', 'd', '-', 'U', 'r', 'i'] = "X-Forwarded-Uri".toList := by decide

theorem GetRequestHost_eq (E : Go.Ext) (cfg : Cfg) (r : O2P.Req) :
    Gen.Tr.GetRequestHost E (reqOf cfg r) = .ok (requestHost cfg r) := by
  unfold Gen.Tr.GetRequestHost requestHost
  rw [IsProxied_eq, xfh]
  simp only [reqOf]
  obtain ⟨hv, hh⟩ : ∃ hv, r.header "X-Forwarded-Host".toList = hv := ⟨_, rfl⟩
  simp only [hh]
  cases cfg.reverseProxy <;> cases hv <;> simp [pure, Except.pure, bind, Except.bind]

theorem GetRequestProto_eq (E : Go.Ext) (cfg : Cfg) (r : O2P.Req) :
    Gen.Tr.GetRequestProto E (reqOf cfg r) = .ok (requestProto cfg r) := by
  unfold Gen.Tr.GetRequestProto requestProto
  rw [IsProxied_eq, xfp]
  simp only [reqOf]
  obtain ⟨hv, hh⟩ : ∃ hv, r.header "X-Forwarded-Proto".toList = hv := ⟨_, rfl⟩
  simp only [hh]
  cases cfg.reverseProxy <;> cases hv <;> simp [pure, Except.pure, bind, Except.bind]

theorem GetRequestURI_eq (E : Go.Ext) (cfg : Cfg) (r : O2P.Req) :
    Gen.Tr.GetRequestURI E (reqOf cfg r) = .ok (requestURI cfg r) := by
  unfold Gen.Tr.GetRequestURI requestURI
  rw [IsProxied_eq, xfu]
  simp only [reqOf]
  obtain ⟨hv, hh⟩ : ∃ hv, r.header "X-Forwarded-Uri".toList = hv := ⟨_, rfl⟩
  simp only [hh]
  cases cfg.reverseProxy <;> cases hv <;> simp [pure, Except.pure, bind, Except.bind]

theorem IsForwardedRequest_eq (E : Go.Ext) (cfg : Cfg) (r : O2P.Req) :
    Gen.Tr.IsForwardedRequest E (reqOf cfg r) = .ok (isForwardedRequest cfg r) := by
  unfold Gen.Tr.IsForwardedRequest isForwardedRequest
  rw [IsProxied_eq]
  cases hrp : cfg.reverseProxy
  · simp [Go.andM, pure, Except.pure, bind, Except.bind]
  · have hhost : (reqOf cfg r).host = r.host := rfl
    simp [Go.andM, GetRequestHost_eq, hhost, pure, Except.pure, bind, Except.bind]

/-- C16 on the REGENERATED getters: with reverse-proxy mode off, two requests that differ only in
    their headers get the same host, scheme and URI -/
theorem getters_ignore_headers_when_off (E : Go.Ext) (rq rq' : Go.Req)
    (hoff : rq.scope = some ⟨false⟩ ∨ rq.scope = none)
    (hsame : rq' = { rq with header := rq'.header }) :
    Gen.Tr.GetRequestHost E rq' = Gen.Tr.GetRequestHost E rq ∧
    Gen.Tr.GetRequestProto E rq' = Gen.Tr.GetRequestProto E rq ∧
    Gen.Tr.GetRequestURI E rq' = Gen.Tr.GetRequestURI E rq ∧
    Gen.Tr.IsForwardedRequest E rq' = .ok false := by
  rw [hsame]
  rcases hoff with h | h <;>
    simp [Gen.Tr.GetRequestHost, Gen.Tr.GetRequestProto, Gen.Tr.GetRequestURI, Gen.Tr.IsForwardedRequest,
      Gen.Tr.IsProxied, h, Go.derefScope, Go.andM, pure, Except.pure, bind, Except.bind]

example : (reqOf { reverseProxy := true } { method := [], path := [], headers := [("X-Forwarded-Host".toList, ['h'])] }).header
    "X-Forwarded-Host".toList = ['h'] := by decide

end O2P.TrReq
