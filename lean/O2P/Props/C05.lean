import O2P.Props.C03
import O2P.Lemmas.Base64
/-
  C05 — nonce and PKCE bind the token response to this login's authorization request;
  C03's per-request CSRF cookies in any order; C14's callback/refresh corollaries.
-/
namespace O2P

/-! ### nonce -/

/-- **c05_nonce**: with nonce checking on, a session is established only if the ID token of the
    redeemed session verifies and its `nonce` claim equals the hash of the OIDC nonce stored in
    THE SAME CSRF cookie that authenticated the state (same login as in `c03_only_if`). -/
theorem c05_nonce (cfg : Cfg) (env : Env) (g : Glue) (r : Req) (s : Session) (hskip : cfg.skipNonce = false)
    (h : Established (callbackHandler cfg env r g.decodeB64) s) :
    ∃ nonce rd csrf, stateOf cfg g r = some (nonce, rd) ∧
      env.csrfByName (env.csrfCookieName (stateSubstring cfg nonce)) = some csrf ∧
      hashNonceM env csrf.state = nonce ∧
      env.tokenVerifies s.idToken = true ∧
      env.nonceClaim s.idToken = some (hashNonceM env csrf.nonce) := by
  obtain ⟨nonce, rd, csrf, s0, _, hst, hc, _, _, hf, hs, _⟩ := callback_established cfg env g r s h
  refine ⟨nonce, rd, csrf, hst, hc, hf.state, ?_⟩
  have hv := hf.valid
  rw [← hs] at hv
  unfold Env.validate at hv
  rw [hskip] at hv
  simp only [Bool.false_or, Bool.and_eq_true] at hv
  refine ⟨hv.1, ?_⟩
  have hn : s.nonce = csrf.nonce := by rw [hs]; rfl
  cases hcl : env.nonceClaim s.idToken with
  | none => rw [hcl] at hv; simp at hv
  | some c =>
    rw [hcl] at hv
    simp only [beq_iff_eq] at hv
    rw [← hv.2, hn]

/-- a cookie issued by `start` never has an empty nonce, so the accepted claim is the real hash:
    an absent or empty claim, the raw nonce, or another login's hashed nonce are all rejected -/
theorem c05_wrong_nonce_rejected (cfg : Cfg) (env : Env) (g : Glue) (r : Req) (nonce rd : Str) (csrf : CSRF)
    (hskip : cfg.skipNonce = false)
    (hst : stateOf cfg g r = some (nonce, rd))
    (hc : env.csrfByName (env.csrfCookieName (stateSubstring cfg nonce)) = some csrf)
    (hne : csrf.nonce ≠ [])
    (hbad : ∀ s0, env.redeem (formGet r.form "code".toList) csrf.verifier (env.oauthRedirectURI cfg r) = .ok s0 →
        env.nonceClaim s0.idToken ≠ some (env.hash csrf.nonce)) :
    ∀ s, ¬ Established (callbackHandler cfg env r g.decodeB64) s := by
  intro s h
  obtain ⟨nonce', rd', csrf', s0, _, hst', hc', _, hred, _, hs, _⟩ := callback_established cfg env g r s h
  obtain ⟨n2, rd2, c2, hst2, hc2, _, _, hcl⟩ := c05_nonce cfg env g r s hskip h
  rw [hst] at hst' hst2; cases hst'; cases hst2
  rw [hc] at hc' hc2; cases hc'; cases hc2
  have : s.idToken = s0.idToken := by rw [hs]; rfl
  rw [this] at hcl
  have hh : hashNonceM env csrf.nonce = env.hash csrf.nonce := by unfold hashNonceM; simp [hne]
  rw [hh] at hcl
  exact hbad s0 hred hcl

/-- with nonce checking disabled (explicit operator choice) the claim is not consulted -/
theorem c05_skip_nonce (cfg : Cfg) (env : Env) (s : Session) (h : cfg.skipNonce = true) :
    env.validate cfg s = env.tokenVerifies s.idToken := by
  unfold Env.validate; simp [h]

/-! ### PKCE -/

/-- **c05_pkce_start**: when a method is configured and start succeeds, the authorization request
    carries `code_challenge = challenge(method, v)` and `code_challenge_method = method`, and the
    CSRF cookie stores exactly that verifier `v`. -/
theorem c05_pkce_start (cfg : Cfg) (env : Env) (r : Req) (ex : List (Str × Str)) (pre : List CookieOp)
    (hm : cfg.pkceMethod ≠ []) (hok : (doOAuthStart cfg env r ex pre).kind = .idpRedirect) :
    ∃ c, env.challenge cfg.pkceMethod env.freshVerifier = some c ∧
      doOAuthStart cfg env r ex pre = startRedirect cfg env r ex pre (some (c, cfg.pkceMethod)) ∧
      (startCSRF cfg env).verifier = env.freshVerifier ∧
      startExtra ex (some (c, cfg.pkceMethod)) =
        ex ++ [("code_challenge".toList, c), ("code_challenge_method".toList, cfg.pkceMethod)] := by
  have hm' : cfg.pkceMethod.isEmpty = false := by simpa using hm
  unfold doOAuthStart startChallenge at hok ⊢
  simp only [hm', Bool.false_eq_true, ↓reduceIte] at hok ⊢
  by_cases hr : env.rngOK = true
  · simp only [hr, Bool.not_true, Bool.false_eq_true, ↓reduceIte] at hok ⊢
    cases hc : env.challenge cfg.pkceMethod env.freshVerifier with
    | none => rw [hc] at hok; simp [errorPage] at hok
    | some c =>
      rw [hc] at hok
      simp only at hok ⊢
      by_cases hre : env.redirectErr = true
      · simp [hre, errorPage] at hok
      · have hre' : env.redirectErr = false := by simpa using hre
        refine ⟨c, rfl, ?_, ?_, rfl⟩
        · simp [hre']
        · simp [startCSRF, hm']
  · have hr' : env.rngOK = false := by simpa using hr
    simp [hr', errorPage] at hok

/-- **c05_pkce_redeem**: the redemption performed by a callback presents exactly the verifier
    stored in the CSRF cookie that authenticated that callback's state. -/
theorem c05_pkce_redeem (cfg : Cfg) (env : Env) (g : Glue) (r : Req) (s : Session)
    (h : Established (callbackHandler cfg env r g.decodeB64) s) :
    ∃ nonce rd csrf, stateOf cfg g r = some (nonce, rd) ∧
      env.csrfByName (env.csrfCookieName (stateSubstring cfg nonce)) = some csrf ∧
      (callbackHandler cfg env r g.decodeB64).redeemedWith = some (formGet r.form "code".toList, csrf.verifier) := by
  obtain ⟨nonce, rd, csrf, s0, _, hst, hc, _, _, _, _, hrw⟩ := callback_established cfg env g r s h
  exact ⟨nonce, rd, csrf, hst, hc, hrw⟩

/-- `callbackFinish` keeps the redemption it was called with on every branch -/
theorem callbackFinish_redeemedWith (cfg : Cfg) (env : Env) (name nonce rd code : Str) (csrf : CSRF) (s0 : Session) :
    (callbackFinish cfg env name nonce rd code csrf s0).redeemedWith = some (code, csrf.verifier) := by
  unfold callbackFinish
  simp only
  repeat' split
  all_goals simp [errorPage]

/-- **c05_every_redeem** (whether or not the login then succeeds).  EVERY code the callback sends to the token
    endpoint is the request's `code`, sent with the verifier stored in the validly signed CSRF cookie that is
    named after the request's state — never another login's, never none. -/
theorem c05_every_redeem (cfg : Cfg) (env : Env) (g : Glue) (r : Req) (code v : Str)
    (h : (callbackHandler cfg env r g.decodeB64).redeemedWith = some (code, v)) :
    ∃ nonce rd csrf, stateOf cfg g r = some (nonce, rd) ∧
      env.csrfByName (env.csrfCookieName (stateSubstring cfg nonce)) = some csrf ∧
      v = csrf.verifier ∧ code = formGet r.form "code".toList := by
  unfold callbackHandler at h
  split at h
  · simp [errorPage] at h
  · simp only at h
    split at h
    · simp [errorPage] at h
    · rename_i nonce rd hst
      unfold callbackWithState at h
      simp only at h
      split at h
      · simp [errorPage] at h
      · rename_i csrf hcsrf
        split at h
        · simp [errorPage] at h
        · split at h
          · simp only [Option.some.injEq, Prod.mk.injEq] at h
            exact ⟨nonce, rd, csrf, by unfold stateOf; exact hst, hcsrf, h.2.symm, h.1.symm⟩
          · rw [callbackFinish_redeemedWith] at h
            simp only [Option.some.injEq, Prod.mk.injEq] at h
            exact ⟨nonce, rd, csrf, by unfold stateOf; exact hst, hcsrf, h.2.symm, h.1.symm⟩

/-- **c05_no_cookie_no_redeem**: without a validly signed CSRF cookie under the name the state asks for, the
    authorization code never leaves the proxy -/
theorem c05_no_cookie_no_redeem (cfg : Cfg) (env : Env) (g : Glue) (r : Req) (nonce rd : Str)
    (hst : stateOf cfg g r = some (nonce, rd))
    (hno : env.csrfByName (env.csrfCookieName (stateSubstring cfg nonce)) = none) :
    (callbackHandler cfg env r g.decodeB64).redeemedWith = none := by
  cases hr : (callbackHandler cfg env r g.decodeB64).redeemedWith with
  | none => rfl
  | some cv =>
    obtain ⟨code, v⟩ := cv
    obtain ⟨nonce', rd', csrf, hst', hc, _, _⟩ := c05_every_redeem cfg env g r code v hr
    rw [hst] at hst'; cases hst'
    rw [hno] at hc; cases hc

/-- **callback_refused_is_error_page** (C03: "... yields an error page and no session cookie").  Whatever the
    callback is sent: either it establishes a session (a 302 to the validated landing page), or its answer IS an
    error page — never a redirect that restarts the login, never a sign-in page. -/
theorem callback_refused_is_error_page (cfg : Cfg) (env : Env) (r : Req) (d : Str → Str) :
    (∃ s, Established (callbackHandler cfg env r d) s ∧ (callbackHandler cfg env r d).status = 302) ∨
    ((callbackHandler cfg env r d).kind = .errorPage ∧ ∀ s, ¬ Established (callbackHandler cfg env r d) s) := by
  unfold callbackHandler
  split
  · right; simp [errorPage, Established]
  · simp only
    split
    · right; simp [errorPage, Established]
    · unfold callbackWithState
      simp only
      split
      · right; simp [errorPage, Established]
      · split
        · right; simp [errorPage, Established]
        · split
          · right; simp [errorPage, Established]
          · unfold callbackFinish
            simp only
            repeat' split
            all_goals first
              | (right; simp [errorPage, Established]; done)
              | (left; exact ⟨_, List.mem_append_right _ (List.mem_singleton.2 rfl), rfl⟩)

/-- RFC 7636 shape of the verifier: `base64url-nopad` of 96 bytes is 128 characters of the
    base64url alphabet ⊆ unreserved characters, within [43,128]. -/
theorem verifier_shape (bytes : Str) (h : bytes.length = 96) :
    (b64Encode true false bytes).length = 128 ∧ 43 ≤ (b64Encode true false bytes).length ∧
    ∀ c ∈ b64Encode true false bytes, isB64 true c := by
  have hl := b64Encode_length true false bytes
  simp [h] at hl
  refine ⟨hl, by omega, ?_⟩
  intro c hc
  rcases b64Encode_alphabet true false bytes c hc with h1 | ⟨h2, _⟩
  · exact h1
  · cases h2

/-- distinct random draws give distinct verifiers (encoding is injective on byte strings) -/
theorem verifier_injective (a b : Str) (ha : IsBytes a) (hb : IsBytes b)
    (h : b64Encode true false a = b64Encode true false b) : a = b := by
  have h1 := b64Decode_encode true false a ha
  have h2 := b64Decode_encode true false b hb
  rw [h] at h1; rw [h1] at h2; exact Option.some.inj h2

/-- **c05_no_leak** (information flow): everything `start` puts into the Location is computed
    from the hashes of the two nonces and the challenge — never from the raw values. Two
    environments that agree on those (and on everything else) produce the same URL, whatever
    the raw nonces are. (The CSRF cookie carries the raw values only inside the encrypted,
    signed payload: Layer B.) -/
theorem c05_no_leak (cfg : Cfg) (env env' : Env) (r : Req) (ex : List (Str × Str)) (pre : List CookieOp) (ch : Option (Str × Str))
    (hh : env'.hash env'.freshState = env.hash env.freshState)
    (hn : env'.hash env'.freshNonce = env.hash env.freshNonce)
    (hl : env'.loginURL = env.loginURL) (hr : env'.redirectOf cfg r = env.redirectOf cfg r)
    (hu : env'.oauthRedirectURI cfg r = env.oauthRedirectURI cfg r) :
    (startRedirect cfg env' r ex pre ch).location = (startRedirect cfg env r ex pre ch).location := by
  simp [startRedirect, startCSRF, hh, hn, hl, hr, hu]

/-! ### C03: per-request CSRF cookies, any order of starts and completions -/

namespace CsrfLogins

/-- the browser's CSRF cookies: name ↦ login id -/
abbrev CsrfJar := List (Str × Nat)

inductive LoginOp where
  | start (login : Nat)
  | complete (login : Nat)
  deriving DecidableEq, Repr

def jarSet (j : CsrfJar) (n : Str) (l : Nat) : CsrfJar := (n, l) :: j.filter (fun p => p.1 != n)
def jarDel (j : CsrfJar) (n : Str) : CsrfJar := j.filter (fun p => p.1 != n)
def jarGet (j : CsrfJar) (n : Str) : Option Nat := (j.find? (fun p => p.1 == n)).map (·.2)

/-- `name l` is the cookie name of login `l` (fixed name, or name + 8-char state prefix).
    `start` sets the cookie; `complete l` succeeds iff the cookie under `name l` is login `l`'s,
    and (like `csrf.ClearCookie`) deletes only that name. Returns the jar and the list of
    completions that succeeded. -/
def runLogins (name : Nat → Str) : CsrfJar → List LoginOp → CsrfJar × List Nat
  | j, [] => (j, [])
  | j, .start l :: ops => runLogins name (jarSet j (name l) l) ops
  | j, .complete l :: ops =>
    if jarGet j (name l) = some l then
      let (j', done) := runLogins name (jarDel j (name l)) ops
      (j', l :: done)
    else runLogins name j ops

theorem find_filter_ne (j : CsrfJar) (n m : Str) (h : m ≠ n) :
    List.find? (fun p => p.1 == m) (j.filter (fun p => p.1 != n)) = List.find? (fun p => p.1 == m) j := by
  induction j with
  | nil => rfl
  | cons p ps ih =>
    by_cases hp : p.1 = n
    · have h1 : (p.1 != n) = false := by simp [hp]
      have h2 : (p.1 == m) = false := by
        rw [hp]; simp only [beq_eq_false_iff_ne, ne_eq]; exact fun hh => h hh.symm
      rw [List.filter_cons, List.find?_cons]
      simp only [h1, h2, Bool.false_eq_true, ↓reduceIte, ih]
    · have h1 : (p.1 != n) = true := by simpa using hp
      rw [List.filter_cons]
      simp only [h1, ↓reduceIte, List.find?_cons, ih]

theorem jarGet_set_same (j : CsrfJar) (n : Str) (l : Nat) : jarGet (jarSet j n l) n = some l := by
  simp [jarGet, jarSet]
theorem jarGet_set_other (j : CsrfJar) (n m : Str) (l : Nat) (h : m ≠ n) : jarGet (jarSet j n l) m = jarGet j m := by
  unfold jarGet jarSet
  have hnm : ((n == m) = false) := by
    simp only [beq_eq_false_iff_ne, ne_eq]; exact fun hh => h hh.symm
  rw [List.find?_cons]
  simp only [hnm, find_filter_ne j n m h]
theorem jarGet_del_other (j : CsrfJar) (n m : Str) (h : m ≠ n) : jarGet (jarDel j n) m = jarGet j m := by
  unfold jarGet jarDel
  rw [find_filter_ne j n m h]

/-- **c03_per_request_any_order**: with pairwise distinct cookie names (distinct 8-character
    state-hash prefixes under `csrf-per-request`), a login whose cookie is in the jar completes
    successfully whatever other logins are started or completed in between, in any order. -/
theorem c03_per_request_any_order (name : Nat → Str) (hinj : ∀ a b, name a = name b → a = b)
    (l : Nat) (ops : List LoginOp) (j : CsrfJar)
    (hj : jarGet j (name l) = some l)
    (hno : LoginOp.start l ∉ ops ∧ LoginOp.complete l ∉ ops) (rest : List LoginOp) :
    l ∈ (runLogins name j (ops ++ LoginOp.complete l :: rest)).2 := by
  induction ops generalizing j with
  | nil =>
    simp only [List.nil_append, runLogins, hj, ↓reduceIte]
    simp
  | cons op ops ih =>
    have hno' : LoginOp.start l ∉ ops ∧ LoginOp.complete l ∉ ops :=
      ⟨fun h => hno.1 (List.mem_cons_of_mem _ h), fun h => hno.2 (List.mem_cons_of_mem _ h)⟩
    cases op with
    | start k =>
      have hk : k ≠ l := fun h => hno.1 (by rw [h]; exact List.mem_cons_self)
      simp only [List.cons_append, runLogins]
      apply ih _ _ hno'
      rw [jarGet_set_other _ _ _ _ (fun h => hk (hinj _ _ h).symm)]; exact hj
    | complete k =>
      have hk : k ≠ l := fun h => hno.2 (by rw [h]; exact List.mem_cons_self)
      simp only [List.cons_append, runLogins]
      split
      · simp only
        apply List.mem_cons_of_mem
        apply ih _ _ hno'
        rw [jarGet_del_other _ _ _ (fun h => hk (hinj _ _ h).symm)]; exact hj
      · exact ih _ hj hno'

/-- with ONE fixed cookie name the same is false: a second start overwrites the first login's
    cookie (matching the property's restriction to per-request cookies) -/
example : (runLogins (fun _ => "c".toList) [] [.start 1, .start 2, .complete 1]).2 = [] := by decide
example : (runLogins (fun n => (toString n).toList) [] [.start 1, .start 2, .complete 2, .complete 1]).2 = [2, 1] := by decide

end CsrfLogins

/-! ### C14 corollaries at the callback and on refresh -/

/-- whatever goes wrong at the token endpoint / ID-token processing (`redeem = .err`): no session -/
theorem c14_redeem_failure (cfg : Cfg) (env : Env) (g : Glue) (r : Req)
    (h : ∀ v u, env.redeem (formGet r.form "code".toList) v u = .err) :
    ∀ s, ¬ Established (callbackHandler cfg env r g.decodeB64) s := by
  intro s hs
  obtain ⟨_, _, csrf, s0, _, _, _, _, hred, _⟩ := callback_established cfg env g r s hs
  rw [h] at hred; cases hred

/-- a session whose ID token does not verify (JWKS failure, bad signature, wrong audience, …)
    or whose enrichment fails is never established -/
theorem c14_unverified_token (cfg : Cfg) (env : Env) (g : Glue) (r : Req) (s : Session)
    (h : Established (callbackHandler cfg env r g.decodeB64) s) : env.tokenVerifies s.idToken = true := by
  obtain ⟨_, _, csrf, s0, _, _, _, _, _, hf, hs, _⟩ := callback_established cfg env g r s h
  have hv := hf.valid
  rw [← hs] at hv
  unfold Env.validate at hv
  simp only [Bool.and_eq_true] at hv
  exact hv.1

/-- **refresh_fail_keeps_iff_valid**: when the provider's refresh fails (or declines), the old
    session is kept if and only if it is unexpired and re-validates with the provider. -/
theorem refresh_fail_keeps_iff_valid (cfg : Cfg) (env : Env) (s1 : Session)
    (hn : needsRefresh cfg env.now s1 = true)
    (hr : env.refresh s1 = .err ∨ env.refresh s1 = .notRefreshed) :
    ((refreshUnderLock cfg env s1).session = some s1 ↔ validateSessionStep cfg env s1 = true) ∧
    (validateSessionStep cfg env s1 = false →
        (refreshUnderLock cfg env s1).session = none ∧ (refreshUnderLock cfg env s1).isErr = true) := by
  unfold refreshUnderLock refreshOutcome
  rcases hr with hr | hr <;> simp [hn, hr]

end O2P
