import O2P.Props.TrSigned
import O2P.Props.TrRedirect
import O2P.Props.TrRoutes
import O2P.Props.TrMakeCookie
import O2P.Props.TrAuthOnly
import O2P.Props.C02
import O2P.Props.C09
import O2P.Props.C06
import O2P.Props.C15Routes
import O2P.Props.C18
/-
  O2P.Props.TrProperties — the properties stated DIRECTLY ON THE REGENERATED CODE.

  Each statement below is about `O2P.Gen.Tr.<function>` — the Lean definition go2lean wrote from the working
  tree on this run — and is obtained by composing the function's equivalence theorem (`Props/Tr*`) with the
  property theorem about the model.  They are what "the theorems are re-checked against what the code says
  now" means: if the source of `Validate`, `IsValidRedirect`, `isAllowedRoute`, `MakeCookieFromOptions`, … changes,
  these are the statements that have to be proved again.
-/
set_option linter.unusedSimpArgs false
set_option linter.unusedVariables false
open O2P O2P.Go

namespace O2P.TrProperties

/-- what `.map f = .ok y` says about an `Except` value -/
theorem map_ok {α β} (x : Go.M α) (f : α → β) (y : β) (h : x.map f = .ok y) : ∃ a, x = .ok a ∧ f a = y := by
  cases x with
  | error e => simp [Except.map] at h
  | ok a => exact ⟨a, rfl, by simpa [Except.map] using h⟩

/-! ### C02 / C09 on the regenerated `Validate` -/

/-- **acceptance**: whenever the regenerated `Validate` answers `ok`, the cookie value has exactly three parts, the
    third is the keyed hash of name‖value‖timestamp under the configured secret, the timestamp parses and lies
    in the window `(now − expire, now + 5 min)` (or expire is 0), and the returned value is the decoded first part -/
theorem validate_accepts (E : Go.Ext) (cookie : Go.Cookie) (seed : Str) (expiration : Int) (v : Str) (t : Go.Time)
    (h : Gen.Tr.Validate E cookie seed expiration = .ok (v, t, true)) :
    ∃ p0 p1 p2 ts, splitOn '|' cookie.Value = [p0, p1, p2]
      ∧ b64Decode true true p2 = some ((E.mac seed (cookie.Name ++ p0 ++ p1)).map truncByte)
      ∧ atoi p1 = some ts
      ∧ inWindow ts expiration E.nowNs
      ∧ b64Decode true true p0 = some v
      ∧ t = Go.timeUnix ts := by
  have heq := TrSigned.Validate_eq E cookie seed expiration
  rw [h] at heq
  simp only [Except.map, TrSigned.observe, if_true, Except.ok.injEq] at heq
  cases hv : validate E.mac cookie.Name cookie.Value seed expiration E.nowNs with
  | none => rw [hv] at heq; simp at heq
  | some r =>
    obtain ⟨v', ts⟩ := r
    rw [hv] at heq
    simp only [Option.map_some, Option.some.injEq, Prod.mk.injEq] at heq
    obtain ⟨hv1, ht⟩ := heq
    subst hv1
    obtain ⟨p0, p1, p2, h1, h2, h3, h4, h5⟩ := (C02.validate_accepts_iff_gen E.mac cookie.Name cookie.Value seed expiration E.nowNs v ts).1 hv
    exact ⟨p0, p1, p2, ts, h1, h2, h3, h4, h5, ht⟩

/-- **C09, past edge**: with a non-zero cookie-expire, a credential whose signed issue time is `expire` or more in the
    past is refused by the regenerated `Validate` — whatever else the cookie holds, for every keyed hash -/
theorem validate_rejects_expired (E : Go.Ext) (cookie : Go.Cookie) (seed : Str) (expiration : Int)
    (p0 p1 p2 : Str) (ts : Int) (hexp : expiration ≠ 0)
    (hsp : splitOn '|' cookie.Value = [p0, p1, p2]) (hat : atoi p1 = some ts)
    (hold : ts * 1000000000 ≤ E.nowNs - expiration) :
    ∃ r, Gen.Tr.Validate E cookie seed expiration = .ok r ∧ r.2.2 = false := by
  have heq := TrSigned.Validate_eq E cookie seed expiration
  rw [C09.expired_rejected E.mac cookie.Name cookie.Value seed expiration E.nowNs p0 p1 p2 ts hexp hsp hat hold] at heq
  obtain ⟨r, hr, hobs⟩ := map_ok _ _ _ heq
  refine ⟨r, hr, ?_⟩
  unfold TrSigned.observe at hobs
  cases hb : r.2.2 with
  | false => rfl
  | true => simp [hb] at hobs

/-- **C09, future edge**: … and one whose issue time lies five minutes or more in the future -/
theorem validate_rejects_future (E : Go.Ext) (cookie : Go.Cookie) (seed : Str) (expiration : Int)
    (p0 p1 p2 : Str) (ts : Int) (hexp : expiration ≠ 0)
    (hsane : -9223372036854775808 ≤ E.nowNs - expiration)
    (hsp : splitOn '|' cookie.Value = [p0, p1, p2]) (hat : atoi p1 = some ts)
    (hfut : E.nowNs + 300 * 1000000000 ≤ ts * 1000000000) :
    ∃ r, Gen.Tr.Validate E cookie seed expiration = .ok r ∧ r.2.2 = false := by
  have heq := TrSigned.Validate_eq E cookie seed expiration
  rw [C09.future_rejected E.mac cookie.Name cookie.Value seed expiration E.nowNs p0 p1 p2 ts hexp hsane hsp hat hfut] at heq
  obtain ⟨r, hr, hobs⟩ := map_ok _ _ _ heq
  refine ⟨r, hr, ?_⟩
  unfold TrSigned.observe at hobs
  cases hb : r.2.2 with
  | false => rfl
  | true => simp [hb] at hobs

/-! ### C06 on the regenerated `IsValidRedirect` -/

/-- whatever the regenerated validator accepts is either a same-site path that no browser reading resolves off the
    origin, or an absolute http(s) URL whose host:port is covered by a whitelist entry -/
theorem redirect_accepted_is_safe (E : Go.Ext) (allowed : List Str) (s : Str)
    (hrx : E.regexMatch TrRedirect.invalidPattern = Redirect.invalidRel)
    (h : Gen.Tr.IsValidRedirect E allowed s = .ok true) :
    (hasPrefix ['/'] s = true ∧ hasPrefix ['/', '/'] s = false ∧ Redirect.invalidRel s = false) ∨
    ((hasPrefix Redirect.httpPrefix s = true ∨ hasPrefix Redirect.httpsPrefix s = true) ∧
      ∃ host port path, E.urlParse s = some (host, port, path) ∧ host ≠ [] ∧
        ∃ d ∈ allowed, (Redirect.splitHostPort d).1 ≠ [] ∧
          Redirect.isHostnameAllowed host (Redirect.splitHostPort d).1 = true ∧
          ((Redirect.splitHostPort d).2 = ['*'] ∨ (Redirect.splitHostPort d).2 = port)) := by
  rw [TrRedirect.IsValidRedirect_eq E allowed s hrx] at h
  have hv : Redirect.isValidRedirect allowed s ((E.urlParse s).map (fun t => (t.1, t.2.1))) = true := by
    simpa using h
  unfold Redirect.isValidRedirect at hv
  by_cases h0 : (s == []) = true
  · simp [h0] at hv
  · simp only [h0, Bool.false_eq_true, if_false] at hv
    by_cases h1 : (hasPrefix ['/'] s && !hasPrefix ['/', '/'] s && !Redirect.invalidRel s) = true
    · left
      simp only [Bool.and_eq_true, Bool.not_eq_true'] at h1
      exact ⟨h1.1.1, h1.1.2, h1.2⟩
    · simp only [h1, Bool.false_eq_true, if_false] at hv
      by_cases h2 : (hasPrefix Redirect.httpPrefix s || hasPrefix Redirect.httpsPrefix s) = true
      · right
        simp only [h2, if_true] at hv
        refine ⟨by simpa using h2, ?_⟩
        cases hp : E.urlParse s with
        | none => simp [hp] at hv
        | some t =>
          obtain ⟨host, port, path⟩ := t
          simp only [hp, Option.map_some] at hv
          obtain ⟨hne, d, hd, h3⟩ := (Redirect.absRedirect_allowed host port allowed).1 hv
          exact ⟨host, port, path, rfl, hne, d, hd, h3⟩
      · simp [h2] at hv

/-! ### C15 on the regenerated `isAllowedRoute` -/

/-- a request is exempted by the regenerated rule check exactly when some configured rule has its method (or none)
    and its regex verdict on the request PATH differs from the rule's negation flag -/
theorem route_exempt_iff (E : Go.Ext) (routes : List Go.Route) (req : Go.Req) (path : Str)
    (hp : Gen.Tr.GetRequestPath E req = .ok path) :
    Gen.Tr.isAllowedRoute E routes req = .ok true ↔
      ∃ r ∈ routes, (r.method = [] ∨ req.method = r.method) ∧ (E.regexMatch r.pathRegex path ≠ r.negate) := by
  rw [TrRoutes.isAllowedRoute_eq E routes req path hp]
  simp only [Except.ok.injEq]
  rw [route_iff]
  constructor
  · rintro ⟨m, hm, h1, h2⟩
    obtain ⟨r, hr, rfl⟩ := List.mem_map.1 hm
    exact ⟨r, hr, h1, h2⟩
  · rintro ⟨r, hr, h1, h2⟩
    exact ⟨TrRoutes.toModel r, List.mem_map.2 ⟨r, hr, rfl⟩, h1, h2⟩

/-! ### C18 on the regenerated `MakeCookieFromOptions` -/

/-- every cookie the regenerated constructor builds carries the configured Secure / HttpOnly / Path, the SameSite
    code of the configured value, the Domain chosen by the domain rule, and the name it was asked for -/
theorem cookie_attributes (E : Go.Ext) (req : Go.Req) (host name value : Str) (opts : Go.CookieOpts) (expiration : Int)
    (hreq : Gen.Tr.GetRequestHost E req = .ok host) (hE : E.splitHostPortStd = Ck.splitHostPortGo)
    (hss : TrMakeCookie.ValidSameSite opts.SameSite) (he : TrMakeCookie.EmptyLast opts.Domains) :
    ∃ c, Gen.Tr.MakeCookieFromOptions E req name value opts expiration = .ok c ∧
      c.Secure = opts.Secure ∧ c.HttpOnly = opts.HTTPOnly ∧ c.Path = opts.Path ∧ c.Name = name ∧ c.Value = value ∧
      c.SameSite = TrMakeCookie.sameSiteCode opts.SameSite ∧
      c.Domain = Ck.domainRule opts.Domains host ∧
      (expiration > 0 → c.MaxAge = expiration / 1000000000) ∧ (expiration < 0 → c.MaxAge = -1) ∧ (expiration = 0 → c.MaxAge = 0) := by
  refine ⟨TrMakeCookie.toHttp (Ck.makeCookie (TrMakeCookie.cfgOf opts) host name value expiration),
    TrMakeCookie.MakeCookieFromOptions_eq E req host name value opts expiration hreq hE hss he, ?_⟩
  simp only [TrMakeCookie.toHttp, Ck.makeCookie, TrMakeCookie.cfgOf, true_and]
  refine ⟨?_, ?_, ?_⟩
  · intro h; simp [h]
  · intro h
    have : ¬ expiration > 0 := by omega
    simp [this, h]
  · intro h; subst h; simp

/-! ### C08 on the regenerated auth-only helpers -/

/-- the query key `allowed_emails` -/
def akey : Str := ['a', 'l', 'l', 'o', 'w', 'e', 'd', '_', 'e', 'm', 'a', 'i', 'l', 's']

/-- with a non-empty `allowed_emails` constraint, the regenerated check lets a session through only if its e-mail is
    one of the listed entries — in particular never a session without an e-mail -/
theorem allowed_emails_enforced (E : Go.Ext) (q : List (Str × Str)) (s : Go.Session)
    (hne : Authz.extractAllowed q akey ≠ [])
    (h : Gen.Tr.checkAllowedEmails E (TrAuthOnly.reqOf q) s = .ok true) :
    s.Email ∈ Authz.extractAllowed q akey ∧ s.Email ≠ [] := by
  rw [TrAuthOnly.checkAllowedEmails_eq] at h
  have hv : Authz.checkAllowedEmails q (TrAuthOnly.sessOf s) = true := by simpa using h
  unfold Authz.checkAllowedEmails at hv
  rw [TrAuthOnly.lits.2] at hv
  change (let a := Authz.extractAllowed q akey; a.isEmpty || a.contains (TrAuthOnly.sessOf s).email) = true at hv
  have hemp : (Authz.extractAllowed q akey).isEmpty = false := by
    cases hq : Authz.extractAllowed q akey with
    | nil => exact absurd hq hne
    | cons a l => rfl
  simp only [hemp, Bool.false_or, TrAuthOnly.sessOf, List.contains_iff_mem] at hv
  refine ⟨hv, ?_⟩
  intro he
  rw [he] at hv
  unfold Authz.extractAllowed at hv
  simp at hv

end O2P.TrProperties
