/-
  O2P.Props.C20 — "Credential and allow-list files reload atomically and race-free".

  Publication model (`O2P.Pub`, variant `.real`): for EVERY initial contents, EVERY sequence
  of file versions (malformed ones included), EVERY assignment of roles to threads (any
  number of writers / reloaders / validators) and EVERY schedule:
    * `snapshot_linearizable`: a completed validation answers according to ONE complete
      version that was in force at some instant between its start and its end;
    * `after_reload_new`: a validation that starts after a reload has published sees that
      version or a later one;
    * `bad_parse_keeps_old`: a reload that fails to parse changes nothing;
    * `immutable_after_publish`: maps are never modified after allocation.
  Lock discipline (`O2P.Race`, `O2P.Lockset`): `raceFree` on the extracted access facts, and
  `lockset_sound`: in an interleaving model of `sync.RWMutex`, `raceFree` programs never
  have two conflicting non-atomic accesses enabled at the same time.
-/
import O2P.Lemmas.Publish

namespace O2P.Pub

/-! ## Meaning of the ghost indices (all by unfolding `step`) -/

/-- The publication log is faithful: in every reachable configuration the map reachable from
the shared cell is the last entry of `pubs` (the version in force). -/
theorem cell_is_last_pub (initial : Snapshot) (files : List (Option Snapshot))
    (roles : List Role) (sched : List Nat) :
    let c := run .real (init initial files roles) sched
    c.pubs[c.curIdx]? = some (c.deref c.cell) := by
  intro c
  obtain ⟨sn, h1, h2⟩ := (inv_run _ sched (inv_init initial files roles)).cell
  show c.pubs[c.pubs.length - 1]? = some (c.heap[c.cell]?.getD [])
  rw [h1, h2]; rfl

/-- The start step records the index of the version in force at that instant. -/
theorem start_records (v : Variant) (c : Config) (t key : Nat) (h : c.threads t = .vStart key) :
    (step v c t).threads t = .vRead key c.curIdx := by
  simp [step, h, Config.setT]

/-- The return step records the index of the version in force at that instant. -/
theorem end_records (v : Variant) (c : Config) (t key s : Nat) (a : Option Nat)
    (h : c.threads t = .vRet key s a) :
    (step v c t).threads t = .vDone key s c.curIdx a := by
  simp [step, h, Config.setT]

/-- The publish step is ONE write of the cell; it appends the published contents to the log
and records their index. -/
theorem publish_records (v : Variant) (c : Config) (t p : Nat) (h : c.threads t = .rPublish p) :
    (step v c t).cell = p ∧ (step v c t).pubs = c.pubs ++ [c.deref p] ∧
    (step v c t).heap = c.heap ∧ (step v c t).threads t = .rDone (some c.pubs.length) := by
  simp [step, h, Config.setT]

/-! ## 1. linearizability -/

/-- Every completed validation of `key`, started when version `s` was in force and returned
when version `e` was in force, answers `lookup key sn` for ONE complete version `sn` whose
index `i` lies in `[s, e]` — i.e. a version that was the published one at some instant
between the validation's start and end (never a mixture, never a partial map). -/
theorem snapshot_linearizable (initial : Snapshot) (files : List (Option Snapshot))
    (roles : List Role) (sched : List Nat) (t key s e : Nat) (a : Option Nat)
    (hd : (run .real (init initial files roles) sched).threads t = .vDone key s e a) :
    ∃ i sn, s ≤ i ∧ i ≤ e ∧
      (run .real (init initial files roles) sched).pubs[i]? = some sn ∧ a = lookup key sn := by
  have h := (inv_run _ sched (inv_init initial files roles)).thr t
  rw [hd] at h
  obtain ⟨i, sn, h1, h2, _, h4, h5⟩ := h
  exact ⟨i, sn, h1, h2, h4, h5⟩

-- non-vacuous: reload of a changed password racing with a validation
example :
    (run .real (init [(1, 10)] [some [(1, 20)]] [.reloader, .validator 1])
      [1, 0, 0, 0, 0, 1, 1, 1]).threads 1 = .vDone 1 0 1 (some 20) := by decide
example :
    (run .real (init [(1, 10)] [some [(1, 20)]] [.reloader, .validator 1])
      [1, 1, 0, 0, 0, 0, 1, 1]).threads 1 = .vDone 1 0 1 (some 10) := by decide

/-- The executable check `linOK` used by the driver holds on every reachable configuration. -/
theorem linOK_real (initial : Snapshot) (files : List (Option Snapshot))
    (roles : List Role) (sched : List Nat) (n : Nat) :
    linOK (run .real (init initial files roles) sched) n = true := by
  unfold linOK
  rw [List.all_eq_true]
  intro t _
  split
  · rename_i key s e a hd
    obtain ⟨i, sn, h1, h2, h3, h4⟩ := snapshot_linearizable initial files roles sched t key s e a hd
    unfold explained
    rw [List.any_eq_true]
    refine ⟨i - s, by simp; omega, ?_⟩
    have : s + (i - s) = i := by omega
    rw [this, h3]; simp [h4]
  · rfl

/-! ## 2. after a completed reload, later validations see it -/

/-- If, after `sched1`, reload `r` has completed having published version `k`, and
validation `t` has not started yet, then whenever `t` later completes it answers according
to a version with index `≥ k`: the one `r` published or a later one. -/
theorem after_reload_new (initial : Snapshot) (files : List (Option Snapshot))
    (roles : List Role) (sched1 sched2 : List Nat) (r t k key s e : Nat) (a : Option Nat)
    (hr : (run .real (init initial files roles) sched1).threads r = .rDone (some k))
    (ht : (run .real (init initial files roles) sched1).threads t = .vStart key)
    (hd : (run .real (init initial files roles) (sched1 ++ sched2)).threads t
            = .vDone key s e a) :
    ∃ i sn, k ≤ i ∧ i ≤ e ∧
      (run .real (init initial files roles) (sched1 ++ sched2)).pubs[i]? = some sn ∧
      a = lookup key sn := by
  have hI1 := inv_run _ sched1 (inv_init initial files roles)
  have hk : k < (run .real (init initial files roles) sched1).pubs.length := by
    have := hI1.thr r; rw [hr] at this; exact this
  have hsa : StartsAfter k t key (run .real (init initial files roles) sched1) :=
    ⟨hk, Or.inl ht⟩
  have hsa2 := startsAfter_run k t key _ sched2 hsa
  rw [← run_append] at hsa2
  obtain ⟨i, sn, h1, h2, h3, h4⟩ :=
    snapshot_linearizable initial files roles (sched1 ++ sched2) t key s e a hd
  have hks : k ≤ s := by
    rcases hsa2.2 with h | ⟨s', hs', hle⟩
    · rw [hd] at h; cases h
    · rw [hd] at hs'; simp [startOf] at hs'; omega
  exact ⟨i, sn, by omega, h2, h3, h4⟩

/-- Version indices are stable: what was version `k` stays version `k`. -/
theorem version_stable (initial : Snapshot) (files : List (Option Snapshot))
    (roles : List Role) (sched1 sched2 : List Nat) (k : Nat)
    (hk : k < (run .real (init initial files roles) sched1).pubs.length) :
    (run .real (init initial files roles) (sched1 ++ sched2)).pubs[k]? =
    (run .real (init initial files roles) sched1).pubs[k]? := by
  obtain ⟨_, e2, _, h2⟩ := run_grows _ sched2 (inv_run _ sched1 (inv_init initial files roles))
  rw [run_append, h2, List.getElem?_append_left hk]

-- hypotheses of `after_reload_new` are satisfiable
example :
    (run .real (init [(1, 10)] [some [(1, 20)]] [.reloader, .validator 1]) [0,0,0,0]).threads 0
      = .rDone (some 1) ∧
    (run .real (init [(1, 10)] [some [(1, 20)]] [.reloader, .validator 1]) [0,0,0,0]).threads 1
      = .vStart 1 ∧
    (run .real (init [(1, 10)] [some [(1, 20)]] [.reloader, .validator 1])
      ([0,0,0,0] ++ [1,1,1,1])).threads 1 = .vDone 1 1 1 (some 20) := by decide

/-! ## 3. a failed parse keeps the old contents -/

/-- A reload whose file is malformed (or unreadable) stops without touching the cell, the
maps or the version log; its two steps (read, failed parse) are the only ones it takes. -/
theorem bad_parse_keeps_old (v : Variant) (c : Config) (t : Nat)
    (h : c.threads t = .rRead ∨ c.threads t = .rParse none) :
    (step v c t).cell = c.cell ∧ (step v c t).heap = c.heap ∧ (step v c t).pubs = c.pubs ∧
    (c.threads t = .rParse none → (step v c t).threads t = .rDone none) ∧
    (c.threads t = .rRead → c.files[c.fileIdx]?.getD none = none →
        (step v c t).threads t = .rParse none) := by
  rcases h with h | h <;> simp [step, h, Config.setT]

-- hypothesis of `bad_parse_keeps_old` is satisfiable: reloader 0 has read a malformed file
example : (run .real (init [(1, 10)] [none] [.reloader]) [0]).threads 0 = .rParse none := by decide

/-- … and a finished failed reload never moves again. -/
theorem failed_reload_final (v : Variant) (c : Config) (t : Nat) (h : c.threads t = .rDone none) :
    step v c t = c := by
  simp [step, h]

/-- End-to-end: if every version of the file is malformed, then whatever the threads and the
schedule, the initial contents stay in force and every completed validation answers
according to them. -/
theorem bad_parse_keeps_old_global (initial : Snapshot) (files : List (Option Snapshot))
    (hbad : ∀ f, f ∈ files → f = none) (roles : List Role) (sched : List Nat) :
    let c := run .real (init initial files roles) sched
    c.pubs = [initial] ∧ c.deref c.cell = initial ∧
    ∀ t key s e a, c.threads t = .vDone key s e a → a = lookup key initial := by
  intro c
  -- invariant: nobody ever gets past the parse
  let P : Config → Prop := fun c =>
    c.files = files ∧ c.pubs = [initial] ∧ c.heap = [initial] ∧ c.cell = 0 ∧
    ∀ t, match c.threads t with
      | .rParse (some _) | .rBuild _ | .rPublish _ | .rClear _ | .rFill _ => False
      | _ => True
  have hget : ∀ i : Nat, files[i]?.getD none = none := by
    intro i
    cases h : files[i]? with
    | none => rfl
    | some f => simp [hbad f (List.mem_of_getElem? h)]
  have hstep : ∀ c tid, P c → P (step .real c tid) := by
    intro c tid ⟨hf, hp, hh, hc, ht⟩
    have hme := ht tid
    have keep : ∀ th, (match th with
        | .rParse (some _) | .rBuild _ | .rPublish _ | .rClear _ | .rFill _ => False
        | _ => True) → P (c.setT tid th) := by
      intro th hth
      refine ⟨hf, hp, hh, hc, fun t => ?_⟩
      by_cases htt : t = tid
      · subst htt; simpa using hth
      · simpa [htt] using ht t
    unfold step
    cases hpc : c.threads tid <;> simp only [hpc] at hme ⊢
    case idle => exact ⟨hf, hp, hh, hc, ht⟩
    case writer => exact ⟨hf, hp, hh, hc, ht⟩
    case rDone => exact ⟨hf, hp, hh, hc, ht⟩
    case vDone => exact ⟨hf, hp, hh, hc, ht⟩
    case rRead => rw [hf, hget]; exact keep _ trivial
    case rParse f =>
      cases f with
      | none => exact keep _ trivial
      | some s => exact hme.elim
    case vLookup => simp; exact keep _ trivial
    all_goals first | exact hme.elim | exact keep _ trivial
  have hrun : ∀ sched c, P c → P (run .real c sched) := by
    intro sched
    induction sched with
    | nil => intro c h; exact h
    | cons a as ih => intro c h; exact ih _ (hstep c a h)
  have hinit : P (init initial files roles) := by
    refine ⟨rfl, rfl, rfl, rfl, fun t => ?_⟩
    simp only [init]
    cases h : roles[t]? with
    | none => trivial
    | some r => cases r <;> trivial
  obtain ⟨_, hp, hh, hc, _⟩ := hrun sched _ hinit
  refine ⟨hp, by simp only [Config.deref, c]; rw [hh, hc]; rfl, ?_⟩
  intro t key s e a hd
  obtain ⟨i, sn, _, _, h3, h4⟩ := snapshot_linearizable initial files roles sched t key s e a hd
  have : (run .real (init initial files roles) sched).pubs = [initial] := hp
  rw [this] at h3
  cases i with
  | zero => simp at h3; rw [h4, h3]
  | succ j => simp at h3

-- hypothesis of `bad_parse_keeps_old_global` is satisfiable
example : ∀ f, f ∈ ([none, none] : List (Option Snapshot)) → f = none := by simp

-- concrete: malformed version in between is skipped, the next good one is published
example :
    (runPublish .real [(1, 10)] [none, some [(2, 5)]] [.reloader, .writer, .reloader, .validator 1]
      [0,0, 3,3,3,3, 1, 2,2,2,2]).reloads = [(0, none), (2, some 1)] ∧
    (runPublish .real [(1, 10)] [none, some [(2, 5)]] [.reloader, .writer, .reloader, .validator 1]
      [0,0, 3,3,3,3, 1, 2,2,2,2]).current = [(2, 5)] ∧
    (runPublish .real [(1, 10)] [none, some [(2, 5)]] [.reloader, .writer, .reloader, .validator 1]
      [0,0, 3,3,3,3, 1, 2,2,2,2]).validators.map (·.answer) = [some 10] := by decide

/-! ## 4. published maps are immutable -/

/-- Along every run the heap of maps and the version log only grow at the end: a map is never
written after it has been allocated (in particular not after publication), so the pointer a
validator has read keeps denoting the same complete contents. -/
theorem immutable_after_publish (initial : Snapshot) (files : List (Option Snapshot))
    (roles : List Role) (sched1 sched2 : List Nat) :
    ∃ e1 e2,
      (run .real (init initial files roles) (sched1 ++ sched2)).heap =
        (run .real (init initial files roles) sched1).heap ++ e1 ∧
      (run .real (init initial files roles) (sched1 ++ sched2)).pubs =
        (run .real (init initial files roles) sched1).pubs ++ e2 := by
  rw [run_append]
  exact run_grows _ sched2 (inv_run _ sched1 (inv_init initial files roles))

/-! ## 5. mutants violate linearizability on concrete schedules -/

/-- Two-step publish (clear the live map, then fill it): a validation that runs in between
sees the empty map — user 1 exists in the old AND in the new version, yet is rejected. -/
example :
    linOK (run .twoStep (init [(1, 10)] [some [(1, 10), (2, 7)]] [.reloader, .validator 1])
      [1, 0, 0, 0, 1, 1, 0, 1]) 2 = false ∧
    (run .twoStep (init [(1, 10)] [some [(1, 10), (2, 7)]] [.reloader, .validator 1])
      [1, 0, 0, 0, 1, 1, 0, 1]).threads 1 = .vDone 1 0 1 none := by decide

/-- Validator reading the cell twice (existence from the first read, value from the second):
user 1 is removed by the reload in between; the answer "exists, with the zero value" matches
neither version. -/
example :
    linOK (run .readTwice (init [(1, 10)] [some [(2, 7)]] [.reloader, .validator 1])
      [1, 1, 1, 0, 0, 0, 0, 1, 1, 1]) 2 = false ∧
    (run .readTwice (init [(1, 10)] [some [(2, 7)]] [.reloader, .validator 1])
      [1, 1, 1, 0, 0, 0, 0, 1, 1, 1]).threads 1 = .vDone 1 0 1 (some 0) := by decide

/-- The real protocol on the same schedules is fine. -/
example :
    linOK (run .real (init [(1, 10)] [some [(1, 10), (2, 7)]] [.reloader, .validator 1])
      [1, 0, 0, 0, 1, 1, 0, 1]) 2 = true ∧
    linOK (run .real (init [(1, 10)] [some [(2, 7)]] [.reloader, .validator 1])
      [1, 1, 1, 0, 0, 0, 0, 1, 1, 1]) 2 = true := by decide

end O2P.Pub

/-! ## 6. lock discipline -/

namespace O2P.Lockset

open O2P.Race

/-- In every reachable configuration of the mutex model: if `t₁` is inside a critical section
holding lock `l` exclusively and `t₂` is inside a critical section holding `l` in any mode,
then `t₁ = t₂`. -/
theorem mutex_exclusive (prog : List AccessFact) (sched : List Nat) (t₁ t₂ : Nat) (l : String)
    (m : LockMode) (hm : m ≠ .none)
    (h₁ : InCS (lrun (linit prog) sched) .W t₁ l)
    (h₂ : InCS (lrun (linit prog) sched) m t₂ l) : t₁ = t₂ := by
  have hI := linv_run prog _ sched (linv_init prog)
  have hw := (hI.w l t₁).2 h₁
  cases m with
  | none => exact absurd rfl hm
  | W =>
    have hw2 := (hI.w l t₂).2 h₂
    rw [hw] at hw2; exact Option.some.inj hw2
  | R =>
    have hr := (hI.r l t₂).2 h₂
    rw [hI.excl l t₁ hw] at hr
    cases hr

-- hypotheses of `mutex_exclusive` are satisfiable (reload inside its exclusive section)
example : InCS (lrun (linit [AccessFact.ofStrings "load" "users" true "rwm" "W" false]) [0]) .W 0 "rwm" :=
  ⟨_, rfl, rfl, rfl, rfl⟩

/-- Soundness of the lockset discipline w.r.t. the interleaving model: let every thread `i`
execute the access `prog[i]` bracketed by the acquire/release its fact prescribes.  If the
facts are `raceFree`, then for EVERY number of threads and EVERY schedule, two distinct
threads whose accesses conflict are never both at their access (inside their critical
sections) — unless both accesses are atomic. -/
theorem lockset_sound (prog : List AccessFact) (hrf : raceFree prog = true) (sched : List Nat)
    (t₁ t₂ : Nat) (th₁ th₂ : LThread) (hne : t₁ ≠ t₂)
    (h₁ : (lrun (linit prog) sched).threads t₁ = some th₁)
    (h₂ : (lrun (linit prog) sched).threads t₂ = some th₂)
    (hc₁ : th₁.pc = .inCS) (hc₂ : th₂.pc = .inCS)
    (hconf : conflict th₁.fact th₂.fact = true) :
    th₁.fact.atomic = true ∧ th₂.fact.atomic = true := by
  have hI := linv_run prog _ sched (linv_init prog)
  have hm1 : th₁.fact ∈ prog := List.mem_of_getElem? (hI.prog t₁ th₁ h₁)
  have hm2 : th₂.fact ∈ prog := List.mem_of_getElem? (hI.prog t₂ th₂ h₂)
  unfold raceFree at hrf
  rw [List.all_eq_true] at hrf
  have := hrf _ hm1
  rw [List.all_eq_true] at this
  have hp := this _ hm2
  rw [hconf] at hp
  simp only [Bool.not_true, Bool.false_or] at hp
  unfold pairOK at hp
  rw [Bool.or_eq_true] at hp
  rcases hp with hp | hp
  · simpa using hp
  · exfalso
    simp only [Bool.and_eq_true, beq_iff_eq] at hp
    obtain ⟨⟨hl, hg1⟩, hg2⟩ := hp
    have in1 : ∀ m, th₁.fact.lockMode = m → InCS (lrun (linit prog) sched) m t₁ th₁.fact.lock :=
      fun m hm => ⟨th₁, h₁, hc₁, hm, rfl⟩
    have in2 : ∀ m, th₂.fact.lockMode = m → InCS (lrun (linit prog) sched) m t₂ th₁.fact.lock :=
      fun m hm => ⟨th₂, h₂, hc₂, hm, hl.symm⟩
    unfold conflict at hconf
    unfold guarded at hg1 hg2
    cases hm1 : th₁.fact.lockMode <;> cases hm2 : th₂.fact.lockMode <;>
      simp only [hm1, hm2] at hg1 hg2 <;> (try cases hg1) <;> (try cases hg2)
    · -- R / R: then neither writes, no conflict
      simp_all
    · -- R / W
      exact hne (mutex_exclusive prog sched t₂ t₁ _ .R (by simp) (in2 _ hm2) (in1 _ hm1)).symm
    · -- W / R
      exact hne (mutex_exclusive prog sched t₁ t₂ _ .R (by simp) (in1 _ hm1) (in2 _ hm2))
    · -- W / W
      exact hne (mutex_exclusive prog sched t₁ t₂ _ .W (by simp) (in1 _ hm1) (in2 _ hm2))

end O2P.Lockset

/-! ## 7. the extracted facts -/

namespace O2P.Race

/-- htpasswd.go before the fix (upstream v7.8.2): `Validate` reads `h.users` without any lock. -/
def htpasswdFactsPreFix : List AccessFact :=
  [ .ofStrings "loadHTPasswdFile" "users" true  "rwm" "W" false
  , .ofStrings "GetUsers"         "users" false "rwm" "W" false
  , .ofStrings "Validate"         "users" false ""    "none" false ]

/-- htpasswd.go after the fix: `Validate` reads under `rwm.RLock()`. -/
def htpasswdFactsFixed : List AccessFact :=
  [ .ofStrings "loadHTPasswdFile" "users" true  "rwm" "W" false
  , .ofStrings "GetUsers"         "users" false "rwm" "W" false
  , .ofStrings "Validate"         "users" false "rwm" "R" false ]

/-- validator.go `UserMap`: atomic pointer store / load. -/
def userMapFacts : List AccessFact :=
  [ .ofStrings "NewUserMap"                  "m" true  "" "none" true
  , .ofStrings "LoadAuthenticatedEmailsFile" "m" true  "" "none" true
  , .ofStrings "IsValid"                     "m" false "" "none" true ]

/-- The pre-fix htpasswd lock discipline is NOT race free (the unlocked read in `Validate`
conflicts with the locked write in `loadHTPasswdFile`). -/
theorem htpasswd_prefix_racy : raceFree htpasswdFactsPreFix = false := by decide

example : (races htpasswdFactsPreFix).map (fun p => (p.1.func, p.2.func)) =
    [("loadHTPasswdFile", "Validate"), ("Validate", "loadHTPasswdFile")] := by decide

theorem htpasswd_fixed_race_free : raceFree htpasswdFactsFixed = true := by decide

theorem userMap_race_free : raceFree userMapFacts = true := by decide

-- other sanity mutants of the discipline
example : raceFree [ .ofStrings "load" "users" true "rwm" "R" false
                   , .ofStrings "Validate" "users" false "rwm" "R" false ] = false := by decide
example : raceFree [ .ofStrings "load" "users" true "" "none" false ] = false := by decide
example : raceFree [ .ofStrings "load" "m" true "" "none" true
                   , .ofStrings "IsValid" "m" false "" "none" false ] = false := by decide
example : raceFree [ .ofStrings "load" "users" true "mu1" "W" false
                   , .ofStrings "Validate" "users" false "mu2" "R" false ] = false := by decide

/-- The dynamic event-level check agrees on the extracted facts (one thread per fact). -/
example : eventsRaceFree (htpasswdFactsPreFix.zipIdx.map fun (f, i) => f.toAccess i) = false ∧
    eventsRaceFree (htpasswdFactsFixed.zipIdx.map fun (f, i) => f.toAccess i) = true ∧
    eventsRaceFree (userMapFacts.zipIdx.map fun (f, i) => f.toAccess i) = true := by decide

end O2P.Race

namespace O2P.Lockset
open O2P.Race

/-- `lockset_sound` is not vacuous: with the fixed facts, reload (thread 0) and `Validate`
(thread 2) are both scheduled, reload is inside its critical section, and `Validate` is kept
out (still `idle`) … -/
example :
    ((lrun (linit htpasswdFactsFixed) [0, 2, 2]).threads 0).map (·.pc) = some .inCS ∧
    ((lrun (linit htpasswdFactsFixed) [0, 2, 2]).threads 2).map (·.pc) = some .idle := by decide

/-- … and all hypotheses of `lockset_sound` can hold at once (then both accesses are atomic):
`UserMap` store (thread 1) and load (thread 2) are simultaneously at their access. -/
example :
    ((lrun (linit userMapFacts) [1, 2]).threads 1).map (·.pc) = some .inCS ∧
    ((lrun (linit userMapFacts) [1, 2]).threads 2).map (·.pc) = some .inCS ∧
    conflict userMapFacts[1] userMapFacts[2] = true := by decide

/-- … whereas with the pre-fix facts the same schedule puts the unlocked read inside the
writer's critical section: the race. -/
example :
    ((lrun (linit htpasswdFactsPreFix) [0, 2, 2]).threads 0).map (·.pc) = some .inCS ∧
    ((lrun (linit htpasswdFactsPreFix) [0, 2]).threads 2).map (·.pc) = some .inCS := by decide

end O2P.Lockset
