/-
  O2P.Props.C20Facts — the lock discipline of the CURRENT source tree.

  `O2P.Facts.sharedAccesses` is regenerated from /repo by the go/ast extractor on every run
  (`sharedScan` in /verif/extract/main.go): one string
      "func|var|read/write|none/R/W|plain/atomic/private"
  per access to the shared snapshot cell (`users` of htpasswdMap, `m` of UserMap) and to the
  contents of the map it points to (`users[]`, `m[]`).  `private` accesses go through a map the
  function itself freshly allocated and has not yet published (rule documented at `sharedScan`);
  they are exempt from the discipline.  Everything else must satisfy `raceFree`
  (`O2P/Model/Publish.lean`), whose soundness w.r.t. an RWMutex interleaving model is
  `O2P.Lockset.lockset_sound`.

  The theorems below are proved by `decide` on the regenerated list, so a change of the lock
  discipline in /repo (dropping the RLock in `Validate`, writing the live map in place,
  a non-atomic access to `um.m`, …) breaks a proof obligation.  An unparseable fact string
  never defaults: it becomes a poisoned fact (unlocked plain write) that makes `raceFree` false.
-/
import O2P.Gen.Facts
import O2P.Model.Publish

namespace O2P.Race

/-- split on a separator, structurally (so that `decide` can evaluate it) -/
def splitChars (sep : Char) : List Char → List (List Char)
  | [] => [[]]
  | c :: cs =>
    if c = sep then [] :: splitChars sep cs
    else match splitChars sep cs with
      | [] => [[c]]
      | p :: ps => (c :: p) :: ps

/-- One extracted fact: the access and whether it is private (pre-publication). The lock of
both files is the one the extractor tracks (`rwm`); it is recorded iff a mode is held. -/
def parseFact (s : String) : Option (AccessFact × Bool) :=
  match (splitChars '|' s.toList).map String.ofList with
  | [f, v, rw, mode, kind] =>
    let w? : Option Bool :=
      if rw = "write" then some true else if rw = "read" then some false else none
    let m? : Option LockMode :=
      if mode = "none" then some .none else if mode = "R" then some .R
      else if mode = "W" then some .W else none
    let k? : Option (Bool × Bool) :=
      if kind = "plain" then some (false, false) else if kind = "atomic" then some (true, false)
      else if kind = "private" then some (false, true) else none
    match w?, m?, k? with
    | some w, some m, some (atomic, priv) =>
      some (⟨f, v, w, if m = .none then "" else "rwm", m, atomic⟩, priv)
    | _, _, _ => none
  | _ => none

/-- poison for unparseable strings: an unlocked, non-atomic write of the variable asked for -/
def poison (v : String) : AccessFact := ⟨"<unparseable>", v, true, "", .none, false⟩

/-- every extracted string, parsed once -/
def parseAll (l : List String) : List (Option (AccessFact × Bool)) := l.map parseFact

/-- the shared (non-private) accesses of variable `v`; an unparseable string is poison -/
def sel (v : String) (p : List (Option (AccessFact × Bool))) : List AccessFact :=
  p.filterMap fun x =>
    match x with
    | none => some (poison v)
    | some (f, priv) => if f.var = v ∧ ¬ priv then some f else none

/-- The shared (non-private) accesses of variable `v` among the extracted facts. -/
def factsOf (v : String) (l : List String) : List AccessFact := sel v (parseAll l)

/-- Everything C20 needs from the facts, as one Boolean over the parsed list (so that the
kernel parses each string only once). -/
def disciplineOK (p : List (Option (AccessFact × Bool))) : Bool :=
  raceFree (sel "users" p) && raceFree (sel "users[]" p) &&
  raceFree (sel "m" p) && raceFree (sel "m[]" p) &&
  -- not vacuous: each cell has a shared writer and a shared reader …
  (sel "users" p).any (·.write) && (sel "users" p).any (!·.write) &&
  (sel "m" p).any (·.write) && (sel "m" p).any (!·.write) &&
  -- … and the contents of a published map have shared readers and NO shared writer
  (sel "users[]" p).any (!·.write) && !(sel "users[]" p).any (·.write) &&
  (sel "m[]" p).any (!·.write) && !(sel "m[]" p).any (·.write)

/-! ### the current tree -/

/-- The one evaluation of the regenerated facts. -/
theorem current_discipline_ok : disciplineOK (parseAll O2P.Facts.sharedAccesses) = true := by
  decide

private theorem split12 {a b c d e f g h i j k l : Bool}
    (hh : (a && b && c && d && e && f && g && h && i && j && k && l) = true) :
    a = true ∧ b = true ∧ c = true ∧ d = true ∧ e = true ∧ f = true ∧ g = true ∧ h = true ∧
    i = true ∧ j = true ∧ k = true ∧ l = true := by
  simp only [Bool.and_eq_true] at hh
  obtain ⟨⟨⟨⟨⟨⟨⟨⟨⟨⟨⟨h1, h2⟩, h3⟩, h4⟩, h5⟩, h6⟩, h7⟩, h8⟩, h9⟩, h10⟩, h11⟩, h12⟩ := hh
  exact ⟨h1, h2, h3, h4, h5, h6, h7, h8, h9, h10, h11, h12⟩

/-- htpasswd: the pointer cell `h.users` -/
theorem htpasswd_current_race_free :
    raceFree (factsOf "users" O2P.Facts.sharedAccesses) = true :=
  (split12 current_discipline_ok).1

/-- htpasswd: the contents of the published map (never written once shared) -/
theorem htpasswd_contents_current_race_free :
    raceFree (factsOf "users[]" O2P.Facts.sharedAccesses) = true :=
  (split12 current_discipline_ok).2.1

/-- UserMap: the pointer cell `um.m` (atomic load / store only) -/
theorem userMap_current_race_free :
    raceFree (factsOf "m" O2P.Facts.sharedAccesses) = true :=
  (split12 current_discipline_ok).2.2.1

/-- UserMap: the contents of the published map (never written once shared) -/
theorem userMap_contents_current_race_free :
    raceFree (factsOf "m[]" O2P.Facts.sharedAccesses) = true :=
  (split12 current_discipline_ok).2.2.2.1

/-- Source-level `immutable_after_publish`: no shared access writes the contents of a
published map, while shared readers of it exist. -/
theorem published_maps_never_written :
    (factsOf "users[]" O2P.Facts.sharedAccesses).any (·.write) = false ∧
    (factsOf "users[]" O2P.Facts.sharedAccesses).any (!·.write) = true ∧
    (factsOf "m[]" O2P.Facts.sharedAccesses).any (·.write) = false ∧
    (factsOf "m[]" O2P.Facts.sharedAccesses).any (!·.write) = true := by
  have h := split12 current_discipline_ok
  refine ⟨?_, h.2.2.2.2.2.2.2.2.1, ?_, h.2.2.2.2.2.2.2.2.2.2.1⟩
  · simpa [factsOf] using h.2.2.2.2.2.2.2.2.2.1
  · simpa [factsOf] using h.2.2.2.2.2.2.2.2.2.2.2

/-- Not vacuous: each cell has at least one shared writer and one shared reader. -/
theorem current_facts_nonvacuous :
    (factsOf "users" O2P.Facts.sharedAccesses).any (·.write) = true ∧
    (factsOf "users" O2P.Facts.sharedAccesses).any (!·.write) = true ∧
    (factsOf "m" O2P.Facts.sharedAccesses).any (·.write) = true ∧
    (factsOf "m" O2P.Facts.sharedAccesses).any (!·.write) = true := by
  have h := split12 current_discipline_ok
  exact ⟨h.2.2.2.2.1, h.2.2.2.2.2.1, h.2.2.2.2.2.2.1, h.2.2.2.2.2.2.2.1⟩

/-! ### the check bites: what the extractor emits for the known-bad variants -/

/-- `Validate` without the RLock (the pre-fix tree) -/
example : raceFree (factsOf "users"
    ["htpasswdMap.GetUsers|users|read|W|plain", "htpasswdMap.Validate|users|read|none|plain",
     "htpasswdMap.loadHTPasswdFile|users|write|W|plain"]) = false := by decide

/-- UserMap reload writing into the live map -/
example : raceFree (factsOf "m[]"
    ["UserMap.IsValid|m[]|read|none|plain",
     "UserMap.LoadAuthenticatedEmailsFile|m[]|write|none|plain"]) = false := by decide

/-- a non-atomic access to `um.m` is reported by the extractor as `plain-access`: poisoned -/
example : raceFree (factsOf "m"
    ["UserMap.IsValid|m|plain-access|none|plain", "NewUserMap|m|write|none|atomic"]) = false := by
  decide

/-- htpasswd reload mutating the live map under the write lock while `Validate` holds the read
lock is accepted by the discipline (it IS race free; whether it is also atomic is the
business of the `reload-race` suite and of the skeleton expectation) -/
example : raceFree (factsOf "users[]"
    ["htpasswdMap.Validate|users[]|read|R|plain",
     "htpasswdMap.loadHTPasswdFile|users[]|write|W|plain"]) = true := by decide

end O2P.Race
