import O2P.Props.C01
import O2P.Props.C02
import O2P.Props.C09
import O2P.Model.CookieJar
/-
  Composition of the layers: what a *served stored credential* means in bytes.

  Layer A (C01) says: served ⇒ bypass ∨ a session from one of the three loaders.  For the
  cookie session store the loader is `loadCookie` (C10) ∘ `validate` (C02/C09) ∘ decode.  These
  theorems put the pieces together inside Lean, for every MAC function, every payload decoder,
  every jar, every clock.
-/
namespace O2P

/-- `SessionStore.Load` of the cookie store: join the presented cookies, validate signature and
    window with the COOKIE secret and `cookie-expire`, decode the payload (AES-CFB + lz4 +
    msgpack as the parameter `decode`). -/
def cookieStoreLoad (mac : Str → Str → Str) (decode : Str → Option Session)
    (name secret : Str) (expireNs nowNs : Int) (jar : Jar) : LoadRes :=
  match loadCookie jar name with
  | none => .noCookie
  | some (n, v) =>
    match validate mac n v secret expireNs nowNs with
    | none => .err
    | some (bytes, _) =>
      match decode bytes with
      | none => .err
      | some s => .ok s

/-- what it takes, in bytes, for the cookie store to hand out a session -/
theorem cookieStoreLoad_ok (mac : Str → Str → Str) (decode : Str → Option Session)
    (name secret : Str) (expireNs nowNs : Int) (jar : Jar) (s : Session)
    (h : cookieStoreLoad mac decode name secret expireNs nowNs jar = .ok s) :
    ∃ n v bytes t, loadCookie jar name = some (n, v) ∧
      validate mac n v secret expireNs nowNs = some (bytes, t) ∧ decode bytes = some s := by
  unfold cookieStoreLoad at h
  split at h
  · cases h
  · rename_i n v hl
    split at h
    · cases h
    · rename_i bytes t hv
      split at h
      · cases h
      · rename_i s' hd
        cases h
        exact ⟨n, v, bytes, t, hl, hv, hd⟩

/-- **served_cookie_session_bytes**: when the stored credential is the only candidate and no
    refresh is due, a served request carried a cookie (or split parts) under the configured name
    whose joined value has exactly three `|`-parts, a tag that decodes to the MAC of
    `name‖value‖timestamp` under the cookie secret, a timestamp inside the window
    `(now − expire, now + 5 min)` (for a non-zero expiry), and a payload that decodes to exactly
    the session the request is served as. -/
theorem served_cookie_session_bytes (mac : Str → Str → Str) (hmac : C02.MacBytes mac) (decode : Str → Option Session)
    (cfg : Cfg) (env : Env) (g : Glue) (r : Req) (secret : Str) (jar : Jar)
    (hload : env.load1 = cookieStoreLoad mac decode cfg.cookieName secret cfg.cookieExpire env.now jar)
    (hj : cfg.jwtEnabled = false) (hb : cfg.basicEnabled = false) (hr : cfg.refreshPeriod = 0)
    (hby : bypassDecision cfg env g.pathOfURI r = false)
    (hexp : cfg.cookieExpire ≠ 0) (hsane : -9223372036854775808 ≤ env.now - cfg.cookieExpire)
    (hs : Served (serve cfg env g r)) :
    ∃ s n v p0 p1 p2 t bytes,
      (sessionChain cfg env r).session = some s ∧ Authorised cfg env s ∧
      loadCookie jar cfg.cookieName = some (n, v) ∧
      splitOn '|' v = [p0, p1, p2] ∧
      b64Decode true true p2 = some (mac secret (n ++ p0 ++ p1)) ∧
      atoi p1 = some t ∧
      env.now - cfg.cookieExpire < t * 1000000000 ∧ t * 1000000000 < env.now + 300 * 1000000000 ∧
      b64Decode true true p0 = some bytes ∧ decode bytes = some s := by
  rcases c01_only_if cfg env g r hs with hbp | ⟨s, hsess, hauth⟩
  · rw [hby] at hbp; cases hbp
  · rcases c01_loaders_sound cfg env r s hsess with ⟨h1, _⟩ | ⟨h1, _⟩ | ⟨s0, h0, hcase⟩
    · rw [hj] at h1; cases h1
    · rw [hb] at h1; cases h1
    · have hnr : ∀ x, needsRefresh cfg env.now x = false := by
        intro x; unfold needsRefresh; simp [hr]
      rcases hcase with ⟨_, hs0⟩ | ⟨hn, _⟩
      · subst hs0
        rw [hload] at h0
        obtain ⟨n, v, bytes, t, hl, hv, hd⟩ := cookieStoreLoad_ok mac decode _ _ _ _ _ _ h0
        obtain ⟨p0, p1, p2, hsp, htag, hat, _, hp0⟩ := (C02.validate_accepts_iff mac hmac n v secret cfg.cookieExpire env.now bytes t).1 hv
        obtain ⟨hw1, hw2⟩ := C09.accepted_in_window_plain mac n v secret cfg.cookieExpire env.now bytes t hexp hsane hv
        exact ⟨s, n, v, p0, p1, p2, t, bytes, hsess, hauth, hl, hsp, htag, hat, hw1, hw2, hp0, hd⟩
      · rw [hnr s0] at hn; cases hn

/-- **expired_cookie_never_served** (C09 ∘ C01): a cookie whose timestamp is older than
    `cookie-expire` is never served, whatever else it contains — for every MAC function. -/
theorem expired_cookie_never_served (mac : Str → Str → Str) (hmac : C02.MacBytes mac) (decode : Str → Option Session)
    (cfg : Cfg) (env : Env) (g : Glue) (r : Req) (secret : Str) (jar : Jar)
    (hload : env.load1 = cookieStoreLoad mac decode cfg.cookieName secret cfg.cookieExpire env.now jar)
    (hj : cfg.jwtEnabled = false) (hb : cfg.basicEnabled = false) (hr : cfg.refreshPeriod = 0)
    (hby : bypassDecision cfg env g.pathOfURI r = false)
    (hexp : cfg.cookieExpire ≠ 0) (hsane : -9223372036854775808 ≤ env.now - cfg.cookieExpire)
    (hold : ∀ n v p0 p1 p2 t, loadCookie jar cfg.cookieName = some (n, v) → splitOn '|' v = [p0, p1, p2] →
        atoi p1 = some t → t * 1000000000 ≤ env.now - cfg.cookieExpire) :
    ¬ Served (serve cfg env g r) := by
  intro hs
  obtain ⟨s, n, v, p0, p1, p2, t, bytes, _, _, hl, hsp, _, hat, hw1, _, _, _⟩ :=
    served_cookie_session_bytes mac hmac decode cfg env g r secret jar hload hj hb hr hby hexp hsane hs
  have := hold n v p0 p1 p2 t hl hsp hat
  omega

end O2P
