import O2P.Gen.Tr
import O2P.Lemmas.GoPrim
import O2P.Props.TrUtil
import O2P.Model.Redirect
/-
  O2P.Props.TrRedirect — the regenerated `IsValidRedirect` (pkg/app/redirect/validator.go) equals
  the model `Redirect.isValidRedirect` that the C06 theorems are about, for every whitelist, every
  candidate and every URL parser, PROVIDED the regular-expression engine answers for the pattern
  the source now carries (`invalidPattern`, the literal of `invalidRedirectRegex` as it is in the
  working tree) what the hand model `invalidRel` of that pattern says (that equivalence is what the
  `redirect` correspondence suite samples against Go's regexp).  A changed pattern changes the
  literal in the regenerated definition, and the hypothesis no longer rewrites it.
-/
set_option linter.unusedSimpArgs false
set_option linter.unusedVariables false
open O2P O2P.Go

namespace O2P.TrRedirect

/-- `[/\\](?:[\s\v]*|\.{1,2})[/\\]` -/
def invalidPattern : Str :=
  ['[', '/', '\\', '\\', ']', '(', '?', ':', '[', '\\', 's', '\\', 'v', ']', '*', '|', '\\', '.', '{', '1', ',', '2', '}', ')', '[', '/', '\\', '\\', ']']

theorem IsValidRedirect_eq (E : Go.Ext) (allowed : List Str) (s : Str)
    (hrx : E.regexMatch invalidPattern = Redirect.invalidRel) :
    Gen.Tr.IsValidRedirect E allowed s
      = .ok (Redirect.isValidRedirect allowed s ((E.urlParse s).map (fun t => (t.1, t.2.1)))) := by
  unfold Gen.Tr.IsValidRedirect Redirect.isValidRedirect
  have hrx' := hrx
  unfold invalidPattern at hrx'
  simp only [hrx', Go.stringsHasPrefix, Go.urlParse, Redirect.httpPrefix, Redirect.httpsPrefix]
  by_cases h0 : s = []
  · simp [h0, pure, Except.pure]
  · by_cases h1 : (hasPrefix ['/'] s && !hasPrefix ['/', '/'] s && !Redirect.invalidRel s) = true
    · simp [h0, h1, pure, Except.pure]
    · by_cases h2 : (hasPrefix ['h', 't', 't', 'p', ':', '/', '/'] s || hasPrefix ['h', 't', 't', 'p', 's', ':', '/', '/'] s) = true
      · obtain ⟨r, hr⟩ : ∃ r, E.urlParse s = r := ⟨_, rfl⟩
        simp only [hr]
        cases r with
        | none => simp [h0, h1, h2, Go.urlOf, pure, Except.pure]
        | some t =>
          obtain ⟨h, p, pa⟩ := t
          have he := TrUtil.IsEndpointAllowed_eq E ⟨h, p, pa⟩ allowed
          by_cases ha : Redirect.isEndpointAllowed h p allowed = true
          · simp [h0, h1, h2, Go.urlOf, pure, Except.pure, bind, Except.bind, he, ha]
          · simp [h0, h1, h2, Go.urlOf, pure, Except.pure, bind, Except.bind, he, ha]
      · simp [h0, h1, h2, pure, Except.pure]

end O2P.TrRedirect
