import O2P.Model.Serve
/-
  C01 — no upstream access / identity disclosure without a valid credential or a bypass.
  Quantifies over every configuration, request and `Env` (every store / IdP / byte-level outcome).
-/
namespace O2P

/-- the request was served: forwarded upstream, answered 202 by auth-only, or given user info -/
def Served (r : Resp) : Prop :=
  r.forwarded.isSome = true ∨ r.kind = .accepted ∨ r.kind = .userInfo ∨ r.kind = .emptyUserInfo

/-- an unauthenticated outcome: sign-in page, redirect to the IdP, JSON/text 401/403, error page -/
def Refused (r : Resp) : Prop :=
  r.forwarded = none ∧ r.disclosed = none ∧
    (r.kind = .signInPage ∨ r.kind = .idpRedirect ∨ r.kind = .jsonErr ∨ r.kind = .textErr ∨ r.kind = .errorPage)

/-- how a stored session can end up honoured (this is also the sequential half of C12) -/
def StoredCred (cfg : Cfg) (env : Env) (s : Session) : Prop :=
  ∃ s0, env.load1 = .ok s0 ∧
    ((needsRefresh cfg env.now s0 = false ∧ s = s0) ∨
     (needsRefresh cfg env.now s0 = true ∧ env.lock = .obtained ∧
        ∃ s1, env.load2 = .ok s1 ∧
          ((needsRefresh cfg env.now s1 = false ∧ s = s1) ∨
           (needsRefresh cfg env.now s1 = true ∧ validateSessionStep cfg env s = true ∧
              ((∃ s', env.refresh s1 = .refreshed s' ∧ s = { s' with createdAt := some env.now }) ∨
               (env.refresh s1 = .notImplemented ∧ s = { s1 with createdAt := some env.now }) ∨
               ((env.refresh s1 = .notRefreshed ∨ env.refresh s1 = .err) ∧ s = s1))))))

/-- the credential kinds the property lists -/
def Cred (cfg : Cfg) (env : Env) (r : Req) (s : Session) : Prop :=
  (cfg.jwtEnabled = true ∧ env.bearer r = some s) ∨
  (cfg.basicEnabled = true ∧ env.basic r = some s) ∨
  StoredCred cfg env s

theorem refreshUnderLock_sound (cfg : Cfg) (env : Env) (s1 s : Session)
    (h : (refreshUnderLock cfg env s1).session = some s) :
    (needsRefresh cfg env.now s1 = false ∧ s = s1) ∨
    (needsRefresh cfg env.now s1 = true ∧ validateSessionStep cfg env s = true ∧
      ((∃ s', env.refresh s1 = .refreshed s' ∧ s = { s' with createdAt := some env.now }) ∨
       (env.refresh s1 = .notImplemented ∧ s = { s1 with createdAt := some env.now }) ∨
       ((env.refresh s1 = .notRefreshed ∨ env.refresh s1 = .err) ∧ s = s1))) := by
  unfold refreshUnderLock at h
  by_cases hn : needsRefresh cfg env.now s1 = true
  · right
    simp only [hn, Bool.not_true, Bool.false_eq_true, ↓reduceIte] at h
    refine ⟨hn, ?_⟩
    split at h
    · rename_i hv
      simp at h; subst h
      refine ⟨hv, ?_⟩
      unfold refreshOutcome
      cases hr : env.refresh s1 with
      | refreshed s' => exact Or.inl ⟨s', rfl, rfl⟩
      | notImplemented => exact Or.inr (Or.inl ⟨rfl, rfl⟩)
      | notRefreshed => exact Or.inr (Or.inr ⟨Or.inl rfl, rfl⟩)
      | err => exact Or.inr (Or.inr ⟨Or.inr rfl, rfl⟩)
    · simp at h
  · left
    have hn' : needsRefresh cfg env.now s1 = false := by simpa using hn
    simp [hn'] at h
    exact ⟨hn', h.symm⟩

theorem getValidatedSession_sound (cfg : Cfg) (env : Env) (s : Session)
    (h : (getValidatedSession cfg env).session = some s) : StoredCred cfg env s := by
  unfold getValidatedSession at h
  cases h1 : env.load1 with
  | noCookie => simp [h1] at h
  | err => simp [h1] at h
  | ok s0 =>
    simp only [h1] at h
    refine ⟨s0, h1, ?_⟩
    by_cases hn : needsRefresh cfg env.now s0 = true
    · right
      simp only [hn, Bool.not_true, Bool.false_eq_true, ↓reduceIte] at h
      cases hl : env.lock with
      | held => simp [hl] at h
      | err => simp [hl] at h
      | obtained =>
        simp only [hl] at h
        cases h2 : env.load2 with
        | noCookie => simp [h2] at h
        | err => simp [h2] at h
        | ok s1 =>
          simp only [h2] at h
          exact ⟨hn, rfl, s1, rfl, refreshUnderLock_sound cfg env s1 s h⟩
    · left
      have hn' : needsRefresh cfg env.now s0 = false := by simpa using hn
      simp [hn'] at h
      exact ⟨hn', h.symm⟩

/-- **c01_loaders_sound**: the session chain puts a session in scope only if one of the three
    credential kinds holds for exactly that session. -/
theorem c01_loaders_sound (cfg : Cfg) (env : Env) (r : Req) (s : Session)
    (h : (sessionChain cfg env r).session = some s) : Cred cfg env r s := by
  unfold sessionChain at h
  split at h
  · rename_i sb hb
    simp at h; subst h
    split at hb
    · rename_i hj; exact Or.inl ⟨hj, hb⟩
    · cases hb
  · split at h
    · rename_i sb hb
      simp at h; subst h
      split at hb
      · rename_i hj; exact Or.inr (Or.inl ⟨hj, hb⟩)
      · cases hb
    · exact Or.inr (Or.inr (getValidatedSession_sound cfg env s h))

/-! ### handlers -/

def Authorised (cfg : Cfg) (env : Env) (s : Session) : Prop :=
  (s.email = [] ∨ env.emailOK s.email = true) ∧ groupsOK cfg.allowedGroups s.groups = true

theorem getAuth_ok_iff (cfg : Cfg) (env : Env) (b : Bool) (sess so : Option Session) :
    getAuthenticatedSession cfg env b sess = .ok so ↔
      (b = true ∧ so = sess) ∨ (b = false ∧ ∃ s, sess = some s ∧ so = some s ∧ Authorised cfg env s) := by
  unfold getAuthenticatedSession Authorised
  cases b with
  | true => simp; exact eq_comm
  | false =>
    cases sess with
    | none => simp
    | some s =>
      simp only [Bool.false_eq_true, ↓reduceIte, false_and, Option.some.injEq, exists_eq_left', true_and, false_or]
      split
      · rename_i hbad
        simp only [Bool.or_eq_true, Bool.and_eq_true, Bool.not_eq_eq_eq_not, Bool.not_true,
          List.isEmpty_eq_false_iff, ne_eq] at hbad
        constructor
        · intro h; cases h
        · rintro ⟨_, h1, h2⟩
          rcases hbad with ⟨hne, hbad⟩ | hbad
          · rcases h1 with h1 | h1
            · exact absurd h1 hne
            · rw [h1] at hbad; cases hbad
          · rw [h2] at hbad; cases hbad
      · rename_i hgood
        simp only [Bool.or_eq_true, Bool.and_eq_true, Bool.not_eq_eq_eq_not, Bool.not_true,
          List.isEmpty_eq_false_iff, ne_eq, not_or, not_and, Bool.not_eq_false] at hgood
        constructor
        · intro h; cases h
          refine ⟨rfl, ?_, hgood.2⟩
          by_cases he : s.email = []
          · exact Or.inl he
          · exact Or.inr (hgood.1 he)
        · rintro ⟨h, _⟩; rw [h]

theorem errorPage_refused (code : Nat) (ck : List CookieOp) : Refused (errorPage code ck) := by
  simp [Refused, errorPage]

theorem doOAuthStart_refused (cfg : Cfg) (env : Env) (r : Req) (ex : List (Str × Str)) (pre : List CookieOp) :
    Refused (doOAuthStart cfg env r ex pre) := by
  unfold doOAuthStart
  repeat' split
  all_goals simp [Refused, errorPage, startRedirect]

theorem signInPage_refused (env : Env) (code : Nat) (pre : List CookieOp) : Refused (signInPage env code pre) := by
  unfold signInPage
  split
  · exact errorPage_refused _ _
  · split <;> simp [Refused]

theorem refused_not_served (r : Resp) (h : Refused r) : ¬ Served r := by
  rcases h with ⟨h1, _, h3⟩
  rintro (h | h | h | h)
  · simp [h1] at h
  all_goals (rcases h3 with h3 | h3 | h3 | h3 | h3 <;> simp [h] at h3)

/-- Proxy: forwards exactly when `getAuthenticatedSession` says ok, otherwise refuses -/
theorem proxyHandler_cases (cfg : Cfg) (env : Env) (r : Req) (b : Bool) (ch : ChainOut) :
    (∃ so, getAuthenticatedSession cfg env b ch.session = .ok so ∧
        (proxyHandler cfg env r b ch).forwarded = some so ∧ (proxyHandler cfg env r b ch).kind = .upstream) ∨
    ((∀ so, getAuthenticatedSession cfg env b ch.session ≠ .ok so) ∧ Refused (proxyHandler cfg env r b ch)) := by
  unfold proxyHandler
  cases h : getAuthenticatedSession cfg env b ch.session with
  | ok so => left; exact ⟨so, rfl, rfl, rfl⟩
  | needsLogin =>
    right; refine ⟨fun so => by simp, ?_⟩
    simp only
    split
    · simp [Refused]
    · split
      · exact doOAuthStart_refused _ _ _ _ _
      · exact signInPage_refused _ _ _
  | denied =>
    right; refine ⟨fun so => by simp, ?_⟩
    simp only
    split
    · simp [Refused]
    · exact errorPage_refused _ _

theorem authOnlyHandler_cases (cfg : Cfg) (env : Env) (b : Bool) (ch : ChainOut) (cok : Session → Bool) :
    (∃ so, getAuthenticatedSession cfg env b ch.session = .ok so ∧ (∀ s, so = some s → cok s = true) ∧
        (authOnlyHandler cfg env b ch cok).kind = .accepted ∧ (authOnlyHandler cfg env b ch cok).disclosed = so ∧
        (authOnlyHandler cfg env b ch cok).forwarded = none) ∨
    (Refused (authOnlyHandler cfg env b ch cok)) := by
  unfold authOnlyHandler
  cases h : getAuthenticatedSession cfg env b ch.session with
  | needsLogin => right; simp [Refused]
  | denied => right; simp [Refused]
  | ok so =>
    cases so with
    | none => left; exact ⟨none, rfl, by simp, rfl, rfl, rfl⟩
    | some s =>
      simp only
      split
      · rename_i hc; left; exact ⟨some s, rfl, by simpa using hc, rfl, rfl, rfl⟩
      · right; simp [Refused]

theorem userInfoHandler_cases (cfg : Cfg) (env : Env) (b : Bool) (ch : ChainOut) :
    (∃ so, getAuthenticatedSession cfg env b ch.session = .ok so ∧
        (userInfoHandler cfg env b ch).disclosed = so ∧ (userInfoHandler cfg env b ch).forwarded = none ∧
        ((userInfoHandler cfg env b ch).kind = .userInfo ∨ ((userInfoHandler cfg env b ch).kind = .emptyUserInfo ∧ so = none))) ∨
    (Refused (userInfoHandler cfg env b ch)) := by
  unfold userInfoHandler
  cases h : getAuthenticatedSession cfg env b ch.session with
  | needsLogin => right; simp [Refused]
  | denied => right; simp [Refused]
  | ok so =>
    cases so with
    | none => left; exact ⟨none, rfl, rfl, rfl, Or.inr ⟨rfl, rfl⟩⟩
    | some s => left; exact ⟨some s, rfl, rfl, rfl, Or.inl rfl⟩

/-- endpoints that never serve, whatever the request carries -/
theorem signOutHandler_not_served (cfg : Cfg) (env : Env) (r : Req) (ch : ChainOut) :
    ¬ Served (signOutHandler cfg env r ch) := by
  unfold signOutHandler Served
  split
  · simp [errorPage]
  · split <;> simp [errorPage]

theorem signInHandler_not_served (cfg : Cfg) (env : Env) (r : Req) : ¬ Served (signInHandler cfg env r) := by
  unfold signInHandler
  split
  · exact refused_not_served _ (errorPage_refused _ _)
  · split
    · split
      · simp [Served]
      · exact refused_not_served _ (errorPage_refused _ _)
    · split
      · exact refused_not_served _ (doOAuthStart_refused _ _ _ _ _)
      · exact refused_not_served _ (signInPage_refused _ _ _)

/-- outcomes that neither forward nor disclose: error page or plain redirect -/
def NoServe (r : Resp) : Prop := r.forwarded = none ∧ r.disclosed = none ∧ (r.kind = .errorPage ∨ r.kind = .redirect)

theorem noServe_not_served (r : Resp) (h : NoServe r) : ¬ Served r := by
  rcases h with ⟨h1, _, h3⟩
  rintro (h | h | h | h)
  · simp [h1] at h
  all_goals (rcases h3 with h3 | h3 <;> simp [h] at h3)

theorem callbackFinish_noServe (cfg : Cfg) (env : Env) (name nonce rd code : Str) (csrf : CSRF) (s0 : Session) :
    NoServe (callbackFinish cfg env name nonce rd code csrf s0) := by
  unfold callbackFinish
  simp only
  repeat' split
  all_goals simp [NoServe, errorPage]

theorem callbackWithState_noServe (cfg : Cfg) (env : Env) (r : Req) (nonce rd : Str) :
    NoServe (callbackWithState cfg env r nonce rd) := by
  unfold callbackWithState
  simp only
  split
  · simp [NoServe, errorPage]
  · split
    · simp [NoServe, errorPage]
    · split
      · simp [NoServe, errorPage]
      · exact callbackFinish_noServe ..

theorem callbackHandler_noServe (cfg : Cfg) (env : Env) (r : Req) (d : Str → Str) :
    NoServe (callbackHandler cfg env r d) := by
  unfold callbackHandler
  split
  · simp [NoServe, errorPage]
  · simp only
    split
    · simp [NoServe, errorPage]
    · exact callbackWithState_noServe ..

theorem callbackHandler_not_served (cfg : Cfg) (env : Env) (r : Req) (d : Str → Str) :
    ¬ Served (callbackHandler cfg env r d) := noServe_not_served _ (callbackHandler_noServe ..)

/-- **c01_only_if**: a request is served only if a bypass applies or the session chain produced a
    session that passes the authorisation rules. -/
theorem c01_only_if (cfg : Cfg) (env : Env) (g : Glue) (r : Req) (h : Served (serve cfg env g r)) :
    bypassDecision cfg env g.pathOfURI r = true ∨
    ∃ s, (sessionChain cfg env r).session = some s ∧ Authorised cfg env s := by
  have key : ∀ so, getAuthenticatedSession cfg env (bypassDecision cfg env g.pathOfURI r) (sessionChain cfg env r).session = .ok so →
      bypassDecision cfg env g.pathOfURI r = true ∨ ∃ s, (sessionChain cfg env r).session = some s ∧ Authorised cfg env s := by
    intro so hso
    rcases (getAuth_ok_iff _ _ _ _ _).1 hso with ⟨hb, _⟩ | ⟨_, s, hs, _, ha⟩
    · exact Or.inl hb
    · exact Or.inr ⟨s, hs, ha⟩
  unfold serve at h
  split at h
  · simp [Served] at h
  · split at h
    · simp [Served] at h
    · split at h <;> simp [Served] at h
    · split at h
      · simp [Served] at h
      · split at h
        · simp [Served] at h
        · simp [Served] at h
        · exact absurd h (signInHandler_not_served _ _ _)
        · exact absurd h (refused_not_served _ (doOAuthStart_refused _ _ _ _ _))
        · exact absurd h (callbackHandler_not_served _ _ _ _)
        · rcases authOnlyHandler_cases cfg env (bypassDecision cfg env g.pathOfURI r) (sessionChain cfg env r) (g.constraintsOK r.query) with ⟨so, hso, _⟩ | hr
          · exact key so hso
          · exact absurd h (refused_not_served _ hr)
        · rcases userInfoHandler_cases cfg env (bypassDecision cfg env g.pathOfURI r) (sessionChain cfg env r) with ⟨so, hso, _⟩ | hr
          · exact key so hso
          · exact absurd h (refused_not_served _ hr)
        · exact absurd h (signOutHandler_not_served _ _ _ _)
        · rcases proxyHandler_cases cfg env r (bypassDecision cfg env g.pathOfURI r) (sessionChain cfg env r) with ⟨so, hso, _⟩ | ⟨_, hr⟩
          · exact key so hso
          · exact absurd h (refused_not_served _ hr)

/-- **c01**: served ⇒ bypass ∨ a credential of one of the three kinds, authorised. -/
theorem c01_served_has_credential (cfg : Cfg) (env : Env) (g : Glue) (r : Req) (h : Served (serve cfg env g r)) :
    bypassDecision cfg env g.pathOfURI r = true ∨ ∃ s, Cred cfg env r s ∧ Authorised cfg env s := by
  rcases c01_only_if cfg env g r h with hb | ⟨s, hs, ha⟩
  · exact Or.inl hb
  · exact Or.inr ⟨s, c01_loaders_sound cfg env r s hs, ha⟩


/-! ### "every other request" and "conversely" -/

theorem serve_proxy_eq (cfg : Cfg) (env : Env) (g : Glue) (r : Req)
    (hh : (cfg.forceHTTPS && !httpsOK cfg r) = false) (hc : env.clean r.path = r.path)
    (hep : classify cfg r = .proxy) :
    serve cfg env g r = proxyHandler cfg env r (bypassDecision cfg env g.pathOfURI r) (sessionChain cfg env r) := by
  unfold serve; simp [hh, hep, hc]

theorem serve_authOnly_eq (cfg : Cfg) (env : Env) (g : Glue) (r : Req)
    (hh : (cfg.forceHTTPS && !httpsOK cfg r) = false) (hc : env.clean r.path = r.path)
    (hep : classify cfg r = .authOnly) :
    serve cfg env g r = authOnlyHandler cfg env (bypassDecision cfg env g.pathOfURI r) (sessionChain cfg env r) (g.constraintsOK r.query) := by
  unfold serve; simp [hh, hep, hc]

theorem serve_userInfo_eq (cfg : Cfg) (env : Env) (g : Glue) (r : Req)
    (hh : (cfg.forceHTTPS && !httpsOK cfg r) = false) (hc : env.clean r.path = r.path)
    (hep : classify cfg r = .userInfo) :
    serve cfg env g r = userInfoHandler cfg env (bypassDecision cfg env g.pathOfURI r) (sessionChain cfg env r) := by
  unfold serve; simp [hh, hep, hc]

/-- **c01_otherwise**: on the endpoints that can serve, a request without bypass and without a
    session gets a sign-in page, a redirect to the IdP, a 401/403 or an error page — never the
    upstream, never user data. (All other endpoints never serve at all: `c01_only_if`.) -/
theorem c01_otherwise (cfg : Cfg) (env : Env) (g : Glue) (r : Req)
    (hh : (cfg.forceHTTPS && !httpsOK cfg r) = false) (hc : env.clean r.path = r.path)
    (hep : classify cfg r = .proxy ∨ classify cfg r = .authOnly ∨ classify cfg r = .userInfo)
    (hb : bypassDecision cfg env g.pathOfURI r = false)
    (hs : (sessionChain cfg env r).session = none ∨
          ∃ s, (sessionChain cfg env r).session = some s ∧ ¬ Authorised cfg env s) :
    Refused (serve cfg env g r) := by
  have hno : ∀ so, getAuthenticatedSession cfg env (bypassDecision cfg env g.pathOfURI r) (sessionChain cfg env r).session ≠ .ok so := by
    intro so hso
    rcases (getAuth_ok_iff _ _ _ _ _).1 hso with ⟨hb', _⟩ | ⟨_, s, hs', _, ha⟩
    · rw [hb] at hb'; cases hb'
    · rcases hs with hs | ⟨s', hs1, hs2⟩
      · rw [hs] at hs'; cases hs'
      · rw [hs1] at hs'; cases hs'; exact hs2 ha
  rcases hep with hep | hep | hep
  · rw [serve_proxy_eq cfg env g r hh hc hep]
    rcases proxyHandler_cases cfg env r (bypassDecision cfg env g.pathOfURI r) (sessionChain cfg env r) with ⟨so, hso, _⟩ | ⟨_, hr⟩
    · exact absurd hso (hno so)
    · exact hr
  · rw [serve_authOnly_eq cfg env g r hh hc hep]
    rcases authOnlyHandler_cases cfg env (bypassDecision cfg env g.pathOfURI r) (sessionChain cfg env r) (g.constraintsOK r.query) with ⟨so, hso, _⟩ | hr
    · exact absurd hso (hno so)
    · exact hr
  · rw [serve_userInfo_eq cfg env g r hh hc hep]
    rcases userInfoHandler_cases cfg env (bypassDecision cfg env g.pathOfURI r) (sessionChain cfg env r) with ⟨so, hso, _⟩ | hr
    · exact absurd hso (hno so)
    · exact hr

/-- **c01_conversely**: a request with a valid, authorised credential is served: forwarded upstream
    with the identity of exactly that session / given that session's user info / answered 202
    when the auth-only constraints hold. -/
theorem c01_conversely (cfg : Cfg) (env : Env) (g : Glue) (r : Req) (s : Session)
    (hh : (cfg.forceHTTPS && !httpsOK cfg r) = false) (hc : env.clean r.path = r.path)
    (hs : (sessionChain cfg env r).session = some s) (ha : Authorised cfg env s) :
    (classify cfg r = .proxy → (serve cfg env g r).forwarded = some (some s) ∧ (serve cfg env g r).kind = .upstream) ∧
    (classify cfg r = .userInfo → (serve cfg env g r).disclosed = some s ∧ (serve cfg env g r).kind = .userInfo) ∧
    (classify cfg r = .authOnly → g.constraintsOK r.query s = true →
        (serve cfg env g r).kind = .accepted ∧ (serve cfg env g r).disclosed = some s) := by
  have hok : getAuthenticatedSession cfg env (bypassDecision cfg env g.pathOfURI r) (sessionChain cfg env r).session = .ok (some s) := by
    rw [getAuth_ok_iff]
    cases hb : bypassDecision cfg env g.pathOfURI r with
    | true => left; exact ⟨rfl, hs.symm⟩
    | false => right; exact ⟨rfl, s, hs, rfl, ha⟩
  refine ⟨fun hep => ?_, fun hep => ?_, fun hep hcok => ?_⟩
  · rw [serve_proxy_eq cfg env g r hh hc hep]; unfold proxyHandler; rw [hok]; exact ⟨rfl, rfl⟩
  · rw [serve_userInfo_eq cfg env g r hh hc hep]; unfold userInfoHandler; rw [hok]; exact ⟨rfl, rfl⟩
  · rw [serve_authOnly_eq cfg env g r hh hc hep]; unfold authOnlyHandler; rw [hok]; simp [hcok]

/-- only the upstream handler forwards: a forwarded request is one `Proxy` accepted -/
theorem forwarded_only_by_proxy (cfg : Cfg) (env : Env) (g : Glue) (r : Req)
    (h : (serve cfg env g r).forwarded.isSome = true) :
    classify cfg r = .proxy ∧ (serve cfg env g r).kind = .upstream := by
  have h0 := h
  unfold serve at h
  split at h
  · simp at h
  · rename_i hh
    split at h
    · simp at h
    · split at h <;> simp at h
    · rename_i ep hping hready
      split at h
      · simp at h
      · rename_i hcl
        have hh' : (cfg.forceHTTPS && !httpsOK cfg r) = false := by simpa using hh
        have hc' : env.clean r.path = r.path := by simpa using hcl
        split at h
        · simp at h
        · simp at h
        · exact absurd (Or.inl h) (signInHandler_not_served _ _ _)
        · exact absurd (Or.inl h) (refused_not_served _ (doOAuthStart_refused _ _ _ _ _))
        · exact absurd (Or.inl h) (callbackHandler_not_served _ _ _ _)
        · rcases authOnlyHandler_cases cfg env (bypassDecision cfg env g.pathOfURI r) (sessionChain cfg env r) (g.constraintsOK r.query) with ⟨so, _, _, _, _, hf⟩ | hr
          · simp only at h; rw [hf] at h; simp at h
          · simp only at h; rw [hr.1] at h; simp at h
        · rcases userInfoHandler_cases cfg env (bypassDecision cfg env g.pathOfURI r) (sessionChain cfg env r) with ⟨so, _, _, hf, _⟩ | hr
          · simp only at h; rw [hf] at h; simp at h
          · simp only at h; rw [hr.1] at h; simp at h
        · exact absurd (Or.inl h) (signOutHandler_not_served _ _ _ _)
        · have hep : classify cfg r = .proxy := by
            cases hc : classify cfg r <;> simp_all
          refine ⟨hep, ?_⟩
          rw [serve_proxy_eq cfg env g r hh' hc' hep] at h0 ⊢
          rcases proxyHandler_cases cfg env r (bypassDecision cfg env g.pathOfURI r) (sessionChain cfg env r) with ⟨so, _, _, hk⟩ | ⟨_, hr⟩
          · exact hk
          · rw [hr.1] at h0; simp at h0

/-- non-vacuity: a concrete environment in which a stored, fresh, authorised session is served -/
def exEnv : Env :=
  { rx := fun _ _ => false, clean := id, trustedText := fun _ _ => false, bearerOf := fun _ => none,
    basicOf := fun _ => none, load1 := .ok { email := "a@b.c".toList, user := "u".toList }, lock := .obtained,
    load2 := .noCookie, refresh := fun _ => .err, saveOK := true, tokenVerifies := fun _ => true, nonceClaim := fun _ => some [], clearOK := true,
    emailOK := fun _ => true, getRedirect := fun _ _ _ _ _ _ _ => "/".toList, isValidRedirect := fun _ => true,
    csrfByName := fun _ => none, redeem := fun _ _ _ => .err, enrichOK := fun _ => true, freshState := [], freshNonce := [],
    freshVerifier := [], hash := id, challenge := fun _ _ => none, ready := true, htpasswdOK := fun _ _ => false,
    oauthRedirectURIOf := fun _ _ => [], loginURL := fun _ _ _ _ => [], csrfCookieName := fun _ => [], now := 0 }
def exGlue : Glue := { pathOfURI := id, decodeB64 := id, constraintsOK := fun _ _ => true }
example : (serve {} exEnv exGlue { method := "GET".toList, path := "/x".toList }).kind = .upstream := by decide
example : (serve {} { exEnv with load1 := .noCookie } exGlue { method := "GET".toList, path := "/x".toList }).kind = .signInPage := by decide

end O2P
