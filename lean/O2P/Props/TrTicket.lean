import O2P.Gen.Tr
import O2P.Lemmas.GoPrim
import O2P.Lemmas.Base64
/-
  O2P.Props.TrTicket — the session-ticket text format of the server-side store
  (pkg/sessions/persistence/ticket.go: `encodeTicket`, `decodeTicketID`, `decodeTicketSecret`), stated on the
  REGENERATED definitions; there was no hand model of it before.  `v2.<base64 id>.<base64 secret>`:

  * `ticket_roundtrip` — what `encodeTicket` writes splits at the dots into exactly three parts from which the
    two decoders give back the id and the secret, for every id and every secret (byte strings);
  * `decode_rejects_other_shapes` — a text with one, four or more dot-separated parts, or three parts not led by
    `v2`, has neither an id nor a secret (an error, never a panic: C02 "nothing the proxy did not produce", C19);
  * `old_format` — the two-part form of old versions is still read: id verbatim, secret base64.
-/
set_option linter.unusedSimpArgs false
set_option linter.unusedVariables false
open O2P O2P.Go

namespace O2P.TrTicket

theorem isB64_ne_dot {url : Bool} {c : Char} (h : isB64 url c) : c ≠ '.' := by
  intro hc; subst hc; revert h; cases url <;> decide

theorem b64Encode_no_dot (url : Bool) (s : Str) : '.' ∉ b64Encode url false s := by
  intro hc
  rcases b64Encode_alphabet url false s _ hc with h | ⟨h, _⟩
  · exact isB64_ne_dot h rfl
  · exact absurd h (by decide)

def v2 : Str := ['v', '2']

theorem encodeTicket_eq (E : Go.Ext) (id secret : Str) :
    Gen.Tr.encodeTicket E id secret = .ok (v2 ++ '.' :: (b64Encode true false id ++ '.' :: b64Encode true false secret)) := by
  simp [Gen.Tr.encodeTicket, Go.b64RawUrlEncode, v2, pure, Except.pure]

theorem split_encoded (id secret : Str) :
    Go.stringsSplit (v2 ++ '.' :: (b64Encode true false id ++ '.' :: b64Encode true false secret)) ['.']
      = [v2, b64Encode true false id, b64Encode true false secret] := by
  show splitOn '.' (v2 ++ '.' :: (b64Encode true false id ++ '.' :: b64Encode true false secret)) = _
  rw [splitOn_append_sep _ _ _ (by decide), splitOn_append_sep _ _ _ (b64Encode_no_dot true id),
    splitOn_of_not_mem _ _ (b64Encode_no_dot true secret)]

theorem idx3 (a b c : Str) :
    Go.idx [a, b, c] 0 = .ok a ∧ Go.idx [a, b, c] 1 = .ok b ∧ Go.idx [a, b, c] 2 = .ok c := by
  simp [Go.idx, pure, Except.pure]

theorem ticket_roundtrip (E : Go.Ext) (id secret : Str) (hid : IsBytes id) (hsec : IsBytes secret) :
    ∃ enc, Gen.Tr.encodeTicket E id secret = .ok enc ∧
      Gen.Tr.decodeTicketID E (Go.stringsSplit enc ['.']) = .ok (id, none) ∧
      Gen.Tr.decodeTicketSecret E (Go.stringsSplit enc ['.']) = .ok (secret, none) := by
  refine ⟨_, encodeTicket_eq E id secret, ?_, ?_⟩
  · rw [split_encoded]
    obtain ⟨i0, i1, i2⟩ := idx3 v2 (b64Encode true false id) (b64Encode true false secret)
    have hv : (v2 == ['v', '2']) = true := by decide
    unfold Gen.Tr.decodeTicketID
    simp only [Go.len, Go.andM, i0, i1, hv, Go.b64RawUrlDecode, b64Decode_encode true false id hid,
      bind, Except.bind, pure, Except.pure]
    simp
  · rw [split_encoded]
    obtain ⟨i0, i1, i2⟩ := idx3 v2 (b64Encode true false id) (b64Encode true false secret)
    have hv : (v2 == ['v', '2']) = true := by decide
    unfold Gen.Tr.decodeTicketSecret
    simp only [Go.len, Go.andM, i0, i2, hv, Go.b64RawUrlDecode, b64Decode_encode true false secret hsec,
      bind, Except.bind, pure, Except.pure]
    simp

/-- neither decoder accepts a text with a number of parts other than two or three, or three parts not led by `v2` -/
theorem decode_rejects_other_shapes (E : Go.Ext) (parts : List Str)
    (h : parts.length ≠ 2 ∧ (parts.length ≠ 3 ∨ parts.head? ≠ some v2)) :
    Gen.Tr.decodeTicketID E parts = .ok ([], some []) ∧ Gen.Tr.decodeTicketSecret E parts = .ok ([], some []) := by
  obtain ⟨h2, h3⟩ := h
  have e2 : ¬ ((parts.length : Int) = 2) := by omega
  unfold Gen.Tr.decodeTicketID Gen.Tr.decodeTicketSecret
  by_cases hl3 : parts.length = 3
  · match parts, hl3 with
    | [a, b, c], _ =>
      have ha : a ≠ v2 := by
        rcases h3 with h3 | h3
        · exact absurd rfl h3
        · intro hv; apply h3; simp [hv]
      have ha' : (a == ['v', '2']) = false := by simpa [v2] using ha
      simp [Go.len, Go.andM, Go.idx, ha', bind, Except.bind, pure, Except.pure]
  · have e3 : ¬ ((parts.length : Int) = 3) := by omega
    simp [Go.len, Go.andM, e2, e3, bind, Except.bind, pure, Except.pure]

/-- the two-part form written by old versions: the id verbatim, the secret base64 -/
theorem old_format (E : Go.Ext) (id secret : Str) (hsec : IsBytes secret) :
    Gen.Tr.decodeTicketID E [id, b64Encode true false secret] = .ok (id, none) ∧
    Gen.Tr.decodeTicketSecret E [id, b64Encode true false secret] = .ok (secret, none) := by
  unfold Gen.Tr.decodeTicketID Gen.Tr.decodeTicketSecret
  simp [Go.len, Go.idx, Go.b64RawUrlDecode, b64Decode_encode true false secret hsec, bind, Except.bind, pure, Except.pure]

example : IsBytes "ticket-0123".toList ∧ IsBytes [Char.ofNat 0, Char.ofNat 255] := by decide

end O2P.TrTicket
