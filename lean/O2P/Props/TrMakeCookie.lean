import O2P.Gen.Tr
import O2P.Lemmas.GoPrim
import O2P.Props.TrCookie
import O2P.Model.Cookies
/-
  O2P.Props.TrMakeCookie — the regenerated `ParseSameSite` and `MakeCookieFromOptions`
  (pkg/cookies/cookies.go: the one constructor of every cookie the proxy sets) against the model
  `Ck.makeCookie` that the C18 theorems (`makeCookie_attrs`, `domainRule_spec`, `maxAge_eq`) are about.

  Two hypotheses were FORCED by the proof and are kept visible:
  * `ValidSameSite`: `ParseSameSite` panics on any other value — exactly (`ParseSameSite_panics_iff`); option
    validation admits only these four (fact pinned under C19, theorem `samesite_validated`).
  * `EmptyLast`: an EMPTY cookie domain, if configured, is the last entry.  The code treats "no domain matched"
    and "the empty domain matched" alike (`domain == ""`) and falls back to the last entry; the model's
    `domainRule` keeps the matched empty domain.  They agree whenever the empty entry is last — which
    validation's length sort guarantees (`sortDomains`).  `emptyLast_needed` is the witness that the hypothesis
    cannot be dropped (reproduced on the real function: domains `["", "a.b"]`, host `zz` ⇒ `Domain=a.b`).
-/
set_option linter.unusedSimpArgs false
set_option linter.unusedVariables false
open O2P O2P.Go

namespace O2P.TrMakeCookie

def sameSiteCode (s : Str) : Int :=
  if s = "lax".toList then 2 else if s = "strict".toList then 3 else if s = "none".toList then 4 else 0

def ValidSameSite (s : Str) : Prop :=
  s = "lax".toList ∨ s = "strict".toList ∨ s = "none".toList ∨ s = []

theorem lits : "lax".toList = ['l', 'a', 'x'] ∧ "strict".toList = ['s', 't', 'r', 'i', 'c', 't'] ∧
    "none".toList = ['n', 'o', 'n', 'e'] := by decide

theorem ParseSameSite_eq (E : Go.Ext) (s : Str) (h : ValidSameSite s) :
    Gen.Tr.ParseSameSite E s = .ok (sameSiteCode s) := by
  unfold Gen.Tr.ParseSameSite sameSiteCode ValidSameSite at *
  obtain ⟨l1, l2, l3⟩ := lits
  rw [l1, l2, l3] at *
  rcases h with h | h | h | h <;> subst h <;> simp [pure, Except.pure]

theorem ParseSameSite_panics_iff (E : Go.Ext) (s : Str) :
    (∃ e, Gen.Tr.ParseSameSite E s = .error e) ↔ ¬ ValidSameSite s := by
  unfold Gen.Tr.ParseSameSite ValidSameSite
  obtain ⟨l1, l2, l3⟩ := lits
  rw [l1, l2, l3]
  by_cases h1 : s = ['l', 'a', 'x']
  · simp [h1, pure, Except.pure]
  · by_cases h2 : s = ['s', 't', 'r', 'i', 'c', 't']
    · simp [h2, pure, Except.pure]
    · by_cases h3 : s = ['n', 'o', 'n', 'e']
      · simp [h3, pure, Except.pure]
      · by_cases h4 : s = []
        · simp [h4, pure, Except.pure]
        · simp [h1, h2, h3, h4, throw, throwThe, MonadExceptOf.throw]

/-- the model's cookie as an `http.Cookie` -/
def toHttp (c : Ck.HCookie) : Go.HttpCookie :=
  { Name := c.name, Value := c.value, Path := c.path, Domain := c.domain, HttpOnly := c.httpOnly,
    Secure := c.secure, SameSite := sameSiteCode c.sameSite,
    MaxAge := match c.maxAge with | none => 0 | some m => m }

def cfgOf (opts : Go.CookieOpts) : Ck.CookieCfg :=
  { path := opts.Path, domains := opts.Domains, secure := opts.Secure, httpOnly := opts.HTTPOnly, sameSite := opts.SameSite }

/-- an empty cookie domain, if configured at all, is the last entry -/
def EmptyLast (domains : List Str) : Prop := [] ∈ domains → domains.getLast? = some []

theorem idx_last (xs : List Str) (h : xs ≠ []) :
    Go.idx xs (Go.len xs - 1) = .ok (xs.getLast?.getD []) := by
  unfold Go.idx Go.len
  have hl : 0 < xs.length := List.length_pos_iff.mpr h
  have h1 : ¬ ((xs.length : Int) - 1 < 0) := by omega
  have h2 : ((xs.length : Int) - 1).toNat = xs.length - 1 := by omega
  simp only [h1, if_false, h2]
  have : xs[xs.length - 1]? = some (xs.getLast?.getD []) := by
    rw [List.getLast?_eq_getElem?]
    simp [List.getElem?_eq_getElem (show xs.length - 1 < xs.length by omega)]
  rw [this]; rfl

theorem domain_eq (domains : List Str) (host : Str) (he : EmptyLast domains) :
    (if (Ck.getCookieDomain domains host).getD [] = [] ∧ domains ≠ [] then domains.getLast?.getD []
     else (Ck.getCookieDomain domains host).getD []) = Ck.domainRule domains host := by
  unfold Ck.domainRule
  cases hg : Ck.getCookieDomain domains host with
  | none =>
    by_cases hd : domains = []
    · simp [hd]
    · simp [hd]
  | some d =>
    by_cases hd0 : d = []
    · subst hd0
      have hmem : [] ∈ domains := by
        unfold Ck.getCookieDomain at hg
        exact List.mem_of_find?_eq_some hg
      have hne : domains ≠ [] := List.ne_nil_of_mem hmem
      simp [hne, he hmem]
    · simp [hd0]

theorem MakeCookieFromOptions_eq (E : Go.Ext) (req : Go.Req) (host name value : Str) (opts : Go.CookieOpts)
    (expiration : Int)
    (hreq : Gen.Tr.GetRequestHost E req = .ok host) (hE : E.splitHostPortStd = Ck.splitHostPortGo)
    (hss : ValidSameSite opts.SameSite) (he : EmptyLast opts.Domains) :
    Gen.Tr.MakeCookieFromOptions E req name value opts expiration
      = .ok (toHttp (Ck.makeCookie (cfgOf opts) host name value expiration)) := by
  unfold Gen.Tr.MakeCookieFromOptions
  rw [TrCookie.GetCookieDomain_model E req host opts.Domains hreq hE, ParseSameSite_eq E _ hss]
  have hdom := domain_eq opts.Domains host he
  simp only [bind, Except.bind, pure, Except.pure]
  by_cases hd : ((Ck.getCookieDomain opts.Domains host).getD [] = [] ∧ opts.Domains ≠ [])
  · have hc : (((Ck.getCookieDomain opts.Domains host).getD [] == []) && decide (Go.len opts.Domains > 0)) = true := by
      have : 0 < opts.Domains.length := List.length_pos_iff.mpr hd.2
      simp [hd.1, Go.len]; omega
    rw [if_pos hd] at hdom
    simp only [hc, if_true, idx_last _ hd.2, hdom]
    by_cases hp : expiration > 0
    · have : Int.tdiv expiration 1000000000 = expiration / 1000000000 := by
        rw [Int.tdiv_eq_ediv_of_nonneg (by omega)]
      simp [hp, toHttp, Ck.makeCookie, cfgOf, Go.durationSecondsInt, this]
    · by_cases hn : expiration < 0
      · simp [hp, hn, toHttp, Ck.makeCookie, cfgOf]
      · simp [hp, hn, toHttp, Ck.makeCookie, cfgOf]
  · have hc : (((Ck.getCookieDomain opts.Domains host).getD [] == []) && decide (Go.len opts.Domains > 0)) = false := by
      by_cases h1 : (Ck.getCookieDomain opts.Domains host).getD [] = []
      · have : opts.Domains = [] := by
          by_cases hne : opts.Domains = []
          · exact hne
          · exact absurd ⟨h1, hne⟩ hd
        simp [this, Go.len]
      · simp [h1]
    rw [if_neg hd] at hdom
    simp only [hc, Bool.false_eq_true, if_false]
    simp only [hdom]
    by_cases hp : expiration > 0
    · have : Int.tdiv expiration 1000000000 = expiration / 1000000000 := by
        rw [Int.tdiv_eq_ediv_of_nonneg (by omega)]
      simp [hp, toHttp, Ck.makeCookie, cfgOf, Go.durationSecondsInt, this]
    · by_cases hn : expiration < 0
      · simp [hp, hn, toHttp, Ck.makeCookie, cfgOf]
      · simp [hp, hn, toHttp, Ck.makeCookie, cfgOf]

def Ex : Go.Ext := { Go.Ext.trivial with splitHostPortStd := Ck.splitHostPortGo }
def rq (h : Str) : Go.Req := { header := fun _ => [], host := h, urlScheme := [], requestURI := [], scope := none }

/-- the hypothesis `EmptyLast` cannot be dropped: with an empty domain listed FIRST the code falls back to the
    last entry while the model keeps the (matched) empty domain -/
theorem emptyLast_needed :
    (Gen.Tr.MakeCookieFromOptions Ex (rq ['z', 'z']) ['n'] ['v'] { Name := [], CSRFPerRequest := false, Domains := [[], ['a', '.', 'b']] } 0).map (·.Domain)
      = .ok ['a', '.', 'b'] ∧
    (Ck.makeCookie { domains := [[], ['a', '.', 'b']] } ['z', 'z'] ['n'] ['v'] 0).domain = [] := by
  constructor <;> rfl

/-- non-vacuity: a configuration that meets every hypothesis -/
example : ValidSameSite "lax".toList ∧ EmptyLast [['x', '.', 'a', '.', 'b'], ['a', '.', 'b']] ∧
    Gen.Tr.GetRequestHost Ex (rq ['a', '.', 'b']) = .ok ['a', '.', 'b'] := by
  refine ⟨Or.inl rfl, ?_, rfl⟩
  intro h; simp at h

end O2P.TrMakeCookie
