/-
  O2P.Props.C06Authority — OPTIONAL part of C06: no parser differential between Go's
  `url.Parse(..).Hostname()/Port()` and a WHATWG browser on the absolute branch.
-/
import O2P.Model.RedirectAuthority
import O2P.Lemmas.RedirectAuthority
import O2P.Props.C06

namespace O2P
namespace Redirect

theorem afterSchemeSlashes_some {s r : Str} (h : afterSchemeSlashes s = some r) :
    ∃ pfx, (pfx = httpPrefix ∨ pfx = httpsPrefix) ∧ s = pfx ++ r := by
  unfold afterSchemeSlashes at h
  split at h
  · rename_i r' hs
    cases h
    unfold stripHttpScheme at hs
    split at hs
    · cases hs; exact ⟨httpPrefix, Or.inl rfl, rfl⟩
    · cases hs; exact ⟨httpsPrefix, Or.inr rfl, rfl⟩
    · cases hs
  · cases h

theorem stripHttpScheme_pfx {pfx : Str} (hp : pfx = httpPrefix ∨ pfx = httpsPrefix) (Z : Str) :
    stripHttpScheme (pfx ++ Z) = some ('/' :: '/' :: Z) := by
  rcases hp with rfl | rfl <;> rfl

theorem goAuthority_eq (r : Str) : goAuthority r = r.takeWhile (fun c => !isGoAuthEnd c) := by
  unfold goAuthority
  rw [takeWhile_takeWhile', takeWhile_takeWhile']
  congr 1
  funext c
  simp only [isGoAuthEnd, bne]
  cases c == '#' <;> cases c == '?' <;> cases c == '/' <;> rfl

theorem browserParseHost_cases (h p : Str) :
    browserParseHost h p = .failure ∨
    (browserParseHost h p = .ipv4 ∧ endsInNumber (lower h) = true) ∨
    browserParseHost h p = .domain (lower h) p := by
  unfold browserParseHost
  simp only
  split
  · exact Or.inl rfl
  · split
    · rename_i hn; exact Or.inr (Or.inl ⟨rfl, hn⟩)
    · exact Or.inr (Or.inr rfl)

/-- The browser-side outcome for an authority whose host part `H` Go accepted. -/
theorem browserOfAuthority_agree {A H h p : Str} (hH : afterLast '@' A = H) (hHne : H ≠ [])
    (hok : goParseHostOK H = true) (hnb : '[' ∉ H) (hsp : urlSplitHostPort H = (h, p))
    (hne : h ≠ []) :
    browserOfAuthority A = .failure ∨
    (browserOfAuthority A = .ipv4 ∧ endsInNumber (lower h) = true) ∨
    browserOfAuthority A = .domain (lower h) p := by
  have hHe : H.isEmpty = false := by cases H <;> simp_all
  have nobr : ∀ x : Str, x <+: H → (hasPrefix ['['] x && hasSuffix [']'] x) = false := by
    intro x hx
    cases x with
    | nil => rfl
    | cons c cs =>
      obtain ⟨t, ht⟩ := hx
      have hc : c ∈ H := by rw [← ht]; simp
      have : c ≠ '[' := fun e => hnb (e ▸ hc)
      simp [hasPrefix, Ne.symm this]
  unfold browserOfAuthority
  simp only [hH, hHe, Bool.and_false, Bool.false_eq_true, if_false]
  unfold goParseHostOK at hok
  simp only [Bool.and_eq_true] at hok
  by_cases hc : ':' ∈ H
  · obtain ⟨a, b, rfl, hb⟩ := exists_last_split hc
    have hli := lastIndexOf_append ':' a b hb
    rw [hli] at hok
    have hport : b.all isDigit = true := by
      have := hok.1
      simpa [urlValidOptionalPort] using this
    have hsp' : urlSplitHostPort (a ++ ':' :: b) = (a, b) := by
      unfold urlSplitHostPort
      rw [hli]
      have h1 : urlValidOptionalPort ((a ++ ':' :: b).drop a.length) = true := by
        simpa [urlValidOptionalPort] using hport
      simp only [h1, if_true]
      have h2 : (a ++ ':' :: b).take a.length = a := by simp
      have h3 : (a ++ ':' :: b).drop (a.length + 1) = b := by
        rw [← List.drop_drop]; simp
      rw [h2, h3, nobr a ⟨':' :: b, rfl⟩]
      simp
    rw [hsp'] at hsp
    cases hsp
    by_cases hca : ':' ∈ h
    · -- two colons: the browser's port state sees a non-digit
      left
      obtain ⟨a1, a2, rfl, ha1⟩ := exists_first_split hca
      have hp' : ∀ c ∈ a1, (c != ':') = true := by
        intro c hc; simp; rintro rfl; exact ha1 hc
      have e : a1 ++ ':' :: a2 ++ ':' :: p = a1 ++ ':' :: (a2 ++ ':' :: p) := by simp
      rw [e]
      obtain ⟨t1, t2⟩ := takeWhile_append_stop (p := (· != ':')) (A := a1)
        (rest := ':' :: (a2 ++ ':' :: p)) hp' (Or.inr ⟨':', _, rfl, by simp⟩)
      rw [t1, t2]
      have hnd : (a2 ++ ':' :: p).all isDigit = false := by
        have : isDigit ':' = false := by decide
        simp [this]
      simp only [List.drop_succ_cons, List.drop_zero, hnd]
      split <;> simp
    · have hp' : ∀ c ∈ h, (c != ':') = true := by
        intro c hc; simp; rintro rfl; exact hca hc
      obtain ⟨t1, t2⟩ := takeWhile_append_stop (p := (· != ':')) (A := h)
        (rest := ':' :: p) hp' (Or.inr ⟨':', _, rfl, by simp⟩)
      rw [t1, t2]
      have hhe : h.isEmpty = false := by cases h <;> simp_all
      simp only [List.drop_succ_cons, List.drop_zero, hhe, hport, Bool.false_eq_true, if_false,
        Bool.not_true]
      split
      · exact Or.inl rfl
      · exact browserParseHost_cases h p
  · have hli := lastIndexOf_not_mem ':' H hc
    have hsp' : urlSplitHostPort H = (H, []) := by
      unfold urlSplitHostPort
      rw [hli]
      simp [nobr H (List.prefix_refl _)]
    rw [hsp'] at hsp
    obtain ⟨e1, e2⟩ := Prod.mk.inj hsp
    rw [← e1, ← e2]
    have hp' : ∀ c ∈ H, (c != ':') = true := by
      intro c hc'; simp; rintro rfl; exact hc hc'
    have t1 : H.takeWhile (· != ':') = H := by
      have := (takeWhile_append_stop (p := (· != ':')) (A := H) (rest := []) hp' (Or.inl rfl)).1
      simpa using this
    have t2 : H.dropWhile (· != ':') = [] := by
      have := (takeWhile_append_stop (p := (· != ':')) (A := H) (rest := []) hp' (Or.inl rfl)).2
      simpa using this
    rw [t1, t2]
    simp only [hHe, List.drop_nil, List.all_nil, Bool.not_true, Bool.false_eq_true, if_false]
    have : ¬ (65535 < digitsToNat []) := by decide
    rw [if_neg this]
    exact browserParseHost_cases H []

/-- **No parser differential (fragment).**  Let `s` start with `http://` or `https://` and let
    the host part of its authority be in the modelled fragment (ASCII, no `%`, no `[`/`]`).
    If Go's `url.Parse s` succeeds with a non-empty `Hostname() = h` and `Port() = p`, then a
    WHATWG browser given `s` either refuses to navigate, or (only when the lower-cased `h`
    "ends in a number") reinterprets the host as an IPv4 address, or navigates to exactly the
    host `lower h` with the port digits `p`. -/
theorem authority_agree (s h p : Str) (hfrag : hostInFragment s = true)
    (hgo : goParseHostPort s = some (h, p)) (hne : h ≠ []) :
    browserHostPort s = .failure ∨
    (browserHostPort s = .ipv4 ∧ endsInNumber (lower h) = true) ∨
    browserHostPort s = .domain (lower h) p := by
  unfold goParseHostPort at hgo
  split at hgo
  · cases hgo
  rename_i r hr
  simp only at hgo
  split at hgo
  rotate_left
  · cases hgo
  rename_i hcond
  simp only [Bool.and_eq_true] at hcond
  obtain ⟨⟨⟨⟨_, hhost'⟩, hui⟩, _⟩, _⟩ := hcond
  have hsp : urlSplitHostPort (afterLast '@' (goAuthority r)) = (h, p) := by
    simpa using hgo
  unfold hostInFragment at hfrag
  rw [hr] at hfrag
  simp only at hfrag
  obtain ⟨pfx, hpfx, rfl⟩ := afterSchemeSlashes_some hr
  -- name the pieces
  generalize hA : goAuthority r = A at *
  generalize hH : afterLast '@' A = H at *
  have hHne : H ≠ [] := by
    rintro rfl
    have : urlSplitHostPort [] = ([], []) := by decide
    rw [this] at hsp
    cases hsp
    exact hne rfl
  have hnb : '[' ∉ H := by
    intro hm
    have := List.all_eq_true.mp hfrag _ hm
    simp at this
  have hHok : ∀ c ∈ H, CodeOK c.toNat := by
    have := hhost'
    unfold goParseHostOK at this
    simp only [Bool.and_eq_true] at this
    exact fun c hc => goHostByteOK_code (List.all_eq_true.mp this.2 c hc)
  -- every byte of the authority is harmless
  have hAok : ∀ c ∈ A, CodeOK c.toNat := by
    by_cases hat : '@' ∈ A
    · obtain ⟨ui, H', rfl, hH'⟩ := exists_last_split hat
      rw [afterLast_split _ _ _ hH'] at hH
      subst hH
      unfold goUserinfoPartOK at hui
      rw [beforeLast_split _ _ _ hH'] at hui
      have hui' : goUserinfoOK ui = true := hui
      unfold goUserinfoOK at hui'
      simp only [Bool.and_eq_true] at hui'
      intro c hc
      simp only [List.mem_append, List.mem_cons] at hc
      rcases hc with hc | rfl | hc
      · exact goUserinfoByteOK_code (List.all_eq_true.mp hui'.1 c hc)
      · unfold CodeOK; decide
      · exact hHok c hc
    · rw [afterLast_not_mem _ _ hat] at hH
      subst hH
      exact hHok
  have hAne : A ≠ [] := by
    rintro rfl
    have : afterLast '@' [] = [] := by decide
    rw [this] at hH
    exact hHne hH.symm
  -- r = A ++ rest
  rw [goAuthority_eq] at hA
  have hrsplit : r = A ++ r.dropWhile (fun c => !isGoAuthEnd c) := by
    rw [← hA]; exact List.takeWhile_append_dropWhile.symm
  have hrest : r.dropWhile (fun c => !isGoAuthEnd c) = [] ∨
      ∃ e more, r.dropWhile (fun c => !isGoAuthEnd c) = e :: more ∧ isGoAuthEnd e = true := by
    rcases dropWhile_head (fun c => !isGoAuthEnd c) r with h0 | ⟨e, more, h1, h2⟩
    · exact Or.inl h0
    · exact Or.inr ⟨e, more, h1, by simpa using h2⟩
  generalize r.dropWhile (fun c => !isGoAuthEnd c) = rest at hrsplit hrest
  subst hrsplit
  -- browser preprocessing
  have hpfx0 : ∀ c ∈ pfx, isC0Space c = false := by
    rcases hpfx with rfl | rfl <;> decide
  have hX0 : ∀ c ∈ pfx ++ A, isC0Space c = false := by
    intro c hc
    rcases List.mem_append.mp hc with hc | hc
    · exact hpfx0 c hc
    · exact CodeOK_not_c0 (hAok c hc)
  have hXne : pfx ++ A ≠ [] := by simp [hAne]
  have hpre : browserPre (pfx ++ (A ++ rest)) =
      pfx ++ (A ++ (stripTrailing rest).filter (fun c => !isTabNl c)) := by
    rw [← List.append_assoc, browserPre_append hXne hX0, List.append_assoc]
  have hrest' := browserPre_tail hrest
  simp only at hrest'
  generalize (stripTrailing rest).filter (fun c => !isTabNl c) = rest' at hpre hrest'
  unfold browserHostPort
  rw [hpre, stripHttpScheme_pfx hpfx]
  simp only
  -- skip slashes, read the authority
  have hdrop : ('/' :: '/' :: (A ++ rest')).dropWhile isSep = A ++ rest' := by
    have h1 : isSep '/' = true := by decide
    rw [List.dropWhile_cons_of_pos h1, List.dropWhile_cons_of_pos h1]
    cases A with
    | nil => exact absurd rfl hAne
    | cons a A' =>
      have := CodeOK_not_sep (hAok a (by simp))
      rw [List.cons_append, List.dropWhile_cons_of_neg (by simp [this])]
  rw [hdrop]
  have htake : (A ++ rest').takeWhile (fun c => !isBrowserAuthEnd c) = A := by
    refine (takeWhile_append_stop (fun c hc => ?_) ?_).1
    · simp [CodeOK_not_authEnd (hAok c hc)]
    · rcases hrest' with h0 | ⟨e, more, h1, h2⟩
      · exact Or.inl h0
      · exact Or.inr ⟨e, more, h1, by simp [h2]⟩
  rw [htake]
  exact browserOfAuthority_agree hH hHne hhost' hnb hsp hne

/-- Whitelist matching is stable under the browser's lower-casing of the host, provided the
    whitelist entry itself is lower case (which is how domains are normally written). -/
theorem hostMatch_lower (h a : Str) (ha : lower a = a) (hm : isHostnameAllowed h a = true) :
    isHostnameAllowed (lower h) a = true := by
  have lower_append : ∀ x y : Str, lower (x ++ y) = lower x ++ lower y := by
    intro x y; simp [lower]
  cases a with
  | nil =>
    rw [hostMatch_exact _ _ (by rintro ⟨t, ht⟩; simp at ht) (by rintro ⟨t, ht⟩; simp at ht)] at hm ⊢
    subst hm; rfl
  | cons c d =>
    by_cases hc : c = '.'
    · subst hc
      have hd : lower d = d := by
        simp only [lower, List.map_cons, List.cons.injEq] at ha
        exact ha.2
      rw [no_lookalike] at hm ⊢
      rcases hm with rfl | ⟨x, rfl⟩
      · exact Or.inl hd
      · right
        refine ⟨lower x, ?_⟩
        rw [lower_append]
        simp only [lower, List.map_cons] at hd ⊢
        rw [hd]; rfl
    · cases d with
      | nil =>
        have e1 : ¬ ['.'] <+: [c] := by
          rintro ⟨t, ht⟩; simp at ht; exact hc ht.1.symm
        have e2 : ¬ ['*', '.'] <+: [c] := by
          rintro ⟨t, ht⟩; simp at ht
        rw [hostMatch_exact _ _ e1 e2] at hm ⊢
        subst hm; exact ha
      | cons c2 d2 =>
        by_cases hs : c = '*' ∧ c2 = '.'
        · obtain ⟨rfl, rfl⟩ := hs
          have hd : lower d2 = d2 := by
            simp only [lower, List.map_cons, List.cons.injEq] at ha
            exact ha.2.2
          rw [no_lookalike_star] at hm ⊢
          rcases hm with rfl | ⟨x, rfl⟩
          · exact Or.inl hd
          · right
            refine ⟨lower x, ?_⟩
            rw [lower_append]
            simp only [lower, List.map_cons] at hd ⊢
            rw [hd]; rfl
        · have e1 : ¬ ['.'] <+: c :: c2 :: d2 := by
            rintro ⟨t, ht⟩; simp at ht; exact hc ht.1.symm
          have e2 : ¬ ['*', '.'] <+: c :: c2 :: d2 := by
            rintro ⟨t, ht⟩; simp at ht; exact hs ⟨ht.1.symm, ht.2.1.symm⟩
          rw [hostMatch_exact _ _ e1 e2] at hm ⊢
          subst hm; exact ha

/-- The empty hostname is matched only by the degenerate entries `.` and `*.`. -/
theorem hostMatch_empty {a : Str} (hm : isHostnameAllowed [] a = true) :
    a = [] ∨ a = ['.'] ∨ a = ['*', '.'] := by
  rw [isHostnameAllowed_iff] at hm
  have tp : ∀ (q : Str), [] = trimPrefix q a → a = [] ∨ a = q := by
    intro q hq
    unfold trimPrefix at hq
    split at hq
    · rename_i hpq
      obtain ⟨t, rfl⟩ := List.isPrefixOf_iff_prefix.mp hpq
      have : t = [] := by simpa using hq.symm
      subst this; right; simp
    · exact Or.inl hq.symm
  rcases hm with h | h | ⟨hp, hs⟩ | ⟨hp, hs⟩
  · rcases tp _ h with h | h
    · exact Or.inl h
    · exact Or.inr (Or.inl h)
  · rcases tp _ h with h | h
    · exact Or.inl h
    · exact Or.inr (Or.inr h)
  · have : a = [] := by simpa using hs
    subst this
    obtain ⟨t, ht⟩ := hp; simp at ht
  · obtain ⟨t, rfl⟩ := hp
    simp at hs

/-- **C06 / absolute branch, browser view (fragment).**  Assume the whitelist entries have
    lower-case host parts.  (Before the fix "never treat a redirect URL without a host as being on
    an allowed domain" this theorem needed the extra hypothesis that no entry is the degenerate `.` /
    `*.` — the excluded point was a genuine defect: such an entry matched the empty host of
    `https:///evil.com`.)  If `s` (starting with
    `http://`/`https://`, host part in the fragment) is accepted by `IsValidRedirect` with the
    hand model of `url.Parse` as oracle, then a WHATWG browser given `s` either fails, or
    reinterprets a numeric-looking host as IPv4 (possible only if the accepted hostname ends in
    a number), or navigates to a host and port that are themselves allowed by the whitelist. -/
theorem absRedirect_browser (allowed : List Str) (s : Str)
    (hlow : ∀ d ∈ allowed, lower (splitHostPort d).1 = (splitHostPort d).1)
    (hfrag : hostInFragment s = true)
    (h p : Str) (hgo : goParseHostPort s = some (h, p))
    (hallowed : isEndpointAllowed h p allowed = true) :
    browserHostPort s = .failure ∨
    (browserHostPort s = .ipv4 ∧ endsInNumber (lower h) = true) ∨
    (browserHostPort s = .domain (lower h) p ∧ isEndpointAllowed (lower h) p allowed = true) := by
  obtain ⟨hne, d, hd, hdne, hm, hport⟩ := (absRedirect_allowed h p allowed).mp hallowed
  rcases authority_agree s h p hfrag hgo hne with h1 | h1 | h1
  · exact Or.inl h1
  · exact Or.inr (Or.inl h1)
  · refine Or.inr (Or.inr ⟨h1, ?_⟩)
    have hlne : lower h ≠ [] := by
      intro h0
      apply hne
      cases h with
      | nil => rfl
      | cons c cs => simp [lower] at h0
    exact (absRedirect_allowed (lower h) p allowed).mpr
      ⟨hlne, d, hd, hdne, hostMatch_lower h _ (hlow d hd) hm, hport⟩

-- an instance of all hypotheses of `absRedirect_browser`
example :
    let allowed := [".example.com:*".toList]
    let s := "https://user@a.example.com:8443/p".toList
    (∀ d ∈ allowed, lower (splitHostPort d).1 = (splitHostPort d).1) ∧
    hostInFragment s = true ∧
    goParseHostPort s = some ("a.example.com".toList, "8443".toList) ∧
    isEndpointAllowed "a.example.com".toList "8443".toList allowed = true ∧
    browserHostPort s = .domain "a.example.com".toList "8443".toList := by decide

example : isEndpointAllowed "A.Example.com".toList "8443".toList [".Example.com:*".toList] = true ∧
    isEndpointAllowed "a.example.com".toList "8443".toList [".Example.com:*".toList] = false := by
  decide  -- why the lower-case hypothesis on the whitelist is needed

-- non-vacuity and classic differentials
example : hostInFragment "https://user:pw@A.Example.com:8443/p?q#f".toList = true ∧
    goParseHostPort "https://user:pw@A.Example.com:8443/p?q#f".toList
      = some ("A.Example.com".toList, "8443".toList) ∧
    browserHostPort "https://user:pw@A.Example.com:8443/p?q#f".toList
      = .domain "a.example.com".toList "8443".toList := by decide
-- backslash: the browser would go to evil.com, Go refuses to parse
example : goParseHostPort "https://evil.com\\@good.example.com/".toList = none ∧
    browserHostPort "https://evil.com\\@good.example.com/".toList
      = .domain "evil.com".toList [] := by decide
example : goParseHostPort "https://good.example.com\\.evil.com/".toList = none := by decide
-- extra slashes: Go sees an empty host (never whitelisted), the browser skips them
example : goParseHostPort "https:///evil.com/".toList = some ([], []) ∧
    browserHostPort "https:///evil.com/".toList = .domain "evil.com".toList [] := by decide
-- two colons: Go accepts, the browser fails
example : goParseHostPort "http://a:b:80/".toList = some ("a:b".toList, "80".toList) ∧
    browserHostPort "http://a:b:80/".toList = .failure := by decide
-- numeric last label: IPv4 reinterpretation
example : goParseHostPort "http://0x7f.1/".toList = some ("0x7f.1".toList, []) ∧
    browserHostPort "http://0x7f.1/".toList = .ipv4 := by decide

end Redirect
end O2P
