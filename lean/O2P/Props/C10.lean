/-
  O2P.Props.C10 — cookie session store: split / join / browser jar  (C10, cookie part of C11)

  Model: `O2P/Model/CookieJar.lean`; helper lemmas: `O2P/Lemmas/CookieJar.lean`.

  Standing conventions
  * `A` = length of the attribute suffix of the serialised cookie, `maxLen` = `maxCookieLength`
    (4000 in the source), `cookieLen A n v = |n| + 1 + |v| + A = len(c.String())`.
  * `Progress maxLen A name n`  :=  ∀ i ≤ n, |splitCookieName name i| + 1 + A < maxLen
      (every iteration of the Go loop can store ≥ 1 value byte; if it fails at the first part
      the real loop panics (`split_panics`) or makes no progress (`split_noProgress`)).
  * `NoCollision name`          :=  ∀ i, splitCookieName name i ≠ name
      (excludes exactly the 256-byte names ending in `_<digits>`, which are their own part `i`:
      known finding `C10-name256-collision`, witness `finding_name256_collision`; implied by
      `|name| ≤ 255`, `noCollision_of_length`).
  * `|name| ≤ 256` (option validation) — for longer names the truncated `name_0` is *shorter*
    than `name` and a single unrenamed part can result (`finding_single_unrenamed_part`).
  * `|v| ≤ 2⁶³−1`: part counters fit a Go `int` (`isSessionCookieName` parses them with `Atoi`).
  `Progress` follows from simple numeric conditions (`progress_of_simple`, `progress_of_attr`).
  Since the fix "recognise truncated split-cookie names when clearing session cookies" the
  matcher is `isSessionCookieName` (model `matchesSessionName`), which recognises truncated part
  names, so the former `NoTrunc` hypothesis is gone.
-/
import O2P.Lemmas.CookieJar

namespace O2P

/-! ## Sufficient numeric conditions for the hypotheses -/

/-- `|name| + A + 12 < maxLen` gives progress for all counters below 10¹⁰ (a value of fewer than
    10¹⁰ bytes cannot need more parts): `|name_i| ≤ |name| + 1 + 10`. -/
theorem progress_of_simple {maxLen A : Nat} {name : Str} {n : Nat}
    (h : name.length + A + 12 < maxLen) (hn : n < 10000000000) : Progress maxLen A name n := by
  intro i hi
  have hd : (natToStr i).length ≤ 10 := natToStr_length_le (by decide) (by omega)
  rw [splitCookieName_length]
  split <;> omega

/-- name-independent variant: part names never exceed 256 bytes -/
theorem progress_of_attr {maxLen A : Nat} {name : Str} {n : Nat}
    (h : A + 257 < maxLen) (hn : n < 10 ^ 255) : Progress maxLen A name n := by
  intro i hi
  have hd : (natToStr i).length ≤ 255 :=
    natToStr_length_le (by decide) (Nat.lt_of_le_of_lt hi hn)
  have := splitCookieName_length_le_256 (name := name) hd
  omega

instance (maxLen A : Nat) (name : Str) (n : Nat) : Decidable (Progress maxLen A name n) := by
  unfold Progress; infer_instance

-- non-vacuity: the default configuration (`_oauth2_proxy`, `; Path=/; Max-Age=604800; HttpOnly;
-- Secure` = 42 bytes; any A ≤ 3974 works) and a tiny configuration used in the witnesses below
example : Progress 4000 42 "_oauth2_proxy".toList 100000 := progress_of_simple (by decide) (by decide)
example : NoCollision "_oauth2_proxy".toList := noCollision_of_length (by decide)
example : Progress 40 0 "s".toList 60 := by decide

/-! ## 1. `splitCookie` partitions the value -/

/-- **split_partition.**  When the early return of `splitCookie` is not taken
    (`len(c.String()) ≥ maxCookieLength`) and the progress hypothesis holds, the Go loop
    terminates without panic and returns parts whose values concatenate to the value, each
    within `maxLen`, part `i` named `splitCookieName name i`, none empty, at least one (for a
    non-empty value) and at most `|value|` many. -/
theorem split_partition {maxLen A : Nat} {name value : Str}
    (hprog : Progress maxLen A name value.length)
    (hsplit : maxLen ≤ cookieLen A name value) :
    ∃ ps, splitCookie maxLen A name value = .ok ps ∧
      (ps.map Prod.snd).flatten = value ∧
      (∀ p ∈ ps, cookieLen A p.1 p.2 ≤ maxLen) ∧
      ps.map Prod.fst = (List.range ps.length).map (splitCookieName name) ∧
      (∀ p ∈ ps, p.2 ≠ []) ∧
      (value ≠ [] → 1 ≤ ps.length) ∧ ps.length ≤ value.length := by
  obtain ⟨ps, hps, hok⟩ := splitCookie_loop_ok hprog
  refine ⟨ps, ?_, hok.concat, hok.fits, ?_, hok.nonempty, ?_, hok.len_le⟩
  · unfold splitCookie; rw [if_neg (by omega), hps]
  · rw [hok.names, List.range_eq_range']
  · intro hv
    cases ps with
    | nil => exact absurd hok.concat.symm (by simpa using hv)
    | cons _ _ => simp

example : ∃ v : Str, Progress 40 0 "s".toList v.length ∧ 40 ≤ cookieLen 0 "s".toList v :=
  ⟨List.replicate 60 'x', by decide, by decide⟩

/-- `split_partition` under the plain numeric hypothesis `|name| + A + 12 < maxLen`
    (12 = `_` + at most 10 counter digits + `=`) for values shorter than 10¹⁰ bytes. -/
theorem split_partition_simple {maxLen A : Nat} {name value : Str}
    (hA : name.length + A + 12 < maxLen) (hlen : value.length < 10000000000)
    (hsplit : maxLen ≤ cookieLen A name value) :
    ∃ ps, splitCookie maxLen A name value = .ok ps ∧
      (ps.map Prod.snd).flatten = value ∧
      (∀ p ∈ ps, cookieLen A p.1 p.2 ≤ maxLen) ∧
      ps.map Prod.fst = (List.range ps.length).map (splitCookieName name) ∧
      (∀ p ∈ ps, p.2 ≠ []) ∧
      (value ≠ [] → 1 ≤ ps.length) ∧ ps.length ≤ value.length :=
  split_partition (progress_of_simple hA hlen) hsplit

/-- the early return: a cookie strictly shorter than `maxLen` is returned as is -/
theorem split_early {maxLen A : Nat} {name value : Str} (h : cookieLen A name value < maxLen) :
    splitCookie maxLen A name value = .ok [(name, value)] := by
  unfold splitCookie; rw [if_pos h]

/-- Necessity of the progress hypothesis (first part): overhead above `maxLen` ⇒ the Go code
    evaluates `valueBytes[:negative]` and panics. -/
theorem split_panics {maxLen A : Nat} {name value : Str} (hv : value ≠ [])
    (hsplit : maxLen ≤ cookieLen A name value)
    (h : maxLen < (splitCookieName name 0).length + 1 + A) :
    splitCookie maxLen A name value = .panic "slice bounds out of range" := by
  unfold splitCookie
  rw [if_neg (by omega)]
  cases value with
  | nil => exact absurd rfl hv
  | cons r rs =>
    rw [splitLoop_cons]
    have e1 : cookieLen A (splitCookieName name 0) (r :: rs) =
        (splitCookieName name 0).length + 1 + (r :: rs).length + A := rfl
    rw [if_neg (by omega), if_pos (by omega)]

/-- Necessity of the progress hypothesis (first part): overhead exactly `maxLen` ⇒
    `valueSize = 0`: the Go loop appends empty parts without consuming anything until the
    counter gains a digit and then panics (`[:-1]`), or — when the part name is capped at 256
    bytes — spins until memory is exhausted. -/
theorem split_noProgress {maxLen A : Nat} {name value : Str} (hv : value ≠ [])
    (hsplit : maxLen ≤ cookieLen A name value)
    (h : (splitCookieName name 0).length + 1 + A = maxLen) :
    splitCookie maxLen A name value =
      if name.length + 1 + (natToStr 0).length < 256 then .panic "slice bounds out of range"
      else .err "noProgress" := by
  unfold splitCookie
  rw [if_neg (by omega)]
  cases value with
  | nil => exact absurd rfl hv
  | cons r rs =>
    rw [splitLoop_cons]
    have e1 : cookieLen A (splitCookieName name 0) (r :: rs) =
        (splitCookieName name 0).length + 1 + (r :: rs).length + A := rfl
    have e2 : 0 < (r :: rs).length := by simp
    rw [if_neg (by omega), if_neg (by omega), if_pos (by omega)]

/-- **makeSessionCookie, exact boundary.**  `makeSessionCookie` splits iff
    `len(c.String()) > maxCookieLength`; at exactly `maxCookieLength` the single cookie is
    returned by this first test (the `< maxCookieLength` early return inside `splitCookie` is
    therefore dead code on this path).  When it splits there are at least two parts. -/
theorem makeSessionCookies_cases {maxLen A : Nat} {name value : Str} (hname : name.length ≤ 256)
    (hprog : Progress maxLen A name value.length) :
    (cookieLen A name value ≤ maxLen ∧
        makeSessionCookies maxLen A name value = .ok [(name, value)]) ∨
    (maxLen < cookieLen A name value ∧
      ∃ ps, makeSessionCookies maxLen A name value = .ok ps ∧ 2 ≤ ps.length ∧
        (ps.map Prod.snd).flatten = value ∧
        (∀ p ∈ ps, cookieLen A p.1 p.2 ≤ maxLen ∧ p.2 ≠ []) ∧
        ps.map Prod.fst = (List.range ps.length).map (splitCookieName name)) := by
  rcases makeSessionCookies_spec hname hprog with h | ⟨h, ps, hmk, hok, h2⟩
  · exact Or.inl h
  · refine Or.inr ⟨h, ps, hmk, h2, hok.concat, fun p hp => ⟨hok.fits p hp, hok.nonempty p hp⟩, ?_⟩
    rw [hok.names, List.range_eq_range']

theorem makeSessionCookies_single_iff {maxLen A : Nat} {name value : Str}
    (hname : name.length ≤ 256) (hprog : Progress maxLen A name value.length) :
    makeSessionCookies maxLen A name value = .ok [(name, value)] ↔
      cookieLen A name value ≤ maxLen := by
  constructor
  · intro h
    rcases makeSessionCookies_cases hname hprog with h' | ⟨_, ps, hmk, h2, _⟩
    · exact h'.1
    · rw [h] at hmk
      injection hmk with hmk
      subst hmk
      simp at h2
  · intro h
    unfold makeSessionCookies
    rw [if_neg (by omega)]

/-- every cookie `Save` emits stays within `maxLen` (hence within 4096 for `maxLen = 4000`) -/
theorem save_sizes {maxLen A : Nat} {name value : Str} (hname : name.length ≤ 256)
    (hprog : Progress maxLen A name value.length) :
    ∃ cs, save maxLen A name value = .ok cs ∧
      ∀ c ∈ cs, c.del = false ∧ cookieLen A c.name c.value ≤ maxLen := by
  rcases makeSessionCookies_cases hname hprog with ⟨h, hmk⟩ | ⟨_, ps, hmk, _, _, hfit, _⟩
  · refine ⟨_, save_of_ok hmk, ?_⟩
    intro c hc
    simp only [List.map_cons, List.map_nil, List.mem_singleton] at hc
    subst hc
    exact ⟨rfl, h⟩
  · refine ⟨_, save_of_ok hmk, ?_⟩
    intro c hc
    obtain ⟨p, hp, rfl⟩ := List.mem_map.1 hc
    exact ⟨rfl, (hfit p hp).1⟩

/-- the same for the fixed `Save`: every non-deletion cookie stays within `maxLen` -/
theorem saveFixed_sizes {maxLen A : Nat} {name value : Str} (hname : name.length ≤ 256)
    (hprog : Progress maxLen A name value.length) (presented : Jar) :
    ∃ cs, saveFixed maxLen A name value presented = .ok cs ∧
      ∀ c ∈ cs, c.del = false → cookieLen A c.name c.value ≤ maxLen := by
  rcases makeSessionCookies_cases hname hprog with ⟨h, hmk⟩ | ⟨_, ps, hmk, _, _, hfit, _⟩
  · refine ⟨_, saveFixed_of_ok presented hmk, ?_⟩
    intro c hc hdel
    simp only [List.mem_append, List.mem_map] at hc
    rcases hc with ⟨p, _, rfl⟩ | ⟨p, hp, rfl⟩
    · simp at hdel
    · simp only [List.mem_singleton] at hp; subst hp; exact h
  · refine ⟨_, saveFixed_of_ok presented hmk, ?_⟩
    intro c hc hdel
    simp only [List.mem_append, List.mem_map] at hc
    rcases hc with ⟨p, _, rfl⟩ | ⟨p, hp, rfl⟩
    · simp at hdel
    · exact (hfit p hp).1

/-! ## 2. part names are pairwise distinct -/

/-- **split_names_distinct.**  For every `name` (any length, truncated or not) parts with
    different counters have different names: the truncation keeps the `_count` suffix and a
    decimal rendering contains no `_`. -/
theorem split_names_distinct (name : Str) (i j : Nat)
    (h : splitCookieName name i = splitCookieName name j) : i = j :=
  splitCookieName_inj h

/-- …but a part name can collide with the *base* name: a 256-byte name ending in `_0` is its
    own part 0 (see `finding_name256_collision`).  `NoCollision` holds for `|name| ≤ 255`: -/
theorem split_name_ne_base {name : Str} (h : name.length ≤ 255) (i : Nat) :
    splitCookieName name i ≠ name :=
  splitCookieName_ne_name h i

/-! ## 3. a fresh browser loads what was saved -/

/-- **c10_single.**  Starting from an empty jar, after applying the `Set-Cookie` headers of
    `Save` (current code) the next request loads exactly the saved value under the base name —
    for every size.  In particular the "single unrenamed part `name_0`" branch of `joinCookies`
    is never reached: a value that does not fit in one cookie named `name` needs ≥ 2 parts
    because `name_0` is not shorter than `name` (for `|name| ≤ 256`). -/
theorem c10_single {maxLen A : Nat} {name v : Str} (hname : name.length ≤ 256)
    (hnc : NoCollision name) (hprog : Progress maxLen A name v.length) :
    ∃ cs, save maxLen A name v = .ok cs ∧
      loadCookie (applySetCookies [] cs) name = some (name, v) := by
  rcases makeSessionCookies_spec hname hprog with ⟨_, hmk⟩ | ⟨_, ps, hmk, hok, h2⟩
  · exact ⟨_, save_of_ok hmk, by
      apply loadCookie_exact
      simp [applySetCookies, applySetCookie, toSet, jarSet, jarGet]⟩
  · refine ⟨_, save_of_ok hmk, ?_⟩
    have hget : ∀ i (hi : i < ps.length),
        jarGet (applySetCookies [] (ps.map toSet)) (splitCookieName name i) = some ps[i].2 := by
      intro i hi
      have := jarGet_apply_sets [] ps [] i hi hok.names_nodup
      rw [hok.name_at i hi] at this
      simpa using this
    have hnone : ∀ n, (∀ i, i < ps.length → n ≠ splitCookieName name i) →
        jarGet (applySetCookies [] (ps.map toSet)) n = none := by
      intro n hn
      rw [jarGet_apply_of_not_mem]
      · rfl
      · intro hm
        have hm' : n ∈ ps.map Prod.fst := by
          simpa [toSet, Function.comp_def] using hm
        obtain ⟨i, hi, rfl⟩ := (hok.mem_names_iff n).1 hm'
        exact hn i hi rfl
    have := loadCookie_parts (jar := applySetCookies [] (ps.map toSet)) (name := name)
      (vs := ps.map Prod.snd)
      (hnone name (fun i _ he => hnc i he.symm))
      (by intro i hi; simp only [List.length_map] at hi; simpa using hget i hi)
      (by
        simp only [List.length_map]
        exact hnone _ (fun i hi he => by have := splitCookieName_inj he; omega))
      (by simpa using h2)
    rwa [hok.concat] at this

example : Progress 40 0 "s".toList (List.replicate 100 'x').length := by decide

/-- a fixed `Save` into a browser that presents nothing writes exactly what `save` writes, so
    `c10_single` speaks about the fixed code as well -/
theorem saveFixed_nil (maxLen A : Nat) (name v : Str) :
    saveFixed maxLen A name v [] = save maxLen A name v := by
  unfold saveFixed save
  cases makeSessionCookies maxLen A name v <;> simp

/-! ## 4. the history property fails on the pre-fix code (`save` / `runCurrent`) -/

private def small : Str := "abc".toList
private def big (n : Nat) : Str := (List.range n).map (fun i => Char.ofNat (97 + i % 26))

/-- **c10_history_current_false.**  With the pre-fix `Save` (`save`, which never deletes stale
    cookies; the tree before commit "delete stale session cookies when the cookie store saves a
    session")
    the history property is false, even under the hypotheses of the fixed theorem:
    * `[save small, save large]`: the stale unsplit cookie wins and the **old** session loads;
    * `[save 4 parts, save 3 parts]`: the stale `_3` part is appended to the new value. -/
theorem c10_history_current_false :
    ¬ ∀ (maxLen A : Nat) (name : Str) (ops : List JarOp),
        name.length ≤ 256 → NoCollision name →
        (∀ v, JarOp.save v ∈ ops →
          v.length ≤ 9223372036854775807 ∧ Progress maxLen A name v.length) →
        loadCookie (runCurrent maxLen A name ops []) name = lastSaved name ops := by
  intro h
  have := h 40 0 "s".toList [.save small, .save (big 60)] (by decide)
    (noCollision_of_length (by decide)) (by
    intro v hv
    simp only [List.mem_cons, JarOp.save.injEq, List.not_mem_nil, or_false] at hv
    rcases hv with rfl | rfl <;> decide)
  revert this
  decide

theorem c10_history_current_witness_old_session :
    loadCookie (runCurrent 40 0 "s".toList [.save small, .save (big 60)] []) "s".toList
      = some ("s".toList, small) := by decide

set_option maxRecDepth 20000 in
theorem c10_history_current_witness_stale_part :
    (makeSessionCookies 40 0 "s".toList (big 120)).isPanic = false ∧
    (runCurrent 40 0 "s".toList [.save (big 120)] []).length = 4 ∧
    (runCurrent 40 0 "s".toList [.save (big 120), .save (big 100)] []).length = 4 ∧
    loadCookie (runCurrent 40 0 "s".toList [.save (big 120), .save (big 100)] []) "s".toList
      = some ("s".toList, big 100 ++ (big 120).drop 108) ∧
    loadCookie (runCurrent 40 0 "s".toList [.save (big 120), .save (big 100)] []) "s".toList
      ≠ lastSaved "s".toList [.save (big 120), .save (big 100)] := by decide

/-! ## 5. the history property holds with the fixed `Save` -/

/-- **c10_history** (fixed `Save`).  For every history of saves and clears, starting from any
    jar without session cookies (other cookies may be present), each request presenting the
    whole jar: the next request loads exactly the last saved value, or nothing after a clear /
    initially. -/
theorem c10_history {maxLen A : Nat} {name : Str} (ops : List JarOp) (jar0 : Jar)
    (hname : name.length ≤ 256) (hnc : NoCollision name)
    (hjar0 : ∀ n, matchesSessionName name n = true → jarGet jar0 n = none)
    (hops : ∀ v, (JarOp.save v ∈ ops ∨ JarOp.saveClear v ∈ ops) →
      v.length ≤ 9223372036854775807 ∧ Progress maxLen A name v.length) :
    loadCookie (runFixed maxLen A name ops jar0) name = lastSaved name ops := by
  rcases List.eq_nil_or_concat ops with rfl | ⟨l, b, rfl⟩
  · exact (Shape.empty hjar0).load hnc
  · rw [List.concat_eq_append] at hops ⊢
    have hrun : runFixed maxLen A name (l ++ [b]) jar0 =
        stepWith (fun v j => saveFixed maxLen A name v j) name (runFixed maxLen A name l jar0) b := by
      simp [runFixed, List.foldl_append]
    rw [hrun]
    cases b with
    | clear =>
      have hl : lastSaved name (l ++ [JarOp.clear]) = none := by
        simp [lastSaved]
      rw [hl]
      exact (shape_clear name _).load hnc
    | save v =>
      have hl : lastSaved name (l ++ [JarOp.save v]) = some (name, v) := by
        simp [lastSaved]
      rw [hl]
      obtain ⟨hlen, hp⟩ := hops v (by simp)
      obtain ⟨cs, hcs, hsh⟩ := shape_saveFixed hname hlen hp (runFixed maxLen A name l jar0)
      simp only [stepWith, hcs]
      exact hsh.load hnc
    | saveClear v =>
      have hl : lastSaved name (l ++ [JarOp.saveClear v]) = none := by
        simp [lastSaved]
      rw [hl]
      obtain ⟨hlen, hp⟩ := hops v (by simp)
      obtain ⟨cs, hcs, _⟩ := shape_saveFixed hname hlen hp (runFixed maxLen A name l jar0)
      simp only [stepWith, hcs, clearAfter_saveFixed hname hlen hp _ hcs]
      exact (shape_clear name _).load hnc

/-- the same with plain numeric hypotheses and an initially empty jar -/
theorem c10_history_simple {maxLen A : Nat} {name : Str} (ops : List JarOp)
    (hname : name.length ≤ 255) (hA : name.length + A + 12 < maxLen)
    (hlen : ∀ v, (JarOp.save v ∈ ops ∨ JarOp.saveClear v ∈ ops) → v.length < 10000000000) :
    loadCookie (runFixed maxLen A name ops []) name = lastSaved name ops :=
  c10_history ops [] (by omega) (noCollision_of_length hname) (fun _ _ => rfl)
    (fun v hv => ⟨by have := hlen v hv; omega, progress_of_simple hA (hlen v hv)⟩)

/-- after every step of a fixed history the session part of the jar is exactly
    nothing / `{name}` / `{name_0 … name_{k-1}}` (the invariant behind `c10_history`) -/
theorem c10_history_shape {maxLen A : Nat} {name : Str} (ops : List JarOp) (jar0 : Jar)
    (hname : name.length ≤ 256)
    (hjar0 : ∀ n, matchesSessionName name n = true → jarGet jar0 n = none)
    (hops : ∀ v, (JarOp.save v ∈ ops ∨ JarOp.saveClear v ∈ ops) →
      v.length ≤ 9223372036854775807 ∧ Progress maxLen A name v.length) :
    Shape name (runFixed maxLen A name ops jar0) ((lastSaved name ops).map Prod.snd) := by
  rcases List.eq_nil_or_concat ops with rfl | ⟨l, b, rfl⟩
  · exact Shape.empty hjar0
  · rw [List.concat_eq_append] at hops ⊢
    have hrun : runFixed maxLen A name (l ++ [b]) jar0 =
        stepWith (fun v j => saveFixed maxLen A name v j) name (runFixed maxLen A name l jar0) b := by
      simp [runFixed, List.foldl_append]
    rw [hrun]
    cases b with
    | clear =>
      have hl : lastSaved name (l ++ [JarOp.clear]) = none := by
        simp [lastSaved]
      rw [hl]
      exact shape_clear name _
    | save v =>
      have hl : lastSaved name (l ++ [JarOp.save v]) = some (name, v) := by
        simp [lastSaved]
      rw [hl]
      obtain ⟨hlen, hp⟩ := hops v (by simp)
      obtain ⟨cs, hcs, hsh⟩ := shape_saveFixed hname hlen hp (runFixed maxLen A name l jar0)
      simp only [stepWith, hcs]
      exact hsh
    | saveClear v =>
      have hl : lastSaved name (l ++ [JarOp.saveClear v]) = none := by
        simp [lastSaved]
      rw [hl]
      obtain ⟨hlen, hp⟩ := hops v (by simp)
      obtain ⟨cs, hcs, _⟩ := shape_saveFixed hname hlen hp (runFixed maxLen A name l jar0)
      simp only [stepWith, hcs, clearAfter_saveFixed hname hlen hp _ hcs]
      exact shape_clear name _

/-- **clear_in_same_response_load_none** (C10 "after a clear, nothing loads" / C11, for a clear that
    shares its response with a save — a refresh whose result then fails validation, or a sign-out
    request that itself refreshed the session): whatever the browser held and however the saved
    session was laid out, after applying that one response nothing loads. -/
theorem clear_in_same_response_load_none {maxLen A : Nat} {name v : Str} (hname : name.length ≤ 256)
    (hnc : NoCollision name) (hlen : v.length ≤ 9223372036854775807)
    (hp : Progress maxLen A name v.length) (jar : Jar) {cs : List SetCookie}
    (h : saveFixed maxLen A name v jar = .ok cs) :
    loadCookie (applySetCookies jar (clearAfter name cs jar)) name = none := by
  rw [clearAfter_saveFixed hname hlen hp jar h]
  exact (shape_clear name jar).load hnc

-- regression witness for the fix "do not keep session cookies written earlier in the response when
-- the cookie store clears the session": before it (`clearAfterOld`) a browser holding the unsplit
-- cookie kept the freshly written parts and stayed signed in
set_option maxRecDepth 20000 in
example :
    (match saveFixed 40 0 "s".toList (big 120) [("s".toList, small)] with
     | .ok cs =>
        decide (loadCookie (applySetCookies [("s".toList, small)] (clearAfterOld "s".toList cs [("s".toList, small)])) "s".toList
            = some ("s".toList, big 120)) &&
        decide (loadCookie (applySetCookies [("s".toList, small)] (clearAfter "s".toList cs [("s".toList, small)])) "s".toList = none)
     | _ => false) = true := by decide

-- the witnesses that break the current code are repaired by the fix
example : loadCookie (runFixed 40 0 "s".toList [.save small, .save (big 60)] []) "s".toList
    = some ("s".toList, big 60) := by decide
set_option maxRecDepth 20000 in
example : loadCookie (runFixed 40 0 "s".toList [.save (big 120), .save (big 100)] []) "s".toList
    = some ("s".toList, big 100) := by decide
set_option maxRecDepth 20000 in
example : loadCookie (runFixed 40 0 "s".toList [.save (big 120), .save small, .clear] []) "s".toList
    = none := by decide

/-! ## 6. sign-out (cookie store part of C11) -/

/-- the names `isSessionCookieName` recognises: the base name and every part name (truncated or
    not) whose counter fits a Go `int` -/
def IsSessionCookieName (name n : Str) : Prop :=
  n = name ∨ ∃ i : Nat, i ≤ 9223372036854775807 ∧ n = splitCookieName name i

theorem matchesSessionName_spec (name n : Str) :
    matchesSessionName name n = true ↔ IsSessionCookieName name n :=
  matchesSessionName_iff name n

/-- **clear_covers_presented.**  `Clear` writes a deletion (empty value, `Max-Age < 0`, built by
    the same `makeCookie` as `Save`, hence same path/domain) for every presented cookie named
    `name` or `splitCookieName name i`, and only for those; after the browser applies them none
    of these remain and every other cookie is untouched. -/
theorem clear_covers_presented (name : Str) (presented : Jar) :
    (∀ c, c ∈ clearStore name presented ↔
        ∃ p ∈ presented, IsSessionCookieName name p.1 ∧ c = ⟨p.1, [], true⟩) ∧
    (∀ n, IsSessionCookieName name n →
        jarGet (applySetCookies presented (clearStore name presented)) n = none) ∧
    (∀ n, ¬ IsSessionCookieName name n →
        jarGet (applySetCookies presented (clearStore name presented)) n = jarGet presented n) := by
  refine ⟨?_, ?_, ?_⟩
  · intro c
    simp only [clearStore, List.mem_map, List.mem_filter, matchesSessionName_spec]
    constructor
    · rintro ⟨p, ⟨hp, hm⟩, rfl⟩; exact ⟨p, hp, hm, rfl⟩
    · rintro ⟨p, hp, hm, rfl⟩; exact ⟨p, ⟨hp, hm⟩, rfl⟩
  · intro n hn
    cases shape_clear name presented with
    | empty h => exact h n ((matchesSessionName_spec name n).2 hn)
  · intro n hn
    apply jarGet_apply_of_not_mem
    intro hm
    simp only [clearStore, List.map_map, List.mem_map, List.mem_filter] at hm
    obtain ⟨p, ⟨_, hpm⟩, rfl⟩ := hm
    exact hn ((matchesSessionName_spec name _).1 hpm)

/-- all parts of a split cookie are covered, for every cookie name (truncated part names
    included) -/
theorem clear_covers_split_parts (name : Str) {i : Nat} (h : i ≤ 9223372036854775807) :
    IsSessionCookieName name (splitCookieName name i) :=
  Or.inr ⟨i, h, rfl⟩

/-- after a `Clear` nothing loads, whatever the jar held and whatever the cookie name -/
theorem clear_then_load_none (name : Str) (jar : Jar) :
    loadCookie (applySetCookies jar (clearStore name jar)) name = none :=
  (shape_clear name jar).load_none

/-! ## 7. Outside the hypotheses (long cookie names; option validation allows ≤ 256) -/

private def longName (n : Nat) : Str := List.replicate n 'n'

set_option maxRecDepth 20000 in
/-- Regression (former finding, repaired by the fix "recognise truncated split-cookie names when
    clearing session cookies"): for a 255-byte cookie name the parts are named `name[:254]_i`;
    the old regular-expression matcher recognised none of them, `isSessionCookieName` recognises
    all, and after save-then-clear nothing loads. -/
example :
    let name := longName 255
    let jar := runFixed 400 0 name [.save (big 300)] []
    jar.length = 3 ∧
    jar.filter (fun p => matchesSessionNameRegex name p.1) = [] ∧
    (clearStore name jar).length = 3 ∧
    loadCookie (runFixed 400 0 name [.save (big 300), .clear] []) name = none ∧
    loadCookie (runFixed 400 0 name [.save (big 300), .save (big 200)] []) name
      = some (name, big 200) := by decide

set_option maxRecDepth 20000 in
/-- **Known finding `C10-name256-collision`.**  A 256-byte cookie name ending in `_0` is its own part 0
    (`splitCookieName name 0 = name`): `loadCookie` finds the exact name first and returns part 0
    only. -/
theorem finding_name256_collision :
    let name := longName 254 ++ "_0".toList
    splitCookieName name 0 = name ∧
    (∃ cs, save 400 0 name (big 300) = .ok cs ∧
      loadCookie (applySetCookies [] cs) name = some (name, (big 300).take 143)) := by
  refine ⟨by decide, _, rfl, by decide⟩

set_option maxRecDepth 20000 in
/-- For names longer than 256 bytes (rejected by option validation) a value can fit into the
    single truncated part `name_0`, which `joinCookies` returns *unrenamed*. -/
theorem finding_single_unrenamed_part :
    let name := longName 300
    ∃ cs, save 400 0 name (big 120) = .ok cs ∧
      loadCookie (applySetCookies [] cs) name = some (splitCookieName name 0, big 120) := by
  refine ⟨_, rfl, by decide⟩

end O2P
