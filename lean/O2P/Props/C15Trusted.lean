/-
  O2P.Props.C15Trusted — property C15 (trusted-IP part), whole decision `isTrustedIP`:

  "A trusted-IP exemption applies if and only if the client address lies inside one of the
   configured networks …" where the client address is the one `GetClientIP` selects: the
   configured real-IP header ONLY (first value, first comma element, trimmed, optional port
   stripped) when a parser is configured, `RemoteAddr` ONLY otherwise; no address ⇒ no exemption.

  Model: `O2P.Model.ClientIP` on top of `O2P.Model.NetSet`.  `net.SplitHostPort` / `net.ParseIP`
  are parameters (`T : NetText`): every statement holds for arbitrary such functions.
-/
import O2P.Model.ClientIP
import O2P.Props.C15Net

namespace O2P

/-- `isTrustedIP` in closed form (non-nil set of parsed networks): never panics, and is `true`
    exactly when `GetClientIP` yields an address that some configured network contains. -/
theorem trusted_eq (T : NetText) (nets : List IPNet) (hwf : ∀ n ∈ nets, WellFormedNet n)
    (parser : Option Str) (h : Headers) (ra : Str) :
    isTrustedIP T (some nets) parser h ra =
      .ok (match clientAddr T parser h ra with
           | some a => nets.any (·.contains (.ip16 a))
           | none => false) := by
  simp only [isTrustedIP, clientAddr, Option.isNone_some, Bool.false_and]
  cases hc : getClientIP T parser h ra with
  | addr a => simpa using netset_lookup_eq nets hwf (.ip16 a) (by simp)
  | absent => simp
  | error => simp

/-- C15, whole decision.  Hypothesis `hwf`: the configured networks are `ParseIPNet` results
    (`parseIPNetSem_wf`; non-vacuity: `exNets` in `O2P.Props.C15Net`). -/
theorem trusted_iff (T : NetText) (nets : List IPNet) (hwf : ∀ n ∈ nets, WellFormedNet n)
    (parser : Option Str) (h : Headers) (ra : Str) :
    isTrustedIP T (some nets) parser h ra = .ok true ↔
      ∃ a, clientAddr T parser h ra = some a ∧ ∃ n ∈ nets, n.contains (.ip16 a) = true := by
  rw [trusted_eq T nets hwf]
  cases clientAddr T parser h ra with
  | none => simp
  | some a => simp

/-- the decision never panics (and is never an error) -/
theorem trusted_no_panic (T : NetText) (nets : List IPNet) (hwf : ∀ n ∈ nets, WellFormedNet n)
    (parser : Option Str) (h : Headers) (ra : Str) :
    ∃ b, isTrustedIP T (some nets) parser h ra = .ok b :=
  ⟨_, trusted_eq T nets hwf parser h ra⟩

/-- With a parser configured, the decision depends on the request only through the first value
    of the configured header: any two requests agreeing on it (whatever their other headers —
    including the other four real-IP headers — and whatever their `RemoteAddr`) get the same
    decision. -/
theorem only_configured_header (T : NetText) (nets : List IPNet) (header : Str)
    (h h' : Headers) (ra ra' : Str) (hh : headerGet h header = headerGet h' header) :
    isTrustedIP T (some nets) (some header) h ra = isTrustedIP T (some nets) (some header) h' ra' := by
  simp only [isTrustedIP, getClientIP, getRealClientIP, hh, Option.isNone_some, Bool.false_and]

/-- With no parser configured, the decision depends on the request only through `RemoteAddr`:
    headers are ignored altogether. -/
theorem only_remote_addr (T : NetText) (nets : List IPNet) (h h' : Headers) (ra : Str) :
    isTrustedIP T (some nets) none h ra = isTrustedIP T (some nets) none h' ra := by
  simp only [isTrustedIP, getClientIP]

/-- No fallback: configured header absent or empty ⇒ not trusted, whatever `RemoteAddr` is. -/
theorem absent_header_not_trusted (T : NetText) (nets : Option (List IPNet)) (header : Str)
    (h : Headers) (ra : Str) (hh : headerGet h header = []) :
    isTrustedIP T nets (some header) h ra = .ok false := by
  simp only [isTrustedIP, getClientIP, getRealClientIP, hh, List.isEmpty_nil, if_true]
  split <;> rfl

/-- An unparseable client address (either source) ⇒ not trusted. -/
theorem unparseable_not_trusted (T : NetText) (nets : Option (List IPNet)) (parser : Option Str)
    (h : Headers) (ra : Str) (hc : clientAddr T parser h ra = none) :
    isTrustedIP T nets parser h ra = .ok false := by
  simp only [isTrustedIP]
  split
  · rfl
  · simp only [clientAddr] at hc
    cases hg : getClientIP T parser h ra with
    | addr a => simp [hg] at hc
    | absent => rfl
    | error => rfl

theorem splitFirst_fst_of_not_mem (c : Char) (s : Str) (h : c ∉ s) : (splitFirst c s).1 = s := by
  induction s with
  | nil => rfl
  | cons d ds ih =>
    simp only [List.mem_cons, not_or] at h
    have hd : ¬ d = c := fun e => h.1 e.symm
    simp only [splitFirst, if_neg hd, ih h.2]

theorem splitFirst_fst_append (c : Char) (x rest : Str) (h : c ∉ x) :
    (splitFirst c (x ++ c :: rest)).1 = x := by
  induction x with
  | nil => simp [splitFirst]
  | cons d ds ih =>
    simp only [List.mem_cons, not_or] at h
    have hd : ¬ d = c := fun e => h.1 e.symm
    simp only [List.cons_append, splitFirst, if_neg hd, ih h.2]

/-- Only the first comma-separated element of the header counts: everything after the first
    comma is irrelevant. -/
theorem first_element_only (T : NetText) (nets : List IPNet) (header : Str) (h h' : Headers)
    (ra ra' : Str) (x rest rest' : Str) (hx : ',' ∉ x)
    (hh : headerGet h header = x ++ ',' :: rest) (hh' : headerGet h' header = x ++ ',' :: rest') :
    isTrustedIP T (some nets) (some header) h ra = isTrustedIP T (some nets) (some header) h' ra' := by
  simp only [isTrustedIP, getClientIP, getRealClientIP, hh, hh', Option.isNone_some, Bool.false_and,
    splitFirst_fst_append ',' x _ hx]
  simp

/-- … and a non-empty first element followed by a comma list is the same as that element alone -/
theorem first_element_alone (T : NetText) (nets : List IPNet) (header : Str) (h h' : Headers)
    (ra ra' : Str) (x rest : Str) (hx : ',' ∉ x) (hne : x ≠ [])
    (hh : headerGet h header = x ++ ',' :: rest) (hh' : headerGet h' header = x) :
    isTrustedIP T (some nets) (some header) h ra = isTrustedIP T (some nets) (some header) h' ra' := by
  simp only [isTrustedIP, getClientIP, getRealClientIP, hh, hh', Option.isNone_some, Bool.false_and,
    splitFirst_fst_append ',' x _ hx, splitFirst_fst_of_not_mem ',' x hx]
  cases x with
  | nil => exact absurd rfl hne
  | cons c cs => simp

/-- A hand-made proxy without a set (`trustedIPs == nil`; `NewOAuthProxy` never builds one)
    trusts nobody, as long as the connection is not a unix socket (`RemoteAddr == "@"`). -/
theorem nil_set_not_trusted (T : NetText) (parser : Option Str) (h : Headers) (ra : Str)
    (hra : ra ≠ "@".toList) : isTrustedIP T none parser h ra = .ok false := by
  have : (ra != "@".toList) = true := by simpa using hra
  simp only [isTrustedIP, Option.isNone_none, Bool.true_and, this, if_true]

/-- the five supported header names are accepted in any letter case and nothing else is -/
theorem getRealClientIPParser_iff (k : Str) (hdr : Str) :
    getRealClientIPParser k = some hdr ↔
      hdr = canonicalHeaderKey k ∧ hdr ∈ supportedRealIPHeaders := by
  simp only [getRealClientIPParser, List.contains_iff_mem]
  constructor
  · intro h
    split at h
    · rename_i hm; cases h; exact ⟨rfl, hm⟩
    · cases h
  · rintro ⟨rfl, hm⟩
    rw [if_pos hm]

/-! ### non-vacuity -/

/-- a toy `NetText`: "h" splits to "10.1.2.3"-like token "a"; "a" parses to 10.1.2.3 -/
def exText : NetText where
  splitHostPort s := if s = "a:1".toList then some "a".toList else none
  parseIP s := if s = "a".toList then some (mapped 0x0A010203#32)
               else if s = "b".toList then some (mapped 0x0B010203#32) else none

example : isTrustedIP exText (some exNets) (some "X-Real-Ip".toList)
    [("X-Forwarded-For".toList, ["b".toList]), ("X-Real-Ip".toList, ["  a:1 , b".toList, "b".toList])]
    "b:1".toList = .ok true := by decide +kernel
example : isTrustedIP exText (some exNets) (some "X-Real-Ip".toList)
    [("X-Forwarded-For".toList, ["a".toList])] "a:1".toList = .ok false := by decide +kernel
example : isTrustedIP exText (some exNets) none
    [("X-Real-Ip".toList, ["b".toList])] "a:1".toList = .ok true := by decide +kernel
example : isTrustedIP exText (some exNets) none
    [("X-Real-Ip".toList, ["a".toList])] "@".toList = .ok false := by decide +kernel
example : (isTrustedIP exText none (some "X-Real-Ip".toList)
    [("X-Real-Ip".toList, ["a".toList])] "@".toList).isPanic = true := by decide +kernel
example : getRealClientIPParser "x-real-ip".toList = some "X-Real-Ip".toList
    ∧ getRealClientIPParser "CF-CONNECTING-IP".toList = some "Cf-Connecting-Ip".toList
    ∧ getRealClientIPParser "Forwarded".toList = none
    ∧ getRealClientIPParser "X-Real-IP ".toList = none := by decide +kernel
/-- `TrimSpace` also strips NBSP (c2 a0), U+2003 (e2 80 83), U+3000 (e3 80 80) but not a lone
    continuation byte -/
example : trimSpace ([0xC2, 0xA0, 32, 0x31, 32, 0x32, 0xE2, 0x80, 0x83, 9, 0xE3, 0x80, 0x80].map Char.ofNat)
      = [0x31, 32, 0x32].map Char.ofNat
    ∧ trimSpace ([0xA0, 0x31, 0x80, 0x83].map Char.ofNat) = [0xA0, 0x31, 0x80, 0x83].map Char.ofNat := by
  decide +kernel

end O2P
