/-
  O2P.Props.C04 — identity comes only from tokens the configured issuer signed for this client.

  Model: O2P/Model/Token.lean.  The OIDC library's verdict on a raw token is the parameter
  `Token.libOK`; what it is assumed to mean is the hypothesis `LibContract` (checked against real
  signed tokens by suite `tokens`, where the harness — not go-oidc — supplies `libOK`).

  Vocabulary
    FirstExisting ac kvs c v     `c` is the first configured audience claim that exists in `kvs`; `v` its value
    AudienceAccepted vc kvs      … and `v` is a string / list of strings containing the client id or an extra audience
    MarkedUnverified cfg tok pr  standard e-mail claim ∧ unverified e-mail not allowed ∧ `email_verified` resolves to a
                                 value that `cast.ToBool` reads as false
    IdentityFrom cfg r tok pr s  user / e-mail / groups / preferred username of `s` are the coerced configured claims,
                                 each resolved token-first (`resolve`)
-/
import O2P.Model.Token

namespace O2P.Tok

deriving instance DecidableEq for Except

/-! ## audience -/

/-- `c` is the first of the configured audience claims that exists among the token's claims -/
def FirstExisting (ac : List Str) (kvs : Claims) (c : Str) (v : Json) : Prop :=
  ∃ pre post, ac = pre ++ c :: post ∧ (∀ p ∈ pre, lookup p kvs = none) ∧ lookup c kvs = some v

theorem FirstExisting.unique {ac : List Str} {kvs : Claims} {c c' : Str} {v v' : Json}
    (h : FirstExisting ac kvs c v) (h' : FirstExisting ac kvs c' v') : c = c' ∧ v = v' := by
  induction ac with
  | nil => obtain ⟨pre, post, e, _⟩ := h; simp at e
  | cons a as ih =>
    obtain ⟨pre, post, e, hp, hc⟩ := h
    obtain ⟨pre', post', e', hp', hc'⟩ := h'
    cases pre with
    | nil =>
      simp at e
      cases pre' with
      | nil =>
        simp at e'
        obtain ⟨rfl, _⟩ := e
        obtain ⟨rfl, _⟩ := e'
        rw [hc] at hc'
        exact ⟨rfl, Option.some.inj hc'⟩
      | cons b bs =>
        simp at e'
        obtain ⟨rfl, _⟩ := e
        obtain ⟨rfl, _⟩ := e'
        have := hp' a (by simp)
        rw [hc] at this; cases this
    | cons b bs =>
      simp at e
      obtain ⟨rfl, ebs⟩ := e
      cases pre' with
      | nil =>
        simp at e'
        obtain ⟨rfl, _⟩ := e'
        have := hp a (by simp)
        rw [hc'] at this; cases this
      | cons b' bs' =>
        simp at e'
        obtain ⟨_, ebs'⟩ := e'
        exact ih ⟨bs, post, ebs, fun p hp0 => hp p (by simp [hp0]), hc⟩
                 ⟨bs', post', ebs', fun p hp0 => hp' p (by simp [hp0]), hc'⟩

/-- **verifyAudience_total.**  After fix 26cea54 the audience check never panics, whatever JSON
    the (validly signed) token carries in its audience claims. -/
theorem verifyAudience_total (ac allowed : List Str) (kvs : Claims) :
    (verifyAudience ac allowed kvs).isPanic = false := by
  induction ac with
  | nil => simp [verifyAudience, Outcome.isPanic]
  | cons c cs ih =>
    unfold verifyAudience
    split
    · split
      · split <;> simp [Outcome.isPanic]
      · simp [Outcome.isPanic]
    · exact ih

theorem verifyAudience_ne_panic (ac allowed : List Str) (kvs : Claims) (m : String) :
    verifyAudience ac allowed kvs ≠ .panic m := by
  intro h
  have := verifyAudience_total ac allowed kvs
  rw [h] at this
  simp [Outcome.isPanic] at this

/-- regression: the pre-fix code panicked on a validly signed token with `"azp": 123` … -/
example : (verifyAudienceOld ["azp".toList, "aud".toList] ["client".toList]
            [("azp".toList, .num "123".toList), ("aud".toList, .str "client".toList)]).isPanic = true := by
  decide +kernel
/-- … and on a list with a non-string entry; the fixed code rejects both with an error -/
example : (verifyAudienceOld ["azp".toList] ["client".toList]
            [("azp".toList, .arr [.str "client".toList, .num "5".toList])]).isPanic = true := by
  decide +kernel
example : verifyAudience ["azp".toList, "aud".toList] ["client".toList]
            [("azp".toList, .num "123".toList), ("aud".toList, .str "client".toList)]
          = .err "audience claim holds an unsupported type" := by
  decide +kernel

/-- **audience_iff.**  The audience check succeeds exactly when the FIRST configured audience
    claim that exists in the token is a string or a list of strings one of which is an allowed
    audience.  (Later claims are never looked at; `null`, numbers, objects, booleans and lists
    with a non-string entry are rejected.) -/
theorem audience_iff (ac allowed : List Str) (kvs : Claims) :
    verifyAudience ac allowed kvs = .ok () ↔
      ∃ c v aud, FirstExisting ac kvs c v ∧ audOf v = some aud ∧ ∃ a ∈ aud, a ∈ allowed := by
  induction ac with
  | nil =>
    simp only [verifyAudience]
    constructor
    · intro h; cases h
    · rintro ⟨c, v, aud, ⟨pre, post, e, _⟩, _⟩; simp at e
  | cons c cs ih =>
    unfold verifyAudience
    cases hl : lookup c kvs with
    | some v =>
      have hfe : FirstExisting (c :: cs) kvs c v := ⟨[], cs, rfl, by simp, hl⟩
      simp only
      cases ha : audOf v with
      | none =>
        simp only
        constructor
        · intro h; cases h
        · rintro ⟨c', v', aud, hfe', ha', _⟩
          obtain ⟨rfl, rfl⟩ := hfe.unique hfe'
          rw [ha] at ha'; cases ha'
      | some aud =>
        simp only
        constructor
        · intro h
          split at h
          · rename_i hany
            obtain ⟨a, hm, hc⟩ := List.any_eq_true.1 hany
            exact ⟨c, v, aud, hfe, ha, a, hm, List.contains_iff_mem.1 hc⟩
          · cases h
        · rintro ⟨c', v', aud', hfe', ha', a, hm, hal⟩
          obtain ⟨rfl, rfl⟩ := hfe.unique hfe'
          rw [ha] at ha'; cases ha'
          have : aud.any (fun a => allowed.contains a) = true :=
            List.any_eq_true.2 ⟨a, hm, List.contains_iff_mem.2 hal⟩
          rw [if_pos this]
    | none =>
      simp only
      rw [ih]
      constructor
      · rintro ⟨c', v, aud, ⟨pre, post, e, hp, hc⟩, rest⟩
        refine ⟨c', v, aud, ⟨c :: pre, post, by simp [e], ?_, hc⟩, rest⟩
        intro p hp0
        simp at hp0
        rcases hp0 with rfl | hp0
        · exact hl
        · exact hp p hp0
      · rintro ⟨c', v, aud, ⟨pre, post, e, hp, hc⟩, rest⟩
        cases pre with
        | nil =>
          simp at e
          obtain ⟨rfl, _⟩ := e
          rw [hl] at hc; cases hc
        | cons b bs =>
          simp at e
          exact ⟨c', v, aud, ⟨bs, post, e.2, fun p hp0 => hp p (by simp [hp0]), hc⟩, rest⟩

/-- the audience clause of the property for a verifier configuration -/
def AudienceAccepted (vc : VerifierCfg) (kvs : Claims) : Prop :=
  ∃ c v aud, FirstExisting vc.audClaims kvs c v ∧ audOf v = some aud ∧
    ∃ a ∈ aud, a ∈ vc.clientID :: vc.extraAudiences

/-- the audience denoted by a value: nothing but a string or a list of strings -/
theorem audOf_some_iff (v : Json) (aud : List Str) :
    audOf v = some aud ↔ (∃ s, v = .str s ∧ aud = [s]) ∨ (∃ xs, v = .arr xs ∧ allStrs xs = some aud) := by
  cases v <;> simp [audOf, eq_comm]

theorem allStrs_some (xs : List Json) (l : List Str) (h : allStrs xs = some l) : xs = l.map Json.str := by
  induction xs generalizing l with
  | nil => simp [allStrs] at h; subst h; rfl
  | cons x rest ih =>
    cases x <;> simp [allStrs] at h
    obtain ⟨l', hl', rfl⟩ := h
    simp [ih l' hl']

example : AudienceAccepted { clientID := "client".toList, extraAudiences := ["extra".toList] }
    [("aud".toList, .arr [.str "other".toList, .str "extra".toList])] :=
  ⟨"aud".toList, .arr [.str "other".toList, .str "extra".toList], ["other".toList, "extra".toList],
   ⟨[], [], rfl, by simp, by simp [lookup]⟩, by simp [audOf, allStrs], "extra".toList, by simp, by simp⟩

/-! ## the verifier -/

/-- what is known about how a raw token came about (the harness's bookkeeping; never computed by
    the code under test) -/
structure Facts where
  /-- signed, with an asymmetric algorithm the issuer supports, by a key the configured issuer publishes -/
  sigOK : Bool
  /-- the `iss` claim equals the configured issuer URL -/
  issOK : Bool
  /-- `exp` has not passed (and `nbf` is not more than the library's leeway ahead) -/
  unexpired : Bool

/-- **the go-oidc contract** assumed of `Token.libOK`: the library accepts only tokens whose
    signature verifies against the configured issuer's keys, whose issuer matches (unless issuer
    verification was switched off: `skipIssuer`) and which have not expired. -/
def LibContract (skipIssuer : Bool) (t : Token) (f : Facts) : Prop :=
  t.libOK = true → f.sigOK = true ∧ (f.issOK = true ∨ skipIssuer = true) ∧ f.unexpired = true

example : LibContract false { raw := "h.p.s".toList, libOK := true, payload := none } ⟨true, true, true⟩ :=
  fun _ => ⟨rfl, Or.inl rfl, rfl⟩

/-- `Verify` succeeds only for tokens the library accepted whose payload is an object that
    passes the audience clause -/
theorem verify_ok {vc : VerifierCfg} {t : Token} {u : Unit} (h : verify vc t = .ok u) :
    t.libOK = true ∧ ∃ kvs, tokenJson t = some (.obj kvs) ∧ AudienceAccepted vc kvs := by
  unfold verify at h
  cases hl : t.libOK with
  | false => simp [hl] at h
  | true =>
    simp only [hl, Bool.not_true, Bool.false_eq_true, if_false] at h
    refine ⟨rfl, ?_⟩
    split at h
    · rename_i kvs hk
      exact ⟨kvs, hk, (audience_iff _ _ _).1 h⟩
    · cases h

theorem verify_ne_panic (vc : VerifierCfg) (t : Token) (m : String) : verify vc t ≠ .panic m := by
  unfold verify
  split
  · simp
  · split
    · exact verifyAudience_ne_panic _ _ _ _
    · simp

/-- a blank token has fewer than two segments, so the claim extractor cannot parse it -/
theorem tokenJson_blank {t : Token} (h : isBlank t.raw = true) : tokenJson t = none := by
  have hdot : '.' ∉ t.raw := by
    intro hm
    have := List.all_eq_true.1 h '.' hm
    revert this; decide
  simp [tokenJson, splitOn_of_not_mem '.' t.raw hdot]

/-! ## claims: token first, profile only for what the token lacks -/

theorem Json.nonNull_some {j v : Json} (h : j.nonNull = some v) : v = j ∧ v ≠ .null := by
  cases j <;> simp [Json.nonNull] at h <;> subst h <;> simp

theorem getClaimFrom_ne_null {claim : Str} {src v : Json} (h : getClaimFrom claim src = some v) : v ≠ .null := by
  unfold getClaimFrom at h
  split at h
  · exact (Json.nonNull_some h).2
  · exact (Json.nonNull_some h).2

/-- `GetClaim` succeeds with exactly the token-first resolution -/
theorem getClaim_ok {tok : Json} {prof : Profile} {c : Str} {v : Option Json}
    (h : getClaim tok prof c = .ok v) : v = resolve tok prof c := by
  unfold getClaim at h
  unfold resolve
  by_cases hc : c = []
  · simp only [hc, if_true] at h ⊢
    cases h; rfl
  · simp only [hc, if_false] at h ⊢
    cases hw : getClaimFrom c tok with
    | some w => simp only [hw] at h ⊢; cases h; rfl
    | none =>
      simp only [hw] at h ⊢
      cases prof with
      | failed => cases h
      | body p => simp only at h ⊢; cases h; rfl

/-- `GetClaim` fails only when the profile endpoint had to be asked (the token lacks the claim)
    and that request failed -/
theorem getClaim_error_iff (tok : Json) (prof : Profile) (c : Str) (e : Err) :
    getClaim tok prof c = .error e ↔
      e = .profile ∧ c ≠ [] ∧ getClaimFrom c tok = none ∧ prof = .failed := by
  unfold getClaim
  by_cases hc : c = []
  · simp [hc]
  · simp only [hc, if_false]
    cases hw : getClaimFrom c tok with
    | some w => simp
    | none =>
      cases prof with
      | failed => simp [hc, eq_comm]
      | body p => simp

/-- **claim_prefers_token (single claim).**  A claim the token carries is returned from the
    token whatever the profile endpoint would say — even if it would fail: it is not consulted. -/
theorem claim_prefers_token (tok : Json) (prof : Profile) (c : Str) (v : Json) (hc : c ≠ [])
    (h : getClaimFrom c tok = some v) : getClaim tok prof c = .ok (some v) := by
  simp [getClaim, hc, h]

/-- the profile supplies a value only for a claim the token lacks -/
theorem resolve_some (tok : Json) (prof : Profile) (c : Str) (v : Json) (h : resolve tok prof c = some v) :
    c ≠ [] ∧ v ≠ .null ∧
    (getClaimFrom c tok = some v ∨
      (getClaimFrom c tok = none ∧ ∃ p, prof = .body p ∧ getClaimFrom c p = some v)) := by
  unfold resolve at h
  by_cases hc : c = []
  · simp [hc] at h
  · simp only [hc, if_false] at h
    refine ⟨hc, ?_⟩
    cases hw : getClaimFrom c tok with
    | some w =>
      simp only [hw] at h
      cases h
      exact ⟨getClaimFrom_ne_null hw, Or.inl rfl⟩
    | none =>
      simp only [hw] at h
      cases prof with
      | failed => simp at h
      | body p => exact ⟨getClaimFrom_ne_null h, Or.inr ⟨rfl, p, rfl, h⟩⟩

/-- no profile lookup is needed for this claim -/
def InToken (tok : Json) (c : Str) : Prop := c = [] ∨ ∃ v, getClaimFrom c tok = some v

theorem getClaim_indep {tok : Json} {c : Str} (h : InToken tok c) (p1 p2 : Profile) :
    getClaim tok p1 c = getClaim tok p2 c := by
  rcases h with rfl | ⟨v, hv⟩
  · simp [getClaim]
  · by_cases hc : c = []
    · simp [getClaim, hc]
    · rw [claim_prefers_token tok p1 c v hc hv, claim_prefers_token tok p2 c v hc hv]

/-- **claim_prefers_token (whole session).**  When the token carries every configured claim, the
    session built from it does not depend on the profile endpoint at all (its content, or its
    failure): in particular nothing the profile says can override a token claim. -/
theorem buildSession_profile_irrelevant (cfg : Cfg) (render : Json → Str) (tok : Json) (p1 p2 : Profile)
    (hu : InToken tok cfg.userClaim) (he : InToken tok cfg.emailClaim) (hg : InToken tok cfg.groupsClaim)
    (hp : InToken tok "preferred_username".toList)
    (hv : cfg.verifyEmail = true → InToken tok "email_verified".toList) :
    buildSession cfg render tok p1 = buildSession cfg render tok p2 := by
  unfold buildSession
  rw [getClaim_indep hu p1 p2, getClaim_indep he p1 p2, getClaim_indep hg p1 p2, getClaim_indep hp p1 p2]
  cases hve : cfg.verifyEmail with
  | false => simp
  | true => rw [getClaim_indep (hv hve) p1 p2]

example : InToken (.obj [("realm_access".toList, .obj [("roles".toList, .arr [.str "r".toList])])])
    "realm_access.roles".toList := Or.inr ⟨.arr [.str "r".toList], by rfl⟩

/-! ## coercions -/

/-- **toBool_true_iff.**  `cast.ToBool` reads as true only: JSON `true`; one of the six spellings
    `strconv.ParseBool` accepts; a number whose text (after dropping an all-zero fraction) is a
    non-zero int64.  Everything else — `null`, arrays, objects, "yes", 1.5, 1e3, out-of-range
    numbers — is false. -/
theorem toBool_true_iff (v : Json) :
    toBool v = true ↔
      v = .bool true ∨ (∃ s, v = .str s ∧ parseBoolTrue s = true) ∨
      (∃ t n, v = .num t ∧ atoi (trimZeroDecimal t) = some n ∧ n ≠ 0) := by
  cases v with
  | null => simp [toBool]
  | bool b => simp [toBool]
  | str s => simp [toBool]
  | arr xs => simp [toBool]
  | obj kvs => simp [toBool]
  | num t =>
    simp only [toBool]
    cases h : atoi (trimZeroDecimal t) with
    | none => simp [h]
    | some n => simp [h]

example : toBool (.num "1.0".toList) = true := by decide +kernel
example : toBool (.num "1e0".toList) = false := by decide +kernel
example : toBool (.num "0.0".toList) = false := by decide +kernel
example : toBool (.str "false".toList) = false := by decide +kernel
example : toBool (.str "yes".toList) = false := by decide +kernel
example : toBool (.arr [.bool true]) = false := by decide +kernel

/-- scalars are converted without the JSON renderer; arrays and objects become their JSON text -/
theorem toStr_cases (render : Json → Str) (v : Json) :
    (∃ s, v = .str s ∧ toStr render v = s) ∨ (∃ t, v = .num t ∧ toStr render v = t) ∨
    (v = .bool true ∧ toStr render v = "true".toList) ∨ (v = .bool false ∧ toStr render v = "false".toList) ∨
    (v = .null ∧ toStr render v = []) ∨
    ((∃ xs, v = .arr xs) ∧ toStr render v = render v) ∨ ((∃ kvs, v = .obj kvs) ∧ toStr render v = render v) := by
  cases v with
  | bool b => cases b <;> simp [toStr]
  | _ => simp [toStr]

/-- a list claim is converted element-wise, any other value becomes a one-element list -/
theorem toStrSlice_cases (render : Json → Str) (v : Json) :
    (∃ xs, v = .arr xs ∧ toStrSlice render v = xs.map (toStr render)) ∨ (v = .null ∧ toStrSlice render v = []) ∨
    ((∀ xs, v ≠ .arr xs) ∧ v ≠ .null ∧ toStrSlice render v = [toStr render v]) := by
  cases v <;> simp [toStrSlice]

/-! ## buildSessionFromClaims -/

/-- the e-mail is marked unverified: the standard e-mail claim is in use, the operator did not
    allow unverified addresses, and `email_verified` resolves (token first) to something that
    does not read as true -/
def MarkedUnverified (cfg : Cfg) (tok : Json) (prof : Profile) : Prop :=
  cfg.emailClaim = "email".toList ∧ cfg.allowUnverified = false ∧
    ∃ v, resolve tok prof "email_verified".toList = some v ∧ toBool v = false

/-- identity fields are the coerced configured claims, resolved token-first -/
def IdentityFrom (cfg : Cfg) (render : Json → Str) (tok : Json) (prof : Profile) (s : Session) : Prop :=
  s.user = strOf render (resolve tok prof cfg.userClaim) ∧
  s.email = strOf render (resolve tok prof cfg.emailClaim) ∧
  s.groups = strsOf render (resolve tok prof cfg.groupsClaim) ∧
  s.preferredUsername = strOf render (resolve tok prof "preferred_username".toList)

theorem verifyEmail_iff (cfg : Cfg) :
    cfg.verifyEmail = true ↔ cfg.emailClaim = "email".toList ∧ cfg.allowUnverified = false := by
  simp [Cfg.verifyEmail]

theorem buildSession_ok {cfg : Cfg} {render : Json → Str} {tok : Json} {prof : Profile} {s : Session}
    (h : buildSession cfg render tok prof = .ok s) :
    ¬ MarkedUnverified cfg tok prof ∧ IdentityFrom cfg render tok prof s ∧
    s.accessToken = [] ∧ s.idToken = [] ∧ s.refreshToken = [] := by
  unfold buildSession at h
  unfold MarkedUnverified IdentityFrom
  generalize "preferred_username".toList = puC at h ⊢
  generalize "email_verified".toList = evC at h ⊢
  cases hu : getClaim tok prof cfg.userClaim with
  | error e => simp [hu] at h
  | ok user =>
  cases he : getClaim tok prof cfg.emailClaim with
  | error e => simp [hu, he] at h
  | ok email =>
  cases hg : getClaim tok prof cfg.groupsClaim with
  | error e => simp [hu, he, hg] at h
  | ok groups =>
  cases hp : getClaim tok prof puC with
  | error e => simp [hu, he, hg, hp] at h
  | ok pu =>
    simp only [hu, he, hg, hp] at h
    have eu := getClaim_ok hu
    have ee := getClaim_ok he
    have eg := getClaim_ok hg
    have ep := getClaim_ok hp
    subst eu ee eg ep
    cases hve : cfg.verifyEmail with
    | false =>
      simp only [hve, Bool.false_eq_true, if_false] at h
      cases h
      refine ⟨?_, ⟨rfl, rfl, rfl, rfl⟩, rfl, rfl, rfl⟩
      rintro ⟨h1, h2, _⟩
      have := (verifyEmail_iff cfg).2 ⟨h1, h2⟩
      rw [hve] at this; cases this
    | true =>
      simp only [hve, if_true] at h
      cases hv : getClaim tok prof evC with
      | error e => simp [hv] at h
      | ok ev =>
        have eev := getClaim_ok hv
        subst eev
        simp only [hv] at h
        cases hr : resolve tok prof evC with
        | none =>
          simp only [hr] at h
          cases h
          refine ⟨?_, ⟨rfl, rfl, rfl, rfl⟩, rfl, rfl, rfl⟩
          rintro ⟨_, _, v, hv', _⟩
          cases hv'
        | some v =>
          simp only [hr] at h
          cases hb : toBool v with
          | false => simp [hb] at h
          | true =>
            simp only [hb, if_true] at h
            cases h
            refine ⟨?_, ⟨rfl, rfl, rfl, rfl⟩, rfl, rfl, rfl⟩
            rintro ⟨_, _, v', hv', hf⟩
            cases hv'
            rw [hb] at hf; cases hf

/-- `buildSessionFromClaims` fails for two reasons only: the profile endpoint had to be asked
    and failed, or the e-mail is marked unverified.  No JSON value in any claim makes it fail
    (or panic): the coercions are total. -/
theorem buildSession_error {cfg : Cfg} {render : Json → Str} {tok : Json} {prof : Profile} {e : Err}
    (h : buildSession cfg render tok prof = .error e) :
    (e = .profile ∧ prof = .failed) ∨ (e = .unverified ∧ MarkedUnverified cfg tok prof) := by
  unfold buildSession at h
  unfold MarkedUnverified
  generalize "preferred_username".toList = puC at h ⊢
  generalize "email_verified".toList = evC at h ⊢
  have hprof : ∀ c e', getClaim tok prof c = .error e' → e' = .profile ∧ prof = .failed := by
    intro c e' hc
    have := (getClaim_error_iff tok prof c e').1 hc
    exact ⟨this.1, this.2.2.2⟩
  cases hu : getClaim tok prof cfg.userClaim with
  | error e' => simp [hu] at h; subst h; exact Or.inl (hprof _ _ hu)
  | ok user =>
  cases he : getClaim tok prof cfg.emailClaim with
  | error e' => simp [hu, he] at h; subst h; exact Or.inl (hprof _ _ he)
  | ok email =>
  cases hg : getClaim tok prof cfg.groupsClaim with
  | error e' => simp [hu, he, hg] at h; subst h; exact Or.inl (hprof _ _ hg)
  | ok groups =>
  cases hp : getClaim tok prof puC with
  | error e' => simp [hu, he, hg, hp] at h; subst h; exact Or.inl (hprof _ _ hp)
  | ok pu =>
    simp only [hu, he, hg, hp] at h
    cases hve : cfg.verifyEmail with
    | false => simp [hve] at h
    | true =>
      simp only [hve, if_true] at h
      cases hv : getClaim tok prof evC with
      | error e' => simp [hv] at h; subst h; exact Or.inl (hprof _ _ hv)
      | ok ev =>
        have eev := getClaim_ok hv
        simp only [hv] at h
        cases ev with
        | none => simp at h
        | some v =>
          simp only at h
          cases hb : toBool v with
          | true => simp [hb] at h
          | false =>
            simp [hb] at h
            subst h
            exact Or.inr ⟨rfl, ((verifyEmail_iff cfg).1 hve).1, ((verifyEmail_iff cfg).1 hve).2, v, eev.symm, hb⟩

/-- **coercions_total.**  Whatever JSON the token and a (non-failing) profile answer carry — any
    type in any claim — `buildSessionFromClaims` returns a session or the "unverified e-mail"
    error: no value makes a coercion fail, and nothing panics (the model functions are total and
    agree with the code on every generated value, suite `tokens`). -/
theorem coercions_total (cfg : Cfg) (render : Json → Str) (tok p : Json) :
    (∃ s, buildSession cfg render tok (.body p) = .ok s) ∨
    (buildSession cfg render tok (.body p) = .error .unverified ∧ MarkedUnverified cfg tok (.body p)) := by
  cases h : buildSession cfg render tok (.body p) with
  | ok s => exact Or.inl ⟨s, rfl⟩
  | error e =>
    rcases buildSession_error h with ⟨_, hp⟩ | ⟨rfl, hm⟩
    · cases hp
    · exact Or.inr ⟨rfl, hm⟩

/-- **email_verified fails closed.**  With the standard e-mail claim and unverified addresses not
    allowed, an `email_verified` value (from the token, or from the profile when the token has
    none) that does not read as true — `false`, "false", 0, "no", [], … — never yields a session. -/
theorem email_verified_failclosed (cfg : Cfg) (render : Json → Str) (tok : Json) (prof : Profile) (v : Json)
    (hcfg : cfg.emailClaim = "email".toList ∧ cfg.allowUnverified = false)
    (hv : resolve tok prof "email_verified".toList = some v) (hb : toBool v = false) (s : Session) :
    buildSession cfg render tok prof ≠ .ok s :=
  fun h => (buildSession_ok h).1 ⟨hcfg.1, hcfg.2, v, hv, hb⟩

example : MarkedUnverified { verifier := { clientID := "c".toList } }
    (.obj [("email_verified".toList, .str "false".toList)]) Profile.empty :=
  ⟨rfl, rfl, .str "false".toList, by rfl, by decide +kernel⟩

/-! ## entry paths -/

/-- everything the property demands of the token behind a session, for one verifier -/
structure TokenSound (skipIssuer : Bool) (f : Facts) (vc : VerifierCfg) (t : Token) (kvs : Claims) : Prop where
  /-- the library accepted the token … -/
  lib : t.libOK = true
  /-- … hence (contract) it is signed by the configured issuer's key, -/
  sig : f.sigOK = true
  /-- its issuer matches (unless issuer verification is switched off), -/
  iss : f.issOK = true ∨ skipIssuer = true
  /-- and it has not expired; -/
  exp : f.unexpired = true
  /-- its payload is the JSON object `kvs` -/
  payload : tokenJson t = some (.obj kvs)
  /-- whose first existing audience claim contains the client id or an extra audience -/
  aud : AudienceAccepted vc kvs

theorem verify_sound {vc : VerifierCfg} {t : Token} {u : Unit} {skip : Bool} {f : Facts}
    (h : verify vc t = .ok u) (hc : LibContract skip t f) : ∃ kvs, TokenSound skip f vc t kvs := by
  obtain ⟨hl, kvs, hk, ha⟩ := verify_ok h
  obtain ⟨h1, h2, h3⟩ := hc hl
  exact ⟨kvs, ⟨hl, h1, h2, h3, hk, ha⟩⟩

theorem isBlank_nil : isBlank [] = true := rfl

/-- inversion of `createSession`: either a refresh answer without ID token (empty identity), or a
    verified, parseable token from which `buildSessionFromClaims` built the identity -/
theorem createSession_ok {cfg : Cfg} {render : Json → Str} {refresh : Bool} {r : TokenResp} {prof : Profile}
    {now : Int} {s : Session} (h : createSession cfg render refresh r prof now = .ok s) :
    (refresh = true ∧ r.idToken.raw = [] ∧
      s = { accessToken := r.accessToken, refreshToken := r.refreshToken, idToken := [],
            createdAt := some now, expiresOn := some r.expiry }) ∨
    (r.idToken.raw ≠ [] ∧ (∃ u, verify cfg.verifier r.idToken = .ok u) ∧
      ∃ j ss, tokenJson r.idToken = some j ∧
        buildSession cfg render j (effProfile cfg r.accessToken prof) = .ok ss ∧
        s = { ss with accessToken := r.accessToken, refreshToken := r.refreshToken, idToken := r.idToken.raw,
                      createdAt := some now, expiresOn := some r.expiry }) := by
  unfold createSession at h
  simp only at h
  cases hb : isBlank r.idToken.raw with
  | true =>
    simp only [hb, if_true] at h
    cases refresh with
    | false => simp at h
    | true =>
      simp only [if_true] at h
      by_cases hr : r.idToken.raw = []
      · left
        simp only [hr, if_true] at h
        cases h
        exact ⟨rfl, hr, rfl⟩
      · simp only [hr, if_false, tokenJson_blank hb] at h
        cases h
  | false =>
    have hne : r.idToken.raw ≠ [] := by
      intro e; rw [e, isBlank_nil] at hb; cases hb
    simp only [hb, Bool.false_eq_true, if_false, hne] at h
    right
    refine ⟨hne, ?_⟩
    cases hv : verify cfg.verifier r.idToken with
    | err m => simp [hv] at h
    | panic m => simp [hv] at h
    | ok u =>
      simp only [hv] at h
      refine ⟨⟨u, rfl⟩, ?_⟩
      cases hj : tokenJson r.idToken with
      | none => simp [hj] at h
      | some j =>
        simp only [hj] at h
        cases hbs : buildSession cfg render j (effProfile cfg r.accessToken prof) with
        | error e => simp [hbs] at h
        | ok ss =>
          simp only [hbs] at h
          cases h
          exact ⟨j, ss, rfl, hbs, rfl⟩

/-- **sessionFromToken_sound — login callback.**  A session returned by `Redeem` comes from an ID
    token that the library accepted — so, by the contract, signed by the configured issuer's key,
    of the right issuer, unexpired — whose first existing audience claim contains the client id or
    an extra audience, whose e-mail is not marked unverified, and the session's user, e-mail,
    groups and preferred username are that token's configured claims (the profile endpoint
    supplying only claims the token lacks: `resolve`). -/
theorem callback_sound {cfg : Cfg} {render : Json → Str} {r : TokenResp} {prof : Profile} {now : Int}
    {s : Session} {skip : Bool} {f : Facts}
    (h : callbackSession cfg render r prof now = .ok s) (hc : LibContract skip r.idToken f) :
    ∃ kvs, TokenSound skip f cfg.verifier r.idToken kvs ∧
      ¬ MarkedUnverified cfg (.obj kvs) (effProfile cfg r.accessToken prof) ∧
      IdentityFrom cfg render (.obj kvs) (effProfile cfg r.accessToken prof) s ∧
      s.idToken = r.idToken.raw ∧ s.accessToken = r.accessToken ∧ s.refreshToken = r.refreshToken := by
  unfold callbackSession at h
  rcases createSession_ok h with ⟨hf, _⟩ | ⟨_, ⟨u, hv⟩, j, ss, hj, hb, rfl⟩
  · cases hf
  · obtain ⟨kvs, ts⟩ := verify_sound hv hc
    have : j = .obj kvs := by
      have := ts.payload; rw [hj] at this; exact Option.some.inj this
    subst this
    obtain ⟨hm, hi, _⟩ := buildSession_ok hb
    exact ⟨kvs, ts, hm, hi, rfl, rfl, rfl⟩

/-- **refresh_retains_identity.**  A refresh answer without ID token always succeeds, keeps the
    user, e-mail, groups, preferred username and ID token of the old session, and takes over the
    new access / refresh tokens and timestamps. -/
theorem refresh_retains_identity (cfg : Cfg) (render : Json → Str) (old : Session) (r : TokenResp)
    (prof : Profile) (now : Int) (h : r.idToken.raw = []) :
    refreshSession cfg render old r prof now =
      .ok { old with accessToken := r.accessToken, refreshToken := r.refreshToken,
                     createdAt := some now, expiresOn := some r.expiry } := by
  simp [refreshSession, createSession, h, isBlank_nil]

/-- **sessionFromToken_sound — refresh.**  After a successful refresh either the answer carried no
    ID token and the identity is the old one, or the identity was replaced by that of a new token
    for which all clauses of the property hold. -/
theorem refresh_sound {cfg : Cfg} {render : Json → Str} {old : Session} {r : TokenResp} {prof : Profile}
    {now : Int} {s : Session} {skip : Bool} {f : Facts}
    (h : refreshSession cfg render old r prof now = .ok s) (hc : LibContract skip r.idToken f) :
    (r.idToken.raw = [] ∧ s.user = old.user ∧ s.email = old.email ∧ s.groups = old.groups ∧
      s.preferredUsername = old.preferredUsername ∧ s.idToken = old.idToken ∧
      s.accessToken = r.accessToken ∧ s.refreshToken = r.refreshToken) ∨
    (r.idToken.raw ≠ [] ∧ ∃ kvs, TokenSound skip f cfg.verifier r.idToken kvs ∧
      ¬ MarkedUnverified cfg (.obj kvs) (effProfile cfg r.accessToken prof) ∧
      IdentityFrom cfg render (.obj kvs) (effProfile cfg r.accessToken prof) s ∧
      s.idToken = r.idToken.raw ∧ s.accessToken = r.accessToken ∧ s.refreshToken = r.refreshToken) := by
  by_cases hr : r.idToken.raw = []
  · left
    rw [refresh_retains_identity cfg render old r prof now hr] at h
    cases h
    exact ⟨hr, rfl, rfl, rfl, rfl, rfl, rfl, rfl⟩
  · right
    refine ⟨hr, ?_⟩
    unfold refreshSession at h
    cases hcs : createSession cfg render true r prof now with
    | error e => simp [hcs] at h
    | ok n =>
      simp only [hcs] at h
      rcases createSession_ok hcs with ⟨_, h0, _⟩ | ⟨_, ⟨u, hv⟩, j, ss, hj, hb, rfl⟩
      · exact absurd h0 hr
      · obtain ⟨kvs, ts⟩ := verify_sound hv hc
        have : j = .obj kvs := by
          have := ts.payload; rw [hj] at this; exact Option.some.inj this
        subst this
        obtain ⟨hm, hi, _⟩ := buildSession_ok hb
        simp only [ne_eq, hr, not_false_eq_true, if_true] at h
        cases h
        exact ⟨kvs, ts, hm, hi, rfl, rfl, rfl⟩

/-- Layer A's view: `RefreshSession` reports "refreshed" exactly when `redeemRefreshToken` succeeded -/
theorem refreshRes_refreshed {cfg : Cfg} {render : Json → Str} {old : Session} {resp : Option TokenResp}
    {prof : Profile} {now : Int} {s : Session} (h : refreshRes cfg render old resp prof now = .refreshed s) :
    old.refreshToken ≠ [] ∧ ∃ r, resp = some r ∧ refreshSession cfg render old r prof now = .ok s := by
  unfold refreshRes at h
  by_cases ho : old.refreshToken = []
  · simp [ho] at h
  · simp only [ho, if_false] at h
    refine ⟨ho, ?_⟩
    cases resp with
    | none => cases h
    | some r =>
      simp only at h
      cases hrs : refreshSession cfg render old r prof now with
      | error e => simp [hrs] at h
      | ok s' => simp [hrs] at h; subst h; exact ⟨r, rfl, hrs⟩

/-- **sessionFromToken_sound — bearer token, provider loader.**  Same clauses; the profile endpoint
    is never involved (`Profile.empty`), and an empty e-mail falls back to the user. -/
theorem bearerOIDC_sound {cfg : Cfg} {render : Json → Str} {t : Token} {now : Int} {s : Session}
    {skip : Bool} {f : Facts}
    (h : bearerOIDC cfg render t now = .ok s) (hc : LibContract skip t f) :
    ∃ kvs, TokenSound skip f cfg.verifier t kvs ∧
      ¬ MarkedUnverified cfg (.obj kvs) Profile.empty ∧
      s.user = strOf render (resolve (.obj kvs) Profile.empty cfg.userClaim) ∧
      s.email = (if strOf render (resolve (.obj kvs) Profile.empty cfg.emailClaim) = [] then s.user
                 else strOf render (resolve (.obj kvs) Profile.empty cfg.emailClaim)) ∧
      s.groups = strsOf render (resolve (.obj kvs) Profile.empty cfg.groupsClaim) ∧
      s.preferredUsername = strOf render (resolve (.obj kvs) Profile.empty "preferred_username".toList) ∧
      s.idToken = t.raw ∧ s.accessToken = t.raw ∧ s.refreshToken = [] := by
  unfold bearerOIDC at h
  cases hv : verify cfg.verifier t with
  | err m => simp [hv] at h
  | panic m => simp [hv] at h
  | ok u =>
    simp only [hv] at h
    obtain ⟨kvs, ts⟩ := verify_sound hv hc
    simp only [ts.payload] at h
    cases hb : buildSession cfg render (.obj kvs) Profile.empty with
    | error e => simp [hb] at h
    | ok ss =>
      simp only [hb] at h
      cases h
      obtain ⟨hm, ⟨hu, he, hg, hp⟩, _⟩ := buildSession_ok hb
      refine ⟨kvs, ts, hm, hu, ?_, hg, hp, rfl, rfl, rfl⟩
      simp only [← he]

/-- typed decoding reads the five claims by their exact names -/
theorem typedDecode_some {kvs : Claims} {c : TypedClaims} (h : typedDecode kvs = some c) :
    typedStr (lookup "sub".toList kvs) = some c.subject ∧ typedStr (lookup "email".toList kvs) = some c.email ∧
    typedBoolPtr (lookup "email_verified".toList kvs) = some c.verified ∧
    typedStr (lookup "preferred_username".toList kvs) = some c.preferredUsername ∧
    typedStrs (lookup "groups".toList kvs) = some c.groups := by
  unfold typedDecode at h
  split at h
  · rename_i h1 h2 h3 h4 h5
    cases h
    exact ⟨h1, h2, h3, h4, h5⟩
  · cases h

/-- **sessionFromToken_sound — bearer token, extra JWT issuer.**  The loader of an extra issuer
    accepts only tokens ITS verifier's library accepted, with the audience given for that issuer
    (or an extra audience); `email_verified: false` is refused; user = `sub`, e-mail = `email`
    (falling back to `sub`), groups / preferred username as typed. -/
theorem bearerExtra_sound {vc : VerifierCfg} {t : Token} {s : Session} {f : Facts}
    (h : bearerExtra vc t = .ok s) (hc : LibContract false t f) :
    ∃ kvs c, TokenSound false f vc t kvs ∧ typedDecode kvs = some c ∧ c.verified ≠ some false ∧
      s.user = c.subject ∧ s.email = (if c.email = [] then c.subject else c.email) ∧
      s.groups = c.groups ∧ s.preferredUsername = c.preferredUsername ∧
      s.idToken = t.raw ∧ s.accessToken = t.raw := by
  unfold bearerExtra at h
  cases hv : verify vc t with
  | err m => simp [hv] at h
  | panic m => simp [hv] at h
  | ok u =>
    simp only [hv] at h
    obtain ⟨kvs, ts⟩ := verify_sound hv hc
    simp only [ts.payload] at h
    cases hd : typedDecode kvs with
    | none => simp [hd] at h
    | some c =>
      simp only [hd] at h
      by_cases hver : c.verified = some false
      · simp [hver] at h
      · simp only [hver, if_false] at h
        cases h
        exact ⟨kvs, c, ts, hd, hver, rfl, rfl, rfl, rfl, rfl, rfl⟩

/-- the extra-issuer loader refuses a token whose `email_verified` is the JSON value `false` -/
theorem bearerExtra_unverified (vc : VerifierCfg) (t : Token) (kvs : Claims) (s : Session)
    (hp : tokenJson t = some (.obj kvs)) (hv : lookup "email_verified".toList kvs = some (.bool false)) :
    bearerExtra vc t ≠ .ok s := by
  intro h
  unfold bearerExtra at h
  cases hver : verify vc t with
  | err m => simp [hver] at h
  | panic m => simp [hver] at h
  | ok u =>
    simp only [hver, hp] at h
    cases hd : typedDecode kvs with
    | none => simp [hd] at h
    | some c =>
      have := (typedDecode_some hd).2.2.1
      rw [hv] at this
      simp [typedBoolPtr] at this
      simp [hd, ← this] at h

/-- the token part of `ValidateSession` holds only for tokens with all token-level clauses -/
theorem tokenVerifies_sound {vc : VerifierCfg} {t : Token} {skip : Bool} {f : Facts}
    (h : tokenVerifies vc t = true) (hc : LibContract skip t f) : ∃ kvs, TokenSound skip f vc t kvs := by
  unfold tokenVerifies at h
  cases hv : verify vc t with
  | ok u => exact verify_sound hv hc
  | err m => simp [hv] at h
  | panic m => simp [hv] at h

/-! ## the JWT session loader -/

/-- **bearer_first_loader_wins.**  The loader chain yields a session exactly when some loader
    accepts the token and every loader before it rejected it; the session is that loader's. -/
theorem bearer_first_loader_wins (ls : List (Str → Except Err Session)) (tok : Str) (s : Session) :
    loaderChain ls tok = some s ↔
      ∃ pre l post, ls = pre ++ l :: post ∧ (∀ p ∈ pre, ∃ e, p tok = .error e) ∧ l tok = .ok s := by
  induction ls with
  | nil => simp [loaderChain]
  | cons l rest ih =>
    unfold loaderChain
    cases hl : l tok with
    | ok s' =>
      simp only
      constructor
      · intro h
        cases h
        exact ⟨[], l, rest, rfl, by simp, hl⟩
      · rintro ⟨pre, l', post, e, hp, hs⟩
        cases pre with
        | nil =>
          simp at e
          obtain ⟨rfl, _⟩ := e
          rw [hl] at hs; cases hs; rfl
        | cons b bs =>
          simp at e
          obtain ⟨rfl, _⟩ := e
          obtain ⟨e', he'⟩ := hp l (by simp)
          rw [hl] at he'; cases he'
    | error e0 =>
      simp only
      rw [ih]
      constructor
      · rintro ⟨pre, l', post, e, hp, hs⟩
        refine ⟨l :: pre, l', post, by simp [e], ?_, hs⟩
        intro p hp0
        simp at hp0
        rcases hp0 with rfl | hp0
        · exact ⟨e0, hl⟩
        · exact hp p hp0
      · rintro ⟨pre, l', post, e, hp, hs⟩
        cases pre with
        | nil =>
          simp at e
          obtain ⟨rfl, _⟩ := e
          rw [hl] at hs; cases hs
        | cons b bs =>
          simp at e
          exact ⟨bs, l', post, e.2, fun p hp0 => hp p (by simp [hp0]), hs⟩

/-- no session exactly when every loader rejects -/
theorem loaderChain_none_iff (ls : List (Str → Except Err Session)) (tok : Str) :
    loaderChain ls tok = none ↔ ∀ l ∈ ls, ∃ e, l tok = .error e := by
  induction ls with
  | nil => simp [loaderChain]
  | cons l rest ih =>
    unfold loaderChain
    cases hl : l tok with
    | ok s' => simp [hl]
    | error e0 => simp [hl, ih]

/-- only JWT-shaped strings reach the verifiers: whatever `findTokenFromHeader` extracts (bearer
    token, or basic-auth user name / password) matched the JWT regular expression -/
theorem findToken_shape (rx : Str → Bool) (header tok : Str) (h : findToken rx header = some tok) :
    rx tok = true := by
  unfold findToken at h
  cases hs : splitOn ' ' header with
  | nil => simp [hs] at h
  | cons ty rest =>
    cases rest with
    | nil => simp [hs] at h
    | cons t rest2 =>
      cases rest2 with
      | cons _ _ => simp [hs] at h
      | nil =>
        simp only [hs] at h
        split at h
        · rename_i h1
          cases h
          simp only [Bool.and_eq_true] at h1
          exact h1.2
        · split at h
          · unfold basicToken at h
            cases hd : b64Decode false true t with
            | none => simp [hd] at h
            | some cred =>
              simp only [hd] at h
              cases hsf : splitFirst ':' cred with
              | mk user opw =>
                cases opw with
                | none => simp [hsf] at h
                | some pw =>
                  simp only [hsf] at h
                  split at h
                  · rename_i hu
                    split at h
                    · cases h; exact hu
                    · cases h
                  · split at h
                    · rename_i hpw
                      cases h; exact hpw
                    · cases h
          · cases h

/-- a session from the Authorization header: a JWT-shaped token was extracted and the first
    loader that accepts it produced the session -/
theorem getJwtSession_some {rx : Str → Bool} {ls : List (Str → Except Err Session)} {header : Str} {s : Session}
    (h : getJwtSession rx ls header = some s) :
    header ≠ [] ∧ ∃ tok, findToken rx header = some tok ∧ rx tok = true ∧
      ∃ pre l post, ls = pre ++ l :: post ∧ (∀ p ∈ pre, ∃ e, p tok = .error e) ∧ l tok = .ok s := by
  unfold getJwtSession at h
  by_cases hh : header = []
  · simp [hh] at h
  · simp only [hh, if_false] at h
    refine ⟨hh, ?_⟩
    cases hf : findToken rx header with
    | none => simp [hf] at h
    | some tok =>
      simp only [hf] at h
      exact ⟨tok, rfl, findToken_shape rx header tok hf, (bearer_first_loader_wins ls tok s).1 h⟩

/-- **sessionFromToken_sound — bearer token, whole loader.**  A session loaded from an
    Authorization header satisfies the clauses of the property for the provider's verifier or for
    one of the extra issuers' verifiers (each with its own library verdict and its own contract). -/
theorem jwt_session_sound {rx : Str → Bool} {cfg : Cfg} {render : Json → Str} {now : Int} {asMain : Str → Token}
    {extras : List (VerifierCfg × (Str → Token))} {header : Str} {s : Session}
    (h : getJwtSession rx (jwtLoaders cfg render now asMain extras) header = some s) :
    ∃ tok, findToken rx header = some tok ∧
      (bearerOIDC cfg render (asMain tok) now = .ok s ∨ ∃ e ∈ extras, bearerExtra e.1 (e.2 tok) = .ok s) := by
  obtain ⟨_, tok, hf, _, pre, l, post, e, _, hs⟩ := getJwtSession_some h
  refine ⟨tok, hf, ?_⟩
  have hmem : l ∈ jwtLoaders cfg render now asMain extras := by rw [e]; simp
  unfold jwtLoaders at hmem
  simp only [List.mem_cons, List.mem_map] at hmem
  rcases hmem with rfl | ⟨x, hx, rfl⟩
  · exact Or.inl hs
  · exact Or.inr ⟨x, hx, hs⟩

/-! ## concrete instances (the hypotheses are satisfiable; the model computes) -/

section Examples

private def exTok (libOK : Bool) (claims : Claims) : Token :=
  { raw := "eyJh.eyJw.c2ln".toList, libOK := libOK, payload := some (.obj claims), expiry := 1000 }

private def exCfg : Cfg := { verifier := { clientID := "client".toList, extraAudiences := ["extra".toList] } }

private def exClaims : Claims :=
  [("sub".toList, .str "u1".toList), ("aud".toList, .arr [.str "x".toList, .str "client".toList]),
   ("email".toList, .str "a@b".toList), ("email_verified".toList, .bool true),
   ("groups".toList, .arr [.str "g1".toList, .num "7".toList])]

private def exRender : Json → Str := fun _ => "<json>".toList

/-- a good token on the callback path: identity from the token, profile only for the missing
    preferred username, conflicting profile e-mail ignored -/
example :
    (callbackSession exCfg exRender { idToken := exTok true exClaims, accessToken := "at".toList }
        (.body (.obj [("email".toList, .str "evil@x".toList), ("preferred_username".toList, .str "pu".toList)])) 5).toOption.map
      (fun s => (s.user, s.email, s.groups, s.preferredUsername))
    = some ("u1".toList, "a@b".toList, ["g1".toList, "7".toList], "pu".toList) := by decide +kernel

/-- the same token is rejected when the library says no, when the audience is someone else's, and
    when the e-mail is marked unverified -/
example : (callbackSession exCfg exRender { idToken := exTok false exClaims, accessToken := "at".toList } Profile.empty 5).toOption
    = none := by decide +kernel
example : (callbackSession exCfg exRender
    { idToken := exTok true [("sub".toList, .str "u1".toList), ("aud".toList, .str "other".toList)], accessToken := "at".toList }
    Profile.empty 5).toOption = none := by decide +kernel
example : (callbackSession exCfg exRender
    { idToken := exTok true (("email_verified".toList, .str "false".toList) :: exClaims), accessToken := "at".toList }
    Profile.empty 5).toOption = none := by decide +kernel
/-- a token response without ID token is refused at the callback and accepted at refresh -/
example : (callbackSession exCfg exRender { idToken := { raw := [], libOK := false, payload := none } } Profile.empty 5).toOption
    = none := by decide +kernel
example : ((refreshSession exCfg exRender { user := "old".toList, email := "old@x".toList, idToken := "OLD".toList }
    { idToken := { raw := [], libOK := false, payload := none }, accessToken := "at2".toList } Profile.empty 5).toOption.map
      (fun s => (s.user, s.email, s.idToken, s.accessToken)))
    = some ("old".toList, "old@x".toList, "OLD".toList, "at2".toList) := by decide +kernel
private def exClaims2 : Claims :=
  [("sub".toList, .str "u1".toList), ("aud".toList, .str "x".toList), ("email".toList, .str "a@b".toList),
   ("groups".toList, .arr [.str "g1".toList])]

/-- bearer: first loader (the provider) rejects a token of the extra issuer, the second accepts -/
example :
    ((getJwtSession jwtShape
        (jwtLoaders exCfg exRender 5 (fun raw => { raw := raw, libOK := false, payload := some (.obj exClaims2) })
          [({ clientID := "x".toList }, fun raw => { raw := raw, libOK := true, payload := some (.obj exClaims2) })])
        "Bearer eyJh.eyJw.c2ln".toList).map (fun s => (s.user, s.email)))
    = some ("u1".toList, "a@b".toList) := by decide +kernel

end Examples

end O2P.Tok
