import O2P.Props.C01
/-
  C13 — session-store failures fail closed (Layer A).  The store's answers are the `Env`
  fields `load1`, `lock`, `load2`, `saveOK`, `clearOK`, `ready`; the theorems hold for every
  combination of them ("every position, singly and in pairs" is subsumed).  What makes a
  corrupted / truncated value come out as `LoadRes.err` is Layer B (Signed / cipher models)
  and the `storefaults` suite.
-/
namespace O2P

/-- a failing first load never yields a stored session; an error (≠ no-cookie) clears -/
theorem c13_load_fault (cfg : Cfg) (env : Env) (h : env.load1 = .err ∨ env.load1 = .noCookie) :
    (getValidatedSession cfg env).session = none ∧ (env.load1 = .err → (getValidatedSession cfg env).isErr = true) := by
  unfold getValidatedSession
  rcases h with h | h <;> simp [h]

/-- faults on the refresh path (lock error / lock never obtained / reload failure) -/
theorem c13_refresh_path_fault (cfg : Cfg) (env : Env) (s0 : Session) (h1 : env.load1 = .ok s0)
    (hn : needsRefresh cfg env.now s0 = true)
    (hf : env.lock ≠ .obtained ∨ ∀ s1, env.load2 ≠ .ok s1) :
    (getValidatedSession cfg env).session = none ∧ (getValidatedSession cfg env).isErr = true ∧
    (getValidatedSession cfg env).refreshCalls = 0 := by
  unfold getValidatedSession
  simp only [h1, hn, Bool.not_true, Bool.false_eq_true, ↓reduceIte]
  cases hl : env.lock with
  | held => simp
  | err => simp
  | obtained =>
    rcases hf with hf | hf
    · exact absurd hl hf
    · cases h2 : env.load2 with
      | noCookie => simp
      | err => simp
      | ok s1 => exact absurd h2 (hf s1)

/-- a session put in scope by the stored loader was loaded successfully (and, when stale,
    re-loaded successfully under an obtained lock): corollary of `getValidatedSession_sound` -/
theorem c13_stored_session_needs_ok_load (cfg : Cfg) (env : Env) (s : Session)
    (h : (getValidatedSession cfg env).session = some s) : ∃ s0, env.load1 = .ok s0 := by
  obtain ⟨s0, h0, _⟩ := getValidatedSession_sound cfg env s h
  exact ⟨s0, h0⟩

/-- with the stored credential as the only candidate, a store fault means: not served unless a
    bypass applies -/
theorem c13_fault_never_authenticated (cfg : Cfg) (env : Env) (g : Glue) (r : Req)
    (hj : cfg.jwtEnabled = false ∨ env.bearer r = none) (hb : cfg.basicEnabled = false ∨ env.basic r = none)
    (hf : env.load1 = .err ∨ env.load1 = .noCookie)
    (hby : bypassDecision cfg env g.pathOfURI r = false) : ¬ Served (serve cfg env g r) := by
  intro hs
  rcases c01_served_has_credential cfg env g r hs with h | ⟨s, hc, _⟩
  · rw [hby] at h; cases h
  · rcases hc with ⟨h1, h2⟩ | ⟨h1, h2⟩ | ⟨s0, h0, _⟩
    · rcases hj with hj | hj
      · rw [hj] at h1; cases h1
      · rw [hj] at h2; cases h2
    · rcases hb with hb | hb
      · rw [hb] at h1; cases h1
      · rw [hb] at h2; cases h2
    · rcases hf with hf | hf <;> rw [hf] at h0 <;> cases h0

/-! ### never a cookie for a session that was not persisted -/

def NoSetSession (l : List CookieOp) : Prop := ∀ s, CookieOp.setSession s ∉ l

theorem refreshUnderLock_saved (cfg : Cfg) (env : Env) (s1 s : Session)
    (h : (refreshUnderLock cfg env s1).saved = some s) : env.saveOK = true := by
  unfold refreshUnderLock at h
  split at h
  · simp at h
  · simp only at h
    split at h
    · rename_i hc; simp at hc; exact hc.2
    · simp at h

theorem getValidatedSession_saved (cfg : Cfg) (env : Env) (s : Session)
    (h : (getValidatedSession cfg env).saved = some s) : env.saveOK = true := by
  unfold getValidatedSession at h
  split at h
  · simp at h
  · simp at h
  · split at h
    · simp at h
    · split at h
      · simp at h
      · simp at h
      · split at h
        · simp at h
        · simp at h
        · exact refreshUnderLock_saved _ _ _ _ h

theorem storedChainOut_cookies (cfg : Cfg) (env : Env) (hs : env.saveOK = false) :
    NoSetSession (storedChainOut cfg env).cookies := by
  intro s hmem
  unfold storedChainOut at hmem
  simp only at hmem
  cases hsv : (getValidatedSession cfg env).saved with
  | none => rw [hsv] at hmem; simp only [List.nil_append] at hmem; split at hmem <;> simp at hmem
  | some s' =>
    have := getValidatedSession_saved cfg env _ hsv
    rw [hs] at this; cases this

theorem sessionChain_cookies (cfg : Cfg) (env : Env) (r : Req) (hs : env.saveOK = false) :
    NoSetSession (sessionChain cfg env r).cookies := by
  unfold sessionChain
  split
  · intro s h; simp at h
  · split
    · intro s h; simp at h
    · exact storedChainOut_cookies cfg env hs

theorem noSetSession_append {a b : List CookieOp} (ha : NoSetSession a) (hb : NoSetSession b) : NoSetSession (a ++ b) := by
  intro s h; rcases List.mem_append.1 h with h | h
  · exact ha s h
  · exact hb s h

theorem doOAuthStart_cookies (cfg : Cfg) (env : Env) (r : Req) (ex : List (Str × Str)) (pre : List CookieOp)
    (hp : NoSetSession pre) : NoSetSession (doOAuthStart cfg env r ex pre).cookies := by
  unfold doOAuthStart
  repeat' split
  all_goals (first | exact hp | (simp only [startRedirect]; exact noSetSession_append hp (by intro s h; simp at h)))

theorem signInPage_cookies (env : Env) (code : Nat) (pre : List CookieOp) (hp : NoSetSession pre) :
    NoSetSession (signInPage env code pre).cookies := by
  unfold signInPage
  repeat' split
  all_goals exact noSetSession_append hp (by intro s h; simp at h)

theorem errorPage_cookies (code : Nat) (ck : List CookieOp) (h : NoSetSession ck) : NoSetSession (errorPage code ck).cookies := h

theorem callbackFinish_cookies (cfg : Cfg) (env : Env) (name nonce rd code : Str) (csrf : CSRF) (s0 : Session)
    (hs : env.saveOK = false) : NoSetSession (callbackFinish cfg env name nonce rd code csrf s0).cookies := by
  have hck : NoSetSession [CookieOp.clearCSRF name] := by intro s h; simp at h
  have hnil : NoSetSession ([] : List CookieOp) := by intro s h; simp at h
  unfold callbackFinish
  simp only
  split
  · exact hnil
  · split
    · exact hck
    · split
      · exact hck
      · split
        · exact hck
        · split
          · exact hck
          · rename_i h; simp [hs] at h

theorem callbackHandler_cookies (cfg : Cfg) (env : Env) (r : Req) (d : Str → Str) (hs : env.saveOK = false) :
    NoSetSession (callbackHandler cfg env r d).cookies := by
  have hnil : NoSetSession ([] : List CookieOp) := by intro s h; simp at h
  unfold callbackHandler
  split
  · exact hnil
  · simp only
    split
    · exact hnil
    · unfold callbackWithState
      simp only
      split
      · exact hnil
      · split
        · exact hnil
        · split
          · exact hnil
          · exact callbackFinish_cookies _ _ _ _ _ _ _ _ hs

theorem signInHandler_cookies (cfg : Cfg) (env : Env) (r : Req) (hs : env.saveOK = false) :
    NoSetSession (signInHandler cfg env r).cookies := by
  have hnil : NoSetSession ([] : List CookieOp) := by intro s h; simp at h
  unfold signInHandler
  split
  · exact hnil
  · split
    · split
      · rename_i h; rw [hs] at h; cases h
      · exact hnil
    · split
      · exact doOAuthStart_cookies _ _ _ _ _ hnil
      · exact signInPage_cookies _ _ _ hnil

/-- **c13_no_cookie_without_persist**: if the store write fails, NO response carries a session
    cookie — on any endpoint, for any request. -/
theorem c13_no_cookie_without_persist (cfg : Cfg) (env : Env) (g : Glue) (r : Req) (hs : env.saveOK = false) :
    NoSetSession (serve cfg env g r).cookies := by
  have hch := sessionChain_cookies cfg env r hs
  have hnil : NoSetSession ([] : List CookieOp) := by intro s h; simp at h
  have hclr : NoSetSession [CookieOp.clearSession] := by intro s h; simp at h
  unfold serve
  split
  · exact hnil
  · split
    · exact hnil
    · split <;> exact hnil
    · split
      · exact hnil
      · split
        · exact hnil
        · exact hnil
        · exact signInHandler_cookies _ _ _ hs
        · exact doOAuthStart_cookies _ _ _ _ _ hnil
        · exact callbackHandler_cookies _ _ _ _ hs
        · unfold authOnlyHandler
          simp only
          repeat' split
          all_goals (first | exact hch | exact noSetSession_append hch hclr)
        · unfold userInfoHandler
          simp only
          repeat' split
          all_goals (first | exact hch | exact noSetSession_append hch hclr)
        · unfold signOutHandler
          simp only
          repeat' split
          all_goals (first | exact hch | exact noSetSession_append hch hclr)
        · unfold proxyHandler
          simp only
          repeat' split
          all_goals (first | exact hch | exact noSetSession_append hch hclr | exact doOAuthStart_cookies _ _ _ _ _ hch | exact signInPage_cookies _ _ _ hch)

/-! ### sign-out and readiness -/

/-- **c13_signout**: the success redirect of sign-out is sent only when the store's clear
    succeeded; any clear failure is answered with the 500 error page. -/
theorem c13_signout (cfg : Cfg) (env : Env) (g : Glue) (r : Req)
    (hh : (cfg.forceHTTPS && !httpsOK cfg r) = false) (hc : env.clean r.path = r.path)
    (hep : classify cfg r = .signOut) :
    ((serve cfg env g r).kind = .redirect → env.clearOK = true) ∧
    (env.clearOK = false → (serve cfg env g r).kind = .errorPage ∧ (serve cfg env g r).status = 500) := by
  have : serve cfg env g r = signOutHandler cfg env r (sessionChain cfg env r) := by
    unfold serve; simp [hh, hep, hc]
  rw [this]; unfold signOutHandler
  constructor
  · intro hk
    split at hk
    · simp [errorPage] at hk
    · split at hk
      · simp [errorPage] at hk
      · rename_i h; simpa using h
  · intro hcl
    split
    · simp [errorPage]
    · simp [hcl, errorPage]

/-- **c13_ready**: readiness endpoint answers 200 iff the store connection verifies, else 500 -/
theorem c13_ready (cfg : Cfg) (env : Env) (g : Glue) (r : Req)
    (hh : (cfg.forceHTTPS && !httpsOK cfg r) = false) (hep : classify cfg r = .ready) :
    ((serve cfg env g r).status = 200 ↔ env.ready = true) ∧ (env.ready = false → (serve cfg env g r).status = 500) := by
  have : serve cfg env g r = if env.ready then { status := 200, kind := .okText } else { status := 500, kind := .notReady } := by
    unfold serve; simp [hh, hep]
  rw [this]
  cases env.ready <;> simp

/-- Known finding C13-refresh-save-failure-served, as a witness on the model (which follows the
    code): the refresh succeeded, the store write failed (`saveOK = false`), and the request is
    still forwarded as authenticated — no cookie is issued (c13_no_cookie_without_persist), but the
    request is not treated as unauthenticated. -/
example :
    let s0 : Session := { email := "a@b.c".toList, user := "u".toList, refreshToken := "rt".toList, createdAt := some 1 }
    let env : Env := { exEnv with load1 := .ok s0, load2 := .ok s0, refresh := fun s => .refreshed { s with accessToken := "new".toList },
                                  saveOK := false, now := 10000000000000 }
    let resp := serve { refreshPeriod := 1000000000 } env exGlue { method := "GET".toList, path := "/x".toList }
    resp.kind = .upstream ∧ (resp.forwarded.bind id).map (·.accessToken) = some "new".toList ∧ resp.cookies = [] := by decide

end O2P
