/-
  O2P.Props.ComposeRedirect — Layer A (`Model/Serve`) composed with the redirect model
  (`Model/Redirect`): C06 at the level of the whole request pipeline.

  Layer A treats `appDirector.GetRedirect` and `IsValidRedirect` as `Env` fields.  Here they are
  instantiated by the redirect model (whitelist `allowed`, `url.Parse` oracle `parse`), and the
  statement becomes one about EVERY response of `serve`:

    serve_redirect_valid      every application redirect the proxy answers with (after sign-in,
                              sign-out or a completed login) carries a Location that
                              `IsValidRedirect` accepts — hence (C06_main) one a browser resolves on
                              the same origin, or an absolute URL on a whitelisted host:port
    serve_redirect_safe       … spelled out with the browser-level conclusion
    start_state_redirect_valid  the landing page `start` embeds in the OAuth state is valid too
-/
import O2P.Props.C06
import O2P.Model.Serve

namespace O2P.ComposeRd
open O2P O2P.Redirect

/-- `IsValidRedirect` of the redirect model, with the `url.Parse` oracle applied -/
def valid (allowed : List Str) (parse : Str → Option (Str × Str)) (s : Str) : Bool :=
  isValidRedirect allowed s (parse s)

/-- Layer A's environment with its redirect fields given by the redirect model -/
def withRedirect (allowed : List Str) (parse : Str → Option (Str × Str)) (cfg : Cfg) (env : Env) : Env :=
  { env with
    getRedirect := fun rd xAuth fwd proto host uri reqURI =>
      getRedirect allowed parse rd xAuth fwd proto host uri reqURI cfg.proxyPrefix,
    isValidRedirect := valid allowed parse }

theorem redirectOf_valid (allowed : List Str) (parse : Str → Option (Str × Str)) (cfg : Cfg) (env : Env) (r : Req) :
    valid allowed parse ((withRedirect allowed parse cfg env).redirectOf cfg r) = true := by
  unfold Env.redirectOf withRedirect valid
  exact (getRedirect_valid allowed parse _ _ _ _ _ _ _ _).1

theorem root_valid (allowed : List Str) (parse : Str → Option (Str × Str)) : valid allowed parse "/".toList = true :=
  isValidRedirect_root _ _

/-- the claim about one response -/
def RedirectOK (allowed : List Str) (parse : Str → Option (Str × Str)) (resp : Resp) : Prop :=
  resp.kind = .redirect → valid allowed parse resp.location = true

theorem errorPage_ok (allowed : List Str) (parse : Str → Option (Str × Str)) (code : Nat) (ck : List CookieOp) :
    RedirectOK allowed parse (errorPage code ck) := by
  intro h; simp [errorPage] at h

theorem signInPage_ok (allowed : List Str) (parse : Str → Option (Str × Str)) (env : Env) (code : Nat) (pre : List CookieOp) :
    RedirectOK allowed parse (signInPage env code pre) := by
  intro h
  unfold signInPage at h
  split at h
  · simp [errorPage] at h
  · split at h <;> simp at h

theorem doOAuthStart_ok (allowed : List Str) (parse : Str → Option (Str × Str)) (cfg : Cfg) (env : Env) (r : Req)
    (ex : List (Str × Str)) (pre : List CookieOp) :
    RedirectOK allowed parse (doOAuthStart cfg env r ex pre) := by
  intro h
  unfold doOAuthStart at h
  split at h
  · simp [errorPage] at h
  · split at h
    · simp [errorPage] at h
    · split at h
      · simp [errorPage] at h
      · simp [startRedirect] at h

theorem proxyHandler_ok (allowed : List Str) (parse : Str → Option (Str × Str)) (cfg : Cfg) (env : Env) (r : Req)
    (b : Bool) (ch : ChainOut) : RedirectOK allowed parse (proxyHandler cfg env r b ch) := by
  unfold proxyHandler
  split
  · intro h; simp at h
  · split
    · intro h; simp at h
    · split
      · exact doOAuthStart_ok allowed parse cfg env r [] ch.cookies
      · exact signInPage_ok allowed parse env 403 ch.cookies
  · split
    · intro h; simp at h
    · exact errorPage_ok allowed parse _ _

theorem authOnlyHandler_ok (allowed : List Str) (parse : Str → Option (Str × Str)) (cfg : Cfg) (env : Env) (b : Bool)
    (ch : ChainOut) (cok : Session → Bool) : RedirectOK allowed parse (authOnlyHandler cfg env b ch cok) := by
  intro h
  unfold authOnlyHandler at h
  split at h <;> try (simp at h)
  split at h <;> simp at h

theorem userInfoHandler_ok (allowed : List Str) (parse : Str → Option (Str × Str)) (cfg : Cfg) (env : Env) (b : Bool)
    (ch : ChainOut) : RedirectOK allowed parse (userInfoHandler cfg env b ch) := by
  intro h
  unfold userInfoHandler at h
  split at h <;> simp at h

theorem signOutHandler_ok (allowed : List Str) (parse : Str → Option (Str × Str)) (cfg : Cfg) (env : Env) (r : Req)
    (ch : ChainOut) : RedirectOK allowed parse (signOutHandler cfg (withRedirect allowed parse cfg env) r ch) := by
  intro h
  unfold signOutHandler at h ⊢
  split
  · rename_i h1; simp [h1, errorPage] at h
  · split
    · rename_i h1 h2; simp [h1, h2, errorPage] at h
    · exact redirectOf_valid allowed parse cfg env r

theorem signInHandler_ok (allowed : List Str) (parse : Str → Option (Str × Str)) (cfg : Cfg) (env : Env) (r : Req) :
    RedirectOK allowed parse (signInHandler cfg (withRedirect allowed parse cfg env) r) := by
  intro h
  unfold signInHandler at h ⊢
  split
  · rename_i h1; simp [h1, errorPage] at h
  · rename_i h1
    simp only [h1] at h
    split
    · rename_i user code hm
      simp only [hm] at h
      split
      · exact redirectOf_valid allowed parse cfg env r
      · rename_i h2; simp [h2, errorPage] at h
    · rename_i code hm
      simp only [hm] at h
      split
      · rename_i h2
        simp only [h2] at h
        exact doOAuthStart_ok allowed parse cfg _ r r.query [] h
      · rename_i h2
        simp only [h2] at h
        exact signInPage_ok allowed parse _ code [] h

theorem callbackFinish_ok (allowed : List Str) (parse : Str → Option (Str × Str)) (cfg : Cfg) (env : Env)
    (name nonce rd code : Str) (csrf : CSRF) (s0 : Session) :
    RedirectOK allowed parse (callbackFinish cfg (withRedirect allowed parse cfg env) name nonce rd code csrf s0) := by
  intro h
  unfold callbackFinish at h ⊢
  simp only at h ⊢
  split
  · rename_i h1; simp [h1, errorPage] at h
  · rename_i h1
    simp only [h1] at h
    split
    · rename_i h2; simp [h2, errorPage] at h
    · rename_i h2
      simp only [h2] at h
      split
      · rename_i h3; simp [h3, errorPage] at h
      · rename_i h3
        simp only [h3] at h
        split
        · rename_i h4; simp [h4, errorPage] at h
        · rename_i h4
          simp only [h4] at h
          split
          · rename_i h5; simp [h5, errorPage] at h
          · simp only
            show valid allowed parse (if valid allowed parse rd then rd else "/".toList) = true
            split
            · assumption
            · exact root_valid allowed parse

theorem callbackHandler_ok (allowed : List Str) (parse : Str → Option (Str × Str)) (cfg : Cfg) (env : Env) (r : Req)
    (d : Str → Str) : RedirectOK allowed parse (callbackHandler cfg (withRedirect allowed parse cfg env) r d) := by
  unfold callbackHandler
  split
  · exact errorPage_ok allowed parse _ _
  · simp only
    split
    · exact errorPage_ok allowed parse _ _
    · rename_i nonce rd _
      unfold callbackWithState
      simp only
      split
      · exact errorPage_ok allowed parse _ _
      · split
        · exact errorPage_ok allowed parse _ _
        · split
          · intro h; simp [errorPage] at h
          · exact callbackFinish_ok allowed parse cfg env _ nonce rd _ _ _

/-- **serve_redirect_valid** (C06 end to end).  For every configuration, environment and request:
    when the proxy answers with an application redirect (sign-in POST, sign-out, completed login)
    the Location is accepted by `IsValidRedirect` with the configured whitelist. -/
theorem serve_redirect_valid (allowed : List Str) (parse : Str → Option (Str × Str)) (cfg : Cfg) (env : Env)
    (g : Glue) (r : Req) :
    RedirectOK allowed parse (serve cfg (withRedirect allowed parse cfg env) g r) := by
  unfold serve
  split
  · intro h; simp at h
  · split
    · intro h; simp at h
    · split <;> (intro h; simp at h)
    · split
      · intro h; simp at h
      · split
        · intro h; simp at h
        · intro h; simp at h
        · exact signInHandler_ok allowed parse cfg env r
        · exact doOAuthStart_ok allowed parse cfg _ r r.query []
        · exact callbackHandler_ok allowed parse cfg env r g.decodeB64
        · exact authOnlyHandler_ok allowed parse cfg _ _ _ _
        · exact userInfoHandler_ok allowed parse cfg _ _ _
        · exact signOutHandler_ok allowed parse cfg env r _
        · exact proxyHandler_ok allowed parse cfg _ r _ _

/-- **serve_redirect_safe**: the same, with the browser-level meaning of "valid" (C06_main's
    dichotomy): the Location is a relative path every form of which `http.Redirect` can emit is
    resolved by a WHATWG browser on the same origin, or an absolute http(s) URL whose host:port the
    whitelist allows. -/
theorem serve_redirect_safe (allowed : List Str) (parse : Str → Option (Str × Str)) (cfg : Cfg) (env : Env)
    (g : Glue) (r : Req) (reqPath : Str)
    (h : (serve cfg (withRedirect allowed parse cfg env) g r).kind = .redirect) :
    let loc := (serve cfg (withRedirect allowed parse cfg env) g r).location
    (hasPrefix ['/'] loc = true ∧
      ∀ out, (out = loc ∨ out = goRedirectVerbatim loc ∨ out = goRedirectRewrite reqPath loc) →
        browserOffOrigin out = false ∧ browserOffOrigin (wireHeaderValue out) = false) ∨
    ((hasPrefix httpPrefix loc = true ∨ hasPrefix httpsPrefix loc = true) ∧
      ∃ hh p, parse loc = some (hh, p) ∧ isEndpointAllowed hh p allowed = true) := by
  intro loc
  have hv : isValidRedirect allowed loc (parse loc) = true := serve_redirect_valid allowed parse cfg env g r h
  rcases (isValidRedirect_iff allowed loc (parse loc)).mp hv with ⟨h1, h2, h3⟩ | h'
  · exact Or.inl ⟨h1, fun out hout => relRedirect_sameOrigin loc h1 h2 h3 reqPath out hout⟩
  · exact Or.inr h'

/-- **start_state_redirect_valid**: the landing page that `start` stores in the OAuth state (and
    that the callback re-validates) is already a valid redirect. -/
theorem start_state_redirect_valid (allowed : List Str) (parse : Str → Option (Str × Str)) (cfg : Cfg) (env : Env)
    (r : Req) (ex : List (Str × Str)) (pre : List CookieOp) (ch : Option (Str × Str)) :
    ∃ rd, valid allowed parse rd = true ∧
      (startRedirect cfg (withRedirect allowed parse cfg env) r ex pre ch).location =
        (withRedirect allowed parse cfg env).loginURL ((withRedirect allowed parse cfg env).oauthRedirectURI cfg r)
          (encodeStateRaw ((withRedirect allowed parse cfg env).hash (startCSRF cfg (withRedirect allowed parse cfg env)).state) rd)
          ((withRedirect allowed parse cfg env).hash (startCSRF cfg (withRedirect allowed parse cfg env)).nonce) (startExtra ex ch) :=
  ⟨_, redirectOf_valid allowed parse cfg env r, rfl⟩

/-! ### non-vacuity: a sign-out with an open-redirect payload lands on "/" -/

private def exEnv : Env :=
  { rx := fun _ _ => false, clean := id, trustedText := fun _ _ => false, bearerOf := fun _ => none,
    basicOf := fun _ => none, load1 := .noCookie, lock := .obtained, load2 := .noCookie,
    refresh := fun _ => .err, saveOK := true, tokenVerifies := fun _ => false, nonceClaim := fun _ => none,
    clearOK := true, emailOK := fun _ => true, getRedirect := fun _ _ _ _ _ _ _ => [], isValidRedirect := fun _ => false,
    csrfByName := fun _ => none, redeem := fun _ _ _ => .err, enrichOK := fun _ => true, freshState := [],
    freshNonce := [], freshVerifier := [], hash := id, challenge := fun _ _ => none, ready := true,
    htpasswdOK := fun _ _ => false, oauthRedirectURIOf := fun _ _ => [], loginURL := fun _ _ _ _ => [],
    csrfCookieName := id, now := 0 }

private def exGlue : Glue := { pathOfURI := id, decodeB64 := id, constraintsOK := fun _ _ => true }
private def noParse : Str → Option (Str × Str) := fun _ => none

/-- sign-out with `rd=//evil.com`: an application redirect — to "/" -/
example :
    let resp := serve {} (withRedirect [] noParse {} exEnv) exGlue
      { method := "GET".toList, path := "/oauth2/sign_out".toList, form := [("rd".toList, "//evil.com".toList)] }
    resp.kind = .redirect ∧ resp.location = "/".toList := by decide +kernel
/-- … while a plain same-site path is kept -/
example :
    let resp := serve {} (withRedirect [] noParse {} exEnv) exGlue
      { method := "GET".toList, path := "/oauth2/sign_out".toList, form := [("rd".toList, "/bye?x=1".toList)] }
    resp.kind = .redirect ∧ resp.location = "/bye?x=1".toList := by decide +kernel

end O2P.ComposeRd
