import O2P.Gen.Tr
import O2P.Lemmas.GoPrim
import O2P.Model.Serve
/-
  O2P.Props.TrCsrf — the regenerated CSRF-cookie naming of pkg/cookies/csrf.go
  (`ExtractStateSubstring`, `csrfCookieName`, `GenerateCookieName`) against the Layer-A model
  (`stateSubstring` of O2P/Model/Serve.lean; C03, C19): for every state string the slice
  `state[0:8]` is only taken when it is in range (no panic on a short callback state), and the
  name is `<cookie-name>_csrf` or `<cookie-name>_<first 8 bytes of the state>_csrf`.
-/
set_option linter.unusedSimpArgs false
set_option linter.unusedVariables false
open O2P O2P.Go

namespace O2P.TrCsrf

theorem ExtractStateSubstring_eq (E : Go.Ext) (state : Str) :
    Gen.Tr.ExtractStateSubstring E state = .ok (if 8 ≤ state.length then state.take 8 else []) := by
  unfold Gen.Tr.ExtractStateSubstring
  by_cases h : 8 ≤ state.length
  · have hd : decide ((9 : Int) - 1 ≤ Go.len state) = true :=
      decide_eq_true (by show (9 : Int) - 1 ≤ (state.length : Int); omega)
    have hs : Go.slice state 0 ((9 : Int) - 1) = .ok (state.take 8) := by
      unfold Go.slice
      have hc : ¬ ((0 : Int) < 0 ∨ (9 : Int) - 1 < 0 ∨ (9 : Int) - 1 > state.length) := by omega
      simp only [hc, if_false]
      rfl
    simp only [hd, if_true, hs, h, bind, Except.bind, pure, Except.pure]
  · have hd : decide ((9 : Int) - 1 ≤ Go.len state) = false :=
      decide_eq_false (by show ¬ (9 : Int) - 1 ≤ (state.length : Int); omega)
    simp only [hd, h, if_false, pure, Except.pure]
    simp

theorem csrfCookieName_eq (E : Go.Ext) (opts : Go.CookieOpts) (sub : Str) :
    Gen.Tr.csrfCookieName E opts sub
      = .ok (if sub = [] then opts.Name ++ "_csrf".toList else opts.Name ++ '_' :: sub ++ "_csrf".toList) := by
  unfold Gen.Tr.csrfCookieName
  have : "_csrf".toList = ['_', 'c', 's', 'r', 'f'] := by decide
  rw [this]
  by_cases h : sub = [] <;> simp [h, pure, Except.pure]

/-- the name of the CSRF cookie for a callback / start state, in terms of the Layer-A `stateSubstring` -/
theorem GenerateCookieName_eq (E : Go.Ext) (cfg : Cfg) (state : Str) :
    Gen.Tr.GenerateCookieName E { Name := cfg.cookieName, CSRFPerRequest := cfg.csrfPerRequest } state
      = .ok (if stateSubstring cfg state = [] then cfg.cookieName ++ "_csrf".toList
             else cfg.cookieName ++ '_' :: stateSubstring cfg state ++ "_csrf".toList) := by
  unfold Gen.Tr.GenerateCookieName stateSubstring
  cases hc : cfg.csrfPerRequest
  · simp [csrfCookieName_eq, bind, Except.bind, pure, Except.pure]
  · simp [ExtractStateSubstring_eq, csrfCookieName_eq, bind, Except.bind, pure, Except.pure]

/-- every state string, of any length: the name is computed without a panic -/
theorem GenerateCookieName_total (E : Go.Ext) (opts : Go.CookieOpts) (state : Str) :
    ∃ n, Gen.Tr.GenerateCookieName E opts state = .ok n := by
  unfold Gen.Tr.GenerateCookieName
  cases opts.CSRFPerRequest <;>
    simp [ExtractStateSubstring_eq, csrfCookieName_eq, bind, Except.bind, pure, Except.pure]

example : Gen.Tr.ExtractStateSubstring Go.Ext.trivial
    ['a', 'b', 'c', 'd', 'e', 'f', 'g'] = .ok [] := by rfl

end O2P.TrCsrf
