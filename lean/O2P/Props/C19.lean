import O2P.Lemmas.Base64
import O2P.Model.Serve
/-
  C19 — per-site "no panic" lemmas that are not already part of another property's file.
  The full list of sites is the regenerated inventory `O2P.Facts.panicSites` pinned in
  Expect/C19; each site is covered by a lemma here or in the module named in registry.json
  (netset_has_no_panic, trusted_no_panic, getClaim_total_fixed, pipelineRequest_fixed_total,
  verifyAudience_total, split_partition, tamper_parts) or by a guard fact (GCM/CFB length checks).
-/
namespace O2P.C19

inductive SameSite | default | lax | strict | none
  deriving DecidableEq, Repr

/-- `cookies.ParseSameSite`: panics on anything but the four validated values -/
def parseSameSite (v : Str) : Outcome SameSite :=
  if v = "lax".toList then .ok .lax
  else if v = "strict".toList then .ok .strict
  else if v = "none".toList then .ok .none
  else if v = [] then .ok .default
  else .panic "Invalid value for SameSite"

/-- `validateCookie` accepts exactly these -/
def validSameSite (v : Str) : Bool :=
  v == [] || v == "none".toList || v == "lax".toList || v == "strict".toList

/-- **samesite_validated**: a validated configuration never makes `ParseSameSite` panic -/
theorem samesite_validated (v : Str) (h : validSameSite v = true) : ∃ s, parseSameSite v = .ok s := by
  unfold validSameSite at h
  simp only [Bool.or_eq_true, beq_iff_eq] at h
  rcases h with ((h | h) | h) | h <;> subst h <;> simp [parseSameSite]

theorem samesite_invalid_panics : parseSameSite "Lax".toList = .panic "Invalid value for SameSite" := by decide

/-- `csrf.cookieName`: `HashNonce(state)[0:8]` — in range whenever the hash function returns 32
    bytes (SHA-256) and the state is non-nil (every proxy-issued CSRF cookie: 32 random bytes) -/
theorem cookieName_slice_guard (sha : Str → Str) (hsha : ∀ x, (sha x).length = 32) (state : Str) :
    8 ≤ (b64Encode true false (sha state)).length := by
  rw [b64Encode_length]; simp [hsha]

/-- `ExtractStateSubstring`: the slice `state[0:8]` is taken only when `8 ≤ len(state)` -/
theorem extractStateSubstring_guard (cfg : Cfg) (state : Str) :
    (stateSubstring cfg state).length ≤ 8 ∧ (state.length < 8 → stateSubstring cfg state = []) := by
  unfold stateSubstring
  constructor
  · split
    · split
      · simp; omega
      · simp
    · simp
  · intro h
    split
    · have : ¬ 8 ≤ state.length := by omega
      simp [this]
    · rfl

/-- the Layer-A model has no partial operations: `serve` is a total function whose every
    branch is one of the enumerated response kinds (stated as: the kind is always defined) -/
theorem serve_total (cfg : Cfg) (env : Env) (g : Glue) (r : Req) : ∃ resp, serve cfg env g r = resp := ⟨_, rfl⟩

end O2P.C19
