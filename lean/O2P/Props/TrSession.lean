import O2P.Gen.Tr
import O2P.Lemmas.GoPrim
import O2P.Model.Serve
/-
  O2P.Props.TrSession — the regenerated `SessionState.IsExpired` and `SessionState.Age`
  (pkg/apis/sessions/session_state.go) against `Session.isExpired` and `Session.ageNs` of Layer A — the two
  clock comparisons behind "a session is refreshed once it is older than cookie-refresh" (C12) and "a session
  whose tokens ran out is not honoured" (C09).  A nil `ExpiresOn` / `CreatedAt` is never dereferenced (`= .ok`).
  Layer A writes Go's zero time as 0 (`enc` maps it to the zero time of the translation).
-/
set_option linter.unusedSimpArgs false
set_option linter.unusedVariables false
open O2P O2P.Go

namespace O2P.TrSession

theorem truncate_second (t : Int) : Go.timeTruncate t Go.timeSecond = (t / 1000000000) * 1000000000 := by
  unfold Go.timeTruncate Go.timeSecond Go.timeZero
  have h : ¬ ((1000000000 : Int) ≤ 0) := by omega
  simp only [h, if_false]
  omega

theorem IsExpired_spec (E : Go.Ext) (e : Option Int) :
    Gen.Tr.IsExpired E e = .ok (match e with
      | some t => decide (t ≠ Go.timeZero) && decide (t < E.nowNs)
      | none => false) := by
  unfold Gen.Tr.IsExpired
  cases e with
  | none => simp [Go.andM, pure, Except.pure, bind, Except.bind]
  | some t =>
    by_cases hz : t = Go.timeZero
    · simp [Go.andM, Go.derefTime, hz, pure, Except.pure, bind, Except.bind]
    · by_cases hl : t < E.nowNs
      · simp [Go.andM, Go.derefTime, hz, hl, pure, Except.pure, bind, Except.bind]
      · simp [Go.andM, Go.derefTime, hz, hl, pure, Except.pure, bind, Except.bind]

theorem Age_spec (E : Go.Ext) (c : Option Int) :
    Gen.Tr.Age E c = .ok (match c with
      | some t => if t = Go.timeZero then 0 else (E.nowNs / 1000000000) * 1000000000 - t
      | none => 0) := by
  unfold Gen.Tr.Age
  cases c with
  | none => simp [Go.andM, pure, Except.pure, bind, Except.bind]
  | some t =>
    by_cases hz : t = Go.timeZero
    · simp [Go.andM, Go.derefTime, hz, pure, Except.pure, bind, Except.bind]
    · simp [Go.andM, Go.derefTime, hz, truncate_second, pure, Except.pure, bind, Except.bind]

/-- Layer A's encoding of an optional time (0 = Go's zero time) as the translation's -/
def enc (o : Option Int) : Option Int := o.map (fun c => if c = 0 then Go.timeZero else c)

theorem IsExpired_eq (E : Go.Ext) (s : O2P.Session) (h : s.expiresOn ≠ some Go.timeZero) :
    Gen.Tr.IsExpired E (enc s.expiresOn) = .ok (s.isExpired E.nowNs) := by
  rw [IsExpired_spec]
  unfold Session.isExpired enc
  cases he : s.expiresOn with
  | none => simp
  | some c =>
    by_cases h0 : c = 0
    · simp [h0]
    · have hz : c ≠ Go.timeZero := fun hc => h (by rw [he, hc])
      simp [h0, hz]

theorem Age_eq (E : Go.Ext) (s : O2P.Session) (h : s.createdAt ≠ some Go.timeZero) :
    Gen.Tr.Age E (enc s.createdAt) = .ok (s.ageNs E.nowNs) := by
  rw [Age_spec]
  unfold Session.ageNs enc
  cases he : s.createdAt with
  | none => simp
  | some c =>
    by_cases h0 : c = 0
    · simp [h0]
    · have hz : c ≠ Go.timeZero := fun hc => h (by rw [he, hc])
      simp [h0, hz]

end O2P.TrSession
