/-
  O2P.Props.C15Net — property C15 (trusted-IP part)

  "A trusted-IP exemption applies if and only if the client address lies inside one of the
   configured networks, identically for IPv4, IPv6 and IPv4-mapped IPv6 notation."

  Model: `O2P.Model.NetSet` (`NetSet.Has`/`AddIPNet`/`ParseIPNet` of /repo/pkg/ip plus the Go
  `net` primitives).  "Lies inside" is Go's own `net.IPNet.Contains` (`IPNet.contains`).
  All statements are for ALL addresses, prefix lengths and network lists.
-/
import O2P.Lemmas.NetSet

namespace O2P

/-! ## 0. `ParseIPNet` in closed form, and its results are well formed -/

-- closed forms `parseIPNetSem_cidr4`, `parseIPNetSem_cidr6`, `parseIPNetSem_bare` are in
-- `O2P.Lemmas.NetSet`

/-- Every network `ParseIPNet` returns is well formed. -/
theorem parseIPNetSem_wf (inp : NetInput) (n : IPNet) (h : parseIPNetSem inp = some n) :
    WellFormedNet n := by
  rw [wellFormedNet_iff]
  cases inp with
  | bare ip =>
    rw [parseIPNetSem_bare] at h
    cases ip with
    | malformed => simp [famOf] at h
    | ip4 a =>
      simp only [famOf, Option.some.injEq] at h; subst h
      exact ⟨canonical_cidrBits 32 32 (Nat.le_refl _), and_cidrBits_full a⟩
    | ip16 b =>
      by_cases hb : isMapped b
      · simp only [famOf, hb, if_true, Option.some.injEq] at h; subst h
        exact ⟨canonical_cidrBits 32 32 (Nat.le_refl _), hb, and_cidrBits_full _⟩
      · simp only [famOf, hb] at h
        simp only [Bool.false_eq_true, if_false, Option.some.injEq] at h; subst h
        exact ⟨canonical_cidrBits 128 128 (Nat.le_refl _), and_cidrBits_full b⟩
  | cidr4 a k =>
    rw [parseIPNetSem_cidr4] at h
    split at h
    · rename_i hc
      simp only [Option.some.injEq] at h; subst h
      simp [leadingOnes_cidrBits _ _ hc.1, hc.2]
    · cases h
  | cidr6 a k =>
    rw [parseIPNetSem_cidr6] at h
    split at h
    · rename_i hc
      simp only [Option.some.injEq] at h; subst h
      simp [leadingOnes_cidrBits _ _ hc.1, hc.2]
    · cases h

/-! ## 1. `Has` ⇔ some configured network `Contains` the address; no panics -/

/-- Main theorem, strongest form: building the set from any list of well-formed networks
    succeeds, and `Has` then *computes* "some network contains `ip`" for every 4- or 16-byte
    address — no panic, no error, any mix of families / nesting / overlap / duplicates. -/
theorem netset_build_has (nets : List IPNet) (hwf : ∀ n ∈ nets, WellFormedNet n) :
    ∃ w, NetSet.build nets = .ok w ∧
      ∀ ip, ip ≠ .malformed → w.has ip = .ok (nets.any (·.contains ip)) := by
  obtain ⟨w, hb, hinv⟩ := build_ok nets hwf
  refine ⟨w, hb, ?_⟩
  intro ip hip
  obtain ⟨f, hf⟩ := famOf_isSome hip
  rw [has_of_inv hinv ip f hf]
  congr 1
  rw [Bool.eq_iff_iff]
  simp only [List.any_eq_true, List.contains_iff_mem]
  constructor
  · rintro ⟨m, hm, hk⟩
    obtain ⟨n, hn, hnf, hnm, hnk⟩ := hinv.sound f m hm _ hk
    refine ⟨n, hn, ?_⟩
    rw [← key_match_iff_contains (hwf n hn)]
    exact ⟨hnf.trans hf.symm, hip, by rw [hnm, hnk]⟩
  · rintro ⟨n, hn, hc⟩
    obtain ⟨hfam, -, hkey⟩ := (key_match_iff_contains (hwf n hn) ip).mpr hc
    obtain ⟨g, hg, m, hm, hmask, hin⟩ := hinv.complete n hn
    have : g = f := by rw [hfam, hf] at hg; exact (Option.some.inj hg).symm
    subst this
    exact ⟨m, hm, by rw [hmask, hkey]; exact hin⟩

theorem netset_lookup_eq (nets : List IPNet) (hwf : ∀ n ∈ nets, WellFormedNet n)
    (ip : RawIP) (hip : ip ≠ .malformed) :
    NetSet.lookup nets ip = .ok (nets.any (·.contains ip)) := by
  obtain ⟨w, hb, hh⟩ := netset_build_has nets hwf
  simp [NetSet.lookup, hb, hh ip hip]

/-- C15 (trusted IPs): the exemption applies iff the client address lies inside one of the
    configured networks.  Hypotheses: `hwf` — the networks are `ParseIPNet` results
    (`parseIPNetSem_wf`; necessary, see the counter-examples in §6); `hip` — the client address
    is a 4- or 16-byte slice (every non-nil `net.ParseIP` result is).  Non-vacuity: `exNets` in
    §6 satisfies `hwf` by `decide`. -/
theorem netset_has_iff (nets : List IPNet) (hwf : ∀ n ∈ nets, WellFormedNet n)
    (ip : RawIP) (hip : ip ≠ .malformed) :
    NetSet.lookup nets ip = .ok true ↔ ∃ n ∈ nets, n.contains ip = true := by
  rw [netset_lookup_eq nets hwf ip hip]
  simp

/-- `NewNetSet`/`AddIPNet`/`Has` never panic (and the model's recursion budget is never
    exhausted) on parsed networks and a 4- or 16-byte client address. -/
theorem netset_has_no_panic (nets : List IPNet) (hwf : ∀ n ∈ nets, WellFormedNet n)
    (ip : RawIP) (hip : ip ≠ .malformed) :
    ∃ b, NetSet.lookup nets ip = .ok b :=
  ⟨_, netset_lookup_eq nets hwf ip hip⟩

/-- The same, phrased directly on what `ParseIPNet` and `net.ParseIP` produce:
    `inputs` are the configured strings (numeric content); all of them parse. -/
theorem netset_has_iff_parsed (inputs : List NetInput) (nets : List IPNet)
    (hparse : inputs.map parseIPNetSem = nets.map some) (a : BitVec 128) :
    NetSet.lookup nets (parseIP6 a) = .ok true ↔ ∃ n ∈ nets, n.contains (parseIP6 a) = true := by
  apply netset_has_iff
  · intro n hn
    have : some n ∈ inputs.map parseIPNetSem := by rw [hparse]; exact List.mem_map_of_mem hn
    obtain ⟨inp, -, hinp⟩ := List.mem_map.mp this
    exact parseIPNetSem_wf inp n hinp
  · simp [parseIP6]

/-- The only way to make `Has` panic is an address that is neither 4 nor 16 bytes
    (oauth2-proxy only passes non-nil `net.ParseIP` results, which are 16 bytes). -/
theorem netset_has_malformed (w : NetSet) : ∃ s, w.has .malformed = .panic s := has_malformed w

/-- `AddIPNet` needs at most one recursive call. -/
theorem netset_addIPNet_terminates (w : NetSet) (n : IPNet) (s : String) :
    w.addIPNet n ≠ .err s := addIPNet_ne_err w n s

/-! ## 2. IPv4-mapped notation is normalised -/

/-- `Contains` does not distinguish `::ffff:a.b.c.d` (16 bytes) from `a.b.c.d` (4 bytes). -/
theorem contains_mapped (n : IPNet) (a : BitVec 32) :
    n.contains (.ip16 (mapped a)) = n.contains (.ip4 a) := by
  simp [IPNet.contains, RawIP.to4, isMapped_mapped, lo32_mapped]

/-- `::ffff:a.b.c.d/(96+k)` parses iff `a.b.c.d/k` does, … -/
theorem parse_mapped_isSome (a : BitVec 32) (k : Nat) :
    (parseIPNetSem (.cidr6 (mapped a) (96 + k))).isSome = (parseIPNetSem (.cidr4 a k)).isSome := by
  rw [parseIPNetSem_cidr4, parseIPNetSem_cidr6]
  have hiff : (96 + k ≤ 128 ∧ mapped a &&& cidrBits 128 (96 + k) = mapped a) ↔
      (k ≤ 32 ∧ a &&& cidrBits 32 k = a) := by
    constructor
    · rintro ⟨h1, h2⟩
      refine ⟨by omega, ?_⟩
      have := congrArg lo32 h2
      rw [lo32_and, lo32_mapped, lo32_cidrBits] at this
      simpa using this
    · rintro ⟨h1, h2⟩
      refine ⟨by omega, ?_⟩
      rw [eq_iff_hi_lo, hi96_and, lo32_and, lo32_mapped, hi96_mapped, lo32_cidrBits]
      have hff : allFF12 (cidrBits 128 (96 + k)) = true := by rw [allFF12_cidrBits]; simp
      simp only [allFF12, beq_iff_eq] at hff
      rw [hff, BitVec.and_allOnes]
      exact ⟨rfl, by simpa using h2⟩
  by_cases h : k ≤ 32 ∧ a &&& cidrBits 32 k = a
  · rw [if_pos h, if_pos (hiff.mpr h)]; rfl
  · rw [if_neg h, if_neg (fun hc => h (hiff.mp hc))]

/-- … and the two networks admit exactly the same addresses. -/
theorem parse_mapped_contains (a : BitVec 32) (k : Nat) (n6 n4 : IPNet)
    (h6 : parseIPNetSem (.cidr6 (mapped a) (96 + k)) = some n6)
    (h4 : parseIPNetSem (.cidr4 a k) = some n4) (ip : RawIP) :
    n6.contains ip = n4.contains ip := by
  rw [parseIPNetSem_cidr4] at h4
  rw [parseIPNetSem_cidr6] at h6
  split at h4 <;> simp only [Option.some.injEq, reduceCtorEq] at h4
  split at h6 <;> simp only [Option.some.injEq, reduceCtorEq] at h6
  subst h4 h6
  simp [IPNet.contains, IPNet.networkNumberAndMask, RawIP.to4, isMapped_mapped, lo32_mapped,
    lo32_cidrBits]

/-- C15, "identically for IPv4 and IPv4-mapped IPv6 notation":
    (1) a client written `::ffff:a.b.c.d` (or `a.b.c.d`; `net.ParseIP` gives the same 16 bytes)
        gets the same answer as the 4-byte address `a.b.c.d`;
    (2) configuring `::ffff:a.b.c.d/(96+k)` instead of `a.b.c.d/k`, anywhere in the list,
        changes no lookup. -/
theorem mapped_normalises :
    (∀ (nets : List IPNet), (∀ n ∈ nets, WellFormedNet n) → ∀ a : BitVec 32,
        NetSet.lookup nets (parseIP4 a) = NetSet.lookup nets (.ip4 a) ∧
        parseIP6 (mapped a) = parseIP4 a) ∧
    (∀ (pre post : List IPNet), (∀ n ∈ pre, WellFormedNet n) → (∀ n ∈ post, WellFormedNet n) →
      ∀ (a : BitVec 32) (k : Nat) (n6 n4 : IPNet),
        parseIPNetSem (.cidr6 (mapped a) (96 + k)) = some n6 →
        parseIPNetSem (.cidr4 a k) = some n4 →
        ∀ ip, ip ≠ .malformed →
          NetSet.lookup (pre ++ n6 :: post) ip = NetSet.lookup (pre ++ n4 :: post) ip) := by
  constructor
  · intro nets hwf a
    refine ⟨?_, rfl⟩
    rw [parseIP4, netset_lookup_eq nets hwf _ (by simp), netset_lookup_eq nets hwf _ (by simp)]
    simp only [contains_mapped]
  · intro pre post hpre hpost a k n6 n4 h6 h4 ip hip
    have hwf6 : ∀ n ∈ pre ++ n6 :: post, WellFormedNet n := by
      intro n hn
      simp only [List.mem_append, List.mem_cons] at hn
      rcases hn with h | rfl | h
      · exact hpre n h
      · exact parseIPNetSem_wf _ _ h6
      · exact hpost n h
    have hwf4 : ∀ n ∈ pre ++ n4 :: post, WellFormedNet n := by
      intro n hn
      simp only [List.mem_append, List.mem_cons] at hn
      rcases hn with h | rfl | h
      · exact hpre n h
      · exact parseIPNetSem_wf _ _ h4
      · exact hpost n h
    rw [netset_lookup_eq _ hwf6 ip hip, netset_lookup_eq _ hwf4 ip hip]
    simp only [List.any_append, List.any_cons, parse_mapped_contains a k n6 n4 h6 h4 ip]

/-! ## 3. The host-bits rule of `ParseIPNet` -/

/-- `ParseIPNet("addr/len")` succeeds iff `len` is in range and `addr` has no bit set beyond
    the first `len` bits (bit `i` counted from the least significant end, so "beyond the
    prefix" is `i < width - len`); the result is then the network `addr/len` in the byte
    length of the textual family.  A bare address gives `/32` (4-byte mask) when it is IPv4
    or IPv4-mapped, `/128` otherwise. -/
theorem parse_hostbits_rule :
    (∀ (a : BitVec 32) (k : Nat) (n : IPNet),
      parseIPNetSem (.cidr4 a k) = some n ↔
        (k ≤ 32 ∧ (∀ i, i < 32 - k → a.getLsbD i = false) ∧ n = ⟨.ip4 a, .m4 (cidrBits 32 k)⟩)) ∧
    (∀ (a : BitVec 128) (k : Nat) (n : IPNet),
      parseIPNetSem (.cidr6 a k) = some n ↔
        (k ≤ 128 ∧ (∀ i, i < 128 - k → a.getLsbD i = false) ∧ n = ⟨.ip16 a, .m16 (cidrBits 128 k)⟩)) ∧
    (∀ a : BitVec 32,
      parseIPNetSem (.bare (parseIP4 a)) = some ⟨.ip16 (mapped a), .m4 (cidrBits 32 32)⟩) ∧
    (∀ a : BitVec 128,
      parseIPNetSem (.bare (parseIP6 a)) =
        some (if isMapped a then ⟨.ip16 a, .m4 (cidrBits 32 32)⟩ else ⟨.ip16 a, .m16 (cidrBits 128 128)⟩)) ∧
    parseIPNetSem (.bare .malformed) = none := by
  refine ⟨?_, ?_, ?_, ?_, ?_⟩
  · intro a k n
    rw [parseIPNetSem_cidr4, ← and_cidrBits_eq_self_iff]
    by_cases h : k ≤ 32 ∧ a &&& cidrBits 32 k = a
    · rw [if_pos h]; simp only [Option.some.injEq]
      exact ⟨fun e => ⟨h.1, h.2, e.symm⟩, fun e => e.2.2.symm⟩
    · rw [if_neg h]
      exact ⟨fun e => (by cases e), fun e => absurd ⟨e.1, e.2.1⟩ h⟩
  · intro a k n
    rw [parseIPNetSem_cidr6, ← and_cidrBits_eq_self_iff]
    by_cases h : k ≤ 128 ∧ a &&& cidrBits 128 k = a
    · rw [if_pos h]; simp only [Option.some.injEq]
      exact ⟨fun e => ⟨h.1, h.2, e.symm⟩, fun e => e.2.2.symm⟩
    · rw [if_neg h]
      exact ⟨fun e => (by cases e), fun e => absurd ⟨e.1, e.2.1⟩ h⟩
  · intro a
    simp [parseIPNetSem_bare, parseIP4, famOf, isMapped_mapped]
  · intro a
    by_cases h : isMapped a <;> simp [parseIPNetSem_bare, parseIP6, famOf, h]
  · simp [parseIPNetSem_bare, famOf]

/-! ## 4. What "lies inside" means arithmetically

`IPNet.contains` transcribes Go's `net.IPNet.Contains`.  For the networks `ParseIPNet` produces
it is the textbook notion: same address family and same leading `k` bits.  (No host-bit
hypothesis is needed here: `Contains` masks both sides.) -/

/-- IPv4 network `a/k`: contains exactly the IPv4 / IPv4-mapped addresses whose 32-bit value
    has the same leading `k` bits as `a`. -/
theorem contains_iff_prefix_v4 (a : BitVec 32) (k : Nat) (ip : RawIP) :
    (IPNet.mk (.ip4 a) (.m4 (cidrBits 32 k))).contains ip = true ↔
      ∃ x, ip.to4 = some x ∧ x.toNat / 2 ^ (32 - k) = a.toNat / 2 ^ (32 - k) := by
  have key : ∀ x : BitVec 32, (a &&& cidrBits 32 k == x &&& cidrBits 32 k) = true ↔
      x.toNat / 2 ^ (32 - k) = a.toNat / 2 ^ (32 - k) := by
    intro x
    rw [beq_iff_eq, eq_comm, and_cidrBits_eq_iff_div]
  cases ip with
  | malformed => simp [IPNet.contains, IPNet.networkNumberAndMask, RawIP.to4]
  | ip4 x => simp [IPNet.contains, IPNet.networkNumberAndMask, RawIP.to4, key]
  | ip16 b =>
    by_cases hb : isMapped b <;>
      simp [IPNet.contains, IPNet.networkNumberAndMask, RawIP.to4, hb, key]

/-- IPv6 network `a/k` (`a` not IPv4-mapped): contains exactly the 16-byte, non-IPv4-mapped
    addresses with the same leading `k` bits.  NB: by Go's `Contains` semantics an IPv6
    network never contains an IPv4(-mapped) address — not even `::/0` (see `example`s below). -/
theorem contains_iff_prefix_v6 (a : BitVec 128) (ha : isMapped a = false) (k : Nat) (ip : RawIP) :
    (IPNet.mk (.ip16 a) (.m16 (cidrBits 128 k))).contains ip = true ↔
      ∃ x, ip = .ip16 x ∧ isMapped x = false ∧
        x.toNat / 2 ^ (128 - k) = a.toNat / 2 ^ (128 - k) := by
  have key : ∀ x : BitVec 128, (a &&& cidrBits 128 k == x &&& cidrBits 128 k) = true ↔
      x.toNat / 2 ^ (128 - k) = a.toNat / 2 ^ (128 - k) := by
    intro x
    rw [beq_iff_eq, eq_comm, and_cidrBits_eq_iff_div]
  cases ip with
  | malformed => simp [IPNet.contains, IPNet.networkNumberAndMask, RawIP.to4, ha]
  | ip4 x => simp [IPNet.contains, IPNet.networkNumberAndMask, RawIP.to4, ha]
  | ip16 b =>
    by_cases hb : isMapped b <;>
      simp [IPNet.contains, IPNet.networkNumberAndMask, RawIP.to4, hb, ha, key]

/-! ## 5. The driver entry point is covered by the theorems -/

/-- Whatever numbers the driver feeds to `NetSet.run`, with a lookup kind 0/1/2 (any address
    `net.ParseIP` can return, or a raw 4-byte one), the reported `Has` outcome is `ok` and
    equals the reported specification value. -/
theorem run_has_eq_spec (nets : List (Bool × Nat × Option Nat)) (kind bits : Nat)
    (hk : kind ≤ 2) :
    (NetSet.run nets (kind, bits)).has = .ok (NetSet.run nets (kind, bits)).spec := by
  simp only [NetSet.run]
  apply netset_lookup_eq
  · intro n hn
    simp only [List.mem_filterMap, List.mem_map, id] at hn
    obtain ⟨o, ⟨x, -, hx⟩, ho⟩ := hn
    subst ho
    exact parseIPNetSem_wf _ _ hx
  · match kind, hk with
    | 0, _ => simp [decodeLookup, parseIP4]
    | 1, _ => simp [decodeLookup, parseIP6]
    | 2, _ => simp [decodeLookup]

/-! ## 6. Non-vacuity: a concrete mixed-family configuration -/

/-- nested, overlapping, duplicated, mixed-family, with one network in IPv4-mapped notation -/
def exInputs : List NetInput :=
  [ .cidr4 0x0A000000#32 8,                                   -- 10.0.0.0/8
    .cidr4 0x0A010000#32 16,                                  -- 10.1.0.0/16      (nested in the /8)
    .bare (parseIP4 0x0A010203#32),                           -- 10.1.2.3         (nested in both)
    .cidr6 0xFFFFC0A80000#128 112,                            -- ::ffff:192.168.0.0/112 (= 192.168.0.0/16)
    .cidr4 0xC0A80100#32 24,                                  -- 192.168.1.0/24   (nested in the mapped net)
    .cidr6 0x20010db8000000000000000000000000#128 32,         -- 2001:db8::/32
    .cidr6 0x20010db8000100000000000000000000#128 48,         -- 2001:db8:1::/48  (nested)
    .cidr4 0x0A010000#32 16,                                  -- duplicate of the second
    .bare (parseIP6 1#128) ]                                  -- ::1

def exNets : List IPNet := (exInputs.map parseIPNetSem).filterMap id

/-- all nine strings parse … -/
example : exInputs.map parseIPNetSem = exNets.map some := by decide +kernel
/-- … so the hypotheses of `netset_has_iff` hold for a non-trivial list -/
example : ∀ n ∈ exNets, WellFormedNet n := by decide +kernel
/-- the set has five IPv4 maps (one of them with a 16-byte /112 mask) and three IPv6 maps -/
example : (match NetSet.build exNets with
    | .ok w => (w.ip4NetMaps.map (·.mask.size), w.ip6NetMaps.map (·.mask.size))
    | _ => ([], [])) = ([8, 16, 32, 112, 24], [32, 48, 128]) := by decide +kernel

/-- `netset_has_iff` instantiated on this configuration -/
example : NetSet.lookup exNets (parseIP4 0x0A010203#32) = .ok true ↔
    ∃ n ∈ exNets, n.contains (parseIP4 0x0A010203#32) = true :=
  netset_has_iff exNets (by decide +kernel) _ (by simp [parseIP4])

-- 10.1.2.3 (client text "10.1.2.3"): inside three nested networks
example : NetSet.lookup exNets (parseIP4 0x0A010203#32) = .ok true := by decide +kernel
-- 10.200.0.1: only inside 10.0.0.0/8
example : NetSet.lookup exNets (parseIP4 0x0AC80001#32) = .ok true := by decide +kernel
-- 11.1.2.3: outside
example : NetSet.lookup exNets (parseIP4 0x0B010203#32) = .ok false := by decide +kernel
-- 192.168.255.255 written "::ffff:192.168.255.255": inside the mapped-notation /112
example : NetSet.lookup exNets (parseIP6 0xFFFFC0A8FFFF#128) = .ok true := by decide +kernel
-- same client as raw 4 bytes
example : NetSet.lookup exNets (.ip4 0xC0A8FFFF#32) = .ok true := by decide +kernel
-- 192.169.0.0: outside
example : NetSet.lookup exNets (parseIP4 0xC0A90000#32) = .ok false := by decide +kernel
-- 2001:db8:1::5 inside /48 and /32; 2001:db8:ffff::1 inside /32 only; 2001:db9:: outside
example : NetSet.lookup exNets (parseIP6 0x20010db8000100000000000000000005#128) = .ok true := by
  decide +kernel
example : NetSet.lookup exNets (parseIP6 0x20010db8ffff00000000000000000001#128) = .ok true := by
  decide +kernel
example : NetSet.lookup exNets (parseIP6 0x20010db9000000000000000000000000#128) = .ok false := by
  decide +kernel
-- ::1 inside, ::2 outside
example : NetSet.lookup exNets (parseIP6 1#128) = .ok true := by decide +kernel
example : NetSet.lookup exNets (parseIP6 2#128) = .ok false := by decide +kernel
-- "::1.2.3.4" (IPv4-compatible, NOT mapped) is an IPv6 address: not in 0.0.0.0/0 …
example : NetSet.lookup [⟨.ip4 0#32, .m4 (cidrBits 32 0)⟩] (parseIP6 0x01020304#128) = .ok false := by
  decide +kernel
-- … and `::/0` does not cover IPv4 clients (Go's `Contains` agrees: families never mix)
example : NetSet.lookup [⟨.ip16 0#128, .m16 (cidrBits 128 0)⟩] (parseIP4 0x01020304#32) = .ok false
    ∧ (IPNet.mk (.ip16 0#128) (.m16 (cidrBits 128 0))).contains (parseIP4 0x01020304#32) = false := by
  decide +kernel
-- `::ffff:0:0/96` is "all of IPv4"
example : (parseIPNetSem (.cidr6 0xFFFF00000000#128 96)).map
    (fun n => NetSet.lookup [n] (parseIP4 0x01020304#32)) = some (.ok true) := by decide +kernel
-- nil / odd-length address: `getNetMaps` panics
example : NetSet.lookup exNets .malformed = .panic "IP is neither 4-byte nor 16-byte?" := by
  decide +kernel

/-- the host-bits rule in action: "10.1.2.3/8", "::ffff:10.0.0.0/95", "10.0.0.0/33" are
    rejected, "10.0.0.0/8", "::ffff:10.0.0.0/104" accepted -/
example : parseIPNetSem (.cidr4 0x0A010203#32 8) = none
    ∧ parseIPNetSem (.cidr6 0xFFFF0A000000#128 95) = none
    ∧ parseIPNetSem (.cidr4 0x0A000000#32 33) = none
    ∧ (parseIPNetSem (.cidr4 0x0A000000#32 8)).isSome = true
    ∧ (parseIPNetSem (.cidr6 0xFFFF0A000000#128 104)).isSome = true := by decide +kernel

/-- The hypothesis `WellFormedNet` of `netset_has_iff` is necessary.
    (a) host bits: the network value {10.1.2.3, /8} (which `ParseIPNet` refuses to produce)
        would be stored under a key no masked address can equal;
    (b) mask family: a 16-byte mask with fewer than 96 ones on an IPv4 network makes
        `Has` panic for 4-byte clients. -/
example :
    let bad : IPNet := ⟨.ip4 0x0A010203#32, .m4 (cidrBits 32 8)⟩
    ¬ WellFormedNet bad ∧ NetSet.lookup [bad] (parseIP4 0x0A010203#32) = .ok false
      ∧ bad.contains (parseIP4 0x0A010203#32) = true := by decide +kernel
example :
    let bad : IPNet := ⟨.ip4 0#32, .m16 (cidrBits 128 8)⟩
    ¬ WellFormedNet bad ∧ (NetSet.lookup [bad] (.ip4 0#32)).isPanic = true := by decide +kernel

/-- `NetSet.run` through the plain-number interface: "10.0.0.0/8", "::ffff:192.168.0.0/112",
    "10.1.2.3/8" (rejected), "2001:db8::/32", "::1"; client "::ffff:192.168.1.1" -/
example :
    let r := NetSet.run
      [(true, 0x0A000000, some 8), (false, 0xFFFFC0A80000, some 112), (true, 0x0A010203, some 8),
       (false, 0x20010db8000000000000000000000000, some 32), (false, 1, none)]
      (1, 0xFFFFC0A80101)
    r.parsed = [some (4, 0x0A000000, 4, 0xFF000000),
                some (16, 0xFFFFC0A80000, 16, 0xFFFFFFFFFFFFFFFFFFFFFFFFFFFF0000),
                none,
                some (16, 0x20010db8000000000000000000000000, 16, 0xFFFFFFFF000000000000000000000000),
                some (16, 1, 16, 0xFFFFFFFFFFFFFFFFFFFFFFFFFFFFFFFF)]
      ∧ r.has = .ok true ∧ r.spec = true := by
  decide +kernel

end O2P
