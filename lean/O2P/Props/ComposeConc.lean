/-
  O2P.Props.ComposeConc — the two models of the stored-session loader agree.

  `Model/Conc` is the small-step interleaving model of `loadSession / refreshSessionIfNeeded`
  (per-thread program counter over store / lock / IdP operations; C12's concurrent theorems are
  about its schedules).  `Model/Serve` (Layer A) has the same code as ONE function
  `getValidatedSession` over an environment of observed answers (C01 / C13 / C14 are about it).

  This file ties them: a request that runs ALONE (no other request takes a step in between) from an
  arbitrary configuration of store, free lock and identity provider ends exactly as Layer A computes
  from the environment read off that configuration:

    solo_refines    served ⇔ `getValidatedSession` yields a session; the number of refresh calls, whether
                    the refreshed session was saved, and whether the store entry was cleared agree

  So every sequential statement proved of Layer A is a statement about the Conc program, and the
  Conc schedules are interleavings of exactly the operations Layer A abstracts.
-/
import O2P.Model.Conc
import O2P.Model.Serve

namespace O2P.ComposeConc
open O2P

/-- token generation ↦ token text -/
def enc (g : Nat) : Str := Nat.toDigits 10 g

theorem enc_inj {a b : Nat} (h : enc a = enc b) : a = b := by
  have := congrArg (fun s => Nat.ofDigitChars 10 s 0) h
  simpa [enc, Nat.ofDigitChars_toDigits] using this

/-- the refresh period and clock used for the translation: a session is `fresh` iff it was created
    "now", stale iff created two periods ago -/
def period : Int := 1000000000
def nowNs : Int := 10 * 1000000000

def cfgC : Cfg := { refreshPeriod := period, skipNonce := true }

/-- a Conc session as a Layer-A session: freshness becomes the creation time, the token generation
    the ID / access token -/
def toSession (s : Conc.Sess) : Session :=
  { idToken := enc s.gen, accessToken := enc s.gen, refreshToken := enc s.gen,
    createdAt := some (if s.fresh then nowNs else nowNs - 3 * period) }

theorem needsRefresh_toSession (s : Conc.Sess) : needsRefresh cfgC nowNs (toSession s) = !s.fresh := by
  cases hf : s.fresh <;> simp [needsRefresh, toSession, Session.ageNs, cfgC, period, nowNs, hf] <;> decide

@[simp] theorem toSession_idToken (s : Conc.Sess) : (toSession s).idToken = enc s.gen := rfl
@[simp] theorem toSession_refreshToken (s : Conc.Sess) : (toSession s).refreshToken = enc s.gen := rfl
@[simp] theorem toSession_expiresOn (s : Conc.Sess) : (toSession s).expiresOn = none := rfl
@[simp] theorem cfgC_skipNonce : cfgC.skipNonce = true := rfl

/-- the environment a lone request observes in configuration `c` (lock free) -/
def envOf (c : Conc.Config) (base : Env) : Env :=
  { base with
    now := nowNs
    load1 := match c.store with | some s => .ok (toSession s) | none => .err
    lock := .obtained
    load2 := match c.store with | some s => .ok (toSession s) | none => .err
    -- the IdP redeems only its current generation and then issues the next one
    refresh := fun s => if s.refreshToken = enc c.idp.cur
      then .refreshed (toSession { fresh := true, gen := c.idp.cur + 1 }) else .err
    saveOK := true
    -- validation accepts exactly the generation that is current when it is asked: the next one after
    -- a successful refresh (stored generation = current), the current one otherwise
    tokenVerifies := fun t =>
      match c.store with
      | some s => if s.gen = c.idp.cur then decide (t = enc (c.idp.cur + 1)) else decide (t = enc c.idp.cur)
      | none => false }

/-- a lone request: thread 0 of a one-thread configuration, started at `load`, lock free -/
def solo (store : Option Conc.Sess) (idp : Conc.IdP) : Conc.Config :=
  { n := 1, store := store, lock := none, idp := idp,
    threads := fun _ => { pc := .load, sess := { fresh := false, gen := 0 } } }

/-- twelve steps are enough for every path through the program -/
def soloEnd (store : Option Conc.Sess) (idp : Conc.IdP) : Conc.Config :=
  Conc.run .real (solo store idp) (List.replicate 12 0)

/-- what the lone request did, in Layer A's vocabulary -/
structure Obs where
  served : Bool
  refreshCalls : Nat
  saved : Bool        -- the store now holds the refreshed session (generation cur+1, fresh)
  cleared : Bool      -- the store entry was removed
  deriving DecidableEq, Repr

def obsConc (store : Option Conc.Sess) (idp : Conc.IdP) : Obs :=
  let e := soloEnd store idp
  { served := decide ((e.threads 0).pc = .done .served)
    refreshCalls := e.idp.calls - idp.calls
    saved := decide (e.store = some { fresh := true, gen := idp.cur + 1 } ∧ e.idp.cur = idp.cur + 1)
    cleared := decide (e.store = none) }

def obsServe (store : Option Conc.Sess) (idp : Conc.IdP) (base : Env) : Obs :=
  let o := getValidatedSession cfgC (envOf (solo store idp) base)
  { served := o.session.isSome
    refreshCalls := o.refreshCalls
    saved := o.saved.isSome
    cleared := o.isErr }

theorem enc_succ_ne (g : Nat) : enc (g + 1) ≠ enc g := fun h => by
  have := enc_inj h; omega

/-- **solo_refines.**  For every store content, every identity-provider state and every other
    environment field: the lone Conc request and Layer A's `getValidatedSession` on the translated
    environment agree on served / number of refresh calls / saved / cleared. -/
theorem solo_refines (store : Option Conc.Sess) (idp : Conc.IdP) (base : Env) :
    obsConc store idp = obsServe store idp base := by
  cases store with
  | none =>
    simp [obsConc, obsServe, soloEnd, solo, Conc.run, Conc.step, Conc.stepThread, Conc.Config.setT,
      getValidatedSession, envOf, List.replicate]
  | some s =>
    obtain ⟨fresh, gen⟩ := s
    cases fresh with
    | true =>
      have hn := needsRefresh_toSession { fresh := true, gen := gen }
      simp only [Bool.not_true] at hn
      simp [obsConc, obsServe, soloEnd, solo, Conc.run, Conc.step, Conc.stepThread, Conc.Config.setT,
        getValidatedSession, envOf, List.replicate, hn]
    | false =>
      have hn := needsRefresh_toSession { fresh := false, gen := gen }
      simp only [Bool.not_false] at hn
      by_cases hg : gen = idp.cur
      · subst hg
        simp [obsConc, obsServe, soloEnd, solo, Conc.run, Conc.step, Conc.stepThread, Conc.Config.setT,
          Conc.relLock, getValidatedSession, refreshUnderLock, refreshOutcome, validateSessionStep,
          Env.validate, Session.isExpired, envOf, List.replicate, hn]
      · have hne : enc gen ≠ enc idp.cur := fun h => hg (enc_inj h)
        simp [obsConc, obsServe, soloEnd, solo, Conc.run, Conc.step, Conc.stepThread, Conc.Config.setT,
          Conc.relLock, getValidatedSession, refreshUnderLock, refreshOutcome, validateSessionStep,
          Env.validate, Session.isExpired, envOf, List.replicate, hn, hg, hne]

/-! ### the four paths, concretely -/

/-- stale session with the current generation: one refresh, saved, served -/
example : obsConc (some { fresh := false, gen := 3 }) { cur := 3, calls := 0, staleCalls := 0 }
    = { served := true, refreshCalls := 1, saved := true, cleared := false } := by decide +kernel
/-- stale session holding an already rotated generation: the refresh is refused, validation fails, cleared -/
example : obsConc (some { fresh := false, gen := 2 }) { cur := 3, calls := 5, staleCalls := 0 }
    = { served := false, refreshCalls := 1, saved := false, cleared := true } := by decide +kernel
/-- fresh session: served without any identity-provider call -/
example : obsConc (some { fresh := true, gen := 7 }) { cur := 9, calls := 0, staleCalls := 0 }
    = { served := true, refreshCalls := 0, saved := false, cleared := false } := by decide +kernel
/-- no store entry: unauthenticated, cleared -/
example : obsConc none { cur := 0, calls := 0, staleCalls := 0 }
    = { served := false, refreshCalls := 0, saved := false, cleared := true } := by decide +kernel

end O2P.ComposeConc
