import O2P.Model.Routes
/-
  C15 (skip-auth rules / preflight part).  Trusted-IP part: Props/C15Net.lean.
-/
namespace O2P

/-- A request as far as the bypass decision can see it. Query, fragment and headers are
    fields so that the non-interference statements below are about real record updates. -/
structure BypassReq where
  method   : Str
  path     : Str
  rawQuery : Str := []
  fragment : Str := []
  headers  : List (Str × Str) := []

def routeDecision (rx : Str → Str → Bool) (routes : List Route) (r : BypassReq) : Bool :=
  isAllowedRoute rx routes r.method r.path

/-- **route_iff**: a request is exempted by the rule list iff some rule has the same method
    (or names none) and its regex matches the path (does not match, for a negated rule). -/
theorem route_iff (rx : Str → Str → Bool) (routes : List Route) (method path : Str) :
    isAllowedRoute rx routes method path = true ↔
      ∃ r ∈ routes, (r.method = [] ∨ method = r.method) ∧ (rx r.pattern path ≠ r.negate) := by
  unfold isAllowedRoute routeAllows
  simp only [List.any_eq_true, Bool.and_eq_true, Bool.or_eq_true, List.isEmpty_iff, beq_iff_eq,
    bne_iff_ne, ne_eq]

/-- **query_irrelevant**: query string, fragment and headers have no influence. -/
theorem query_irrelevant (rx : Str → Str → Bool) (routes : List Route) (r : BypassReq)
    (q f : Str) (h : List (Str × Str)) :
    routeDecision rx routes { r with rawQuery := q, fragment := f, headers := h } =
      routeDecision rx routes r := rfl

/-- **preflight_iff** -/
theorem preflight_iff (skip : Bool) (method : Str) :
    isPreflight skip method = true ↔ skip = true ∧ method = "OPTIONS".toList := by
  simp [isPreflight]

/-- the whole bypass decision is the disjunction the property lists, nothing else -/
theorem allowed_iff (rx : Str → Str → Bool) (skip : Bool) (routes : List Route) (trusted : Bool)
    (method path : Str) :
    isAllowedRequest rx skip routes trusted method path = true ↔
      (skip = true ∧ method = "OPTIONS".toList) ∨
      (∃ r ∈ routes, (r.method = [] ∨ method = r.method) ∧ (rx r.pattern path ≠ r.negate)) ∨
      trusted = true := by
  unfold isAllowedRequest
  simp only [Bool.or_eq_true, preflight_iff, route_iff, or_assoc]

/-! ### the rule LIST: every configured rule counts, nothing else about the list does

  The decision depends on the list only through membership: writing a rule twice, reordering the rules, or
  mixing `--skip-auth-regex` and `--skip-auth-route` entries changes nothing; and every rule the operator
  wrote is in force — two rules that share a regular expression but differ in method or negation are two
  rules (dropping either one can only remove exemptions, `route_subset_mono`, and does for the request
  exhibited in `shared_regex_two_rules`). -/

/-- lists with the same members decide alike (order and repetition are irrelevant) -/
theorem route_congr_mem (rx : Str → Str → Bool) (rs rs' : List Route) (h : ∀ r, r ∈ rs ↔ r ∈ rs')
    (method path : Str) : isAllowedRoute rx rs method path = isAllowedRoute rx rs' method path := by
  rw [Bool.eq_iff_iff, route_iff, route_iff]
  constructor
  · rintro ⟨r, hr, hm⟩; exact ⟨r, (h r).1 hr, hm⟩
  · rintro ⟨r, hr, hm⟩; exact ⟨r, (h r).2 hr, hm⟩

theorem route_perm (rx : Str → Str → Bool) (rs rs' : List Route) (h : rs.Perm rs') (method path : Str) :
    isAllowedRoute rx rs method path = isAllowedRoute rx rs' method path :=
  route_congr_mem rx rs rs' (fun _ => h.mem_iff) method path

/-- a rule written twice is the rule written once -/
theorem route_dup (rx : Str → Str → Bool) (r : Route) (rs : List Route) (method path : Str) :
    isAllowedRoute rx (r :: r :: rs) method path = isAllowedRoute rx (r :: rs) method path :=
  route_congr_mem rx _ _ (fun x => by simp) method path

/-- more rules exempt more: whatever a sub-list exempts, the list exempts -/
theorem route_subset_mono (rx : Str → Str → Bool) (rs rs' : List Route) (h : ∀ r ∈ rs, r ∈ rs')
    (method path : Str) (ha : isAllowedRoute rx rs method path = true) : isAllowedRoute rx rs' method path = true := by
  rw [route_iff] at ha ⊢
  obtain ⟨r, hr, hm⟩ := ha
  exact ⟨r, h r hr, hm⟩

/-- every configured rule is in force: a request its rule admits is exempt whatever else is configured -/
theorem every_rule_counts (rx : Str → Str → Bool) (legacy rules : List Str) (rule : Str) (h : rule ∈ rules)
    (method path : Str)
    (hm : (parseRoute rule).method = [] ∨ method = (parseRoute rule).method)
    (hp : rx (parseRoute rule).pattern path ≠ (parseRoute rule).negate) :
    isAllowedRoute rx (buildRoutes legacy rules) method path = true := by
  rw [route_iff]
  refine ⟨parseRoute rule, ?_, hm, hp⟩
  unfold buildRoutes
  exact List.mem_append_right _ (List.mem_map_of_mem h)

theorem every_legacy_regex_counts (rx : Str → Str → Bool) (legacy rules : List Str) (re : Str) (h : re ∈ legacy)
    (method path : Str) (hp : rx re path = true) :
    isAllowedRoute rx (buildRoutes legacy rules) method path = true := by
  rw [route_iff]
  refine ⟨legacyRoute re, ?_, Or.inl rfl, ?_⟩
  · unfold buildRoutes
    exact List.mem_append_left _ (List.mem_map_of_mem h)
  · simp [legacyRoute, hp]

/-- two rules sharing one regular expression are two rules: with `GET=^/r` and `POST=^/r` configured a POST is
    exempt, and it is NOT once the second rule is dropped (any regex engine that matches `/r/1` against `^/r`) -/
theorem shared_regex_two_rules (rx : Str → Str → Bool) (hrx : rx "^/r".toList "/r/1".toList = true) :
    isAllowedRoute rx (buildRoutes [] ["GET=^/r".toList, "POST=^/r".toList]) "POST".toList "/r/1".toList = true ∧
    isAllowedRoute rx (buildRoutes [] ["GET=^/r".toList]) "POST".toList "/r/1".toList = false := by
  have e1 : parseRoute "GET=^/r".toList = { method := "GET".toList, negate := false, pattern := "^/r".toList } := by decide +kernel
  have e2 : parseRoute "POST=^/r".toList = { method := "POST".toList, negate := false, pattern := "^/r".toList } := by decide +kernel
  have hne : ("POST".toList == "GET".toList) = false := by decide +kernel
  have hemp : ("GET".toList).isEmpty = false := by decide +kernel
  have hemp2 : ("POST".toList).isEmpty = false := by decide +kernel
  constructor
  · unfold isAllowedRoute buildRoutes
    rw [List.map_nil, List.nil_append, List.map_cons, List.map_cons, List.map_nil, e1, e2]
    simp only [List.any_cons, List.any_nil, routeAllows, hne, hemp, hemp2, hrx, beq_self_eq_true, Bool.or_false,
      Bool.false_or, Bool.true_and, Bool.false_and, Bool.or_true]
    decide
  · unfold isAllowedRoute buildRoutes
    rw [List.map_nil, List.nil_append, List.map_cons, List.map_nil, e1]
    simp only [List.any_cons, List.any_nil, routeAllows, hne, hemp, Bool.or_false, Bool.false_and]

/-! ### rule grammar: negated iff the FIRST separator is `!=` -/

theorem findSep_cons_other (c : Char) (cs : Str) (hc : c ≠ '=') (h : c ≠ '!' ∨ cs.head? ≠ some '=') :
    findSep (c :: cs) = (findSep cs).map (fun (i, l) => (i + 1, l)) := by
  rw [findSep]
  · intro t; exact hc t
  · intro t hb hcs; rcases h with h | h
    · exact h hb
    · subst hcs; simp at h

theorem findSep_none (s : Str) : findSep s = none ↔ '=' ∉ s := by
  induction s with
  | nil => simp [findSep]
  | cons c cs ih =>
    by_cases hc : c = '='
    · subst hc; simp [findSep]
    · by_cases hb : c = '!' ∧ cs.head? = some '='
      · obtain ⟨hb1, hb2⟩ := hb
        subst hb1
        cases cs with
        | nil => simp at hb2
        | cons d ds => simp at hb2; subst hb2; simp [findSep]
      · have hb' : c ≠ '!' ∨ cs.head? ≠ some '=' := by
          by_cases h1 : c = '!'
          · right; exact fun h2 => hb ⟨h1, h2⟩
          · left; exact h1
        rw [findSep_cons_other c cs hc hb']
        simp only [Option.map_eq_none_iff, ih, List.mem_cons, not_or]
        exact ⟨fun h => ⟨fun h' => hc h'.symm, h⟩, fun h => h.2⟩

/-- a rule without any `=` is a bare, un-negated, any-method regex -/
theorem parseRoute_bare (rule : Str) (h : '=' ∉ rule) :
    parseRoute rule = { method := [], negate := false, pattern := rule } := by
  unfold parseRoute; rw [(findSep_none rule).2 h]

theorem findSep_prefix (m rest : Str) (h1 : '=' ∉ m) (h2 : '!' ∉ m) :
    findSep (m ++ rest) = (findSep rest).map (fun (i, l) => (i + m.length, l)) := by
  induction m with
  | nil => simp
  | cons c cs ih =>
    simp at h1 h2
    have hc : c ≠ '=' := fun h => h1.1 h.symm
    have hb : c ≠ '!' := fun h => h2.1 h.symm
    simp only [List.cons_append]
    rw [findSep_cons_other c _ hc (Or.inl hb), ih h1.2 h2.2]
    cases findSep rest <;> simp <;> omega

/-- `M=re` where `M` contains neither `=` nor `!`: method M, not negated, regex `re`
    **whatever `re` contains** (in particular a later `!=` does not negate the rule). -/
theorem parseRoute_eq (m re : Str) (h1 : '=' ∉ m) (h2 : '!' ∉ m) :
    parseRoute (m ++ '=' :: re) = { method := upper m, negate := false, pattern := re } := by
  have : findSep (m ++ '=' :: re) = some (m.length, 1) := by
    rw [findSep_prefix m _ h1 h2]; simp [findSep]
  unfold parseRoute; rw [this]; simp

/-- `M!=re` where `M` contains neither `=` nor `!`: method M, negated, regex `re`. -/
theorem parseRoute_neq (m re : Str) (h1 : '=' ∉ m) (h2 : '!' ∉ m) :
    parseRoute (m ++ '!' :: '=' :: re) = { method := upper m, negate := true, pattern := re } := by
  have : findSep (m ++ '!' :: '=' :: re) = some (m.length, 2) := by
    rw [findSep_prefix m _ h1 h2]; simp [findSep]
  unfold parseRoute; rw [this]; simp

/-- regression witness of the defect repaired by the `fix:` commit (negation used to be
    `strings.Contains(rule, "!=")`): `GET=^/a!=b$` is NOT a negated rule. -/
example : (parseRoute "GET=^/a!=b$".toList).negate = false := by decide
example : parseRoute "GET!=^/a".toList = { method := "GET".toList, negate := true, pattern := "^/a".toList } := by decide
example : parseRoute "!=^/x".toList = { method := [], negate := true, pattern := "^/x".toList } := by decide
example : parseRoute "get=^/x".toList = { method := "GET".toList, negate := false, pattern := "^/x".toList } := by decide

/-- non-vacuity of `route_iff` with a toy regex engine (substring match) -/
example : isAllowedRoute (fun p s => containsSub p s) [parseRoute "GET=/pub".toList] "GET".toList "/pub/x".toList = true := by decide
example : isAllowedRoute (fun p s => containsSub p s) [parseRoute "GET=/pub".toList] "POST".toList "/pub/x".toList = false := by decide

end O2P
