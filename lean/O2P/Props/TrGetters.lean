import O2P.Gen.Tr
import O2P.Lemmas.GoPrim
import O2P.Props.TrRedirect
import O2P.Props.TrReq
import O2P.Model.Redirect
import O2P.Model.Serve
/-
  O2P.Props.TrGetters — the regenerated redirect getters of the application director
  (pkg/app/redirect: `validateRedirect`, `hasProxyPrefix`, `getXForwardedHeadersRedirect`, `getURIRedirect`)
  against `Redirect.validateRedirect`, `getXForwarded`, `getURI` of O2P/Model/Redirect.lean — the candidates
  `getRedirect_valid` / `C06_main` range over — with the request read through the regenerated getters of
  pkg/requests/util (Props/TrReq), for every whitelist, request and configuration.
-/
set_option linter.unusedSimpArgs false
set_option linter.unusedVariables false
open O2P O2P.Go

namespace O2P.TrGetters

/-- the validator the director holds, as the model's predicate -/
def validOf (E : Go.Ext) (allowed : List Str) (s : Str) : Bool :=
  Redirect.isValidRedirect allowed s ((E.urlParse s).map (fun t => (t.1, t.2.1)))

theorem validateRedirect_eq (E : Go.Ext) (allowed : List Str) (r fmt : Str)
    (hrx : E.regexMatch TrRedirect.invalidPattern = Redirect.invalidRel) :
    Gen.Tr.validateRedirect E allowed r fmt = .ok (Redirect.validateRedirect (validOf E allowed) r) := by
  unfold Gen.Tr.validateRedirect Redirect.validateRedirect validOf
  rw [TrRedirect.IsValidRedirect_eq E allowed r hrx]
  by_cases hv : Redirect.isValidRedirect allowed r ((E.urlParse r).map (fun t => (t.1, t.2.1))) = true
  · simp [hv, bind, Except.bind, pure, Except.pure]
  · by_cases hr : r = [] <;> simp [hv, hr, bind, Except.bind, pure, Except.pure]

theorem hasProxyPrefix_eq (E : Go.Ext) (pre path : Str) :
    Gen.Tr.hasProxyPrefix E pre path = .ok (hasPrefix pre path) := by
  simp [Gen.Tr.hasProxyPrefix, Go.stringsHasPrefix, pure, Except.pure]

theorem getXForwarded_eq (E : Go.Ext) (allowed : List Str) (pre : Str) (cfg : Cfg) (r : O2P.Req)
    (hrx : E.regexMatch TrRedirect.invalidPattern = Redirect.invalidRel) :
    Gen.Tr.getXForwardedHeadersRedirect E allowed pre (TrReq.reqOf cfg r)
      = .ok (Redirect.getXForwarded (validOf E allowed) (isForwardedRequest cfg r) (requestProto cfg r)
              (requestHost cfg r) (requestURI cfg r) pre) := by
  unfold Gen.Tr.getXForwardedHeadersRedirect Redirect.getXForwarded
  simp only [TrReq.IsForwardedRequest_eq, TrReq.GetRequestURI_eq, TrReq.GetRequestProto_eq, TrReq.GetRequestHost_eq,
    hasProxyPrefix_eq, bind, Except.bind, pure, Except.pure]
  by_cases hf : isForwardedRequest cfg r = true
  · by_cases hp : hasPrefix pre (requestURI cfg r) = true
    · simp [hf, hp, validateRedirect_eq E allowed _ _ hrx, Redirect.schemeSep, List.append_assoc]
    · simp [hf, hp, validateRedirect_eq E allowed _ _ hrx, Redirect.schemeSep, List.append_assoc]
  · simp [hf]

theorem getURI_eq (E : Go.Ext) (allowed : List Str) (pre : Str) (cfg : Cfg) (r : O2P.Req)
    (hrx : E.regexMatch TrRedirect.invalidPattern = Redirect.invalidRel) :
    Gen.Tr.getURIRedirect E allowed pre (TrReq.reqOf cfg r)
      = .ok (Redirect.getURI (validOf E allowed) (requestURI cfg r) r.uri pre) := by
  unfold Gen.Tr.getURIRedirect Redirect.getURI
  simp only [TrReq.GetRequestURI_eq, validateRedirect_eq E allowed _ _ hrx, hasProxyPrefix_eq,
    bind, Except.bind, pure, Except.pure]
  have hu : (TrReq.reqOf cfg r).requestURI = r.uri := rfl
  by_cases he : Redirect.validateRedirect (validOf E allowed) (requestURI cfg r) = []
  · by_cases hp : hasPrefix pre r.uri = true <;> simp [he, hu, hp]
  · by_cases hp : hasPrefix pre (Redirect.validateRedirect (validOf E allowed) (requestURI cfg r)) = true <;>
      simp [he, hu, hp]

end O2P.TrGetters
