import O2P.Gen.Tr
import O2P.Lemmas.GoPrim
import O2P.Model.Serve
import O2P.Model.Signed
/-
  O2P.Props.TrState — the regenerated `encodeState` / `decodeState` (oauthproxy.go) and `HashNonce` /
  `CheckNonce` (pkg/encryption/nonce.go) against the models the C03 / C05 theorems are about
  (`encodeStateRaw`, `decodeStateRaw` of Layer A; `hashNonce`, `checkNonce` of O2P/Model/Signed).
  `decodeState` DISCARDS the error of the base64 decoder and parses whatever bytes it hands back: that
  lenient decoder is the external `E.b64RawUrlLenient` here, the parameter `decodeB64` of the Layer-A
  callback — for every such function.
-/
set_option linter.unusedSimpArgs false
set_option linter.unusedVariables false
open O2P O2P.Go

namespace O2P.TrState

theorem encodeState_eq (E : Go.Ext) (nonce redirect : Str) (encode : Bool) :
    Gen.Tr.encodeState E nonce redirect encode
      = .ok (if encode then b64Encode true false (encodeStateRaw nonce redirect) else encodeStateRaw nonce redirect) := by
  unfold Gen.Tr.encodeState encodeStateRaw
  cases encode <;> simp [pure, Except.pure, Go.b64RawUrlEncode]

/-- `(nonce, redirect, nil)` iff the text splits at its first colon; an error otherwise -/
def stateResult (r : Str × Str × Go.Err) : Option (Str × Str) :=
  match r.2.2 with
  | none => some (r.1, r.2.1)
  | some _ => none

theorem decodeState_eq (E : Go.Ext) (state : Str) (encode : Bool) :
    (Gen.Tr.decodeState E state encode).map stateResult
      = .ok (decodeStateRaw (if encode then E.b64RawUrlLenient state else state)) := by
  unfold Gen.Tr.decodeState decodeStateRaw Go.stringsSplitN2
  cases encode
  · simp only [Bool.false_eq_true, if_false]
    obtain ⟨r, hr⟩ : ∃ r, splitFirst ':' state = r := ⟨_, rfl⟩
    simp only [hr]
    obtain ⟨a, b⟩ := r
    cases b <;> simp [Go.len, Go.idx, Except.map, stateResult, pure, Except.pure, bind, Except.bind]
  · simp only [if_true]
    obtain ⟨r, hr⟩ : ∃ r, splitFirst ':' (E.b64RawUrlLenient state) = r := ⟨_, rfl⟩
    simp only [hr]
    obtain ⟨a, b⟩ := r
    cases b <;> simp [Go.len, Go.idx, Except.map, stateResult, pure, Except.pure, bind, Except.bind]

theorem HashNonce_eq (E : Go.Ext) (nonce : Option Str) :
    Gen.Tr.HashNonce E nonce = .ok (hashNonce E.sha nonce) := by
  unfold Gen.Tr.HashNonce hashNonce
  cases nonce <;> simp [pure, Except.pure, Go.shaNew, Go.shaWrite, Go.shaSum, Go.b64RawUrlEncode]

theorem CheckNonce_eq (E : Go.Ext) (nonce : Option Str) (hashed : Str) :
    Gen.Tr.CheckNonce E nonce hashed = .ok (checkNonce E.sha nonce hashed) := by
  unfold Gen.Tr.CheckNonce checkNonce
  simp only [HashNonce_eq, bind, Except.bind, pure, Except.pure, Go.hmacEqual]
  by_cases h : hashNonce E.sha nonce = hashed <;> simp [h]

/-! the CSRF cookie's own checks are these, on its two nonces -/

theorem HashOAuthState_eq (E : Go.Ext) (st : Option Str) :
    Gen.Tr.HashOAuthState E st = .ok (hashNonce E.sha st) := by
  simp [Gen.Tr.HashOAuthState, HashNonce_eq, bind, Except.bind, pure, Except.pure]

theorem HashOIDCNonce_eq (E : Go.Ext) (n : Option Str) :
    Gen.Tr.HashOIDCNonce E n = .ok (hashNonce E.sha n) := by
  simp [Gen.Tr.HashOIDCNonce, HashNonce_eq, bind, Except.bind, pure, Except.pure]

theorem CheckOAuthState_eq (E : Go.Ext) (st : Option Str) (hashed : Str) :
    Gen.Tr.CheckOAuthState E st hashed = .ok (checkNonce E.sha st hashed) := by
  simp [Gen.Tr.CheckOAuthState, CheckNonce_eq, bind, Except.bind, pure, Except.pure]

theorem CheckOIDCNonce_eq (E : Go.Ext) (n : Option Str) (hashed : Str) :
    Gen.Tr.CheckOIDCNonce E n hashed = .ok (checkNonce E.sha n hashed) := by
  simp [Gen.Tr.CheckOIDCNonce, CheckNonce_eq, bind, Except.bind, pure, Except.pure]

/-- **C03 on the regenerated check**: the callback's state nonce is accepted against a CSRF cookie holding the
    nonce `n` exactly when it is the unpadded URL-base64 of SHA-256(n) — the value `/oauth2/start` put into the
    state when it set that cookie (`HashOAuthState_eq`) -/
theorem state_accepted_iff (E : Go.Ext) (n hashed : Str) :
    Gen.Tr.CheckOAuthState E (some n) hashed = .ok true ↔ hashed = b64Encode true false (E.sha n) := by
  rw [CheckOAuthState_eq]
  simp only [Except.ok.injEq, checkNonce, hashNonce]
  constructor
  · intro h; exact (of_decide_eq_true h).symm
  · intro h; exact decide_eq_true h.symm

/-- … and the state `/oauth2/start` issues for that cookie is accepted by it -/
theorem own_state_accepted (E : Go.Ext) (n : Str) :
    ∃ h, Gen.Tr.HashOAuthState E (some n) = .ok h ∧ Gen.Tr.CheckOAuthState E (some n) h = .ok true := by
  refine ⟨_, HashOAuthState_eq E (some n), ?_⟩
  rw [state_accepted_iff]
  rfl

end O2P.TrState
