/-
  O2P.Props.C17 — "an authenticated request is delivered to the upstream whose configured path is
  the longest prefix of the request path (for rewrite rules, the longest-pattern rule that
  matches), the path being rewritten only as the rule specifies".

  Model: `O2P/Model/Upstream.lean` (see the header there for the Go ↔ Lean dictionary and the
  gorilla/mux facts/assumptions).  All theorems quantify over
    * every upstream list `ups`,
    * EVERY order `sorted` that `sort.Slice` may produce (`Admissible sorted ups`),
    * every regex oracle `rx`, every request path.
-/
import O2P.Lemmas.Upstream

namespace O2P
namespace Upstream

/-! ## 2. the comparator is a strict weak order, `sortUpstreams` is admissible -/

/-- `less` (the comparator of `sortByPathLongest`) is a strict weak order: irreflexive,
    transitive, and incomparability is transitive.  (This is what `sort.Slice` needs for its
    result to be free of inversions.) -/
theorem less_strict_weak_order :
    (∀ a, less a a = false) ∧
    (∀ a b c, less a b = true → less b c = true → less a c = true) ∧
    (∀ a b c, less a b = false → less b a = false → less b c = false → less c b = false →
        less a c = false ∧ less c a = false) :=
  ⟨less_irrefl, fun _ _ _ => less_trans, fun _ _ _ => incomp_trans⟩

/-- The executable stable insertion sort returns an admissible order. -/
theorem sort_admissible (ups : List Upstream) : Admissible (sortUpstreams ups) ups :=
  ⟨sortUpstreams_perm ups, sortUpstreams_ordered ups⟩

/-- `Admissible` in index form, as in the informal statement:
    `∀ i < j, ¬ less sorted[j] sorted[i]`. -/
theorem admissible_iff_getElem (sorted ups : List Upstream) :
    Admissible sorted ups ↔
      sorted.Perm ups ∧
      ∀ (i j : Nat) (_ : i < sorted.length) (_ : j < sorted.length), i < j →
        less sorted[j] sorted[i] = false := by
  unfold Admissible
  rw [ordered_iff_getElem]

/-! ## 1. first match = longest match -/

/-- `w` is a matching rewrite upstream whose pattern is at least as long as that of every other
    matching rewrite upstream -/
def IsLongestRewriteMatch (rx : Str → Str → Bool) (ups : List Upstream) (path : Str)
    (w : Upstream) : Prop :=
  w ∈ ups ∧ w.isRewrite = true ∧ routeMatches rx w path = true ∧
    ∀ v ∈ ups, v.isRewrite = true → routeMatches rx v path = true → v.path.length ≤ w.path.length

/-- `w` is a matching plain upstream whose path is at least as long as that of every other
    matching plain upstream -/
def IsLongestPlainMatch (rx : Str → Str → Bool) (ups : List Upstream) (path : Str)
    (w : Upstream) : Prop :=
  w ∈ ups ∧ w.isRewrite = false ∧ routeMatches rx w path = true ∧
    ∀ v ∈ ups, v.isRewrite = false → routeMatches rx v path = true → v.path.length ≤ w.path.length

/-- what the first match in any admissible order satisfies (no hypotheses on `ups`) -/
theorem firstMatch_some_spec {rx : Str → Str → Bool} {ups sorted : List Upstream} {path : Str}
    {w : Upstream} (ha : Admissible sorted ups) (hf : firstMatch rx sorted path = some w) :
    w ∈ ups ∧ routeMatches rx w path = true ∧
      ∀ v ∈ ups, routeMatches rx v path = true → less v w = false := by
  unfold firstMatch at hf
  have hmw : routeMatches rx w path = true := by simpa using List.find?_some hf
  refine ⟨ha.1.mem_iff.1 (List.mem_of_find?_eq_some hf), hmw, ?_⟩
  intro v hv hm
  exact find?_ordered ha.2 hf v (ha.1.mem_iff.2 hv) hm

/-- (c) `firstMatch` finds nothing iff no upstream matches. -/
theorem firstMatch_none_iff {rx : Str → Str → Bool} {ups sorted : List Upstream} {path : Str}
    (ha : Admissible sorted ups) :
    firstMatch rx sorted path = none ↔ ∀ u ∈ ups, routeMatches rx u path = false := by
  unfold firstMatch
  rw [List.find?_eq_none]
  constructor
  · intro h u hu
    have := h u (ha.1.mem_iff.2 hu)
    simpa using this
  · intro h u hu
    have := h u (ha.1.mem_iff.1 hu)
    simp [this]

/-- (a) If some rewrite upstream matches, the first match is a matching rewrite upstream with a
    longest pattern among the matching rewrite upstreams. -/
theorem sorted_firstMatch_longest_rewrite {rx : Str → Str → Bool} {ups sorted : List Upstream}
    {path : Str} (ha : Admissible sorted ups)
    (hex : ∃ u ∈ ups, u.isRewrite = true ∧ routeMatches rx u path = true) :
    ∃ w, firstMatch rx sorted path = some w ∧ IsLongestRewriteMatch rx ups path w := by
  obtain ⟨u, hu, hur, hum⟩ := hex
  cases hf : firstMatch rx sorted path with
  | none =>
    have := (firstMatch_none_iff ha).1 hf u hu
    rw [this] at hum; cases hum
  | some w =>
    obtain ⟨hw, hwm, hall⟩ := firstMatch_some_spec ha hf
    have hwr : w.isRewrite = true := by
      have := hall u hu hum
      rw [less_eq_false_iff] at this
      rcases this with ⟨h, _⟩ | ⟨h, _⟩
      · rw [hur] at h; cases h
      · rw [← h]; exact hur
    refine ⟨w, rfl, hw, hwr, hwm, ?_⟩
    intro v hv hvr hvm
    have := hall v hv hvm
    rw [less_eq_false_iff] at this
    rcases this with ⟨h, _⟩ | ⟨_, h⟩
    · rw [hvr] at h; cases h
    · exact h

/-- with distinct plain paths the longest matching plain upstream is unique: two matching
    prefix/exact paths of the same length are the same string -/
theorem longestPlainMatch_unique {rx : Str → Str → Bool} {ups : List Upstream} {path : Str}
    (hd : DistinctPlainPaths ups) {w w' : Upstream}
    (h : IsLongestPlainMatch rx ups path w) (h' : IsLongestPlainMatch rx ups path w') : w = w' := by
  obtain ⟨hw, hr, hm, hmax⟩ := h
  obtain ⟨hw', hr', hm', hmax'⟩ := h'
  have hl : w.path.length = w'.path.length :=
    Nat.le_antisymm (hmax' w hw hr hm) (hmax w' hw' hr' hm')
  exact hd.eq_of_path_eq hw hw' hr hr' (plain_match_path_eq hr hr' hm hm' hl)

/-- (b, →) no hypothesis on `ups` needed -/
theorem firstMatch_plain_isLongest {rx : Str → Str → Bool} {ups sorted : List Upstream}
    {path : Str} (ha : Admissible sorted ups)
    (hno : ∀ u ∈ ups, u.isRewrite = true → routeMatches rx u path = false)
    {w : Upstream} (hf : firstMatch rx sorted path = some w) :
    IsLongestPlainMatch rx ups path w := by
  obtain ⟨hw, hwm, hall⟩ := firstMatch_some_spec ha hf
  have hwr : w.isRewrite = false := by
    cases h : w.isRewrite with
    | false => rfl
    | true => rw [hno w hw h] at hwm; cases hwm
  refine ⟨hw, hwr, hwm, ?_⟩
  intro v hv hvr hvm
  have := hall v hv hvm
  rw [less_eq_false_iff] at this
  rcases this with ⟨_, h⟩ | ⟨_, h⟩
  · rw [hwr] at h; cases h
  · exact h

/-- (b) If no rewrite upstream matches, the first match is exactly the (unique) plain upstream
    that matches with the longest path. -/
theorem sorted_firstMatch_longest_plain {rx : Str → Str → Bool} {ups sorted : List Upstream}
    {path : Str} (hd : DistinctPlainPaths ups) (ha : Admissible sorted ups)
    (hno : ∀ u ∈ ups, u.isRewrite = true → routeMatches rx u path = false) (w : Upstream) :
    firstMatch rx sorted path = some w ↔ IsLongestPlainMatch rx ups path w := by
  constructor
  · exact firstMatch_plain_isLongest ha hno
  · intro hw
    cases hf : firstMatch rx sorted path with
    | none =>
      have := (firstMatch_none_iff ha).1 hf w hw.1
      rw [hw.2.2.1] at this; cases this
    | some w' =>
      rw [longestPlainMatch_unique hd hw (firstMatch_plain_isLongest ha hno hf)]

/-- **C17 routing theorem.**  For every upstream list whose plain (non-rewrite) upstreams have
    pairwise distinct paths, every order `sort.Slice` may produce, every regex oracle and every
    path:
    (a) if some rewrite upstream matches, the first match is a matching rewrite upstream of
        maximal pattern length;
    (b) otherwise the first match is exactly the matching plain upstream with the longest path
        (prefix match for paths ending in `/`, exact match otherwise) — unique;
    (c) the first match is `none` iff no upstream matches. -/
theorem sorted_firstMatch_longest (ups sorted : List Upstream) (rx : Str → Str → Bool)
    (path : Str) (hd : DistinctPlainPaths ups) (ha : Admissible sorted ups) :
    ((∃ u ∈ ups, u.isRewrite = true ∧ routeMatches rx u path = true) →
        ∃ w, firstMatch rx sorted path = some w ∧ IsLongestRewriteMatch rx ups path w) ∧
    ((∀ u ∈ ups, u.isRewrite = true → routeMatches rx u path = false) →
        ∀ w, firstMatch rx sorted path = some w ↔ IsLongestPlainMatch rx ups path w) ∧
    (firstMatch rx sorted path = none ↔ ∀ u ∈ ups, routeMatches rx u path = false) :=
  ⟨sorted_firstMatch_longest_rewrite ha, sorted_firstMatch_longest_plain hd ha,
   firstMatch_none_iff ha⟩

/-! ### `route`: the three outcomes -/

theorem route_upstream_iff (rx : Str → Str → Bool) (sorted : List Upstream) (path : Str)
    (u : Upstream) : route rx sorted path = .upstream u ↔ firstMatch rx sorted path = some u := by
  unfold route
  cases h : firstMatch rx sorted path with
  | some w => simp
  | none =>
    simp only [reduceCtorEq, iff_false]
    split
    · simp
    · split <;> simp

/-- the 301 of `registerTrailingSlashHandler`: nothing matches `path`, `path` has no trailing
    slash, and something matches `path + "/"` -/
theorem route_redirect_iff {rx : Str → Str → Bool} {ups sorted : List Upstream} {path : Str}
    (ha : Admissible sorted ups) :
    route rx sorted path = .redirect301 ↔
      (∀ u ∈ ups, routeMatches rx u path = false) ∧ hasSuffix ['/'] path = false ∧
      ∃ u ∈ ups, routeMatches rx u (path ++ ['/']) = true := by
  have hsome : (firstMatch rx sorted (path ++ ['/'])).isSome = true ↔
      ∃ u ∈ ups, routeMatches rx u (path ++ ['/']) = true := by
    rw [← Option.ne_none_iff_isSome, Ne, firstMatch_none_iff ha]
    constructor
    · intro h
      apply Classical.byContradiction
      intro hne
      apply h
      intro u hu
      cases hm : routeMatches rx u (path ++ ['/']) with
      | false => rfl
      | true => exact absurd ⟨u, hu, hm⟩ hne
    · rintro ⟨u, hu, hm⟩ h
      rw [h u hu] at hm; cases hm
  unfold route
  cases h : firstMatch rx sorted path with
  | some w =>
    simp only [reduceCtorEq, false_iff]
    intro hcon
    have := (firstMatch_none_iff ha).2 hcon.1
    rw [h] at this; cases this
  | none =>
    have hnone := (firstMatch_none_iff ha).1 h
    cases hs : hasSuffix ['/'] path with
    | true => simp
    | false =>
      simp only [Bool.false_eq_true, if_false]
      by_cases hx : (firstMatch rx sorted (path ++ ['/'])).isSome = true
      · simp only [hx, if_true, true_iff]
        exact ⟨hnone, trivial, hsome.1 hx⟩
      · simp only [hx, if_false, reduceCtorEq, false_iff]
        intro hcon
        exact hx (hsome.2 hcon.2.2)

/-- **Longest-prefix reading of C17** (prefix-style upstreams only): when every upstream is plain
    with a path `/…/`, the request is handed to `w` iff `w.path` is the longest configured path
    that is a prefix of the request path. -/
theorem route_longest_prefix (ups sorted : List Upstream) (rx : Str → Str → Bool) (path : Str)
    (hd : DistinctPlainPaths ups) (ha : Admissible sorted ups)
    (hplain : ∀ u ∈ ups, u.isRewrite = false ∧ muxPathOK u.path = true ∧
        hasSuffix ['/'] u.path = true) (w : Upstream) :
    route rx sorted path = .upstream w ↔
      w ∈ ups ∧ w.path <+: path ∧
        ∀ v ∈ ups, v.path <+: path → v.path.length ≤ w.path.length := by
  have hm : ∀ u ∈ ups, (routeMatches rx u path = true ↔ u.path <+: path) := by
    intro u hu
    obtain ⟨h1, h2, h3⟩ := hplain u hu
    rw [routeMatches_plain_iff h1]
    simp [h2, h3]
  have hno : ∀ u ∈ ups, u.isRewrite = true → routeMatches rx u path = false := by
    intro u hu hr
    rw [(hplain u hu).1] at hr; cases hr
  rw [route_upstream_iff, sorted_firstMatch_longest_plain hd ha hno]
  unfold IsLongestPlainMatch
  constructor
  · rintro ⟨hw, _, hwm, hmax⟩
    exact ⟨hw, (hm w hw).1 hwm, fun v hv hvp => hmax v hv (hplain v hv).1 ((hm v hv).2 hvp)⟩
  · rintro ⟨hw, hwp, hmax⟩
    exact ⟨hw, (hplain w hw).1, (hm w hw).2 hwp, fun v hv _ hvm => hmax v hv ((hm v hv).1 hvm)⟩

/-! ## 3. independence of the admissible order -/

/-- Whether anything matches does not depend on the order. -/
theorem firstMatch_isSome_order_independent {rx : Str → Str → Bool}
    {ups s₁ s₂ : List Upstream} {path : Str}
    (h₁ : Admissible s₁ ups) (h₂ : Admissible s₂ ups) :
    (firstMatch rx s₁ path).isSome = (firstMatch rx s₂ path).isSome := by
  cases hf₁ : firstMatch rx s₁ path with
  | none =>
    rw [(firstMatch_none_iff h₂).2 ((firstMatch_none_iff h₁).1 hf₁)]
  | some w =>
    cases hf₂ : firstMatch rx s₂ path with
    | none =>
      rw [(firstMatch_none_iff h₁).2 ((firstMatch_none_iff h₂).1 hf₂)] at hf₁; cases hf₁
    | some w' => rfl

/-- The winners in two admissible orders are equivalent under the comparator: same kind
    (rewrite / plain) and same path (pattern) length.  No hypothesis on `ups`. -/
theorem firstMatch_order_equiv {rx : Str → Str → Bool} {ups s₁ s₂ : List Upstream} {path : Str}
    (h₁ : Admissible s₁ ups) (h₂ : Admissible s₂ ups) {w₁ w₂ : Upstream}
    (hf₁ : firstMatch rx s₁ path = some w₁) (hf₂ : firstMatch rx s₂ path = some w₂) :
    w₁.isRewrite = w₂.isRewrite ∧ w₁.path.length = w₂.path.length := by
  obtain ⟨hw₁, hm₁, hall₁⟩ := firstMatch_some_spec h₁ hf₁
  obtain ⟨hw₂, hm₂, hall₂⟩ := firstMatch_some_spec h₂ hf₂
  exact (incomp_iff w₁ w₂).1 ⟨hall₂ w₁ hw₁ hm₁, hall₁ w₂ hw₂ hm₂⟩

/-- **Order independence of the longest plain match** (case (b)): when no rewrite upstream
    matches, every admissible order selects the same upstream. -/
theorem longest_is_order_independent (ups s₁ s₂ : List Upstream) (rx : Str → Str → Bool)
    (path : Str) (hd : DistinctPlainPaths ups)
    (h₁ : Admissible s₁ ups) (h₂ : Admissible s₂ ups)
    (hno : ∀ u ∈ ups, u.isRewrite = true → routeMatches rx u path = false) :
    firstMatch rx s₁ path = firstMatch rx s₂ path := by
  cases hf₁ : firstMatch rx s₁ path with
  | none =>
    exact ((firstMatch_none_iff h₂).2 ((firstMatch_none_iff h₁).1 hf₁)).symm
  | some w =>
    exact ((sorted_firstMatch_longest_plain hd h₂ hno w).2
      ((sorted_firstMatch_longest_plain hd h₁ hno w).1 hf₁)).symm

/-- In general (rewrite upstreams may match) the selected upstream is order independent as soon
    as, in addition, no two rewrite patterns have the same length.  Without that extra hypothesis
    it is NOT (see `rewrite_tie_depends_on_order`): "the longest pattern" is ambiguous for
    equally long patterns and the unstable sort decides. -/
theorem firstMatch_order_independent (ups s₁ s₂ : List Upstream) (rx : Str → Str → Bool)
    (path : Str) (hd : DistinctPlainPaths ups) (hr : DistinctRewriteLengths ups)
    (h₁ : Admissible s₁ ups) (h₂ : Admissible s₂ ups) :
    firstMatch rx s₁ path = firstMatch rx s₂ path := by
  cases hf₁ : firstMatch rx s₁ path with
  | none =>
    exact ((firstMatch_none_iff h₂).2 ((firstMatch_none_iff h₁).1 hf₁)).symm
  | some w₁ =>
    cases hf₂ : firstMatch rx s₂ path with
    | none =>
      rw [(firstMatch_none_iff h₁).2 ((firstMatch_none_iff h₂).1 hf₂)] at hf₁; cases hf₁
    | some w₂ =>
      obtain ⟨hk, hl⟩ := firstMatch_order_equiv h₁ h₂ hf₁ hf₂
      obtain ⟨hw₁, hm₁, _⟩ := firstMatch_some_spec h₁ hf₁
      obtain ⟨hw₂, hm₂, _⟩ := firstMatch_some_spec h₂ hf₂
      congr 1
      cases hr₁ : w₁.isRewrite with
      | true => exact hr.eq_of_length_eq hw₁ hw₂ hr₁ (hk ▸ hr₁) hl
      | false =>
        have hr₂ : w₂.isRewrite = false := hk ▸ hr₁
        exact hd.eq_of_path_eq hw₁ hw₂ hr₁ hr₂ (plain_match_path_eq hr₁ hr₂ hm₁ hm₂ hl)

/-- …and so is the whole routing decision. -/
theorem route_order_independent (ups s₁ s₂ : List Upstream) (rx : Str → Str → Bool)
    (path : Str) (hd : DistinctPlainPaths ups) (hr : DistinctRewriteLengths ups)
    (h₁ : Admissible s₁ ups) (h₂ : Admissible s₂ ups) :
    route rx s₁ path = route rx s₂ path := by
  unfold route
  rw [firstMatch_order_independent ups s₁ s₂ rx path hd hr h₁ h₂,
      firstMatch_order_independent ups s₁ s₂ rx (path ++ ['/']) hd hr h₁ h₂]

/-- two decisions agree up to the choice among comparator-equivalent upstreams -/
def Decision.Equiv : Decision → Decision → Prop
  | .upstream a, .upstream b => a.isRewrite = b.isRewrite ∧ a.path.length = b.path.length
  | .redirect301, .redirect301 => True
  | .notFound, .notFound => True
  | _, _ => False

/-- With no hypothesis at all on `ups`: every admissible order gives the same kind of answer
    (upstream / 301 / 404) and upstreams of the same kind and path length. -/
theorem route_equiv_order_independent (ups s₁ s₂ : List Upstream) (rx : Str → Str → Bool)
    (path : Str) (h₁ : Admissible s₁ ups) (h₂ : Admissible s₂ ups) :
    Decision.Equiv (route rx s₁ path) (route rx s₂ path) := by
  unfold route
  have hs := firstMatch_isSome_order_independent (rx := rx) (path := path ++ ['/']) h₁ h₂
  cases hf₁ : firstMatch rx s₁ path with
  | none =>
    rw [(firstMatch_none_iff h₂).2 ((firstMatch_none_iff h₁).1 hf₁)]
    simp only
    rw [hs]
    split
    · trivial
    · split <;> trivial
  | some w₁ =>
    cases hf₂ : firstMatch rx s₂ path with
    | none =>
      rw [(firstMatch_none_iff h₁).2 ((firstMatch_none_iff h₂).1 hf₂)] at hf₁; cases hf₁
    | some w₂ => exact firstMatch_order_equiv h₁ h₂ hf₁ hf₂

/-- The residual order dependence is real: two rewrite rules with equally long patterns that
    both match; both orders are admissible (and both are legal outputs of `sort.Slice`), and they
    select different upstreams. -/
theorem rewrite_tie_depends_on_order :
    ∃ (ups s₁ s₂ : List Upstream) (rx : Str → Str → Bool) (path : Str),
      DistinctPlainPaths ups ∧ Admissible s₁ ups ∧ Admissible s₂ ups ∧
      firstMatch rx s₁ path ≠ firstMatch rx s₂ path := by
  let a : Upstream := { id := "a".toList, path := "^/x/".toList, rewriteTarget := "/1".toList }
  let b : Upstream := { id := "b".toList, path := "/x/y".toList, rewriteTarget := "/2".toList }
  refine ⟨[a, b], [a, b], [b, a], fun _ _ => true, "/x/y".toList, ?_, ?_, ?_, ?_⟩ <;> decide


/-! ## 4. what the upstream receives as request target (`setProxyDirector`) -/

/-- **target_verbatim**: for a plain (non-rewrite) upstream the request target written to the
    upstream is the incoming `RequestURI` byte for byte.
    Hypotheses: `RequestURI` non-empty (always true for a request parsed by `net/http`) and not
    starting with `//` (`URL.RequestURI()` would prefix `scheme:`; unreachable after routing
    because mux has already 301-redirected a path that is not clean, see
    `cleanPath_not_double_slash`). -/
theorem target_verbatim (esc : Str → Str) (unesc : Str → Option Str) (escPath : Str → Str)
    (scheme fallback : Str) (u : Upstream) (requestURI newURI : Str)
    (hu : u.isRewrite = false) (hne : requestURI ≠ [])
    (hds : hasPrefix ['/', '/'] requestURI = false) :
    outgoingTarget scheme fallback (upstreamRequestURI esc unesc escPath u requestURI newURI)
      = requestURI := by
  simp [outgoingTarget, upstreamRequestURI, hu, hne, hds]

/-- For a rewrite upstream the director sees exactly the URI produced by the rewrite middleware:
    escaped new path, `?`, canonical encoding of the merged query. -/
theorem target_rewritten (esc : Str → Str) (unesc : Str → Option Str) (escPath : Str → Str)
    (u : Upstream) (requestURI newURI : Str) (hu : u.isRewrite = true) :
    upstreamRequestURI esc unesc escPath u requestURI newURI =
      (let r := rewriteQuery unesc (urlQuery unesc (rawQueryOf requestURI)) newURI
       escPath r.1 ++
        (if forceQueryOf requestURI || encode esc r.2 != [] then '?' :: encode esc r.2 else [])) := by
  simp [upstreamRequestURI, hu, rewriteRequestURI, splitPathAndQuery, urlString]

/-- End-to-end form for an origin-form target `path` or `path?query` whose path needs no escaping:
    if mux let the request through (`serve … = routed (upstream u)`, so `path` is clean) and `u` is
    a plain upstream, the upstream receives the target verbatim.  The `//` side condition of
    `target_verbatim` is discharged by `cleanPath_not_double_slash`. -/
theorem routed_target_verbatim (esc : Str → Str) (unesc : Str → Option Str) (escPath : Str → Str)
    (scheme fallback : Str) (rx : Str → Str → Bool) (sorted : List Upstream)
    (path rest newURI : Str) (u : Upstream)
    (hserve : Upstream.serve Upstream.cleanPath rx sorted path = .routed (.upstream u))
    (hu : u.isRewrite = false) (hp : path ≠ [])
    (hrest : rest = [] ∨ ∃ q, rest = '?' :: q) :
    outgoingTarget scheme fallback
        (upstreamRequestURI esc unesc escPath u (path ++ rest) newURI) = path ++ rest := by
  have hclean : Upstream.cleanPath path = path := by
    unfold Upstream.serve at hserve
    by_cases h : Upstream.cleanPath path = path
    · exact h
    · rw [if_pos h] at hserve; cases hserve
  apply target_verbatim _ _ _ _ _ _ _ _ hu
  · cases path with
    | nil => exact absurd rfl hp
    | cons c t => simp
  · exact Upstream.not_double_slash_of_clean hclean rest hrest hp

/-- Host header: incoming host unless `passHostHeader: false` -/
theorem host_passthrough (ph : Option Bool) (inHost tgtHost : Str) :
    outgoingHost ph inHost tgtHost = (if ph = some false then tgtHost else inHost) := rfl

/-- the director never alters a non-empty target that does not start with `//` -/
theorem outgoingTarget_id (scheme fallback t : Str) (hne : t ≠ [])
    (hds : hasPrefix ['/', '/'] t = false) : outgoingTarget scheme fallback t = t := by
  simp [outgoingTarget, hne, hds]

/-! ## 5. query merge of `splitPathAndQuery` -/

/-- target without `?`: path is the replaced string, query values untouched -/
theorem rewriteQuery_noquery (unesc : Str → Option Str) (orig : Values) (newURI p : Str)
    (hs : splitFirst '?' newURI = (p, none)) : rewriteQuery unesc orig newURI = (p, orig) := by
  simp [rewriteQuery, hs]

/-- **rewriteQuery_keys**: when the replaced string is `p?q` and `q` parses into `pairs`
    (in order of appearance), the new path is `p` and, for every key, the merged values are the
    original values of that key in their original order followed by the target's values for that
    key in their order of appearance.  In particular every original (key,value) is kept. -/
theorem rewriteQuery_keys (unesc : Str → Option Str) (orig : Values) (newURI p q : Str)
    (pairs : List (Str × Str))
    (hs : splitFirst '?' newURI = (p, some q)) (hp : parseQuery unesc q = (pairs, false)) :
    (rewriteQuery unesc orig newURI).1 = p ∧
    ∀ k, Values.lookup k (rewriteQuery unesc orig newURI).2 =
      Values.lookup k orig ++ (pairs.filter (fun kv => kv.1 = k)).map (·.2) := by
  simp [rewriteQuery, hs, hp, Values.lookup_addAll]

/-- no original value is lost or reordered: the original values of a key are a prefix of the
    merged values (whenever the target parses or has no query) -/
theorem rewriteQuery_keeps_original (unesc : Str → Option Str) (orig : Values) (newURI : Str)
    (hok : ∀ p q, splitFirst '?' newURI = (p, some q) → (parseQuery unesc q).2 = false) (k : Str) :
    Values.lookup k orig <+: Values.lookup k (rewriteQuery unesc orig newURI).2 := by
  rcases hsp : splitFirst '?' newURI with ⟨p, _ | q⟩
  · rw [rewriteQuery_noquery unesc orig newURI p hsp]; exact List.prefix_refl _
  · have h2 := hok p q hsp
    rcases hpq : parseQuery unesc q with ⟨pairs, e⟩
    rw [hpq] at h2; simp only at h2; subst h2
    rw [(rewriteQuery_keys unesc orig newURI p q pairs hsp hpq).2 k]
    exact List.prefix_append _ _

/-- `splitPathAndQuery` reports an error exactly when the replaced string has a query part that
    `url.ParseQuery` rejects (a `;` or a bad `%`-escape — both can come from the client-controlled
    part of the path via `$1`). -/
theorem rewriteError_iff (unesc : Str → Option Str) (newURI : Str) :
    rewriteError unesc newURI = true ↔
      ∃ p q pairs, splitFirst '?' newURI = (p, some q) ∧ parseQuery unesc q = (pairs, true) := by
  unfold rewriteError
  rcases hsp : splitFirst '?' newURI with ⟨p, _ | q⟩
  · simp
  · simp only
    constructor
    · intro h
      exact ⟨p, q, (parseQuery unesc q).1, rfl, by rw [← h]⟩
    · rintro ⟨p', q', pairs, heq, hp⟩
      injection heq with _ h2
      injection h2 with h2
      subst h2
      rw [hp]

/-- In the error case the values returned next to the error are the empty path and no values
    (Go: `return "", "", err`).  HISTORICAL NOTE: before the fix the error was dropped
    (`return "", "", nil`) and these empty results were forwarded; see `rewrite_error_not_forwarded`
    for the live behaviour. -/
theorem rewriteQuery_of_error (unesc : Str → Option Str) (orig : Values) (newURI : Str)
    (h : rewriteError unesc newURI = true) : rewriteQuery unesc orig newURI = ([], []) := by
  obtain ⟨p, q, pairs, hs, hp⟩ := (rewriteError_iff unesc newURI).1 h
  simp [rewriteQuery, hs, hp]

/-- **Live behaviour after the fix**: a rewrite whose target query does not parse is answered with
    the 500 error page; nothing is forwarded. -/
theorem rewrite_error_not_forwarded (esc : Str → Str) (unesc : Str → Option Str)
    (escPath : Str → Str) (u : Upstream) (requestURI newURI : Str)
    (hu : u.isRewrite = true) (h : rewriteError unesc newURI = true) :
    upstreamRequestURI? esc unesc escPath u requestURI newURI = none := by
  simp [upstreamRequestURI?, hu, h]

/-- **forwarded_rewrite_query_parses**: whenever a rewrite upstream's request is forwarded, the
    target's query (if any) parsed without error, the forwarded URI is exactly
    `rewriteRequestURI …` (= the total `upstreamRequestURI`), and hence `rewriteQuery_keys` /
    `rewriteQuery_keeps_original` apply to it. -/
theorem forwarded_rewrite_query_parses (esc : Str → Str) (unesc : Str → Option Str)
    (escPath : Str → Str) (u : Upstream) (requestURI newURI t : Str)
    (hu : u.isRewrite = true)
    (hf : upstreamRequestURI? esc unesc escPath u requestURI newURI = some t) :
    rewriteError unesc newURI = false ∧
    (∀ p q, splitFirst '?' newURI = (p, some q) → (parseQuery unesc q).2 = false) ∧
    t = rewriteRequestURI esc unesc escPath requestURI newURI ∧
    t = upstreamRequestURI esc unesc escPath u requestURI newURI := by
  unfold upstreamRequestURI? at hf
  rw [hu] at hf
  simp only [if_true] at hf
  cases he : rewriteError unesc newURI with
  | true => rw [he] at hf; simp at hf
  | false =>
    rw [he] at hf
    simp only [Bool.false_eq_true, if_false, Option.some.injEq] at hf
    refine ⟨rfl, ?_, hf.symm, ?_⟩
    · intro p q hs
      unfold rewriteError at he
      rw [hs] at he
      exact he
    · simp [upstreamRequestURI, hu, hf]

/-- a plain upstream's request is always forwarded, with `RequestURI` untouched -/
theorem plain_forwarded (esc : Str → Str) (unesc : Str → Option Str) (escPath : Str → Str)
    (u : Upstream) (requestURI newURI : Str) (hu : u.isRewrite = false) :
    upstreamRequestURI? esc unesc escPath u requestURI newURI = some requestURI := by
  simp [upstreamRequestURI?, hu]

/-- whenever something is forwarded it is what the total function `upstreamRequestURI` says, so
    `target_verbatim`, `target_rewritten`, `routed_target_verbatim` describe every forwarded
    request -/
theorem forwarded_eq (esc : Str → Str) (unesc : Str → Option Str) (escPath : Str → Str)
    (u : Upstream) (requestURI newURI t : Str)
    (hf : upstreamRequestURI? esc unesc escPath u requestURI newURI = some t) :
    t = upstreamRequestURI esc unesc escPath u requestURI newURI := by
  cases hu : u.isRewrite with
  | true => exact (forwarded_rewrite_query_parses esc unesc escPath u requestURI newURI t hu hf).2.2.2
  | false =>
    rw [plain_forwarded esc unesc escPath u requestURI newURI hu] at hf
    injection hf with hf
    simp [upstreamRequestURI, hu, hf]

/-- the merged values keep Go's map invariant (distinct keys) -/
theorem rewriteQuery_nodup_keys (unesc : Str → Option Str) (orig : Values) (newURI : Str)
    (h : (Values.keys orig).Nodup) : (Values.keys (rewriteQuery unesc orig newURI).2).Nodup := by
  unfold rewriteQuery
  split
  · exact h
  · split
    · simp [Values.keys]
    · exact Values.nodup_keys_addAll _ _ h

/-- `Values.Encode`: keys in byte-wise ascending order; for each key its values in list order,
    each written `esc k = esc v`. -/
theorem encodePieces_spec (esc : Str → Str) (m : Values) (h : (Values.keys m).Nodup) :
    encodePieces esc m =
      ((sortByKey m).map (·.1)).flatMap
        (fun k => (Values.lookup k m).map (fun v => esc k ++ '=' :: esc v)) ∧
    ((sortByKey m).map (·.1)).Perm (Values.keys m) ∧
    ((sortByKey m).map (·.1)).Pairwise (fun a b => strLe a b = true) := by
  refine ⟨?_, (sortByKey_perm m).map _, ?_⟩
  · unfold encodePieces
    rw [List.flatMap_map, List.flatMap_def, List.flatMap_def]
    congr 1
    apply List.map_congr_left
    intro e he
    rw [Values.lookup_of_mem h ((sortByKey_perm m).mem_iff.1 he)]
  · rw [List.pairwise_map]
    exact sortByKey_sorted m

/-! ## 6. non-vacuity -/

/-- toy oracle for the examples: every example pattern is `^` + literal, i.e. a prefix test -/
def rxPrefix (pat p : Str) : Bool := hasPrefix (pat.drop 1) p

def exRoot : Upstream := { id := "root".toList, path := "/".toList }
def exA    : Upstream := { id := "a".toList,    path := "/a/".toList }
def exAB   : Upstream := { id := "ab".toList,   path := "/a/b/".toList }
def exAx   : Upstream := { id := "a-exact".toList, path := "/a".toList }
def exRw   : Upstream := { id := "rw".toList,   path := "^/a/b/c".toList, rewriteTarget := "/x".toList }
def exRw2  : Upstream := { id := "rw2".toList,  path := "^/a/b".toList, rewriteTarget := "/y?k=1".toList }
def exNoSlash : Upstream := { id := "bad".toList, path := "b/".toList }
def exUps : List Upstream := [exRoot, exAx, exRw2, exA, exNoSlash, exAB, exRw]

example : sortUpstreams exUps = [exRw, exRw2, exAB, exA, exAx, exNoSlash, exRoot] := by decide
example : DistinctPlainPaths exUps := by decide
example : DistinctRewriteLengths exUps := by decide
example : Admissible (sortUpstreams exUps) exUps := sort_admissible _
/-- a second admissible order (the tie `/a` ~ `b/` resolved the other way) -/
example : Admissible [exRw, exRw2, exAB, exA, exNoSlash, exAx, exRoot] exUps :=
  by decide

-- nested prefixes: longest wins
example : route rxPrefix (sortUpstreams exUps) "/a/b/".toList = .upstream exRw2 := by decide
example : route rxPrefix (sortUpstreams [exRoot, exA, exAB, exAx]) "/a/b/z".toList = .upstream exAB := by decide
example : route rxPrefix (sortUpstreams [exRoot, exA, exAB, exAx]) "/a/z".toList = .upstream exA := by decide
example : route rxPrefix (sortUpstreams [exRoot, exA, exAB, exAx]) "/z".toList = .upstream exRoot := by decide
-- exact path `/a` vs prefix `/a/`
example : route rxPrefix (sortUpstreams [exRoot, exA, exAB, exAx]) "/a".toList = .upstream exAx := by decide
example : route rxPrefix (sortUpstreams [exRoot, exA, exAB, exAx]) "/a/".toList = .upstream exA := by decide
-- rewrite rules go first, longest pattern first
example : route rxPrefix (sortUpstreams exUps) "/a/b/c/d".toList = .upstream exRw := by decide
example : route rxPrefix (sortUpstreams exUps) "/a/bz".toList = .upstream exRw2 := by decide
-- trailing-slash redirect and 404
example : route rxPrefix (sortUpstreams [exA, exAB]) "/a".toList = .redirect301 := by decide
example : route rxPrefix (sortUpstreams [exA, exAB]) "/a/b".toList = .upstream exA := by decide
example : route rxPrefix (sortUpstreams [exA, exAB]) "/b".toList = .notFound := by decide
example : route rxPrefix (sortUpstreams [exA, exAB]) "/b/".toList = .notFound := by decide
-- a path without leading slash is never routed to (mux rejects the template)
example : route rxPrefix (sortUpstreams [exNoSlash]) "b/".toList = .notFound := by decide
-- `IsLongestPlainMatch` is inhabited
example : IsLongestPlainMatch rxPrefix [exRoot, exA, exAB, exAx] "/a/z".toList exA := by
  refine ⟨by decide, by decide, by decide, ?_⟩
  intro v hv _ hm
  simp only [List.mem_cons, List.not_mem_nil, or_false] at hv
  rcases hv with rfl | rfl | rfl | rfl <;> revert hm <;> decide
-- the hypotheses of the main theorems are satisfiable: instantiate them
example := sorted_firstMatch_longest exUps (sortUpstreams exUps) rxPrefix "/a/z".toList
  (by decide) (sort_admissible _)
example : ∀ u ∈ exUps, u.isRewrite = true → routeMatches rxPrefix u "/a/z".toList = false := by decide
example : ∃ u ∈ exUps, u.isRewrite = true ∧ routeMatches rxPrefix u "/a/b/c".toList = true := by decide
example : ∀ u ∈ [exRoot, exA, exAB], u.isRewrite = false ∧ muxPathOK u.path = true ∧
    hasSuffix ['/'] u.path = true := by decide
example := longest_is_order_independent exUps (sortUpstreams exUps)
  [exRw, exRw2, exAB, exA, exNoSlash, exAx, exRoot] rxPrefix "/a/z".toList
  (by decide) (sort_admissible _) (by decide) (by decide)
-- mux clean-path redirect
example : serve cleanPath rxPrefix (sortUpstreams exUps) "/a//b/../c".toList
    = .cleanRedirect "/a/c".toList := by decide
example : serve cleanPath rxPrefix (sortUpstreams exUps) "/a/c".toList
    = .routed (.upstream exA) := by decide
-- trailing-slash redirect location with a query: the slash lands after the query
example : slashRedirectLocation "/foo?x=1".toList = "/foo?x=1/".toList := by decide


-- query merge
example : rewriteQuery queryUnescape [("a".toList, ["0".toList, "3".toList]), ("b".toList, ["1".toList])]
      "/y?k=v&a=9".toList
    = ("/y".toList, [("a".toList, ["0".toList, "3".toList, "9".toList]), ("b".toList, ["1".toList]),
        ("k".toList, ["v".toList])]) := by decide
example : rewriteRequestURI queryEscape queryUnescape urlEscapedPath
      "/rw/v?b=1&a=0&a=3".toList "/y?k=v&a=9".toList = "/y?a=0&a=3&a=9&b=1&k=v".toList := by decide
-- hypotheses of `rewriteQuery_keys` are satisfiable
example : splitFirst '?' "/y?k=v&a=9".toList = ("/y".toList, some "k=v&a=9".toList) ∧
    parseQuery queryUnescape "k=v&a=9".toList
      = ([("k".toList, "v".toList), ("a".toList, "9".toList)], false) := by decide
-- the parse-error behaviour: `;` smuggled in through `$1` ⇒ 500, not forwarded
example : rewriteError queryUnescape "/y?k=a;b".toList = true := by decide
example : rewriteError queryUnescape "/y?k=%zz".toList = true := by decide
example : rewriteError queryUnescape "/y?k=a%3Bb".toList = false := by decide
example : upstreamRequestURI? queryEscape queryUnescape urlEscapedPath exRw2
      "/rw/a;b?keep=1".toList "/y?k=a;b".toList = none := by decide
example : upstreamRequestURI? queryEscape queryUnescape urlEscapedPath exRw2
      "/rw/v?b=1&a=0&a=3".toList "/y?k=v&a=9".toList = some "/y?a=0&a=3&a=9&b=1&k=v".toList := by decide
example : upstreamRequestURI? queryEscape queryUnescape urlEscapedPath exA
      "/a/x?b=1".toList [] = some "/a/x?b=1".toList := by decide
-- director: verbatim
example : outgoingTarget "http".toList "/".toList "/a%2Fb/c?x=%20&y".toList
    = "/a%2Fb/c?x=%20&y".toList := by decide

end Upstream
end O2P
