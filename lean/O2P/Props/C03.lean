import O2P.Props.C13
/-
  C03 / C05 / C14 (callback part) — what it takes for the OAuth callback to establish a session.

  `callbackFinish_established` / `callback_established` characterise, for EVERY request and
  EVERY environment (IdP answers, cookie contents, store outcomes), the only way a session
  cookie is ever set by the callback.  C03 (state ↔ CSRF cookie), C05 (nonce and PKCE binding)
  and C14 (IdP failures at the callback) are corollaries.
-/
namespace O2P

def Established (resp : Resp) (s : Session) : Prop := CookieOp.setSession s ∈ resp.cookies

/-- everything that must hold for `callbackFinish` to set a session cookie -/
structure FinishOK (cfg : Cfg) (env : Env) (nonce : Str) (csrf : CSRF) (s0 : Session) : Prop where
  enriched : env.enrichOK (stampSession cfg env s0) = true
  state : hashNonceM env csrf.state = nonce
  valid : env.validate cfg (callbackSession cfg env csrf s0) = true
  email : env.emailOK (callbackSession cfg env csrf s0).email = true
  groups : groupsOK cfg.allowedGroups (callbackSession cfg env csrf s0).groups = true
  saved : env.saveOK = true

theorem callbackFinish_established (cfg : Cfg) (env : Env) (name nonce rd code : Str) (csrf : CSRF) (s0 s : Session)
    (h : Established (callbackFinish cfg env name nonce rd code csrf s0) s) :
    FinishOK cfg env nonce csrf s0 ∧ s = callbackSession cfg env csrf s0 := by
  unfold Established callbackFinish at h
  simp only at h
  split at h
  · simp [errorPage] at h
  · rename_i h1
    split at h
    · simp [errorPage] at h
    · rename_i h2
      split at h
      · simp [errorPage] at h
      · rename_i h3
        split at h
        · simp [errorPage] at h
        · rename_i h4
          split at h
          · simp [errorPage] at h
          · rename_i h5
            simp only [List.cons_append, List.nil_append, List.mem_cons, reduceCtorEq, CookieOp.setSession.injEq,
              List.not_mem_nil, or_false, false_or] at h
            have e1 : env.enrichOK (stampSession cfg env s0) = true := by
              cases hb : env.enrichOK (stampSession cfg env s0) <;> simp_all
            have e2 : hashNonceM env csrf.state = nonce := by simpa using h2
            have e3 : env.validate cfg (callbackSession cfg env csrf s0) = true := by
              cases hb : env.validate cfg (callbackSession cfg env csrf s0) <;> simp_all
            have e4 : (env.emailOK (callbackSession cfg env csrf s0).email &&
                groupsOK cfg.allowedGroups (callbackSession cfg env csrf s0).groups) = true := by
              cases hb : (env.emailOK (callbackSession cfg env csrf s0).email &&
                groupsOK cfg.allowedGroups (callbackSession cfg env csrf s0).groups) <;> simp_all
            have e5 : env.saveOK = true := by cases hb : env.saveOK <;> simp_all
            rw [Bool.and_eq_true] at e4
            exact ⟨⟨e1, e2, e3, e4.1, e4.2, e5⟩, h⟩

theorem callbackFinish_complete (cfg : Cfg) (env : Env) (name nonce rd code : Str) (csrf : CSRF) (s0 : Session)
    (h : FinishOK cfg env nonce csrf s0) :
    callbackFinish cfg env name nonce rd code csrf s0 =
      { status := 302, kind := .redirect, location := if env.isValidRedirect rd then rd else "/".toList,
        cookies := [CookieOp.clearCSRF name, CookieOp.setSession (callbackSession cfg env csrf s0)],
        redeemedWith := some (code, csrf.verifier) } := by
  obtain ⟨h1, h2, h3, h4, h5, h6⟩ := h
  unfold callbackFinish
  simp only [h1, h2, h3, h4, h5, h6]
  simp

/-- the state parameter as the callback reads it -/
def stateOf (cfg : Cfg) (g : Glue) (r : Req) : Option (Str × Str) :=
  let sp := formGet r.form "state".toList
  decodeStateRaw (if cfg.encodeState then g.decodeB64 sp else sp)

/-- **callback_established**: the callback sets a session cookie only if: no `error` parameter;
    the state splits into (nonce, redirect); a CSRF cookie *named after that nonce* was presented
    and decoded (validated signature, Layer B); a code was redeemed WITH THAT COOKIE'S VERIFIER;
    the cookie's state hash-matches the state's nonce; the session (carrying the cookie's OIDC
    nonce) validates; identity authorised; and the store write succeeded. -/
theorem callback_established (cfg : Cfg) (env : Env) (g : Glue) (r : Req) (s : Session)
    (h : Established (callbackHandler cfg env r g.decodeB64) s) :
    ∃ nonce rd csrf s0,
      formGet r.form "error".toList = [] ∧
      stateOf cfg g r = some (nonce, rd) ∧
      env.csrfByName (env.csrfCookieName (stateSubstring cfg nonce)) = some csrf ∧
      formGet r.form "code".toList ≠ [] ∧
      env.redeem (formGet r.form "code".toList) csrf.verifier (env.oauthRedirectURI cfg r) = .ok s0 ∧
      FinishOK cfg env nonce csrf s0 ∧ s = callbackSession cfg env csrf s0 ∧
      (callbackHandler cfg env r g.decodeB64).redeemedWith = some (formGet r.form "code".toList, csrf.verifier) := by
  unfold Established at h
  unfold callbackHandler at h ⊢
  split at h
  · simp [errorPage] at h
  · rename_i herr
    simp only at h ⊢
    split at h
    · simp [errorPage] at h
    · rename_i nonce rd hst
      unfold callbackWithState at h ⊢
      simp only at h ⊢
      split at h
      · simp [errorPage] at h
      · rename_i csrf hcsrf
        split at h
        · simp [errorPage] at h
        · rename_i hcode
          split at h
          · simp [errorPage] at h
          · rename_i s0 hred
            obtain ⟨hf, hs⟩ := callbackFinish_established cfg env _ nonce rd _ csrf s0 s h
            refine ⟨nonce, rd, csrf, s0, by simpa using herr, ?_, hcsrf, by simpa using hcode, hred, hf, hs, ?_⟩
            · unfold stateOf; exact hst
            · simp only [herr, hst, hcsrf, hcode, hred]
              rw [callbackFinish_complete cfg env _ nonce rd _ csrf s0 hf]
              simp

/-- **c03_only_if**: a session is established only if the state's nonce equals the hash of the
    `OAuthState` stored in the validly signed CSRF cookie *that is named after that state*. -/
theorem c03_only_if (cfg : Cfg) (env : Env) (g : Glue) (r : Req) (s : Session)
    (h : Established (callbackHandler cfg env r g.decodeB64) s) :
    ∃ nonce rd csrf, stateOf cfg g r = some (nonce, rd) ∧
      env.csrfByName (env.csrfCookieName (stateSubstring cfg nonce)) = some csrf ∧
      hashNonceM env csrf.state = nonce := by
  obtain ⟨nonce, rd, csrf, s0, _, hst, hc, _, _, hf, _⟩ := callback_established cfg env g r s h
  exact ⟨nonce, rd, csrf, hst, hc, hf.state⟩

/-- missing / foreign / undecodable cookie, or a state that does not match it ⇒ no session -/
theorem c03_no_cookie_no_session (cfg : Cfg) (env : Env) (g : Glue) (r : Req) (nonce rd : Str)
    (hst : stateOf cfg g r = some (nonce, rd))
    (hbad : env.csrfByName (env.csrfCookieName (stateSubstring cfg nonce)) = none ∨
            ∃ csrf, env.csrfByName (env.csrfCookieName (stateSubstring cfg nonce)) = some csrf ∧ hashNonceM env csrf.state ≠ nonce) :
    ∀ s, ¬ Established (callbackHandler cfg env r g.decodeB64) s := by
  intro s h
  obtain ⟨nonce', rd', csrf, hst', hc, hh⟩ := c03_only_if cfg env g r s h
  rw [hst] at hst'; cases hst'
  rcases hbad with hb | ⟨c, hb, hne⟩
  · rw [hb] at hc; cases hc
  · rw [hb] at hc; cases hc; exact hne hh

/-! ### state encoding round trip and the "if" direction -/

theorem decodeState_encodeState (n rd : Str) (h : ':' ∉ n) : decodeStateRaw (encodeStateRaw n rd) = some (n, rd) := by
  unfold decodeStateRaw encodeStateRaw
  have : splitFirst ':' (n ++ ':' :: rd) = (n, some rd) := by
    induction n with
    | nil => simp [splitFirst]
    | cons c cs ih =>
      simp at h
      simp only [List.cons_append, splitFirst]
      rw [if_neg (fun hc => h.1 hc.symm), ih h.2]
  rw [this]

/-- what `start` hands to the browser: the CSRF cookie and the state string -/
theorem start_issues (cfg : Cfg) (env : Env) (r : Req) (ex : List (Str × Str)) (pre : List CookieOp)
    (ch : Option (Str × Str)) :
    (startRedirect cfg env r ex pre ch).cookies = pre ++ [CookieOp.setCSRF (startCSRF cfg env)] ∧
    (startRedirect cfg env r ex pre ch).location =
      env.loginURL (env.oauthRedirectURI cfg r) (encodeStateRaw (env.hash env.freshState) (env.redirectOf cfg r))
        (env.hash env.freshNonce) (startExtra ex ch) := by
  simp [startRedirect, startCSRF]

/-- **c03_if**: a callback that carries the unmodified state of a login and whose cookie lookup
    (under the name derived from that state) yields that same login's CSRF cookie establishes the
    session — provided the identity provider, authorisation and the store play along
    (`FinishOK` minus the state check, which is discharged here). Location is the login's
    redirect (re-validated). -/
theorem c03_if (cfg : Cfg) (env : Env) (g : Glue) (r : Req) (csrf : CSRF) (rd : Str) (s0 : Session)
    (hne : csrf.state ≠ []) (hcolon : ':' ∉ env.hash csrf.state)
    (hplain : cfg.encodeState = false)
    (herr : formGet r.form "error".toList = [])
    (hstate : formGet r.form "state".toList = encodeStateRaw (env.hash csrf.state) rd)
    (hcookie : env.csrfByName (env.csrfCookieName (stateSubstring cfg (env.hash csrf.state))) = some csrf)
    (hcode : formGet r.form "code".toList ≠ [])
    (hred : env.redeem (formGet r.form "code".toList) csrf.verifier (env.oauthRedirectURI cfg r) = .ok s0)
    (henr : env.enrichOK (stampSession cfg env s0) = true)
    (hval : env.validate cfg (callbackSession cfg env csrf s0) = true)
    (hem : env.emailOK (callbackSession cfg env csrf s0).email = true)
    (hgr : groupsOK cfg.allowedGroups (callbackSession cfg env csrf s0).groups = true)
    (hsv : env.saveOK = true) :
    Established (callbackHandler cfg env r g.decodeB64) (callbackSession cfg env csrf s0) ∧
    (callbackHandler cfg env r g.decodeB64).location = (if env.isValidRedirect rd then rd else "/".toList) ∧
    (callbackHandler cfg env r g.decodeB64).status = 302 := by
  have hh : hashNonceM env csrf.state = env.hash csrf.state := by
    unfold hashNonceM; simp [hne]
  have hf : FinishOK cfg env (env.hash csrf.state) csrf s0 := ⟨henr, hh, hval, hem, hgr, hsv⟩
  have : callbackHandler cfg env r g.decodeB64 = callbackFinish cfg env (env.csrfCookieName (stateSubstring cfg (env.hash csrf.state)))
      (env.hash csrf.state) rd (formGet r.form "code".toList) csrf s0 := by
    have hd := decodeState_encodeState (env.hash csrf.state) rd hcolon
    have hcode' : (formGet r.form "code".toList).isEmpty = false := by simpa using hcode
    unfold callbackHandler
    simp only [herr, hplain, hstate, hd, List.isEmpty_nil, Bool.not_true, Bool.false_eq_true, ↓reduceIte]
    unfold callbackWithState
    simp only [hcookie, hcode', hred, Bool.false_eq_true, ↓reduceIte]
  rw [this, callbackFinish_complete _ _ _ _ _ _ _ _ hf]
  simp [Established]

end O2P
