/-
  O2P.Props.C09Ttl — the server-side entry's lifetime over ANY history (C09: "the server-side entry is stored with that
  lifetime" / "never honoured past the configured lifetime"; C10: cookie-expire 0 entries stay loadable).

    expired_after_lifetime      once cookie-expire seconds have passed since the LAST save under a ticket, nothing loads
                                under it — whatever requests read it meanwhile, whatever happens to other tickets
    loadable_within_lifetime    until then (and unless signed out) exactly the session saved last loads
    ttl_counts_from_last_save   the TTL the store reports is cookie-expire minus the time since the last save
    reads_change_nothing        a read changes neither what loads nor any lifetime (one step; lifted by the above)
    no_expiry_stays_loadable    cookie-expire 0: what was saved loads after any amount of time
    deadline_bounded            invariant of every reachable state: no entry has more than cookie-expire left
-/
import O2P.Model.Ttl

namespace O2P.Ttl

theorem find_del_same (st : Store) (t : Nat) : find (del st t) t = none := by
  unfold find del
  rw [List.find?_filter]
  apply List.find?_eq_none.2
  intro e _
  by_cases h : e.t = t <;> simp [h]

theorem find_del_other (st : Store) (u t : Nat) (h : u ≠ t) : find (del st u) t = find st t := by
  unfold find del
  rw [List.find?_filter]
  congr 1
  funext e
  by_cases ht : e.t = t
  · have : e.t ≠ u := fun hu => h (hu.symm.trans ht)
    simp [ht]
    exact fun hu => h hu.symm
  · simp [ht]

theorem find_save_same (expire now : Nat) (st : Store) (t s : Nat) :
    find (mkEntry expire now t s :: del st t) t = some (mkEntry expire now t s) := by
  simp [find, mkEntry]

theorem find_save_other (expire now : Nat) (st : Store) (u t s : Nat) (h : u ≠ t) :
    find (mkEntry expire now u s :: del st u) t = find st t := by
  have : find (mkEntry expire now u s :: del st u) t = find (del st u) t := by
    simp [find, mkEntry, h]
  rw [this, find_del_other st u t h]

/-- the clock of a history: the start plus the seconds that went by -/
theorem runFrom_now (expire : Nat) (st : St) (ops : List Op) :
    (runFrom expire st ops).now = st.now + passTotal ops := by
  induction ops generalizing st with
  | nil => simp [runFrom, passTotal]
  | cons op ops ih =>
    have : runFrom expire st (op :: ops) = runFrom expire (step expire st op) ops := rfl
    rw [this, ih]
    cases op <;> simp [step, passTotal, Nat.add_assoc]

/-- **reads_change_nothing** (one step): a read leaves the store — every entry, every lifetime — as it was -/
theorem reads_change_nothing (expire : Nat) (st : St) (t : Nat) : step expire st (.load t) = st := rfl

/-- a history that neither saves under `t` nor deletes it leaves `t`'s entry as it was (reads of `t`, anything on other tickets) -/
theorem untouched_find (expire : Nat) (st : St) (t : Nat) (ops : List Op) (h : Untouched t ops) :
    find (runFrom expire st ops).store t = find st.store t := by
  induction ops generalizing st with
  | nil => rfl
  | cons op ops ih =>
    have hrun : runFrom expire st (op :: ops) = runFrom expire (step expire st op) ops := rfl
    rw [hrun, ih _ (fun o ho => h o (List.mem_cons_of_mem _ ho))]
    have hop := h op List.mem_cons_self
    cases op with
    | save u s =>
      have hu : u ≠ t := fun e => hop.1 s (by rw [e])
      simp only [step]
      exact find_save_other expire st.now st.store u t s hu
    | load u => rfl
    | del u =>
      have hu : u ≠ t := fun e => hop.2 (by rw [e])
      simp only [step]
      exact find_del_other st.store u t hu
    | pass d => rfl

/-- a history that does not save under `t` (it may sign it out): `t`'s entry is gone or as it was -/
theorem nosave_find (expire : Nat) (st : St) (t : Nat) (ops : List Op) (h : NoSave t ops) :
    find (runFrom expire st ops).store t = none ∨ find (runFrom expire st ops).store t = find st.store t := by
  induction ops generalizing st with
  | nil => exact Or.inr rfl
  | cons op ops ih =>
    have hrun : runFrom expire st (op :: ops) = runFrom expire (step expire st op) ops := rfl
    rw [hrun]
    have hop := h op List.mem_cons_self
    rcases ih (step expire st op) (fun o ho => h o (List.mem_cons_of_mem _ ho)) with h0 | h1
    · exact Or.inl h0
    · rw [h1]
      cases op with
      | save u s =>
        have hu : u ≠ t := fun e => hop s (by rw [e])
        exact Or.inr (find_save_other expire st.now st.store u t s hu)
      | load u => exact Or.inr rfl
      | del u =>
        by_cases hu : u = t
        · subst hu; exact Or.inl (find_del_same st.store u)
        · exact Or.inr (find_del_other st.store u t hu)
      | pass d => exact Or.inr rfl

/-- **expired_after_lifetime.**  cookie-expire > 0.  After ANY history, a save under ticket `t`, and then ANY history that
    does not save under `t` again and in which at least cookie-expire seconds go by: nothing loads under `t` —
    however often the entry was read meanwhile, whatever was saved under other tickets. -/
theorem expired_after_lifetime (expire : Nat) (hpos : 0 < expire) (before after : List Op) (t s : Nat)
    (hno : NoSave t after) (hpass : expire ≤ passTotal after) :
    get (run expire (before ++ .save t s :: after)) t = none := by
  have hsplit : run expire (before ++ .save t s :: after)
      = runFrom expire (step expire (run expire before) (.save t s)) after := by
    simp [run, runFrom, List.foldl_append]
  rw [hsplit]
  generalize hst : run expire before = st0
  have hnow := runFrom_now expire (step expire st0 (.save t s)) after
  have hfind0 : find (step expire st0 (.save t s)).store t = some (mkEntry expire st0.now t s) :=
    find_save_same expire st0.now st0.store t s
  unfold get
  rcases nosave_find expire (step expire st0 (.save t s)) t after hno with h0 | h1
  · rw [h0]
  · rw [h1, hfind0]
    have hstepnow : (step expire st0 (.save t s)).now = st0.now := rfl
    rw [hstepnow] at hnow
    have hne : expire ≠ 0 := Nat.pos_iff_ne_zero.1 hpos
    simp only [live, mkEntry, hne, ↓reduceIte, hnow]
    have : ¬ (st0.now + passTotal after < st0.now + expire) := by omega
    simp [this]

/-- **loadable_within_lifetime.**  Until cookie-expire seconds have passed since the last save — and unless it was signed
    out — exactly the session saved last loads, whatever else the history contains. -/
theorem loadable_within_lifetime (expire : Nat) (before after : List Op) (t s : Nat)
    (hun : Untouched t after) (hpass : expire = 0 ∨ passTotal after < expire) :
    get (run expire (before ++ .save t s :: after)) t = some s := by
  have hsplit : run expire (before ++ .save t s :: after)
      = runFrom expire (step expire (run expire before) (.save t s)) after := by
    simp [run, runFrom, List.foldl_append]
  rw [hsplit]
  generalize hst : run expire before = st0
  have hnow := runFrom_now expire (step expire st0 (.save t s)) after
  have hstepnow : (step expire st0 (.save t s)).now = st0.now := rfl
  rw [hstepnow] at hnow
  have hfind0 : find (step expire st0 (.save t s)).store t = some (mkEntry expire st0.now t s) :=
    find_save_same expire st0.now st0.store t s
  unfold get
  rw [untouched_find expire _ t after hun, hfind0]
  rcases hpass with h0 | hlt
  · simp [live, mkEntry, h0]
  · have hne : expire ≠ 0 := by omega
    have : st0.now + passTotal after < st0.now + expire := by omega
    simp [live, mkEntry, hne, hnow, this]

/-- **no_expiry_stays_loadable** (cookie-expire 0): what was saved loads after any amount of time -/
theorem no_expiry_stays_loadable (before after : List Op) (t s : Nat) (hun : Untouched t after) :
    get (run 0 (before ++ .save t s :: after)) t = some s :=
  loadable_within_lifetime 0 before after t s hun (Or.inl rfl)

/-- **ttl_counts_from_last_save.**  The remaining lifetime the store reports is cookie-expire minus the time since the LAST
    save under the ticket: reads in between do not push it back up. -/
theorem ttl_counts_from_last_save (expire : Nat) (hpos : 0 < expire) (before after : List Op) (t s : Nat)
    (hun : Untouched t after) (hlt : passTotal after < expire) :
    ttl (run expire (before ++ .save t s :: after)) t = some (some (expire - passTotal after)) := by
  have hsplit : run expire (before ++ .save t s :: after)
      = runFrom expire (step expire (run expire before) (.save t s)) after := by
    simp [run, runFrom, List.foldl_append]
  rw [hsplit]
  generalize hst : run expire before = st0
  have hnow := runFrom_now expire (step expire st0 (.save t s)) after
  have hstepnow : (step expire st0 (.save t s)).now = st0.now := rfl
  rw [hstepnow] at hnow
  have hfind0 : find (step expire st0 (.save t s)).store t = some (mkEntry expire st0.now t s) :=
    find_save_same expire st0.now st0.store t s
  unfold ttl
  rw [untouched_find expire _ t after hun, hfind0]
  have hne : expire ≠ 0 := by omega
  have : st0.now + passTotal after < st0.now + expire := by omega
  simp only [live, mkEntry, hne, ↓reduceIte, hnow, this, decide_true, Option.map_some]
  congr 2
  omega

/-- invariant of every reachable state: no entry has more than cookie-expire left (nothing is ever stored with a longer
    lifetime than the configured one) -/
def Bounded (expire : Nat) (st : St) : Prop :=
  ∀ e ∈ st.store, ∀ dl, e.deadline = some dl → dl ≤ st.now + expire

theorem bounded_step (expire : Nat) (st : St) (op : Op) (h : Bounded expire st) : Bounded expire (step expire st op) := by
  cases op with
  | save t s =>
    intro e he dl hdl
    simp only [step, List.mem_cons] at he
    rcases he with rfl | he
    · simp only [mkEntry] at hdl
      split at hdl
      · cases hdl
      · simp only [Option.some.injEq] at hdl; simp only [step]; omega
    · exact h e (List.mem_filter.1 he).1 dl hdl
  | load t => exact h
  | del t =>
    intro e he dl hdl
    exact h e (List.mem_filter.1 he).1 dl hdl
  | pass d =>
    intro e he dl hdl
    have := h e he dl hdl
    simp only [step]; omega

theorem deadline_bounded (expire : Nat) (ops : List Op) : Bounded expire (run expire ops) := by
  have : ∀ st, Bounded expire st → Bounded expire (runFrom expire st ops) := by
    induction ops with
    | nil => intro st h; exact h
    | cons op ops ih => intro st h; exact ih _ (bounded_step expire st op h)
  exact this {} (fun e he => by cases he)

/-- non-vacuity: concrete histories -/
example : get (run 3600 [.save 7 1, .pass 1500, .load 7, .load 7, .pass 2099]) 7 = some 1 := by decide
example : get (run 3600 [.save 7 1, .pass 1500, .load 7, .load 7, .pass 2100]) 7 = none := by decide
example : ttl (run 3600 [.save 7 1, .pass 1500, .load 7, .save 8 2, .load 7]) 7 = some (some 2100) := by decide
example : ttl (run 3600 [.save 7 1, .pass 1500, .save 7 2, .pass 10]) 7 = some (some 3590) := by decide
example : get (run 0 [.save 7 1, .pass 1000000]) 7 = some 1 := by decide
example : NoSave 7 [.pass 1500, .load 7, .del 8, .save 8 2] := by
  intro op hop s; simp at hop; rcases hop with rfl | rfl | rfl | rfl <;> simp

end O2P.Ttl
