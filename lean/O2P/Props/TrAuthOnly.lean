import O2P.Gen.Tr
import O2P.Lemmas.GoPrim
import O2P.Model.Authz
/-
  O2P.Props.TrAuthOnly — the regenerated auth-only constraint helpers of oauthproxy.go
  (`extractAllowedEntities`, `checkAllowedGroups`, `checkAllowedEmails`) against the model of
  O2P/Model/Authz.lean that `authOnly_iff` (C08) is about — for every query and every session.
  Go builds a `map[string]struct{}`; the translation keeps the keys in a list (`Go.setInsert` …): the
  functions only test emptiness and membership, which do not depend on Go's unspecified iteration order.
-/
set_option linter.unusedSimpArgs false
set_option linter.unusedVariables false
open O2P O2P.Go

namespace O2P.TrAuthOnly

/-- `req.URL.Query()[key]` for a parsed query -/
def queryOf (q : List (Str × Str)) (key : Str) : List Str := (q.filter (fun kv => kv.1 = key)).map (·.2)

def reqOf (q : List (Str × Str)) : Go.Req :=
  { header := fun _ => [], host := [], urlScheme := [], requestURI := [], scope := none, query := queryOf q }

def keep (st : List Str) (e : Str) : List Str := if e = [] then st else st ++ [e]

def nonEmpty (e : Str) : Bool := !decide (e = [])

theorem foldl_keep (parts : List Str) (st : List Str) :
    parts.foldl keep st = st ++ parts.filter nonEmpty := by
  induction parts generalizing st with
  | nil => simp
  | cons p ps ih =>
    rw [List.foldl_cons, ih]
    by_cases hp : p = []
    · simp [keep, nonEmpty, hp]
    · simp [keep, nonEmpty, hp, List.append_assoc]

def addVals (st : List Str) (v : Str) : List Str := st ++ (splitOn ',' v).filter nonEmpty

theorem foldl_vals (vals : List Str) (st : List Str) :
    vals.foldl addVals st = st ++ (vals.flatMap (fun v => splitOn ',' v)).filter nonEmpty := by
  induction vals generalizing st with
  | nil => simp
  | cons v vs ih =>
    rw [List.foldl_cons, ih]
    simp [addVals, List.flatMap_cons, List.filter_append, List.append_assoc]

theorem extractAllowedEntities_eq (E : Go.Ext) (q : List (Str × Str)) (key : Str) :
    Gen.Tr.extractAllowedEntities E (reqOf q) key = .ok (Authz.extractAllowed q key) := by
  unfold Gen.Tr.extractAllowedEntities Authz.extractAllowed
  have hinner : ∀ (v : Str) (st : List Str),
      Go.forRangeS (ρ := List Str) (Go.stringsSplit v [',']) st (fun entity st => do
          let mut entities := st
          if (entity != ([] : Str)) then
            entities := Go.setInsert entities entity
          return Sum.inr entities)
        = .ok (.inr (addVals st v)) := by
    intro v st
    rw [forRangeS_fold (f := keep)]
    · simp only [Go.stringsSplit, foldl_keep, addVals]
    · intro x _ s
      by_cases hx : x = [] <;> simp [hx, keep, Go.setInsert, pure, Except.pure]
  simp only [bind, Except.bind, pure, Except.pure] at hinner
  simp only [reqOf, bind, Except.bind, pure, Except.pure]
  rw [forRangeS_fold (f := addVals)]
  · rw [foldl_vals]
    have hf : (fun e : Str => decide (e ≠ [])) = nonEmpty := by funext e; simp [nonEmpty]
    simp only [hf, queryOf, List.nil_append, List.flatMap_map]
  · intro v _ st
    rw [hinner]

theorem setLen_zero (m : List Str) : (Go.setLen m == 0) = m.isEmpty := by
  unfold Go.setLen
  cases m with
  | nil => simp
  | cons a l =>
    have : (a :: l).eraseDups ≠ [] := by simp [List.eraseDups_cons]
    have hl : 0 < ((a :: l).eraseDups).length := List.length_pos_iff.mpr this
    simp; omega

def sessOf (s : Go.Session) : Authz.Sess := ⟨s.Email, s.Groups⟩

theorem lits : "allowed_groups".toList = ['a', 'l', 'l', 'o', 'w', 'e', 'd', '_', 'g', 'r', 'o', 'u', 'p', 's'] ∧
    "allowed_emails".toList = ['a', 'l', 'l', 'o', 'w', 'e', 'd', '_', 'e', 'm', 'a', 'i', 'l', 's'] := by decide

theorem checkAllowedGroups_eq (E : Go.Ext) (q : List (Str × Str)) (s : Go.Session) :
    Gen.Tr.checkAllowedGroups E (reqOf q) s = .ok (Authz.checkAllowedGroups q (sessOf s)) := by
  unfold Gen.Tr.checkAllowedGroups Authz.checkAllowedGroups
  rw [lits.1]
  simp only [extractAllowedEntities_eq, bind, Except.bind, pure, Except.pure, setLen_zero, sessOf]
  generalize Authz.extractAllowed q _ = a
  by_cases he : a.isEmpty = true
  · simp [he]
  · rw [forRange_any (p := fun g => a.contains g) (r := true)]
    · by_cases hany : ∃ x, x ∈ s.Groups ∧ x ∈ a
      · have h2 : (s.Groups.any fun g => decide (g ∈ a)) = true := by simpa using hany
        simp [he, hany, h2]
      · have h2 : (s.Groups.any fun g => decide (g ∈ a)) = false := by
          simp only [not_exists, not_and] at hany
          simp only [List.any_eq_false, decide_eq_true_eq]
          exact fun x hx => hany x hx
        simp [he, hany, h2]
    · intro g _
      by_cases hg : g ∈ a <;> simp [Go.setHas, hg]

theorem loop_found (xs : List Str) (e : Str) (allowed brk : Bool) (hb : brk = true → allowed = true) :
    Go.forRangeS (ρ := Bool) xs (allowed, brk) (fun email st =>
        if st.2 = true then Except.ok (Sum.inr (st.1, st.2))
        else if (email == e) = true then Except.ok (Sum.inr (true, true))
        else Except.ok (Sum.inr (st.1, st.2)))
      = .ok (.inr (allowed || xs.contains e, brk || xs.contains e)) := by
  induction xs generalizing allowed brk with
  | nil => simp [Go.forRangeS, pure, Except.pure]
  | cons x xs ih =>
    simp only [Go.forRangeS, bind, Except.bind]
    by_cases hbk : brk = true
    · have ha := hb hbk
      subst ha; subst hbk
      simp only [if_true]
      rw [ih true true (fun _ => rfl)]
      simp
    · have hbf : brk = false := by simpa using hbk
      subst hbf
      by_cases hx : x = e
      · subst hx
        simp only [Bool.false_eq_true, if_false, beq_self_eq_true, if_true]
        rw [ih true true (fun _ => rfl)]
        simp
      · have hxe : (x == e) = false := by simpa using hx
        simp only [Bool.false_eq_true, if_false, hxe]
        rw [ih allowed false hb]
        have hne : ¬ e = x := fun h => hx h.symm
        simp [List.contains_cons, hne]

theorem checkAllowedEmails_eq (E : Go.Ext) (q : List (Str × Str)) (s : Go.Session) :
    Gen.Tr.checkAllowedEmails E (reqOf q) s = .ok (Authz.checkAllowedEmails q (sessOf s)) := by
  unfold Gen.Tr.checkAllowedEmails Authz.checkAllowedEmails
  rw [lits.2]
  simp only [extractAllowedEntities_eq, bind, Except.bind, pure, Except.pure, setLen_zero, sessOf]
  generalize Authz.extractAllowed q _ = a
  by_cases he : a.isEmpty = true
  · simp [he]
  · have hl := loop_found a s.Email false false (by simp)
    simp only [he, Bool.false_eq_true, if_false]
    rw [hl]

end O2P.TrAuthOnly
