import O2P.Gen.Tr
import O2P.Lemmas.GoPrim
import O2P.Model.Redirect
/-
  O2P.Props.TrUtil — the REGENERATED definitions of pkg/util (O2P/Gen/Tr.lean, rewritten from the
  working tree by /verif/go2lean on every check) are equal, for every input, to the hand-written
  model functions of O2P/Model/Redirect.lean that the C06 theorems are about — and never panic
  (`= .ok …`: no index or slice of the Go code can go out of range).
-/
set_option linter.unusedSimpArgs false
open O2P O2P.Go

namespace O2P.TrUtil

theorem validOptionalPort_eq (E : Go.Ext) (port : Str) :
    Gen.Tr.validOptionalPort E port = .ok (Redirect.validOptionalPort port) := by
  unfold Gen.Tr.validOptionalPort Redirect.validOptionalPort
  cases port with
  | nil => simp [pure, Except.pure]
  | cons c rest =>
    by_cases hc : c = ':'
    · subst hc
      have hlen : ¬ ((rest.length : Int) + 1 < 1) := by omega
      have hloop := forRange_any rest (fun b => decide (b < '0') || decide ('9' < b)) false
        (fun b => if (decide (b < '0') || decide ('9' < b)) = true then Except.ok (some false) else Except.ok none)
        (fun b _ => by by_cases hb : (decide (b < '0') || decide ('9' < b)) = true <;> simp [hb])
      by_cases hs : rest = ['*']
      · simp [hs, pure, Except.pure]
      · simp [pure, Except.pure, bind, Except.bind, Go.idx, Go.sliceFrom, hlen, hs] at hloop ⊢
        rw [hloop, all_isDigit]
        by_cases hex : ∃ x, x ∈ rest ∧ (x < '0' ∨ '9' < x)
        · have : rest.any (fun b => decide (b < '0') || decide ('9' < b)) = true := by simpa using hex
          simp [hex, this]
        · have : rest.any (fun b => decide (b < '0') || decide ('9' < b)) = false := by
            simpa using hex
          simp [hex, this]
    · simp [pure, Except.pure, bind, Except.bind, Go.idx, hc]

end O2P.TrUtil

namespace O2P.TrUtil
open O2P.Go

theorem lastIndexOf_go_bound (c : Char) (s : Str) (i : Nat) (best : Option Nat)
    (hb : ∀ b, best = some b → b < i) :
    ∀ r, lastIndexOf.go c i best s = some r → r < i + s.length := by
  induction s generalizing i best with
  | nil => intro r hr; simp [lastIndexOf.go] at hr; have := hb r hr; simpa using this
  | cons d ds ih =>
    intro r hr
    simp only [lastIndexOf.go] at hr
    have := ih (i + 1) (if d = c then some i else best) (by
      intro b hbb
      by_cases hd : d = c
      · simp [hd] at hbb; omega
      · simp [hd] at hbb; have := hb b hbb; omega) r hr
    simp only [List.length_cons]; omega

theorem lastIndexOf_lt (c : Char) (s : Str) (r : Nat) (h : lastIndexOf c s = some r) : r < s.length := by
  have := lastIndexOf_go_bound c s 0 none (by simp) r h
  simpa using this

theorem slice_inner {α} (xs : List α) (h2 : 2 ≤ xs.length) :
    Go.slice xs 1 (Go.len xs - 1) = .ok (xs.tail.dropLast) := by
  unfold Go.slice Go.len
  have h1 : ¬ ((1 : Int) < 0 ∨ (xs.length : Int) - 1 < 1 ∨ (xs.length : Int) - 1 > xs.length) := by omega
  simp only [h1, if_false]
  congr 1
  have : ((xs.length : Int) - 1).toNat = xs.length - 1 := by omega
  rw [this]
  simp [List.dropLast_eq_take, List.drop_take]

theorem bracketed_len (h : Str) (hp : hasPrefix ['['] h = true) (hs : hasSuffix [']'] h = true) :
    2 ≤ h.length := by
  cases h with
  | nil => simp [hasPrefix] at hp
  | cons c t =>
    cases t with
    | nil =>
      simp [hasPrefix] at hp
      subst hp
      simp [hasSuffix] at hs
      exact absurd hs (by decide)
    | cons d u => simp

theorem strip_ok (H : Str) (h : hasPrefix ['['] H = true ∧ hasSuffix [']'] H = true) :
    Go.slice H 1 (Go.len H - 1) = .ok H.tail.dropLast :=
  slice_inner H (bracketed_len H h.1 h.2)

theorem SplitHostPort_eq (E : Go.Ext) (hostport : Str) :
    Gen.Tr.SplitHostPort E hostport = .ok (Redirect.splitHostPort hostport) := by
  unfold Gen.Tr.SplitHostPort Redirect.splitHostPort
  simp only [Go.stringsLastIndexByte]
  cases hl : lastIndexOf ':' hostport with
  | none =>
    by_cases hb : hasPrefix ['['] hostport = true ∧ hasSuffix [']'] hostport = true
    · simp [pure, Except.pure, bind, Except.bind, Go.andM, Go.stringsHasPrefix, Go.stringsHasSuffix, hb, strip_ok hostport hb]
    · simp [pure, Except.pure, bind, Except.bind, Go.andM, Go.stringsHasPrefix, Go.stringsHasSuffix, hb]
  | some colon =>
    have hlt := lastIndexOf_lt _ _ _ hl
    have h1 : ¬ ((colon : Int) < 0 ∨ List.length hostport < colon) := by omega
    have h2 : ¬ ((colon : Int) + 1 < 0 ∨ (List.length hostport : Int) < (colon : Int) + 1) := by omega
    by_cases hv : Redirect.validOptionalPort (List.drop colon hostport) = true
    · by_cases hb : hasPrefix ['['] (hostport.take colon) = true ∧ hasSuffix [']'] (hostport.take colon) = true
      · simp [pure, Except.pure, bind, Except.bind, Go.andM, Go.sliceFrom, Go.sliceTo, validOptionalPort_eq, h1, h2, hv,
          Go.stringsHasPrefix, Go.stringsHasSuffix, hb, strip_ok _ hb]
      · simp [pure, Except.pure, bind, Except.bind, Go.andM, Go.sliceFrom, Go.sliceTo, validOptionalPort_eq, h1, h2, hv,
          Go.stringsHasPrefix, Go.stringsHasSuffix, hb]
    · by_cases hb : hasPrefix ['['] hostport = true ∧ hasSuffix [']'] hostport = true
      · simp [pure, Except.pure, bind, Except.bind, Go.andM, Go.sliceFrom, Go.sliceTo, validOptionalPort_eq, h1, h2, hv,
          Go.stringsHasPrefix, Go.stringsHasSuffix, hb, strip_ok _ hb]
      · simp [pure, Except.pure, bind, Except.bind, Go.andM, Go.sliceFrom, Go.sliceTo, validOptionalPort_eq, h1, h2, hv,
          Go.stringsHasPrefix, Go.stringsHasSuffix, hb]

theorem sliceFrom_one {α} (xs : List α) (h : 1 ≤ xs.length) : Go.sliceFrom xs 1 = .ok (xs.drop 1) := by
  unfold Go.sliceFrom
  have : ¬ ((xs.length : Int) < 1) := by omega
  simp [this, pure, Except.pure]

theorem isHostnameAllowed_eq (E : Go.Ext) (hostname allowedHost : Str) :
    Gen.Tr.isHostnameAllowed E hostname allowedHost = .ok (Redirect.isHostnameAllowed hostname allowedHost) := by
  unfold Gen.Tr.isHostnameAllowed Redirect.isHostnameAllowed
  by_cases hstar : hasPrefix ['*', '.'] allowedHost = true
  · have hlen : 1 ≤ allowedHost.length := by
      cases allowedHost with
      | nil => simp [hasPrefix] at hstar
      | cons c t => simp
    simp only [Go.andM, Go.orM, Go.stringsHasPrefix, Go.stringsHasSuffix, Go.stringsTrimPrefix, hstar,
      sliceFrom_one allowedHost hlen]
    by_cases h1 : (hostname == trimPrefix ['.'] allowedHost || hostname == trimPrefix ['*', '.'] allowedHost) = true
    · simp only [h1]; simp [pure, Except.pure]
    · simp only [h1]
      simp at h1
      by_cases h2 : (hasPrefix ['.'] allowedHost && hasSuffix allowedHost hostname) = true
      · simp [h2, pure, Except.pure, bind, Except.bind, h1]
      · simp [h2, pure, Except.pure, bind, Except.bind, h1]
        by_cases h3 : hasSuffix (List.tail allowedHost) hostname = true <;> simp [h3]
  · simp only [Go.andM, Go.orM, Go.stringsHasPrefix, Go.stringsHasSuffix, Go.stringsTrimPrefix, hstar]
    by_cases h1 : (hostname == trimPrefix ['.'] allowedHost || hostname == trimPrefix ['*', '.'] allowedHost) = true
    · simp only [h1]; simp [pure, Except.pure]
    · simp only [h1]
      simp at h1
      by_cases h2 : (hasPrefix ['.'] allowedHost && hasSuffix allowedHost hostname) = true
      · simp [h2, pure, Except.pure, bind, Except.bind, h1]
      · simp [h2, pure, Except.pure, bind, Except.bind, h1]

theorem IsEndpointAllowed_eq (E : Go.Ext) (endpoint : Go.URL) (allowedDomains : List Str) :
    Gen.Tr.IsEndpointAllowed E endpoint allowedDomains
      = .ok (Redirect.isEndpointAllowed endpoint.hostname endpoint.port allowedDomains) := by
  unfold Gen.Tr.IsEndpointAllowed Redirect.isEndpointAllowed
  by_cases hh : endpoint.hostname = []
  · simp [hh, pure, Except.pure]
  · have hloop := forRange_any allowedDomains (Redirect.domainAllows endpoint.hostname endpoint.port) true
      (fun allowedDomain => do
        let (allowedHost, allowedPort) := (← Gen.Tr.SplitHostPort E allowedDomain)
        if (allowedHost == ([] : Str)) then
          return none
        if (← Gen.Tr.isHostnameAllowed E endpoint.hostname allowedHost) then
          let redirectPort := endpoint.port
          if (((allowedPort == ['*']) || (allowedPort == redirectPort)) || (((allowedPort == ([] : Str)) && (redirectPort == ([] : Str))))) then
            return some true
        return none)
      (by
        intro x _
        simp only [SplitHostPort_eq, isHostnameAllowed_eq, Redirect.domainAllows]
        by_cases h0 : (Redirect.splitHostPort x).1 = []
        · simp [h0, pure, Except.pure, bind, Except.bind]
        · by_cases h1 : Redirect.isHostnameAllowed endpoint.hostname (Redirect.splitHostPort x).1 = true
          · simp [h0, h1, pure, Except.pure, bind, Except.bind]
            split <;> rfl
          · simp [h0, h1, pure, Except.pure, bind, Except.bind])
    simp [hh, bind, Except.bind, pure, Except.pure] at hloop ⊢
    rw [hloop]
    by_cases ha : ∃ x, x ∈ allowedDomains ∧ Redirect.domainAllows endpoint.hostname endpoint.port x = true
    · simp [ha, hh]
    · simp [ha]
      intro _ x hx
      cases hd : Redirect.domainAllows endpoint.hostname endpoint.port x with
      | false => rfl
      | true => exact absurd ⟨x, hx, hd⟩ ha

end O2P.TrUtil
