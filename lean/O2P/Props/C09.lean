/-
  O2P.Props.C09 — "With a non-zero cookie-expire, a credential is rejected once that duration
  has elapsed since issue, and rejected if its issue time lies more than five minutes in the
  future."   (cookie layer: `encryption.Validate`, /repo/pkg/encryption/utils.go)

  All statements hold for EVERY keyed hash `mac`.
  `t` is the timestamp carried by the cookie (whole Unix seconds), `expireNs` the configured
  cookie-expire and `nowNs` the wall clock, both in nanoseconds (`time.Duration`/`UnixNano`).

  `effSec t` is the second that `time.Unix(t,0)` denotes in Go's comparisons: `effSec t = t`
  for every `t ≤ 9223371974719179007` (≈ year 292·10⁹); above that Go's internal
  `t + 62135596800` overflows int64 and the `Time` lands ~292·10⁹ years in the PAST
  (`effSec t = t - 2⁶⁴`), which only makes rejection easier (see `effSec_le`).
-/
import O2P.Lemmas.Signed

namespace O2P.C09
open O2P

/-- **window_iff** — with a non-zero expiry, a cookie is accepted iff it is accepted with the
    window check switched off (`expire = 0`) and, in addition, its timestamp lies STRICTLY
    inside `(now − expire, now + 5 min)`. -/
theorem window_iff (mac : Str → Str → Str) (name cookieValue seed : Str) (expireNs nowNs : Int)
    (v : Str) (t : Int) (hexp : expireNs ≠ 0) :
    validate mac name cookieValue seed expireNs nowNs = some (v, t) ↔
      validate mac name cookieValue seed 0 nowNs = some (v, t)
      ∧ nowNs - expireNs < effSec t * 1000000000
      ∧ effSec t * 1000000000 < nowNs + 300 * 1000000000 := by
  rw [validate_eq_some_iff, validate_eq_some_iff]
  constructor
  · rintro ⟨p0, p1, p2, hsp, hsig, hat, hw, hv⟩
    rcases hw with h0 | ⟨h1, h2⟩
    · exact absurd h0 hexp
    · exact ⟨⟨p0, p1, p2, hsp, hsig, hat, .inl rfl, hv⟩, h1, h2⟩
  · rintro ⟨⟨p0, p1, p2, hsp, hsig, hat, _, hv⟩, h1, h2⟩
    exact ⟨p0, p1, p2, hsp, hsig, hat, .inr ⟨h1, h2⟩, hv⟩

/-- acceptance ⇒ the timestamp is strictly inside the window (both bounds strict) -/
theorem accepted_in_window (mac : Str → Str → Str) (name cookieValue seed : Str)
    (expireNs nowNs : Int) (v : Str) (t : Int) (hexp : expireNs ≠ 0)
    (h : validate mac name cookieValue seed expireNs nowNs = some (v, t)) :
    nowNs - expireNs < effSec t * 1000000000 ∧ effSec t * 1000000000 < nowNs + 300 * 1000000000 :=
  ((window_iff mac name cookieValue seed expireNs nowNs v t hexp).mp h).2

/-- the timestamp returned by `validate` is the one written in the cookie, and is an int64 -/
theorem accepted_timestamp (mac : Str → Str → Str) (name cookieValue seed : Str)
    (expireNs nowNs : Int) (v : Str) (t : Int)
    (h : validate mac name cookieValue seed expireNs nowNs = some (v, t)) :
    ∃ p0 p1 p2, splitOn '|' cookieValue = [p0, p1, p2] ∧ atoi p1 = some t
      ∧ -9223372036854775808 ≤ t ∧ t ≤ 9223372036854775807 := by
  obtain ⟨p0, p1, p2, hsp, _, hat, _, _⟩ := (validate_eq_some_iff ..).mp h
  exact ⟨p0, p1, p2, hsp, hat, atoi_range hat⟩

/-- acceptance in terms of the plain timestamp `t` (no `effSec`), for a clock after 1970 and an
    expiry that fits `time.Duration` -/
theorem accepted_in_window_plain (mac : Str → Str → Str) (name cookieValue seed : Str)
    (expireNs nowNs : Int) (v : Str) (t : Int) (hexp : expireNs ≠ 0)
    (hsane : -9223372036854775808 ≤ nowNs - expireNs)
    (h : validate mac name cookieValue seed expireNs nowNs = some (v, t)) :
    nowNs - expireNs < t * 1000000000 ∧ t * 1000000000 < nowNs + 300 * 1000000000 := by
  obtain ⟨_, _, _, _, _, hlo, hhi⟩ := accepted_timestamp mac name cookieValue seed expireNs nowNs v t h
  have hw := accepted_in_window mac name cookieValue seed expireNs nowNs v t hexp h
  by_cases hbig : t ≤ 9223371974719179007
  · rw [effSec_eq (by omega) hbig] at hw; exact hw
  · rw [effSec_wrapped (by omega) hhi] at hw; omega

/-- **expired_rejected** — whatever else the cookie contains (valid signature or not), if its
    timestamp `t` satisfies `t ≤ now − expire` (the expiry duration has elapsed, boundary
    included) it is rejected. -/
theorem expired_rejected (mac : Str → Str → Str) (name cookieValue seed : Str)
    (expireNs nowNs : Int) (p0 p1 p2 : Str) (t : Int) (hexp : expireNs ≠ 0)
    (hsp : splitOn '|' cookieValue = [p0, p1, p2]) (hat : atoi p1 = some t)
    (hold : t * 1000000000 ≤ nowNs - expireNs) :
    validate mac name cookieValue seed expireNs nowNs = none := by
  cases hv : validate mac name cookieValue seed expireNs nowNs with
  | none => rfl
  | some r =>
    obtain ⟨v, t'⟩ := r
    have hw := accepted_in_window mac name cookieValue seed expireNs nowNs v t' hexp hv
    obtain ⟨q0, q1, q2, hsp', hat', hlo, hhi⟩ :=
      accepted_timestamp mac name cookieValue seed expireNs nowNs v t' hv
    rw [hsp] at hsp'
    simp only [List.cons.injEq, and_true] at hsp'
    obtain ⟨rfl, rfl, rfl⟩ := hsp'
    rw [hat] at hat'
    simp only [Option.some.injEq] at hat'
    subst hat'
    have := effSec_le hlo hhi
    omega

/-- **future_rejected** — a cookie whose timestamp is five minutes or more ahead of the
    clock is rejected.  `hsane` (true whenever `now ≥ 1970` and `expire` fits an int64) is only
    needed for timestamps beyond year 292·10⁹, which Go's `time.Unix` wraps into the past. -/
theorem future_rejected (mac : Str → Str → Str) (name cookieValue seed : Str)
    (expireNs nowNs : Int) (p0 p1 p2 : Str) (t : Int) (hexp : expireNs ≠ 0)
    (hsane : -9223372036854775808 ≤ nowNs - expireNs)
    (hsp : splitOn '|' cookieValue = [p0, p1, p2]) (hat : atoi p1 = some t)
    (hfut : nowNs + 300 * 1000000000 ≤ t * 1000000000) :
    validate mac name cookieValue seed expireNs nowNs = none := by
  cases hv : validate mac name cookieValue seed expireNs nowNs with
  | none => rfl
  | some r =>
    obtain ⟨v, t'⟩ := r
    have hw := accepted_in_window_plain mac name cookieValue seed expireNs nowNs v t' hexp hsane hv
    obtain ⟨q0, q1, q2, hsp', hat', _, _⟩ :=
      accepted_timestamp mac name cookieValue seed expireNs nowNs v t' hv
    rw [hsp] at hsp'
    simp only [List.cons.injEq, and_true] at hsp'
    obtain ⟨rfl, rfl, rfl⟩ := hsp'
    rw [hat] at hat'
    simp only [Option.some.injEq] at hat'
    subst hat'
    omega

/-- with `expire = 0` the window is not checked at all (any parsable timestamp passes) -/
theorem no_expiry_no_window (t nowNs : Int) : inWindow t 0 nowNs := .inl rfl

/-! ### non-vacuity -/

-- hypotheses of `expired_rejected` / `future_rejected` are satisfiable, and the boundary is tight:
-- expire = 1 h, now = 1 700 003 600.5 s
example : validate toyMac "n".toList "aGk=|1700000000|x".toList "k".toList 3600000000000 1700003600500000000 = none :=
  expired_rejected toyMac _ _ _ _ _ "aGk=".toList "1700000000".toList "x".toList 1700000000
    (by decide) (by decide) (by decide) (by decide)
example : validate toyMac "n".toList "aGk=|1700003901|x".toList "k".toList 3600000000000 1700003600500000000 = none :=
  future_rejected toyMac _ _ _ _ _ "aGk=".toList "1700003901".toList "x".toList 1700003901
    (by decide) (by decide) (by decide) (by decide) (by decide)
-- strictness at the lower edge: now − expire = t·10⁹ exactly ⇒ rejected
example : validate toyMac "n".toList "aGk=|1700000000|x".toList "k".toList 3600000000000 1700003600000000000 = none :=
  expired_rejected toyMac _ _ _ _ _ "aGk=".toList "1700000000".toList "x".toList 1700000000
    (by decide) (by decide) (by decide) (by decide)
-- strictness at the upper edge: t·10⁹ = now + 300 s exactly ⇒ rejected
example : validate toyMac "n".toList "aGk=|1700003900|x".toList "k".toList 3600000000000 1700003600000000000 = none :=
  future_rejected toyMac _ _ _ _ _ "aGk=".toList "1700003900".toList "x".toList 1700003900
    (by decide) (by decide) (by decide) (by decide) (by decide)
-- a timestamp beyond Go's representable range is wrapped into the past and rejected
example : effSec 9223372036854775807 = -9223372036854775809 := by decide

end O2P.C09
