import O2P.Gen.Tr
import O2P.Lemmas.GoPrim
import O2P.Props.TrRoutes
import O2P.Model.ClientIP
/-
  O2P.Props.TrClientIP — the regenerated `xForwardedForClientIPParser.GetRealClientIP` and `getRemoteIP`
  (pkg/ip/realclientip.go) against the selection logic of O2P/Model/ClientIP.lean that the C15 / C16
  theorems (`trusted_iff`, `only_configured_header`, `absent_header_not_trusted`) are about: which text of
  the request is consulted, and what an absent / empty / unparsable value yields — for every header map,
  every `net.SplitHostPort` and every `net.ParseIP`.
-/
set_option linter.unusedSimpArgs false
set_option linter.unusedVariables false
open O2P O2P.Go

namespace O2P.TrClientIP

/-- Go's `(net.IP, error)` as the model's three-way result -/
def toClientIP (r : Option Go.IP × Go.Err) : ClientIP :=
  match r.2 with
  | some _ => .error
  | none => match r.1 with
    | some a => .addr a
    | none => .absent

/-- the two `net` functions of the model, from the externals of the regenerated code -/
def netText (E : Go.Ext) : NetText :=
  { splitHostPort := fun s => (E.splitHostPortStd s).map (·.1), parseIP := E.parseIP }

theorem GetRealClientIP_eq (E : Go.Ext) (header : Str) (h : Headers) :
    (Gen.Tr.GetRealClientIP E header (headerGet h)).map toClientIP
      = .ok (getRealClientIP (netText E) header h) := by
  unfold Gen.Tr.GetRealClientIP getRealClientIP
  obtain ⟨realIP, hr⟩ : ∃ v, headerGet h header = v := ⟨_, rfl⟩
  simp only [hr]
  by_cases h0 : realIP = []
  · simp [h0, Except.map, toClientIP, pure, Except.pure]
  · have hne : (realIP != []) = true := by simp [h0]
    have hemp : realIP.isEmpty = false := by cases realIP <;> simp at h0 ⊢
    simp only [hne, if_true, hemp, Bool.false_eq_true, if_false]
    have hcut := TrRoutes.cut_at ',' realIP
    obtain ⟨cut, hc⟩ : ∃ v, (splitFirst ',' realIP).1 = v := ⟨_, rfl⟩
    rw [hc] at hcut
    simp only [hc]
    obtain ⟨sp, hsp⟩ : ∃ v, E.splitHostPortStd (Go.stringsTrimSpace cut) = v := ⟨_, rfl⟩
    have hsp' : E.splitHostPortStd (trimSpace cut) = sp := hsp
    by_cases hi : (Go.stringsIndex realIP [','] != -1) = true
    · simp only [hi, if_true] at hcut
      simp only [hi, if_true, hcut, bind, Except.bind, pure, Except.pure, Go.netSplitHostPort, hsp, netText, hsp']
      cases sp with
      | none =>
        obtain ⟨pi, hpi⟩ : ∃ v, E.parseIP (Go.stringsTrimSpace cut) = v := ⟨_, rfl⟩
        have hpi' : E.parseIP (trimSpace cut) = pi := hpi
        cases pi <;> simp [hpi, hpi', Except.map, toClientIP]
      | some hp =>
        obtain ⟨ho, po⟩ := hp
        obtain ⟨pi, hpi⟩ : ∃ v, E.parseIP ho = v := ⟨_, rfl⟩
        cases pi <;> simp [hpi, Except.map, toClientIP]
    · simp only [hi] at hcut
      have hcut' : realIP = cut := by
        simp at hcut; exact hcut
      subst hcut'
      simp only [hi, bind, Except.bind, pure, Except.pure, Go.netSplitHostPort, hsp, netText, hsp']
      cases sp with
      | none =>
        obtain ⟨pi, hpi⟩ : ∃ v, E.parseIP (Go.stringsTrimSpace realIP) = v := ⟨_, rfl⟩
        have hpi' : E.parseIP (trimSpace realIP) = pi := hpi
        cases pi <;> simp [hpi, hpi', Except.map, toClientIP]
      | some hp =>
        obtain ⟨ho, po⟩ := hp
        obtain ⟨pi, hpi⟩ : ∃ v, E.parseIP ho = v := ⟨_, rfl⟩
        cases pi <;> simp [hpi, Except.map, toClientIP]

theorem getRemoteIP_eq (E : Go.Ext) (req : Go.Req) :
    (Gen.Tr.getRemoteIP E req).map toClientIP = .ok (O2P.getRemoteIP (netText E) req.remoteAddr) := by
  unfold Gen.Tr.getRemoteIP O2P.getRemoteIP
  obtain ⟨sp, hsp⟩ : ∃ v, E.splitHostPortStd req.remoteAddr = v := ⟨_, rfl⟩
  simp only [Go.netSplitHostPort, netText, hsp]
  cases sp with
  | none => simp [Except.map, toClientIP, pure, Except.pure]
  | some hp =>
    obtain ⟨ho, po⟩ := hp
    obtain ⟨pi, hpi⟩ : ∃ v, E.parseIP ho = v := ⟨_, rfl⟩
    cases pi <;> simp [hpi, Except.map, toClientIP, pure, Except.pure]

end O2P.TrClientIP
