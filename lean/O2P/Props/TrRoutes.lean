import O2P.Gen.Tr
import O2P.Lemmas.GoPrim
import O2P.Model.Routes
/-
  O2P.Props.TrRoutes — the regenerated skip-auth decision of oauthproxy.go (`isAllowedMethod`,
  `isAllowedPath`, `isAllowedRoute`) and `requestutil.GetRequestPath` against the model of
  O2P/Model/Routes.lean that the C15 theorems (`route_iff`, …) are about: for every rule list,
  every request, every regular-expression engine `E.regexMatch` and every URL parser.
-/
set_option linter.unusedSimpArgs false
set_option linter.unusedVariables false
open O2P O2P.Go

namespace O2P.TrRoutes

def toModel (r : Go.Route) : O2P.Route := ⟨r.method, r.negate, r.pathRegex⟩

theorem indexByte_none (c : Char) (s : Str) (h : Go.indexByte c s = none) : (splitFirst c s).1 = s := by
  induction s with
  | nil => simp [splitFirst]
  | cons d ds ih =>
    by_cases hd : d = c
    · simp [Go.indexByte, hd] at h
    · simp [Go.indexByte, hd] at h
      simp [splitFirst, hd, ih h]

theorem indexByte_some (c : Char) (s : Str) (i : Nat) (h : Go.indexByte c s = some i) :
    i ≤ s.length ∧ s.take i = (splitFirst c s).1 := by
  induction s generalizing i with
  | nil => simp [Go.indexByte] at h
  | cons d ds ih =>
    by_cases hd : d = c
    · simp [Go.indexByte, hd] at h
      subst h
      simp [splitFirst, hd]
    · simp [Go.indexByte, hd] at h
      obtain ⟨j, hj, rfl⟩ := h
      obtain ⟨h1, h2⟩ := ih j hj
      simp [splitFirst, hd, h2]
      omega

/-- `s[:strings.Index(s, c)]`, or `s` when `c` does not occur: the text before the first `c` -/
theorem cut_at (c : Char) (uri : Str) :
    (if Go.stringsIndex uri [c] != -1 then Go.sliceTo uri (Go.stringsIndex uri [c]) else (.ok uri : Go.M Str))
      = .ok (splitFirst c uri).1 := by
  unfold Go.stringsIndex
  obtain ⟨r, hr⟩ : ∃ r, Go.indexByte c uri = r := ⟨_, rfl⟩
  simp only [hr]
  cases r with
  | none =>
    have : ((-1 : Int) != -1) = false := by decide
    simp [this, indexByte_none _ _ hr]
  | some i =>
    obtain ⟨h1, h2⟩ := indexByte_some _ _ _ hr
    have hne : ((i : Int) != -1) = true := by simp
    simp only [hne, if_true]
    unfold Go.sliceTo
    have hc : ¬ ((i : Int) < 0 ∨ (i : Int) > uri.length) := by omega
    simp only [hc, if_false, Int.toNat_natCast, h2]
    rfl

/-- `uri[:strings.Index(uri, "?")]`, or `uri` when there is no `?`: the model's `stripQuery` -/
theorem cut_query (uri : Str) :
    (if Go.stringsIndex uri ['?'] != -1 then Go.sliceTo uri (Go.stringsIndex uri ['?']) else (.ok uri : Go.M Str))
      = .ok (stripQuery uri) := cut_at '?' uri

/-- the path the rules are matched against, in terms of the parser's answer -/
def pathOf (E : Go.Ext) (uri : Str) : Str :=
  match E.urlParseRequestURI uri with
  | some (_, _, p) => p
  | none => stripQuery uri

theorem GetRequestPath_eq (E : Go.Ext) (req : Go.Req) (uri : Str)
    (hu : Gen.Tr.GetRequestURI E req = .ok uri) :
    Gen.Tr.GetRequestPath E req = .ok (pathOf E uri) := by
  unfold Gen.Tr.GetRequestPath pathOf Go.urlParseRequestURI
  simp only [hu, bind, Except.bind]
  obtain ⟨r, hr⟩ : ∃ r, E.urlParseRequestURI uri = r := ⟨_, rfl⟩
  simp only [hr]
  cases r with
  | some t =>
    obtain ⟨h, p, pa⟩ := t
    simp [Go.urlOf, pure, Except.pure]
  | none =>
    have hcut := cut_query uri
    by_cases hi : (Go.stringsIndex uri ['?'] != -1) = true
    · simp only [hi, if_true] at hcut
      simp [Go.urlOf, pure, Except.pure, hi, hcut, bind, Except.bind]
    · simp only [hi] at hcut
      simp [Go.urlOf, pure, Except.pure, hi]
      simpa using hcut

theorem isAllowedMethod_eq (E : Go.Ext) (req : Go.Req) (route : Go.Route) :
    Gen.Tr.isAllowedMethod E req route = .ok (route.method.isEmpty || req.method == route.method) := by
  unfold Gen.Tr.isAllowedMethod
  cases hm : route.method <;> simp [pure, Except.pure]

theorem isAllowedPath_eq (E : Go.Ext) (req : Go.Req) (route : Go.Route) (path : Str)
    (hp : Gen.Tr.GetRequestPath E req = .ok path) :
    Gen.Tr.isAllowedPath E req route = .ok (E.regexMatch route.pathRegex path != route.negate) := by
  unfold Gen.Tr.isAllowedPath
  simp only [hp, bind, Except.bind]
  cases route.negate <;> cases E.regexMatch route.pathRegex path <;> simp [pure, Except.pure]

theorem isAllowedRoute_eq (E : Go.Ext) (routes : List Go.Route) (req : Go.Req) (path : Str)
    (hp : Gen.Tr.GetRequestPath E req = .ok path) :
    Gen.Tr.isAllowedRoute E routes req
      = .ok (O2P.isAllowedRoute E.regexMatch (routes.map toModel) req.method path) := by
  unfold Gen.Tr.isAllowedRoute O2P.isAllowedRoute
  have hloop := forRange_any routes (fun r => routeAllows E.regexMatch (toModel r) req.method path) true
    (fun route => do
      if (← Go.andM (← Gen.Tr.isAllowedMethod E req route) (do return (← Gen.Tr.isAllowedPath E req route))) then
        return some true
      return none)
    (by
      intro r _
      simp only [isAllowedMethod_eq, isAllowedPath_eq E req r path hp, routeAllows, toModel, Go.andM,
        bind, Except.bind, pure, Except.pure]
      by_cases h1 : (r.method.isEmpty || req.method == r.method) = true
      · by_cases h2 : (E.regexMatch r.pathRegex path != r.negate) = true
        · simp [h1, h2]
        · simp [h1, h2]
      · simp [h1])
  simp only [bind, Except.bind, pure, Except.pure] at hloop ⊢
  rw [hloop]
  have hany : (routes.map toModel).any (fun r => routeAllows E.regexMatch r req.method path)
      = routes.any (fun r => routeAllows E.regexMatch (toModel r) req.method path) := by
    simp [List.any_map, Function.comp_def]
  rw [hany]
  by_cases ha : routes.any (fun r => routeAllows E.regexMatch (toModel r) req.method path) = true
  · simp [ha]
  · simp [ha]

end O2P.TrRoutes
