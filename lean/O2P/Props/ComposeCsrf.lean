/-
  O2P.Props.ComposeCsrf — Layer A's `csrfByName` instantiated by the signed-cookie model
  (`Model/Signed`): what "the CSRF cookie of the same login" means in BYTES (C03 ∘ C02 ∘ C09).

  `LoadCSRFCookie(req, name, opts)` = the FIRST request cookie of that name for which
  `encryption.Validate` under the cookie secret and cookie-expire succeeds and AES-CFB decrypt +
  msgpack decode (the parameter `decode`) succeed.

    login_needs_signed_csrf_bytes   a session cookie set by the callback ⇒ the request carried, as the
        cookie named after the state, a value `p0|p1|p2` whose tag is the MAC of
        name‖p0‖p1 under the cookie secret, whose timestamp lies in the validity window, and
        whose payload decodes to a CSRF record whose stored state hash-matches the state parameter
    stale_or_unsigned_csrf_no_login  no such cookie ⇒ no session, whatever the identity provider says
-/
import O2P.Props.C03
import O2P.Props.C02
import O2P.Props.C09
import O2P.Model.CsrfLoad

namespace O2P.ComposeCsrf
open O2P

theorem csrfLoad_some {mac : Str → Str → Str} {decode : Str → Option CSRF} {secret : Str} {expireNs nowNs : Int}
    {cookies : List (Str × Str)} {name : Str} {c : CSRF}
    (h : csrfLoad mac decode secret expireNs nowNs cookies name = some c) :
    ∃ v bytes t, (name, v) ∈ cookies ∧
      validate mac name v secret expireNs nowNs = some (bytes, t) ∧ decode bytes = some c := by
  unfold csrfLoad at h
  obtain ⟨⟨n, v⟩, hmem, hf⟩ := List.exists_of_findSome?_eq_some h
  simp only at hf
  split at hf
  · rename_i hn
    subst hn
    unfold csrfDecode at hf
    split at hf
    · cases hf
    · rename_i bytes t hval
      exact ⟨v, bytes, t, hmem, hval, hf⟩
  · cases hf

/-- **login_needs_signed_csrf_bytes** (C03 ∘ C02 ∘ C09).  For every MAC function, every payload
    decoder, every identity provider and store behaviour: if the callback sets a session cookie,
    then the request carried a cookie named after the state parameter whose value has exactly three
    `|`-parts, whose tag decodes to the MAC of `name‖p0‖p1` under the cookie secret, whose timestamp
    is inside `(now − expire, now + 5 min)`, and whose payload decodes to a CSRF record whose stored
    state hashes to the state parameter's nonce. -/
theorem login_needs_signed_csrf_bytes (mac : Str → Str → Str) (hmac : C02.MacBytes mac) (decode : Str → Option CSRF)
    (cfg : Cfg) (env : Env) (g : Glue) (r : Req) (secret : Str) (s : Session)
    (hcsrf : env.csrfByName = csrfLoad mac decode secret cfg.cookieExpire env.now r.cookies)
    (hexp : cfg.cookieExpire ≠ 0) (hsane : -9223372036854775808 ≤ env.now - cfg.cookieExpire)
    (h : Established (callbackHandler cfg env r g.decodeB64) s) :
    ∃ nonce rd csrf v p0 p1 p2 t bytes,
      stateOf cfg g r = some (nonce, rd) ∧
      (env.csrfCookieName (stateSubstring cfg nonce), v) ∈ r.cookies ∧
      splitOn '|' v = [p0, p1, p2] ∧
      b64Decode true true p2 = some (mac secret (env.csrfCookieName (stateSubstring cfg nonce) ++ p0 ++ p1)) ∧
      atoi p1 = some t ∧
      env.now - cfg.cookieExpire < t * 1000000000 ∧ t * 1000000000 < env.now + 300 * 1000000000 ∧
      b64Decode true true p0 = some bytes ∧ decode bytes = some csrf ∧
      hashNonceM env csrf.state = nonce := by
  obtain ⟨nonce, rd, csrf, hst, hc, hh⟩ := c03_only_if cfg env g r s h
  rw [hcsrf] at hc
  obtain ⟨v, bytes, t, hv, hval, hd⟩ := csrfLoad_some hc
  obtain ⟨p0, p1, p2, hsp, htag, hat, _, hp0⟩ :=
    (C02.validate_accepts_iff mac hmac _ v secret cfg.cookieExpire env.now bytes t).1 hval
  obtain ⟨hw1, hw2⟩ := C09.accepted_in_window_plain mac _ v secret cfg.cookieExpire env.now bytes t hexp hsane hval
  exact ⟨nonce, rd, csrf, v, p0, p1, p2, t, bytes, hst, hv, hsp, htag, hat, hw1, hw2, hp0, hd, hh⟩

/-- **stale_or_unsigned_csrf_no_login**: if NO request cookie named after the state validates (absent,
    wrong tag, not three parts, timestamp outside the window), the callback sets no session —
    independently of everything the identity provider or the store does. -/
theorem stale_or_unsigned_csrf_no_login (mac : Str → Str → Str) (decode : Str → Option CSRF)
    (cfg : Cfg) (env : Env) (g : Glue) (r : Req) (secret : Str) (nonce rd : Str)
    (hcsrf : env.csrfByName = csrfLoad mac decode secret cfg.cookieExpire env.now r.cookies)
    (hst : stateOf cfg g r = some (nonce, rd))
    (hbad : ∀ v, (env.csrfCookieName (stateSubstring cfg nonce), v) ∈ r.cookies →
        validate mac (env.csrfCookieName (stateSubstring cfg nonce)) v secret cfg.cookieExpire env.now = none) :
    ∀ s, ¬ Established (callbackHandler cfg env r g.decodeB64) s := by
  apply c03_no_cookie_no_session cfg env g r nonce rd hst
  left
  rw [hcsrf]
  cases hl : csrfLoad mac decode secret cfg.cookieExpire env.now r.cookies (env.csrfCookieName (stateSubstring cfg nonce)) with
  | none => rfl
  | some c =>
    obtain ⟨v, bytes, t, hv, hval, _⟩ := csrfLoad_some hl
    rw [hbad v hv] at hval
    cases hval

/-! ### non-vacuity: a foreign cookie of the same name in front does not mask the own one -/
example (mac : Str → Str → Str) (decode : Str → Option CSRF) (secret name good : Str) (e n : Int) (c : CSRF)
    (hg : csrfDecode mac decode secret e n name good = some c)
    (bad : Str) (hb : csrfDecode mac decode secret e n name bad = none) :
    csrfLoad mac decode secret e n [(name, bad), (name, good)] name = some c := by
  simp [csrfLoad, List.findSome?, hg, hb]

end O2P.ComposeCsrf
