/-
  O2P.Props.C07 — header injection.

  C07: "On every request forwarded upstream, each header name the operator configured for
  injection carries exactly the values derived from the authenticated session (no value when
  there is no session or the claim is empty); values the client supplied under those names, in
  any letter case or multiplicity, never reach the upstream unless the operator chose to
  preserve them.  Same for response headers on auth-only."

  Vocabulary (defined in O2P/Lemmas/Headers.lean, all computable):
    hVals h k            the value list stored in header map `h` under the exact key `k`
    WF h                 `h` has pairwise distinct, canonical keys (true of every map produced by net/http)
    claimVals s c        panic-free claim values of session `s`
    srcVals b64 s v      values one configured value source derives from the session
                         (secret ↦ [secret]; claim ↦ non-empty claim values, rendered with prefix / basic-auth)
    injectedFor b64 cfg s k   all values configured for canonical key `k`, in configuration order
    stripped cfg k       some configured entry with canonical key `k` has PreserveRequestValue = false
    flat k vs            effect of flattenHeaders: comma-join when ≥ 2 values and k ≠ "Set-Cookie"
-/
import O2P.Lemmas.Headers

namespace O2P.Hdr

/-! ## canonical keys -/

/-- `CanonicalHeaderKey` is idempotent. -/
theorem canonKey_idem (n : Str) : canonKey (canonKey n) = canonKey n := canonKey_canonKey n

/-- For names made of token characters, the canonical key does not depend on letter case. -/
theorem canonKey_case_insensitive (n : Str) (h : n.all validHeaderFieldByte = true) :
    canonKey (n.map asciiLower) = canonKey n := canonKey_lower_of_valid n h

/-- Two token names have the same canonical key iff they are equal up to ASCII letter case. -/
theorem canonKey_eq_iff_lower_eq (m n : Str)
    (hm : m.all validHeaderFieldByte = true) (hn : n.all validHeaderFieldByte = true) :
    canonKey m = canonKey n ↔ lower m = lower n := by
  constructor
  · intro h
    rw [← lower_canonKey m hm, ← lower_canonKey n hn, h]
  · intro h
    rw [← canonKey_lower_of_valid m hm, ← canonKey_lower_of_valid n hn, h]

example : canonKey "x-FORWARDED-user".toList = "X-Forwarded-User".toList := by decide
example : canonKey "x forwarded".toList = "x forwarded".toList := by decide   -- invalid token: unchanged
example : "x-forwarded-user".toList.all validHeaderFieldByte = true := by decide
/-- the hypothesis of `canonKey_case_insensitive` is necessary: names with a non-token byte are
    not canonicalised at all, so letter case matters for them -/
example : canonKey ("Foo Bar".toList.map asciiLower) ≠ canonKey "Foo Bar".toList := by decide

/-! ## `stripped` / `flat` unfolded -/

theorem stripped_iff (cfg : List HeaderCfg) (k : Str) :
    stripped cfg k = true ↔ ∃ c ∈ cfg, c.preserve = false ∧ canonKey c.name = k := by
  simp [stripped]

theorem stripped_false_iff (cfg : List HeaderCfg) (k : Str) :
    stripped cfg k = false ↔ ∀ c ∈ cfg, canonKey c.name = k → c.preserve = true := by
  rw [← Bool.not_eq_true, stripped_iff]
  constructor
  · intro h c hc hk
    cases hp : c.preserve with
    | true => rfl
    | false => exact absurd ⟨c, hc, hp, hk⟩ h
  · rintro h ⟨c, hc, hp, hk⟩
    rw [h c hc hk] at hp; cases hp

/-- `Header.Get` after flattening returns the comma-joined list (unless the key is Set-Cookie) -/
theorem flat_headD (k : Str) (vs : List Str) (hk : k ≠ setCookieKey) :
    (flat k vs).headD [] = joinWith ',' vs := by
  unfold flat
  match vs with
  | [] => simp [joinWith]
  | [v] => simp [joinWith]
  | a :: b :: r => simp [hk]

/-! ## C07, request side -/

/-- **C07 (request), per-key form.**  Whatever the client sent (any well-formed header map), for
    *every* key `k` the header map seen by the upstream handler holds exactly: the client's values
    (dropped if some non-preserved configured header has canonical key `k`) followed by the values
    derived from the session for `k` in configuration order, comma-joined by `flattenHeaders`. -/
theorem c07_request_vals (fixed : Bool) (b64 : Str → Str) (cfg : List HeaderCfg)
    (s : Option Session) (client out : Headers) (w : WF client)
    (hok : pipelineRequest fixed b64 cfg s client = .ok out) (k : Str) :
    hVals out k =
      flat k ((if stripped cfg k then [] else hVals client k) ++ injectedFor b64 cfg s k) := by
  unfold pipelineRequest at hok
  split at hok
  · rename_i h hinj
    simp only [Outcome.ok.injEq] at hok
    subst hok
    obtain ⟨hw, hv⟩ := injectAll_ok fixed b64 s _ _ _ hinj
    have wf := hw (WF_strip _ _ w)
    rw [hVals_flatten _ wf, hv, injectors_filter, hVals_strip]
    congr 2
    have : ((stripNames cfg).any (fun n => decide (canonKey n = k))) = stripped cfg k := by
      simp [stripNames, stripped, List.any_map, List.any_filter, Function.comp_def]
    rw [this]
  · cases hok
  · cases hok

/-- the repaired code always produces a header map (no panic, no error) -/
theorem pipelineRequest_fixed_total (b64 : Str → Str) (cfg : List HeaderCfg)
    (s : Option Session) (client : Headers) :
    ∃ out, pipelineRequest true b64 cfg s client = .ok out := by
  unfold pipelineRequest
  obtain ⟨h, hh⟩ := injectAll_fixed b64 s (injectors cfg) (strip (stripNames cfg) client)
  exact ⟨flatten h, by rw [hh]⟩

/-- **C07 (request).**  For every configuration, session, raw client header list (arbitrary
    spellings and multiplicities) and every header name `n`: the values upstream sees under `n`
    are exactly `kept ++ injected`, flattened, where `kept` are the client's values for that
    canonical key if **all** configured entries with that key are `preserve`, and `[]` otherwise. -/
theorem c07_request (fixed : Bool) (b64 : Str → Str) (cfg : List HeaderCfg)
    (s : Option Session) (raw : List (Str × Str)) (out : Headers)
    (hok : pipelineRequest fixed b64 cfg s (fromClient raw) = .ok out) (n : Str) :
    hValues out n =
      flat (canonKey n)
        ((if stripped cfg (canonKey n) then []
          else (raw.filter (fun nv => canonKey nv.1 = canonKey n)).map (·.2))
         ++ injectedFor b64 cfg s (canonKey n)) := by
  unfold hValues
  rw [c07_request_vals fixed b64 cfg s _ out (WF_fromClient raw) hok, hVals_fromClient]

/-- `Header.Get` form of `c07_request` (what a Go upstream reads with `r.Header.Get(n)`). -/
theorem c07_request_get (fixed : Bool) (b64 : Str → Str) (cfg : List HeaderCfg)
    (s : Option Session) (raw : List (Str × Str)) (out : Headers)
    (hok : pipelineRequest fixed b64 cfg s (fromClient raw) = .ok out) (n : Str)
    (hn : canonKey n ≠ setCookieKey) :
    hGet out n =
      joinWith ','
        ((if stripped cfg (canonKey n) then []
          else (raw.filter (fun nv => canonKey nv.1 = canonKey n)).map (·.2))
         ++ injectedFor b64 cfg s (canonKey n)) := by
  have := c07_request fixed b64 cfg s raw out hok n
  unfold hValues at this
  unfold hGet
  rw [this, flat_headD _ _ hn]

/-- **Spoofing.**  If the operator configured `c` without `preserve`, then for *any* client
    spelling `m` of that name (same canonical key — by `canonKey_eq_iff_lower_eq` this is every
    letter-case variant), the values upstream sees under `m` are exactly the session-derived
    ones: nothing the client sent under any such spelling, in any multiplicity, survives. -/
theorem spoof_any_case_stripped (fixed : Bool) (b64 : Str → Str) (cfg : List HeaderCfg)
    (s : Option Session) (raw : List (Str × Str)) (out : Headers)
    (hok : pipelineRequest fixed b64 cfg s (fromClient raw) = .ok out)
    (c : HeaderCfg) (hc : c ∈ cfg) (hp : c.preserve = false)
    (m : Str) (hm : canonKey m = canonKey c.name) :
    hValues out m = flat (canonKey c.name) (injectedFor b64 cfg s (canonKey c.name)) := by
  have hs : stripped cfg (canonKey c.name) = true := (stripped_iff _ _).2 ⟨c, hc, hp, rfl⟩
  rw [c07_request fixed b64 cfg s raw out hok m, hm, hs]
  simp

/-- non-interference form: two requests that differ arbitrarily in what the client sent yield
    the same upstream values under a configured, non-preserved name -/
theorem spoof_noninterference (fixed : Bool) (b64 : Str → Str) (cfg : List HeaderCfg)
    (s : Option Session) (raw raw' : List (Str × Str)) (out out' : Headers)
    (hok : pipelineRequest fixed b64 cfg s (fromClient raw) = .ok out)
    (hok' : pipelineRequest fixed b64 cfg s (fromClient raw') = .ok out')
    (c : HeaderCfg) (hc : c ∈ cfg) (hp : c.preserve = false)
    (m : Str) (hm : canonKey m = canonKey c.name) :
    hValues out m = hValues out' m := by
  rw [spoof_any_case_stripped fixed b64 cfg s raw out hok c hc hp m hm,
      spoof_any_case_stripped fixed b64 cfg s raw' out' hok' c hc hp m hm]

/-- claim sources yield nothing without a session -/
theorem srcVals_none_claim (b64 : Str → Str) (cl pfx : Str) (bap : Option Str) :
    srcVals b64 none (.claim cl pfx bap) = [] := by
  simp [srcVals, claimVals]

/-- a claim whose values are all empty strings yields nothing -/
theorem srcVals_empty_claim (b64 : Str → Str) (s : Option Session) (cl pfx : Str) (bap : Option Str)
    (h : ∀ v ∈ claimVals s cl, v = []) : srcVals b64 s (.claim cl pfx bap) = [] := by
  simp only [srcVals, List.map_eq_nil_iff, List.filter_eq_nil_iff]
  intro v hv; simp [h v hv]

/-- **No session ⇒ no claim-derived value.**  If every configured entry for the name is
    non-preserved (at least one exists) and uses only claim sources, then without a session
    upstream sees no value at all under that name — whatever the client sent. -/
theorem no_session_no_claim_values (fixed : Bool) (b64 : Str → Str) (cfg : List HeaderCfg)
    (raw : List (Str × Str)) (out : Headers)
    (hok : pipelineRequest fixed b64 cfg none (fromClient raw) = .ok out)
    (c : HeaderCfg) (hc : c ∈ cfg) (hp : c.preserve = false)
    (hclaims : ∀ c' ∈ cfg, canonKey c'.name = canonKey c.name →
        ∀ v ∈ c'.values, ∃ cl pfx bap, v = .claim cl pfx bap)
    (m : Str) (hm : canonKey m = canonKey c.name) :
    hValues out m = [] ∧ hGet out m = [] := by
  have h1 := spoof_any_case_stripped fixed b64 cfg none raw out hok c hc hp m hm
  have h2 : injectedFor b64 cfg none (canonKey c.name) = [] := by
    simp only [injectedFor, List.flatMap_eq_nil_iff, List.mem_filter, decide_eq_true_eq]
    rintro c' ⟨hc', hk⟩ v hv
    obtain ⟨cl, pfx, bap, rfl⟩ := hclaims c' hc' hk v hv
    exact srcVals_none_claim b64 cl pfx bap
  rw [h2] at h1
  have h3 : hValues out m = [] := by rw [h1]; simp [flat]
  refine ⟨h3, ?_⟩
  unfold hValues at h3
  simp [hGet, h3]

/-! ## C07, response side (auth-only endpoint) -/

/-- **C07 (response), per-key form.**  No strip step: the values already on the ResponseWriter
    (set by the proxy itself, never by the client) are followed by the session-derived values. -/
theorem c07_response_vals (fixed : Bool) (b64 : Str → Str) (cfg : List HeaderCfg)
    (s : Option Session) (resp out : Headers) (w : WF resp)
    (hok : pipelineResponse fixed b64 cfg s resp = .ok out) (k : Str) :
    hVals out k = flat k (hVals resp k ++ injectedFor b64 cfg s k) := by
  unfold pipelineResponse at hok
  split at hok
  · rename_i h hinj
    simp only [Outcome.ok.injEq] at hok
    subst hok
    obtain ⟨hw, hv⟩ := injectAll_ok fixed b64 s _ _ _ hinj
    rw [hVals_flatten _ (hw w), hv, injectors_filter]
  · cases hok
  · cases hok

/-- **C07 (response).**  For a name the proxy has not itself set on the response, the response
    carries exactly the session-derived values. -/
theorem c07_response (fixed : Bool) (b64 : Str → Str) (cfg : List HeaderCfg)
    (s : Option Session) (resp out : Headers) (w : WF resp)
    (hok : pipelineResponse fixed b64 cfg s resp = .ok out) (n : Str)
    (hfresh : hValues resp n = []) :
    hValues out n = flat (canonKey n) (injectedFor b64 cfg s (canonKey n)) := by
  unfold hValues at *
  rw [c07_response_vals fixed b64 cfg s resp out w hok, hfresh]
  simp

theorem pipelineResponse_fixed_total (b64 : Str → Str) (cfg : List HeaderCfg)
    (s : Option Session) (resp : Headers) :
    ∃ out, pipelineResponse true b64 cfg s resp = .ok out := by
  unfold pipelineResponse
  obtain ⟨h, hh⟩ := injectAll_fixed b64 s (injectors cfg) resp
  exact ⟨flatten h, by rw [hh]⟩

theorem no_session_no_claim_values_response (fixed : Bool) (b64 : Str → Str) (cfg : List HeaderCfg)
    (resp out : Headers) (w : WF resp)
    (hok : pipelineResponse fixed b64 cfg none resp = .ok out) (n : Str)
    (hfresh : hValues resp n = [])
    (hclaims : ∀ c' ∈ cfg, canonKey c'.name = canonKey n →
        ∀ v ∈ c'.values, ∃ cl pfx bap, v = .claim cl pfx bap) :
    hValues out n = [] := by
  rw [c07_response fixed b64 cfg none resp out w hok n hfresh]
  have h2 : injectedFor b64 cfg none (canonKey n) = [] := by
    simp only [injectedFor, List.flatMap_eq_nil_iff, List.mem_filter, decide_eq_true_eq]
    rintro c' ⟨hc', hk⟩ v hv
    obtain ⟨cl, pfx, bap, rfl⟩ := hclaims c' hc' hk v hv
    exact srcVals_none_claim b64 cl pfx bap
  rw [h2]; simp [flat]

/-! ## GetClaim panics -/

/-- the repaired `GetClaim` is total -/
theorem getClaim_total_fixed (s : Option Session) (claim : Str) :
    ∃ vs, getClaim true s claim = .ok vs := ⟨_, getClaim_fixed s claim⟩

/-- whenever `GetClaim` returns, current and repaired code agree -/
theorem getClaim_agree (s : Option Session) (claim : Str) (vs : List Str)
    (h : getClaim false s claim = .ok vs) : getClaim true s claim = .ok vs := by
  rw [getClaim_fixed, getClaim_ok false s claim vs h]

def sessNoTimes : Session :=
  { email := "u@example.com".toList, user := "u".toList, preferredUsername := [], accessToken := [],
    idToken := [], refreshToken := [], groups := [], createdAt := none, expiresOn := none }

/-- the code at the snapshot panics: a session without `CreatedAt` and the claim `created_at` -/
theorem getClaim_current_panics :
    (getClaim false (some sessNoTimes) "created_at".toList).isPanic = true := by decide

/-- … and the panic propagates through the request pipeline (the request is aborted) -/
theorem pipelineRequest_current_panics :
    (pipelineRequest false b64Std
      [{ name := "X-Created".toList, preserve := false, values := [.claim "created_at".toList [] none] }]
      (some sessNoTimes) (fromClient [])).isPanic = true := by decide

/-! ## LegacyHeaders.convert -/

/-- every request header produced from the legacy flags has
    `PreserveRequestValue = !SkipAuthStripHeaders` -/
theorem legacy_strip (l : LegacyHeaders) :
    ∀ c ∈ (legacyConvert l).1, c.preserve = !l.skipAuthStripHeaders := by
  intro c hc
  simp only [legacyConvert, legacyRequestHeaders, List.mem_map] at hc
  obtain ⟨c0, _, rfl⟩ := hc
  rfl

theorem legacy_strip_true (l : LegacyHeaders) (h : l.skipAuthStripHeaders = true) :
    ∀ c ∈ (legacyConvert l).1, c.preserve = false := by
  intro c hc; rw [legacy_strip l c hc, h]; rfl

theorem legacy_strip_false (l : LegacyHeaders) (h : l.skipAuthStripHeaders = false) :
    ∀ c ∈ (legacyConvert l).1, c.preserve = true := by
  intro c hc; rw [legacy_strip l c hc, h]; rfl

/-- hence with `skip-auth-strip-headers=true` (the default) every legacy request header name is
    stripped from the client's request before injection -/
theorem legacy_all_stripped (l : LegacyHeaders) (h : l.skipAuthStripHeaders = true)
    (c : HeaderCfg) (hc : c ∈ (legacyConvert l).1) :
    stripped (legacyConvert l).1 (canonKey c.name) = true :=
  (stripped_iff _ _).2 ⟨c, hc, legacy_strip_true l h c hc, rfl⟩

def isClaim : ValueSource → Bool
  | .claim .. => true
  | .secret _ => false

def onlyClaims (c : HeaderCfg) : Bool := c.values.all isClaim

theorem all_if {α} (c : Prop) [Decidable c] (L : List α) (p : α → Bool) (h : L.all p = true) :
    (if c then L else []).all p = true := by
  split <;> simp [h]

theorem onlyClaims_basicAuth (p : Bool) (pw : Str) : onlyClaims (getBasicAuthHeader p pw) = true := by
  rfl

theorem onlyClaims_claimHeader (n c : String) : onlyClaims (claimHeader n c) = true := by
  rfl

theorem onlyClaims_authz : onlyClaims getAuthorizationHeader = true := by
  rfl

theorem onlyClaims_passUser (p : Bool) : (getPassUserHeaders p).all onlyClaims = true := by
  cases p <;> simp [getPassUserHeaders, onlyClaims_claimHeader]

/-- all values in legacy configurations are claim sources (no static secrets), so without a
    session nothing is injected (combine with `no_session_no_claim_values`) -/
theorem legacy_only_claims (l : LegacyHeaders) :
    (legacyConvert l).1.all onlyClaims = true ∧ (legacyConvert l).2.all onlyClaims = true := by
  constructor
  · have hmap : ∀ (L : List HeaderCfg) (b : Bool),
        (L.map (fun c => { c with preserve := b })).all onlyClaims = L.all onlyClaims := by
      intro L b; simp only [List.all_map, Function.comp_def, onlyClaims]; rfl
    simp only [legacyConvert, legacyRequestHeaders, hmap, List.all_append, Bool.and_eq_true]
    refine ⟨⟨⟨all_if _ _ _ ?_, all_if _ _ _ ?_⟩, all_if _ _ _ ?_⟩, all_if _ _ _ ?_⟩
    · simp [onlyClaims_basicAuth]
    · rw [List.all_append, onlyClaims_passUser]
      simp [getPreferredUsernameHeader, onlyClaims_claimHeader]
    · simp [getPassAccessTokenHeader, onlyClaims_claimHeader]
    · simp [onlyClaims_authz]
  · simp only [legacyConvert, legacyResponseHeaders, List.all_append, Bool.and_eq_true]
    refine ⟨⟨all_if _ _ _ ?_, all_if _ _ _ ?_⟩, all_if _ _ _ ?_⟩
    · rw [List.all_append, all_if _ _ _ (by simp [getXAuthRequestAccessTokenHeader, onlyClaims_claimHeader])]
      simp [getXAuthRequestHeaders, onlyClaims_claimHeader]
    · simp [onlyClaims_basicAuth]
    · simp [onlyClaims_authz]

theorem onlyClaims_iff (c : HeaderCfg) :
    onlyClaims c = true ↔ ∀ v ∈ c.values, ∃ cl pfx bap, v = .claim cl pfx bap := by
  simp only [onlyClaims, List.all_eq_true]
  constructor
  · intro h v hv
    have := h v hv
    cases v with
    | secret x => simp [isClaim] at this
    | claim cl pfx bap => exact ⟨cl, pfx, bap, rfl⟩
  · intro h v hv
    obtain ⟨cl, pfx, bap, rfl⟩ := h v hv
    rfl

/-- **Legacy flags, default stripping, no session.**  With `skip-auth-strip-headers=true`, for any
    combination of the other legacy flags and any basic-auth password, an unauthenticated
    (session-less, e.g. skip-auth route) request reaches the upstream with *no* value under any
    of the legacy-configured names, whatever the client sent and however it spelled them. -/
theorem legacy_no_session_nothing_forwarded (l : LegacyHeaders) (h : l.skipAuthStripHeaders = true)
    (fixed : Bool) (b64 : Str → Str) (raw : List (Str × Str)) (out : Headers)
    (hok : pipelineRequest fixed b64 (legacyConvert l).1 none (fromClient raw) = .ok out)
    (c : HeaderCfg) (hc : c ∈ (legacyConvert l).1) (m : Str) (hm : canonKey m = canonKey c.name) :
    hValues out m = [] := by
  refine (no_session_no_claim_values fixed b64 _ raw out hok c hc (legacy_strip_true l h c hc) ?_ m hm).1
  intro c' hc' _
  have := (legacy_only_claims l).1
  rw [List.all_eq_true] at this
  exact (onlyClaims_iff c').1 (this c' hc')

/-! ## which session value each legacy-configured name carries

  The header flags are how most deployments configure injection. For every combination of the flags
  and every basic-auth password: -/

/-- the single plain claim a header is configured to carry (`none`: several sources, a prefix, a
    basic-auth encoding or a static secret) -/
def plainClaim (c : HeaderCfg) : Option Str :=
  match c.values with
  | [.claim cl [] none] => some cl
  | _ => none

/-- `c` agrees with a table `header name ↦ session claim` -/
def srcOK (tbl : List (String × String)) (c : HeaderCfg) : Bool :=
  tbl.all (fun p => c.name != p.1.toList || plainClaim c == some p.2.toList)

theorem srcOK_spec {tbl : List (String × String)} {c : HeaderCfg} (h : srcOK tbl c = true)
    {n cl : String} (hp : (n, cl) ∈ tbl) (hn : c.name = n.toList) : plainClaim c = some cl.toList := by
  have := List.all_eq_true.1 h (n, cl) hp
  simpa [hn] using this

/-- documented meaning of the auth-only response names (`--set-xauthrequest`, `--pass-access-token`) -/
def respTable : List (String × String) :=
  [("X-Auth-Request-User", "user"), ("X-Auth-Request-Email", "email"), ("X-Auth-Request-Groups", "groups"),
   ("X-Auth-Request-Preferred-Username", "preferred_username"), ("X-Auth-Request-Access-Token", "access_token")]

/-- documented meaning of the request names (`--pass-user-headers`, `--pass-basic-auth`,
    `--pass-access-token`, `--prefer-email-to-user`) -/
def reqTable (preferEmailToUser : Bool) : List (String × String) :=
  [("X-Forwarded-User", if preferEmailToUser then "email" else "user"), ("X-Forwarded-Email", "email"),
   ("X-Forwarded-Groups", "groups"), ("X-Forwarded-Preferred-Username", "preferred_username"),
   ("X-Forwarded-Access-Token", "access_token")]

theorem legacy_response_all (l : LegacyHeaders) : (legacyConvert l).2.all (srcOK respTable) = true := by
  obtain ⟨a, b, c3, d, e, f, g, h, pw, i⟩ := l
  cases f <;> cases b <;> cases e <;> cases g <;> rfl

theorem srcOK_preserve (tbl : List (String × String)) (c : HeaderCfg) (b : Bool) :
    srcOK tbl { c with preserve := b } = srcOK tbl c := rfl
theorem srcOK_basic (p q : Bool) (pw : Str) : srcOK (reqTable q) (getBasicAuthHeader p pw) = true := by
  cases p <;> cases q <;> rfl
theorem srcOK_passUser (p : Bool) : (getPassUserHeaders p).all (srcOK (reqTable p)) = true := by
  cases p <;> decide +kernel
theorem srcOK_prefUser (p : Bool) : srcOK (reqTable p) getPreferredUsernameHeader = true := by
  cases p <;> decide +kernel
theorem srcOK_at (p : Bool) : srcOK (reqTable p) getPassAccessTokenHeader = true := by
  cases p <;> decide +kernel
theorem srcOK_authz (p : Bool) : srcOK (reqTable p) getAuthorizationHeader = true := by
  cases p <;> decide +kernel

theorem legacy_request_all (l : LegacyHeaders) :
    (legacyConvert l).1.all (srcOK (reqTable l.preferEmailToUser)) = true := by
  simp only [legacyConvert, legacyRequestHeaders, List.all_map, List.all_append, Bool.and_eq_true, Function.comp_def,
    srcOK_preserve]
  refine ⟨⟨⟨?_, ?_⟩, ?_⟩, ?_⟩ <;> split <;>
    simp [srcOK_basic, srcOK_passUser, srcOK_prefUser, srcOK_at, srcOK_authz]

/-- **response side (auth-only endpoint).**  Every `X-Auth-Request-<X>` header carries exactly the
    session's `<x>`: `prefer-email-to-user` (documented for the request-side flags only) and every other
    flag have no influence on it. -/
theorem legacy_response_sources (l : LegacyHeaders) (c : HeaderCfg) (hc : c ∈ (legacyConvert l).2)
    {n cl : String} (hp : (n, cl) ∈ respTable) (hn : c.name = n.toList) : plainClaim c = some cl.toList :=
  srcOK_spec (List.all_eq_true.1 (legacy_response_all l) c hc) hp hn

/-- **request side.**  `X-Forwarded-User` carries the session's user — its e-mail address exactly under
    `prefer-email-to-user`; the other identity headers carry the value their name says. -/
theorem legacy_request_sources (l : LegacyHeaders) (c : HeaderCfg) (hc : c ∈ (legacyConvert l).1)
    {n cl : String} (hp : (n, cl) ∈ reqTable l.preferEmailToUser) (hn : c.name = n.toList) :
    plainClaim c = some cl.toList :=
  srcOK_spec (List.all_eq_true.1 (legacy_request_all l) c hc) hp hn

/-- in particular: `X-Auth-Request-User` is the session's user under every flag combination -/
theorem legacy_xauth_user (l : LegacyHeaders) (c : HeaderCfg) (hc : c ∈ (legacyConvert l).2)
    (hn : c.name = "X-Auth-Request-User".toList) : plainClaim c = some "user".toList :=
  legacy_response_sources l c hc (n := "X-Auth-Request-User") (cl := "user") (by simp [respTable]) hn

/-- the flags decide presence: the response names the user iff `set-xauthrequest` -/
theorem legacy_xauth_user_iff (l : LegacyHeaders) :
    ((legacyConvert l).2.any (fun c => c.name == "X-Auth-Request-User".toList)) = l.setXAuthRequest := by
  obtain ⟨a, b, c3, d, e, f, g, h, pw, i⟩ := l
  cases f <;> cases b <;> cases e <;> cases g <;> rfl

/-- the request carries the identity names whenever `pass-basic-auth` or `pass-user-headers` is set -/
theorem legacy_forwarded_user_present (l : LegacyHeaders) (h : (l.passBasicAuth || l.passUserHeaders) = true) :
    ∃ c ∈ (legacyConvert l).1, c.name = "X-Forwarded-User".toList := by
  have hu : ∀ p, ∃ c ∈ getPassUserHeaders p, c.name = "X-Forwarded-User".toList := fun p => by
    cases p
    · exact ⟨claimHeader "X-Forwarded-User" "user", by simp [getPassUserHeaders], rfl⟩
    · exact ⟨claimHeader "X-Forwarded-User" "email", by simp [getPassUserHeaders], rfl⟩
  obtain ⟨c, hc, hn⟩ := hu l.preferEmailToUser
  refine ⟨{ c with preserve := !l.skipAuthStripHeaders }, ?_, hn⟩
  simp only [legacyConvert, legacyRequestHeaders, List.mem_map]
  refine ⟨c, ?_, rfl⟩
  simp only [h, if_true, List.mem_append]
  exact Or.inl (Or.inl (Or.inr (Or.inl hc)))

/-- non-vacuity: the tables are met by real entries -/
example : claimHeader "X-Auth-Request-User" "user" ∈ (legacyConvert
    { passBasicAuth := true, passAccessToken := false, passUserHeaders := true, passAuthorization := false,
      setBasicAuth := false, setXAuthRequest := true, setAuthorization := false, preferEmailToUser := true,
      basicAuthPassword := [], skipAuthStripHeaders := true }).2 := by decide +kernel

/-! ## non-vacuity: concrete end-to-end instances -/

def exCfg : List HeaderCfg := (legacyConvert
  { passBasicAuth := true, passAccessToken := false, passUserHeaders := true, passAuthorization := false,
    setBasicAuth := false, setXAuthRequest := true, setAuthorization := false, preferEmailToUser := false,
    basicAuthPassword := [], skipAuthStripHeaders := true }).1

def exSess : Session :=
  { sessNoTimes with groups := ["admins".toList, "dev".toList] }

/-- a client spoofing X-Forwarded-User / -Email / -Groups in odd letter case, twice -/
def exRaw : List (Str × Str) :=
  [("x-forwarded-USER".toList, "root".toList), ("X-FORWARDED-user".toList, "admin".toList),
   ("x-forwarded-groups".toList, "wheel".toList), ("Accept".toList, "a".toList), ("accept".toList, "b".toList)]

example : pipelineRequest true b64Std exCfg (some exSess) (fromClient exRaw) =
    .ok [ ("Accept".toList, ["a,b".toList]),
          ("X-Forwarded-Groups".toList, ["admins,dev".toList]),
          ("X-Forwarded-User".toList, ["u".toList]),
          ("X-Forwarded-Email".toList, ["u@example.com".toList]) ] := by decide +kernel

/-- same request without a session: every configured name is absent upstream -/
example : pipelineRequest true b64Std exCfg none (fromClient exRaw) =
    .ok [("Accept".toList, ["a,b".toList])] := by decide +kernel

/-- hypotheses of `c07_request_vals` / `c07_response` are satisfiable -/
example : WF (fromClient exRaw) := WF_fromClient exRaw
example : hValues (fromClient [("Cache-Control".toList, "no-cache".toList)]) "X-Auth-Request-User".toList = [] := by
  decide +kernel
example : pipelineResponse true b64Std (legacyConvert
      { passBasicAuth := true, passAccessToken := false, passUserHeaders := true, passAuthorization := false,
        setBasicAuth := true, setXAuthRequest := true, setAuthorization := false, preferEmailToUser := false,
        basicAuthPassword := "pw".toList, skipAuthStripHeaders := true }).2
      (some exSess) (fromClient [("Cache-Control".toList, "no-cache".toList)]) =
    .ok [ ("Cache-Control".toList, ["no-cache".toList]),
          ("X-Auth-Request-User".toList, ["u".toList]),
          ("X-Auth-Request-Email".toList, ["u@example.com".toList]),
          ("X-Auth-Request-Groups".toList, ["admins,dev".toList]),
          ("Authorization".toList, ["Basic dTpwdw==".toList]) ] := by decide +kernel
/-- hypotheses of `no_session_no_claim_values` hold for the legacy configuration -/
example : claimHeader "X-Forwarded-User" "user" ∈ exCfg ∧
    (claimHeader "X-Forwarded-User" "user").preserve = false := by decide +kernel

end O2P.Hdr
