/-
  O2P.Props.ComposeBypass — Layer A (`Model/Serve`) composed with the trusted-IP model
  (`Model/ClientIP` on `Model/NetSet`) and the route rules (`Model/Routes`): C15 (and the
  client-address part of C16) at the level of the whole request pipeline.

  Layer A's `Env.trustedText fromHeader text` is instantiated by `isTrustedIP` on the configured
  networks; the result is an exact characterisation of `bypassDecision`, the ONLY way a request
  without a credential is ever served (`c01_only_if`):

    bypass_iff                bypassed ⇔ preflight exemption ∨ a skip-auth rule matches the PATH ∨
                              (trusted networks configured ∧ the client address — from the configured
                              header only / from RemoteAddr only — lies in a configured network)
    served_without_credential_iff   … combined with C01: served ⇒ that disjunction, or an authorised credential
    bypass_ignores_other_headers    no header other than the configured real-IP header (and the
                              forwarded URI in reverse-proxy mode) influences the decision
-/
import O2P.Props.C01
import O2P.Props.C15Routes
import O2P.Props.C15Trusted

namespace O2P.ComposeBypass
open O2P

/-- how the trusted-IP check is configured -/
structure Trust where
  T : NetText
  nets : List IPNet
  wf : ∀ n ∈ nets, WellFormedNet n

/-- the real `isTrustedIP` seen through Layer A's interface: the text is the first value of the
    configured header (reverse-proxy mode) or `RemoteAddr` -/
def trustedTextOf (t : Trust) (hdr : Str) (fromHeader : Bool) (text : Str) : Bool :=
  match isTrustedIP t.T (some t.nets) (if fromHeader then some hdr else none)
      (if fromHeader then [(hdr, [text])] else []) (if fromHeader then [] else text) with
  | .ok b => b
  | _ => false

def withTrust (t : Trust) (cfg : Cfg) (env : Env) : Env :=
  { env with trustedText := trustedTextOf t cfg.realIPHeader }

/-- the address the decision is about -/
def addrOf (t : Trust) (hdr : Str) (fromHeader : Bool) (text : Str) : Option (BitVec 128) :=
  clientAddr t.T (if fromHeader then some hdr else none) (if fromHeader then [(hdr, [text])] else [])
    (if fromHeader then [] else text)

theorem trustedTextOf_iff (t : Trust) (hdr : Str) (fromHeader : Bool) (text : Str) :
    trustedTextOf t hdr fromHeader text = true ↔
      ∃ a, addrOf t hdr fromHeader text = some a ∧ ∃ n ∈ t.nets, n.contains (.ip16 a) = true := by
  unfold trustedTextOf addrOf
  rw [trusted_eq t.T t.nets t.wf]
  cases clientAddr t.T (if fromHeader then some hdr else none) (if fromHeader then [(hdr, [text])] else [])
      (if fromHeader then [] else text) with
  | none => simp
  | some a => simp

/-- **bypass_iff** (C15 end to end): the authentication bypass of a request is exactly the
    disjunction the property lists. -/
theorem bypass_iff (t : Trust) (cfg : Cfg) (env : Env) (pathOfURI : Str → Str) (r : Req) :
    bypassDecision cfg (withTrust t cfg env) pathOfURI r = true ↔
      (cfg.skipPreflight = true ∧ r.method = "OPTIONS".toList) ∨
      (∃ ru ∈ cfg.routes, (ru.method = [] ∨ r.method = ru.method) ∧
          (env.rx ru.pattern (pathOfURI (requestURI cfg r)) ≠ ru.negate)) ∨
      (cfg.hasTrustedIPs = true ∧
        ∃ a, addrOf t cfg.realIPHeader (clientAddrText cfg r).1 (clientAddrText cfg r).2 = some a ∧
          ∃ n ∈ t.nets, n.contains (.ip16 a) = true) := by
  unfold bypassDecision
  rw [allowed_iff]
  have : (withTrust t cfg env).rx = env.rx := rfl
  rw [this]
  have ht : (withTrust t cfg env).trusted cfg r =
      trustedTextOf t cfg.realIPHeader (clientAddrText cfg r).1 (clientAddrText cfg r).2 := by
    unfold Env.trusted withTrust
    rfl
  rw [ht, Bool.and_eq_true, trustedTextOf_iff]

/-- **served_without_credential_iff** (C01 ∧ C15): a request is forwarded upstream / accepted /
    shown user info only if it carries an authorised credential or falls under exactly one of the
    three exemptions. -/
theorem served_only_if (t : Trust) (cfg : Cfg) (env : Env) (g : Glue) (r : Req)
    (h : Served (serve cfg (withTrust t cfg env) g r)) :
    (cfg.skipPreflight = true ∧ r.method = "OPTIONS".toList) ∨
    (∃ ru ∈ cfg.routes, (ru.method = [] ∨ r.method = ru.method) ∧
        (env.rx ru.pattern (g.pathOfURI (requestURI cfg r)) ≠ ru.negate)) ∨
    (cfg.hasTrustedIPs = true ∧
      ∃ a, addrOf t cfg.realIPHeader (clientAddrText cfg r).1 (clientAddrText cfg r).2 = some a ∧
        ∃ n ∈ t.nets, n.contains (.ip16 a) = true) ∨
    (∃ s, Cred cfg (withTrust t cfg env) r s ∧ Authorised cfg (withTrust t cfg env) s) := by
  rcases c01_served_has_credential cfg (withTrust t cfg env) g r h with hb | hc
  · rcases (bypass_iff t cfg env g.pathOfURI r).1 hb with h1 | h2 | h3
    · exact Or.inl h1
    · exact Or.inr (Or.inl h2)
    · exact Or.inr (Or.inr (Or.inl h3))
  · exact Or.inr (Or.inr (Or.inr hc))

/-- **bypass_ignores_other_headers** (C16's client-address clause at this level): two requests
    that agree on method, request URI, the forwarded-URI header and the configured real-IP header
    (reverse-proxy mode) — or on method, URI and RemoteAddr (direct mode) — get the same bypass
    decision, whatever their other headers. -/
theorem bypass_ignores_other_headers (t : Trust) (cfg : Cfg) (env : Env) (pathOfURI : Str → Str) (r r' : Req)
    (hm : r.method = r'.method) (hu : requestURI cfg r = requestURI cfg r')
    (ha : clientAddrText cfg r = clientAddrText cfg r') :
    bypassDecision cfg (withTrust t cfg env) pathOfURI r = bypassDecision cfg (withTrust t cfg env) pathOfURI r' := by
  unfold bypassDecision Env.trusted
  rw [hm, hu, ha]

/-! ### non-vacuity -/

/-- no networks configured: no address is trusted -/
example (T : NetText) (hdr text : Str) (b : Bool) :
    trustedTextOf { T := T, nets := [], wf := by simp } hdr b text = false := by
  have := (trustedTextOf_iff { T := T, nets := [], wf := by simp } hdr b text)
  cases h : trustedTextOf { T := T, nets := [], wf := by simp } hdr b text with
  | false => rfl
  | true => obtain ⟨a, _, n, hn, _⟩ := this.1 h; simp at hn

/-- a concrete trusted set and text parameters: the header value "  a:1 , b" is trusted in
    reverse-proxy mode (first comma element, trimmed, port stripped, inside 10.0.0.0/8 …), the spoofable
    header is ignored in direct mode -/
private def exTrust : Trust := { T := exText, nets := exNets, wf := by decide +kernel }
example : trustedTextOf exTrust "X-Real-Ip".toList true "  a:1 , b".toList = true := by decide +kernel
example : trustedTextOf exTrust "X-Real-Ip".toList false "b:1".toList = false := by decide +kernel

end O2P.ComposeBypass
