/-
  O2P.Search.TrSearch — the search for a concrete input on which a REGENERATED definition
  (O2P/Gen/Tr.lean) and the hand-written model disagree.  Run by bin/check (interpreted:
  `lake env lean --run O2P/Search/TrSearch.lean`) when an equivalence proof of O2P/Props/Tr*.lean
  no longer checks: the first disagreement per function is printed as
      MISMATCH <function> | <input> | regenerated: <result> | model: <result>
  and goes into the replay file.  This is a search (bounded enumeration), never a proof.
-/
import O2P.Gen.Tr
import O2P.Model.Redirect
import O2P.Model.Authz
import O2P.Model.CookieJar
import O2P.Model.Cookies
import O2P.Model.Signed
import O2P.Model.Serve
import O2P.Model.Routes
import O2P.Model.ClientIP

open O2P O2P.Go

namespace O2P.TrSearch

def q (s : Str) : String := (String.ofList s).quote
def qs (l : List Str) : String := "[" ++ ", ".intercalate (l.map q) ++ "]"

/-- all strings over `alpha` of length ≤ n -/
def strs (alpha : List Char) : Nat → List Str
  | 0 => [[]]
  | n + 1 => [] :: (alpha.flatMap fun c => (strs alpha n).map (c :: ·))

def toyMac (k m : Str) : Str := (k ++ '#' :: m).reverse ++ natToStr (k.length * 7 + m.length)
def toySha (m : Str) : Str := ('h' :: m) ++ natToStr m.length

def E0 : Go.Ext := { Go.Ext.trivial with mac := toyMac, sha := toySha, nowNs := 1000000 * 1000000000, splitHostPortStd := Ck.splitHostPortGo }

def showM {α} (f : α → String) : Go.M α → String
  | .ok a => f a
  | .error e => "PANIC(" ++ e ++ ")"

def report (fn input : String) (gen model : String) : IO Unit :=
  IO.println s!"MISMATCH {fn} | {input} | regenerated: {gen} | model: {model}"

/-- the inputs of `xs` on which `gen` and `model` print differently: the first one of each KIND of disagreement (the first
    word of the two answers — accepted where the model rejects is another kind than rejected where it accepts), at most four -/
def firstDiff {α} (fn : String) (xs : List α) (inp : α → String) (gen model : α → String) : IO Nat := do
  let kind (t : String) : String := String.ofList ((t.toList.takeWhile (· != ' ')).take 12)
  let mut seen : List (String × String) := []
  for x in xs do
    let g := gen x
    let m := model x
    if g != m then
      let k := (kind g, kind m)
      if !seen.contains k then
        seen := k :: seen
        report fn (inp x) g m
        if seen.length ≥ 4 then
          return 1
  return (if seen.isEmpty then 0 else 1)

def rep (c : Char) (n : Nat) : Str := List.replicate n c

def bstr (b : Bool) : String := toString b

def main : IO UInt32 := do
  let mut bad := 0
  -- pkg/util
  bad := bad + (← firstDiff "validOptionalPort" (strs [':', '*', '0', '9', 'a', '/'] 4) q
    (fun p => showM bstr (Gen.Tr.validOptionalPort E0 p)) (fun p => bstr (Redirect.validOptionalPort p)))
  let showPair : Str × Str → String := fun p => q p.1 ++ "," ++ q p.2
  bad := bad + (← firstDiff "SplitHostPort" (strs ['[', ']', ':', '*', '1', 'a'] 5) q
    (fun p => showM showPair (Gen.Tr.SplitHostPort E0 p)) (fun p => showPair (Redirect.splitHostPort p)))
  let hosts := strs ['a', '.', 'b'] 3 ++ [['e','v','i','l','a','.','b'], ['x','.','a','.','b'], ['a','.','b','.']]
  let allowed := strs ['*', '.', 'a', 'b'] 4
  bad := bad + (← firstDiff "isHostnameAllowed" (hosts.flatMap fun h => allowed.map fun a => (h, a)) showPair
    (fun p => showM bstr (Gen.Tr.isHostnameAllowed E0 p.1 p.2)) (fun p => bstr (Redirect.isHostnameAllowed p.1 p.2)))
  let domPool : List Str := ["a.b", ".a.b", "*.a.b", "a.b:80", "a.b:*", ".a.b:*", "*.a.b:80", ".", "*.", "", ":80", "[a.b]", "[a.b]:80", "b", ".b"].map String.toList
  let domLists : List (List Str) := [[]] ++ domPool.map (fun d => [d]) ++ (domPool.flatMap fun d => domPool.map fun e => [d, e])
  let eps : List (Str × Str) := (["a.b", "x.a.b", "xa.b", "", "b", "a.b.", "evil.b"].map String.toList).flatMap fun h => [(h, []), (h, ['8', '0']), (h, ['8', '1'])]
  bad := bad + (← firstDiff "IsEndpointAllowed" (eps.flatMap fun e => domLists.map fun d => (e, d))
    (fun p => showPair p.1 ++ " " ++ qs p.2)
    (fun p => showM bstr (Gen.Tr.IsEndpointAllowed E0 { hostname := p.1.1, port := p.1.2 } p.2))
    (fun p => bstr (Redirect.isEndpointAllowed p.1.1 p.1.2 p.2)))
  -- validator.go
  let emails := strs ['a', '@', '.', 'b'] 5 ++ (["u@a.b", "u@x.a.b", "u@a.b@c.d", "u@c.d@a.b", "u@xa.b", "a.b", "x.a.b", "u@", "@a.b", "u@a.b@"].map String.toList)
  let eDoms : List (List Str) := ([["a.b"], [".a.b"], ["*.a.b"], ["b"], [".b"], ["*.b"], [""], ["."], ["*."], ["c.d", "a.b"], ["c.d", ".a.b"], []] : List (List String)).map (·.map String.toList)
  bad := bad + (← firstDiff "isEmailValidWithDomains" (emails.flatMap fun e => eDoms.map fun d => (e, d))
    (fun p => q p.1 ++ " " ++ qs p.2)
    (fun p => showM bstr (Gen.Tr.isEmailValidWithDomains E0 p.1 p.2))
    (fun p => bstr (Authz.isEmailValidWithDomains p.1 p.2)))
  -- cookie names
  let names : List Str := [[], ['a'], ['a', '_', '1'], ['a', 'b', '_'], ['_'], ['a', '_', '1', '_', '2']] ++
    ([250, 253, 254, 255, 256, 257, 300].map fun n => rep 'n' n) ++ [rep 'n' 254 ++ ['_', '0'], rep 'n' 253 ++ ['_', '1', '0']]
  let counts : List Nat := [0, 1, 2, 9, 10, 11, 99, 100, 12345, 9223372036854775807]
  bad := bad + (← firstDiff "splitCookieName" (names.flatMap fun n => counts.map fun c => (n, c))
    (fun p => q p.1 ++ " " ++ toString p.2)
    (fun p => showM q (Gen.Tr.splitCookieName E0 p.1 p.2)) (fun p => q (O2P.splitCookieName p.1 p.2)))
  let sufs : List Str := (["", "_", "_0", "_1", "_2", "_01", "_-1", "_+1", "_-0", "_x", "_10", "_1x", "_99999999999999999999", "_9223372036854775807", "_9223372036854775808", "_1_2", "__1", "_ 1", "x", "_1_"] : List String).map String.toList
  let cands : List (Str × Str) := names.flatMap fun n =>
    (sufs.map fun s => (n, n ++ s)) ++ (sufs.map fun s => (n, n.take (n.length - 2) ++ s)) ++ (sufs.map fun s => (n, n.take (n.length - 3) ++ s)) ++ (sufs.map fun s => (n, s))
  bad := bad + (← firstDiff "isSessionCookieName" cands showPair
    (fun p => showM bstr (Gen.Tr.isSessionCookieName E0 p.1 p.2)) (fun p => bstr (O2P.matchesSessionName p.1 p.2)))
  -- cookie domain
  let cdHosts : List Str := (["a.b", "a.b:80", "x.a.b:443", "[::1]:80", "xa.b", "b", "", "a.b:", "A.b", "a.b:80:90"] : List String).map String.toList
  let cdLists : List (List Str) := ([[], ["a.b"], [".a.b"], ["x.a.b", "a.b"], ["a.b", "x.a.b"], ["b"], ["a.b:80"], [""]] : List (List String)).map (·.map String.toList)
  bad := bad + (← firstDiff "GetCookieDomain" (cdHosts.flatMap fun h => cdLists.map fun d => (h, d))
    (fun p => q p.1 ++ " " ++ qs p.2)
    (fun p => showM q (Gen.Tr.GetCookieDomain E0 { header := fun _ => [], host := p.1, urlScheme := [], requestURI := [], scope := none } p.2))
    (fun p => q ((Ck.getCookieDomain p.2 p.1).getD [])))
  -- pkg/requests/util: every combination of scope, forwarding header present / absent
  let hdrs : List (List (Str × Str)) := [[], [("X-Forwarded-Host".toList, ['f', 'h'])], [("X-Forwarded-Proto".toList, ['f', 'p'])],
    [("X-Forwarded-Uri".toList, ['/', 'f'])], [("X-Forwarded-Host".toList, ['f', 'h']), ("X-Forwarded-Proto".toList, ['f', 'p']), ("X-Forwarded-Uri".toList, ['/', 'f'])],
    [("X-Forwarded-Host".toList, [])], [("X-Forwarded-Host".toList, ['h'])], [("x-forwarded-host".toList, ['f', 'h'])]]
  -- (… and a request WITHOUT a Host, as an HTTP/1.0 client may send it)
  let rcases : List (Bool × List (Str × Str) × Str) := [true, false].flatMap fun rp => hdrs.flatMap fun h => [(rp, h, ['h']), (rp, h, [])]
  let mkR (h : List (Str × Str)) (host : Str := ['h']) : O2P.Req := { method := ['G'], path := ['/'], uri := ['/', 'u'], headers := h, host := host, scheme := ['s'] }
  let mkG (rp : Bool) (h : List (Str × Str)) (host : Str) : Go.Req := { header := (mkR h).header, host := host, urlScheme := ['s'], requestURI := ['/', 'u'], scope := some ⟨rp⟩ }
  let showRC : Bool × List (Str × Str) × Str → String := fun p => "reverse-proxy=" ++ toString p.1 ++ " Host=" ++ q p.2.2 ++ " headers=" ++ toString (p.2.1.map fun kv => (String.ofList kv.1, String.ofList kv.2))
  bad := bad + (← firstDiff "GetRequestHost" rcases showRC
    (fun p => showM q (Gen.Tr.GetRequestHost E0 (mkG p.1 p.2.1 p.2.2))) (fun p => q (requestHost { reverseProxy := p.1 } (mkR p.2.1 p.2.2))))
  bad := bad + (← firstDiff "GetRequestProto" rcases showRC
    (fun p => showM q (Gen.Tr.GetRequestProto E0 (mkG p.1 p.2.1 p.2.2))) (fun p => q (requestProto { reverseProxy := p.1 } (mkR p.2.1 p.2.2))))
  bad := bad + (← firstDiff "GetRequestURI" rcases showRC
    (fun p => showM q (Gen.Tr.GetRequestURI E0 (mkG p.1 p.2.1 p.2.2))) (fun p => q (requestURI { reverseProxy := p.1 } (mkR p.2.1 p.2.2))))
  bad := bad + (← firstDiff "IsForwardedRequest" rcases showRC
    (fun p => showM bstr (Gen.Tr.IsForwardedRequest E0 (mkG p.1 p.2.1 p.2.2))) (fun p => bstr (isForwardedRequest { reverseProxy := p.1 } (mkR p.2.1 p.2.2))))
  bad := bad + (← firstDiff "IsProxied(nil scope)" hdrs (fun h => showRC (false, h, ['h']))
    (fun h => showM bstr (Gen.Tr.IsProxied E0 { header := (mkR h).header, host := ['h'], urlScheme := ['s'], requestURI := ['/', 'u'], scope := none })) (fun _ => "false"))
  -- pkg/encryption
  let secrets : List Str := ((List.range 50).flatMap fun n => [rep 'A' n, rep 'A' n ++ ['='], rep 'A' n ++ ['=', '='], rep 'A' n ++ ['!'], rep '_' n, rep '/' n])
  bad := bad + (← firstDiff "SecretBytes" secrets q
    (fun p => showM q (Gen.Tr.SecretBytes E0 p)) (fun p => q (secretBytes p)))
  let b64s : List Str := (["", "A", "AA", "AAA", "AAAA", "AAAB", "AA==", "AAA=", "AQ==", "AQ", "AQ=", "!!!!", "AAAAAAAA", "AAAAAAAB", "AAAA\n", "AAAAAA==", "AAAAAAA="] : List String).map String.toList
  bad := bad + (← firstDiff "checkHmac" (b64s.flatMap fun a => b64s.map fun b => (a, b)) showPair
    (fun p => showM bstr (Gen.Tr.checkHmac E0 p.1 p.2)) (fun p => bstr (O2P.checkHmac p.1 p.2)))
  let seed : Str := "0123456789abcdef".toList
  let argLists : List (List Str) := [[], [['n']], [['n'], ['v'], ['1']], [['n', 'v'], [], ['1']], [rep 'x' 3000, rep 'y' 3000, ['7']], [rep 'x' 5000]]
  let showSE : Str × Go.Err → String := fun p => q p.1 ++ (if p.2 == none then "" else " err")
  bad := bad + (← firstDiff "cookieSignature" argLists qs
    (fun a => showM showSE (Gen.Tr.cookieSignature E0 () (seed :: a))) (fun a => q (O2P.cookieSignature toyMac seed a)))
  -- Validate over issued values and their edits
  let nowS : Int := 1000000
  let expS : Int := 3600
  let stamps : List Int := [nowS, nowS - 1, nowS - expS + 1, nowS - expS, nowS - expS - 1, nowS + 299, nowS + 300, nowS + 301, 0, -1,
    nowS + 18446744074, nowS - 18446744074, nowS + 18446744073, 9223372036854775807, 9223371974719179007, 9223371974719179008, nowS - 86400 * 365]
  let values : List Str := [['v'], [], rep 'z' 100, rep 'w' 5000]
  let issued : List (Str × Str) := values.flatMap fun v => stamps.map fun t => (['n'], signedValue toyMac seed ['n'] v t)
  let edits (c : Str) : List Str :=
    let parts := splitOn '|' c
    match parts with
    | [p0, p1, p2] =>
      [c, p0 ++ '|' :: p1 ++ ['|'], p0 ++ '|' :: p1, p0 ++ '|' :: p1 ++ '|' :: p2.take 4, p0 ++ '|' :: p1 ++ '|' :: p2.take 8,
       p0 ++ '|' :: p1 ++ '|' :: (p2.dropLast ++ ['A']), (p0.dropLast ++ ['A']) ++ '|' :: p1 ++ '|' :: p2,
       p0 ++ '|' :: ('0' :: p1) ++ '|' :: p2, p0 ++ '|' :: ('+' :: p1) ++ '|' :: p2,
       (p0 ++ p1.take 2) ++ '|' :: p1.drop 2 ++ '|' :: p2, p0 ++ '|' :: p1 ++ '|' :: p2 ++ ['|'], c ++ ['x']]
    | _ => [c]
  let exps : List Int := [expS * 1000000000, 0, 1, 500000000]
  let vcases : List (Str × Str × Int) := issued.flatMap fun (n, c) => (edits c).flatMap fun e => exps.flatMap fun x => [(n, e, x), (['n', 'v'], e, x)]
  let showV : Option (Str × Int) → String := fun o => match o with | none => "rejected" | some (v, t) => "ok " ++ q (v.take 20) ++ " len=" ++ toString v.length ++ " t=" ++ toString t
  bad := bad + (← firstDiff "Validate" vcases (fun p => "cookie_name=" ++ q p.1 ++ " cookie_value=" ++ (if p.2.1.length ≤ 400 then q p.2.1 else q (p.2.1.take 60 ++ "…".toList ++ p.2.1.drop (p.2.1.length - 70)) ++ s!"(length {p.2.1.length})") ++ " expire_ns=" ++ toString p.2.2 ++ " now_ns=1000000000000000 seed=\"0123456789abcdef\" mac=toy(reverse(key#msg)++len)")
    (fun p => showM (fun r => showV (if r.2.2 then some (r.1, r.2.1) else none)) (Gen.Tr.Validate E0 ⟨p.1, p.2.1⟩ seed p.2.2))
    (fun p => showV ((validate toyMac p.1 p.2.1 seed p.2.2 E0.nowNs).map fun r => (r.1, Go.timeUnix r.2))))
  bad := bad + (← firstDiff "SignedValue" (values.flatMap fun v => stamps.map fun t => (v, t)) (fun p => q (p.1.take 10) ++ " " ++ toString p.2)
    (fun p => showM showSE (Gen.Tr.SignedValue E0 seed ['n'] p.1 (p.2 * 1000000000)))
    (fun p => q (signedValue toyMac seed ['n'] p.1 p.2)))
  let methods : List Str := (["plain", "S256", "s256", "", "PLAIN", "S256 ", "none"] : List String).map String.toList
  bad := bad + (← firstDiff "GenerateCodeChallenge" methods q
    (fun m => showM (fun r => if r.2 == none then "ok " ++ q r.1 else "error") (Gen.Tr.GenerateCodeChallenge E0 m ['v', 'e', 'r']))
    (fun m => match codeChallenge toySha m ['v', 'e', 'r'] with | some c => "ok " ++ q c | none => "error"))
  -- skip-auth rules: toy regex engine = "subject contains the pattern"
  let rx : Str → Str → Bool := fun pat subj => containsSub pat subj
  let prq : Str → Option (Str × Str × Str) := fun u => if hasPrefix ['/'] u then some ([], [], (splitFirst '?' u).1) else none
  let Er : Go.Ext := { E0 with regexMatch := rx, urlParseRequestURI := prq }
  let routePool : List Go.Route := [⟨[], false, ['/', 'a']⟩, ⟨['G', 'E', 'T'], false, ['/', 'a']⟩, ⟨['G', 'E', 'T'], true, ['/', 'a']⟩, ⟨[], true, ['/', 'b']⟩, ⟨['P', 'O', 'S', 'T'], false, []⟩]
  let routeLists : List (List Go.Route) := [[]] ++ routePool.map (fun r => [r]) ++ (routePool.flatMap fun r => routePool.map fun r2 => [r, r2])
  let reqs : List (Str × Str) := (["GET", "get", "POST", "OPTIONS", ""] : List String).flatMap fun m => (["/a", "/b", "/a?x=/b", "/c?y=/a", "x", "x?/a", "//a/b"] : List String).map fun u => (m.toList, u.toList)
  let mkReq (m u : Str) : Go.Req := { header := fun _ => [], host := [], urlScheme := [], requestURI := u, scope := some ⟨false⟩, method := m }
  bad := bad + (← firstDiff "isAllowedRoute" (reqs.flatMap fun r => routeLists.map fun l => (r, l))
    (fun p => q p.1.1 ++ " " ++ q p.1.2 ++ " rules=" ++ toString (p.2.map fun r => (String.ofList r.method, r.negate, String.ofList r.pathRegex)))
    (fun p => showM bstr (Gen.Tr.isAllowedRoute Er p.2 (mkReq p.1.1 p.1.2)))
    (fun p => bstr (O2P.isAllowedRoute rx (p.2.map fun r => ⟨r.method, r.negate, r.pathRegex⟩) p.1.1
      (match Er.urlParseRequestURI p.1.2 with | some (_, _, pa) => pa | none => stripQuery p.1.2))))
  -- IsValidRedirect with the hand model of the pattern as the regex engine and a toy URL parser
  let up : Str → Option (Str × Str × Str) := fun u =>
    let rest := if hasPrefix Redirect.httpsPrefix u then u.drop 8 else u.drop 7
    let auth := rest.takeWhile (fun c => c != '/' && c != '?')
    let hp := Redirect.splitHostPort auth
    if auth.contains ' ' then none else some (hp.1, hp.2, rest.drop auth.length)
  let vrx : Str → Str → Bool := fun _ s => Redirect.invalidRel s
  let Ev : Go.Ext := { E0 with regexMatch := vrx, urlParse := up }
  let rds : List Str := (["", "/", "/a", "//a", "/\\a", "/a//b", "/./a", "/ /a", "/a?b=//c", "http://a.b/", "https://a.b/x", "https://a.b:80/", "https://evil.b/", "https://xa.b/",
    "https:///a.b", "http:/a.b", "ftp://a.b/", "https://a b/", "javascript:alert(1)", "https://x.a.b", "http://a.b:81"] : List String).map String.toList
  bad := bad + (← firstDiff "IsValidRedirect" (rds.flatMap fun r => domLists.map fun d => (r, d)) (fun p => q p.1 ++ " " ++ qs p.2)
    (fun p => showM bstr (Gen.Tr.IsValidRedirect Ev p.2 p.1))
    (fun p => bstr (Redirect.isValidRedirect p.2 p.1 ((Ev.urlParse p.1).map fun t => (t.1, t.2.1)))))
  -- CSRF cookie names
  let states : List Str := (List.range 12).map (fun n => rep 's' n) ++ [("abcdefgh:/x".toList), ("abcdefg:/".toList), ("aaaaaaa:/".toList)]
  bad := bad + (← firstDiff "GenerateCookieName" ([true, false].flatMap fun pr => states.map fun st => (pr, st)) (fun p => toString p.1 ++ " " ++ q p.2)
    (fun p => showM q (Gen.Tr.GenerateCookieName E0 { Name := ['c'], CSRFPerRequest := p.1 } p.2))
    (fun p => let sub := stateSubstring { csrfPerRequest := p.1 } p.2
              q (if sub = [] then ['c'] ++ "_csrf".toList else ['c'] ++ '_' :: sub ++ "_csrf".toList)))
  -- the cookie constructor: hosts × validated domain lists (an empty entry only last) × lifetimes × SameSite
  let mcLists : List (List Str) := ([[], ["a.b"], ["x.a.b", "a.b"], ["x.a.b", "a.b", ""], ["cc.dd", "a.b"], [""]] : List (List String)).map (·.map String.toList)
  let mcExps : List Int := [0, 1, 999999999, 1000000000, 1500000000, 3600000000000, -1, -3600000000000]
  let sss : List Str := (["", "lax", "strict", "none"] : List String).map String.toList
  let mcCases := cdHosts.flatMap fun h => mcLists.flatMap fun d => mcExps.flatMap fun x => sss.map fun ss => (h, d, x, ss)
  let showC : Go.HttpCookie → String := fun c => s!"{q c.Name}={q c.Value} Path={q c.Path} Domain={q c.Domain} HttpOnly={c.HttpOnly} Secure={c.Secure} SameSite={c.SameSite} MaxAge={c.MaxAge}"
  bad := bad + (← firstDiff "MakeCookieFromOptions" mcCases (fun p => s!"host={q p.1} domains={qs p.2.1} expiration_ns={p.2.2.1} samesite={q p.2.2.2}")
    (fun p => showM showC (Gen.Tr.MakeCookieFromOptions E0 { header := fun _ => [], host := p.1, urlScheme := [], requestURI := [], scope := none } ['n'] ['v']
      { Name := ['n'], CSRFPerRequest := false, Domains := p.2.1, Path := ['/'], HTTPOnly := true, Secure := true, SameSite := p.2.2.2 } p.2.2.1))
    (fun p => let c := Ck.makeCookie { path := ['/'], domains := p.2.1, secure := true, httpOnly := true, sameSite := p.2.2.2 } p.1 ['n'] ['v'] p.2.2.1
              showC { Name := c.name, Value := c.value, Path := c.path, Domain := c.domain, HttpOnly := c.httpOnly, Secure := c.secure,
                      SameSite := (if c.sameSite = "lax".toList then 2 else if c.sameSite = "strict".toList then 3 else if c.sameSite = "none".toList then 4 else 0),
                      MaxAge := (match c.maxAge with | none => 0 | some m => m) }))
  -- real-client-IP selection: toy address parser ("1".."9" are addresses), Go-like host:port splitting
  let pip : Str → Option (BitVec 128) := fun t => match t with | [c] => if '1' ≤ c && c ≤ '9' then some (BitVec.ofNat 128 c.toNat) else none | _ => none
  let Ei : Go.Ext := { E0 with parseIP := pip }
  let T : NetText := { splitHostPort := fun t => (Ck.splitHostPortGo t).map (·.1), parseIP := pip }
  let hvals : List Str := (["", "1", " 1", "1 ", "1,2", " 1 , 2", ",1", "1:80", "1:80,2", "x", "x,1", "[1]:80", "1:", " ", ",", "1\t", "\u00a01", "12"] : List String).map String.toList
  let showCI : ClientIP → String := fun c => match c with | .addr a => "addr " ++ toString a.toNat | .absent => "absent" | .error => "error"
  let toCI : Option Go.IP × Go.Err → ClientIP := fun r => match r.2 with | some _ => .error | none => match r.1 with | some a => .addr a | none => .absent
  bad := bad + (← firstDiff "GetRealClientIP" (hvals.flatMap fun v => [([("X-Real-Ip".toList, [v])] : Headers), [("X-Real-Ip".toList, [v, ['9']])], [("X-Forwarded-For".toList, [v])], []])
    (fun h => toString (h.map fun kv => (String.ofList kv.1, kv.2.map String.ofList)))
    (fun h => showM (fun r => showCI (toCI r)) (Gen.Tr.GetRealClientIP Ei "X-Real-Ip".toList (headerGet h)))
    (fun h => showCI (getRealClientIP T "X-Real-Ip".toList h)))
  bad := bad + (← firstDiff "getRemoteIP" hvals q
    (fun v => showM (fun r => showCI (toCI r)) (Gen.Tr.getRemoteIP Ei { header := fun _ => [], host := [], urlScheme := [], requestURI := [], scope := none, remoteAddr := v }))
    (fun v => showCI (O2P.getRemoteIP T v)))
  -- auth-only constraints: queries with repeated / empty / comma-joined values × sessions
  let aqs : List (List (Str × Str)) := ([[], [("allowed_emails", "a@b")], [("allowed_emails", "a@b,")], [("allowed_emails", ",")], [("allowed_emails", "")], [("allowed_emails", "x@y,a@b")],
    [("allowed_emails", "x@y"), ("allowed_emails", "a@b")], [("allowed_groups", "g1")], [("allowed_groups", "g2,g1")], [("allowed_groups", ",,")], [("allowed_groups", "g3"), ("other", "g1")],
    [("allowed_groups", " g1")], [("allowed_emails", "a@b "), ("allowed_groups", "g1,")]] : List (List (String × String))).map (·.map fun kv => (kv.1.toList, kv.2.toList))
  let asess : List Go.Session := [{ Email := "a@b".toList, Groups := ["g1".toList] }, { Email := [], Groups := [] }, { Email := "x@y".toList, Groups := ["g0".toList, "g2".toList] }, { Email := "a@b ".toList, Groups := [[]] }]
  let acases := aqs.flatMap fun qq => asess.map fun ss => (qq, ss)
  let showA : List (Str × Str) × Go.Session → String := fun p => "query=" ++ toString (p.1.map fun kv => (String.ofList kv.1, String.ofList kv.2)) ++ " email=" ++ q p.2.Email ++ " groups=" ++ qs p.2.Groups
  let mkA (qq : List (Str × Str)) : Go.Req := { header := fun _ => [], host := [], urlScheme := [], requestURI := [], scope := none, query := fun k => (qq.filter (fun kv => kv.1 = k)).map (·.2) }
  bad := bad + (← firstDiff "checkAllowedEmails" acases showA
    (fun p => showM bstr (Gen.Tr.checkAllowedEmails E0 (mkA p.1) p.2)) (fun p => bstr (Authz.checkAllowedEmails p.1 ⟨p.2.Email, p.2.Groups⟩)))
  bad := bad + (← firstDiff "checkAllowedGroups" acases showA
    (fun p => showM bstr (Gen.Tr.checkAllowedGroups E0 (mkA p.1) p.2)) (fun p => bstr (Authz.checkAllowedGroups p.1 ⟨p.2.Email, p.2.Groups⟩)))
  -- OAuth state and nonce helpers (the lenient decoder of the search: "x…" decodes to "…", everything else to itself)
  let len0 : Str → Str := fun t => match t with | 'x' :: r => r | r => r
  let Es : Go.Ext := { E0 with b64RawUrlLenient := len0 }
  let sts : List Str := (["", ":", "n:/a", "n:/a:b", "n", ":/a", "n:", "xn:/a", "x", "xn", "n:/wiki/Help:Contents", "n:https://a.b/x?t=10:30"] : List String).map String.toList
  let showSt : Option (Str × Str) → String := fun o => match o with | none => "error" | some (a, b) => "nonce=" ++ q a ++ " redirect=" ++ q b
  bad := bad + (← firstDiff "decodeState" ([true, false].flatMap fun e => sts.map fun t => (e, t)) (fun p => "encode=" ++ toString p.1 ++ " state=" ++ q p.2)
    (fun p => showM (fun r => showSt (match r.2.2 with | none => some (r.1, r.2.1) | some _ => none)) (Gen.Tr.decodeState Es p.2 p.1))
    (fun p => showSt (decodeStateRaw (if p.1 then len0 p.2 else p.2))))
  bad := bad + (← firstDiff "encodeState" ([true, false].flatMap fun e => sts.map fun t => (e, t)) (fun p => "encode=" ++ toString p.1 ++ " nonce=\"n\" redirect=" ++ q p.2)
    (fun p => showM q (Gen.Tr.encodeState Es ['n'] p.2 p.1))
    (fun p => q (if p.1 then b64Encode true false (encodeStateRaw ['n'] p.2) else encodeStateRaw ['n'] p.2)))
  let nonces : List (Option Str) := [none, some [], some ['a'], some ['a', 'b']]
  let hashes : List Str := [[], b64Encode true false (toySha ['a']), b64Encode true false (toySha []), (b64Encode true false (toySha ['a'])).dropLast ++ ['A'], b64Encode true false (toySha ['a']) ++ ['\n'], ['x']]
  bad := bad + (← firstDiff "CheckNonce" (nonces.flatMap fun n => hashes.map fun h => (n, h)) (fun p => "nonce=" ++ (match p.1 with | none => "nil" | some v => q v) ++ " hashed=" ++ q p.2)
    (fun p => showM bstr (Gen.Tr.CheckNonce E0 p.1 p.2)) (fun p => bstr (checkNonce toySha p.1 p.2)))
  -- session clock comparisons: expiry and age around the second boundaries of the clock (E0: 1 000 000 s)
  let nowN : Int := E0.nowNs
  let tms : List (Option Int) := [none, some 0, some nowN, some (nowN - 1), some (nowN + 1), some (nowN - 1000000000), some (nowN - 999999999), some (nowN + 500000000), some (nowN - 3600000000000), some 1]
  let encT : Option Int → Option Int := fun o => o.map fun c => if c = 0 then Go.timeZero else c
  let showOT : Option Int → String := fun o => match o with | none => "nil" | some c => toString c
  let Eh : Go.Ext := { E0 with nowNs := nowN + 700000000 }
  bad := bad + (← firstDiff "IsExpired" tms (fun o => "ExpiresOn=" ++ showOT o ++ " now=" ++ toString Eh.nowNs)
    (fun o => showM bstr (Gen.Tr.IsExpired Eh (encT o))) (fun o => bstr (O2P.Session.isExpired { expiresOn := o } Eh.nowNs)))
  bad := bad + (← firstDiff "Age" tms (fun o => "CreatedAt=" ++ showOT o ++ " now=" ++ toString Eh.nowNs)
    (fun o => showM toString (Gen.Tr.Age Eh (encT o))) (fun o => toString (O2P.Session.ageNs { createdAt := o } Eh.nowNs)))
  -- the session-ticket text format: what encodeTicket writes must decode to the same id and secret; other shapes have neither
  let ids : List Str := (["", "a", "ticket-0123456789abcdef", "a.b", "v2", "x y"] : List String).map String.toList
  let secs : List Str := [[], ['s'], rep 'k' 16, (List.range 16).map (fun i => Char.ofNat (i * 16 + 7)), ['.', '.']]
  let showT : Go.M (Str × Go.Err) → String := fun r => showM (fun p => if p.2 == none then "ok " ++ q p.1 else "error") r
  bad := bad + (← firstDiff "ticket_roundtrip" (ids.flatMap fun i => secs.map fun k => (i, k)) showPair
    (fun p => match Gen.Tr.encodeTicket E0 p.1 p.2 with
      | .ok enc => showT (Gen.Tr.decodeTicketID E0 (Go.stringsSplit enc ['.'])) ++ " / " ++ showT (Gen.Tr.decodeTicketSecret E0 (Go.stringsSplit enc ['.']))
      | .error e => "PANIC(" ++ e ++ ")")
    (fun p => "ok " ++ q p.1 ++ " / ok " ++ q p.2))
  let shapes : List (List Str) := ([[], ["x"], ["v2"], ["a", "b", "c"], ["v1", "YQ", "YQ"], ["v2", "YQ", "YQ", "YQ"], ["V2", "YQ", "YQ"], ["v2", "!!", "YQ"], ["v2", "YQ", "!!"], ["id", "!!"]] : List (List String)).map (·.map String.toList)
  let wantShape : List Str → String := fun ps => match ps.map String.ofList with
    | ["v2", "!!", "YQ"] => "error / ok \"a\"" | ["v2", "YQ", "!!"] => "ok \"a\" / error" | ["id", "!!"] => "ok \"id\" / error" | _ => "error / error"
  bad := bad + (← firstDiff "decodeTicket(other shapes)" shapes qs
    (fun ps => showT (Gen.Tr.decodeTicketID E0 ps) ++ " / " ++ showT (Gen.Tr.decodeTicketSecret E0 ps)) wantShape)
  -- the director's redirect getters: forwarded / own URI × proxy prefix × whitelist
  let gReqs : List (Bool × List (Str × Str) × Str) := [true, false].flatMap fun rp =>
    ([[], [("X-Forwarded-Host", "a.b"), ("X-Forwarded-Proto", "https"), ("X-Forwarded-Uri", "/x")], [("X-Forwarded-Host", "evil.b"), ("X-Forwarded-Uri", "/oauth2/cb")],
      [("X-Forwarded-Uri", "//evil.b")], [("X-Forwarded-Host", "a.b"), ("X-Forwarded-Uri", "/oauth2x")], [("X-Forwarded-Uri", "/ok?q=1")]] : List (List (String × String))).flatMap fun h =>
      (["/own", "/oauth2/start", "//own", "/"] : List String).map fun u => (rp, h.map (fun kv => (kv.1.toList, kv.2.toList)), u.toList)
  let gR (p : Bool × List (Str × Str) × Str) : O2P.Req := { method := ['G'], path := ['/'], uri := p.2.2, headers := p.2.1, host := ['h'], scheme := "http".toList }
  let gG (p : Bool × List (Str × Str) × Str) : Go.Req := { header := (gR p).header, host := ['h'], urlScheme := "http".toList, requestURI := p.2.2, scope := some ⟨p.1⟩ }
  let gAllowed : List Str := ["a.b".toList]
  let gValid : Str → Bool := fun t => Redirect.isValidRedirect gAllowed t ((Ev.urlParse t).map fun x => (x.1, x.2.1))
  let showG : Bool × List (Str × Str) × Str → String := fun p => "reverse-proxy=" ++ toString p.1 ++ " uri=" ++ q p.2.2 ++ " headers=" ++ toString (p.2.1.map fun kv => (String.ofList kv.1, String.ofList kv.2))
  bad := bad + (← firstDiff "getXForwardedHeadersRedirect" gReqs showG
    (fun p => showM q (Gen.Tr.getXForwardedHeadersRedirect Ev gAllowed "/oauth2/".toList (gG p)))
    (fun p => q (Redirect.getXForwarded gValid (isForwardedRequest { reverseProxy := p.1 } (gR p)) (requestProto { reverseProxy := p.1 } (gR p)) (requestHost { reverseProxy := p.1 } (gR p)) (requestURI { reverseProxy := p.1 } (gR p)) "/oauth2/".toList)))
  bad := bad + (← firstDiff "getURIRedirect" gReqs showG
    (fun p => showM q (Gen.Tr.getURIRedirect Ev gAllowed "/oauth2/".toList (gG p)))
    (fun p => q (Redirect.getURI gValid (requestURI { reverseProxy := p.1 } (gR p)) p.2.2 "/oauth2/".toList)))
  IO.println s!"trsearch: {bad} function(s) with a disagreement"
  return (if bad == 0 then 0 else 1)

end O2P.TrSearch

def main : IO UInt32 := O2P.TrSearch.main
