/-
  O2P.Go.Prim — the Go primitives the regenerated definitions of `O2P/Gen/Tr.lean` are written in.

  `go2lean/` (a go/ast translator, run on every check) rewrites selected pure functions of /repo
  into Lean `do` blocks over these primitives; `O2P/Props/Tr*.lean` then proves each regenerated
  definition equal to the hand-written model function the property theorems are about (and, as a
  by-product, that it never panics).  This file is the translator's TARGET LANGUAGE — it is
  trusted in the same way as the hand model of the standard library elsewhere:

  * `M α := Except String α` — a Go computation that may PANIC (`throw`): index / slice out of
    range.  Errors returned as values are ordinary data (`Err := Option Str`, `nil ↦ none`).
  * `string`, `[]byte` ↦ `Str` (one `Char` per byte); `int` ↦ `Int` (unbounded: the translated
    functions only do length and counter arithmetic); `[]T` ↦ `List T`; `byte`, `rune` ↦ `Char`
    (ranging over a string yields bytes: equivalent for the ASCII comparisons the translated
    functions make, since every byte of a multi-byte rune is ≥ 0x80).
  * standard-library calls are mapped to the Layer-B models (`splitOn`, `atoi`, `b64Decode`, …).
  * what the repository takes from outside (the keyed hash, SHA-256, the wall clock, the request's
    host) is a field of `Ext`, passed to every regenerated definition.
-/
import O2P.Basic
import O2P.Model.Base64
import O2P.Model.Signed
import O2P.Model.ClientIP

namespace O2P.Go

abbrev M := Except String
abbrev Err := Option Str

/-- what the translated functions take from outside the repository -/
structure Ext where
  mac : Str → Str → Str        -- HMAC-SHA256 (key, message)
  sha : Str → Str              -- SHA-256
  nowNs : Int                  -- `time.Now()` in ns since the Unix epoch (one read per call)
  splitHostPortStd : Str → Option (Str × Str)   -- `net.SplitHostPort` (host, port) or error
  b64RawUrlLenient : Str → Str                  -- `b, _ := base64.RawURLEncoding.DecodeString(s)`: the bytes handed back, error discarded
  parseIP : Str → Option (BitVec 128)           -- `net.ParseIP` (nil ↦ none; a non-nil result has 16 bytes)
  regexMatch : Str → Str → Bool                 -- `regexp.MustCompile(pattern).MatchString(s)`
  urlParse : Str → Option (Str × Str × Str)     -- `url.Parse`: (Hostname(), Port(), Path) or error
  urlParseRequestURI : Str → Option (Str × Str × Str)  -- `url.ParseRequestURI`, likewise

/-- an `Ext` that answers nothing (examples and searches override the fields they need) -/
def Ext.trivial : Ext :=
  { mac := fun _ _ => [], sha := fun _ => [], nowNs := 0, splitHostPortStd := fun _ => none, parseIP := fun _ => none, b64RawUrlLenient := fun _ => [],
    regexMatch := fun _ _ => false, urlParse := fun _ => none, urlParseRequestURI := fun _ => none }

/-- `http.Cookie` as far as the translated functions read it -/
structure Cookie where
  Name : Str
  Value : Str
  deriving DecidableEq

abbrev IP := BitVec 128

/-- `strings.TrimSpace` -/
def stringsTrimSpace (s : Str) : Str := trimSpace s

/-- the request scope (`middlewareapi.RequestScope`) as far as the translated functions read it -/
structure Scope where
  ReverseProxy : Bool
  deriving DecidableEq

/-- `*http.Request` as far as the translated functions read it -/
structure Req where
  header : Str → Str           -- `req.Header.Get(name)`
  host : Str                   -- `req.Host`
  urlScheme : Str              -- `req.URL.Scheme`
  requestURI : Str             -- `req.URL.RequestURI()`
  scope : Option Scope         -- `middlewareapi.GetRequestScope(req)` (nil when no scope middleware ran)
  method : Str := []           -- `req.Method`
  query : Str → List Str := fun _ => []   -- `req.URL.Query()[key]`
  remoteAddr : Str := []       -- `req.RemoteAddr`

/-- reading a field through a pointer: nil is a panic -/
def derefScope (s : Option Scope) : M Scope :=
  match s with
  | some x => pure x
  | none => throw "invalid memory address or nil pointer dereference"

/-- `sessions.SessionState` as far as the translated functions read it -/
structure Session where
  Email : Str := []
  Groups : List Str := []

/-! ### `map[string]struct{}` as a list of keys (iteration order is unspecified in Go: the translated functions only
    test membership and emptiness, which do not depend on it) -/
def setInsert (m : List Str) (k : Str) : List Str := m ++ [k]
def setHas (m : List Str) (k : Str) : Bool := m.contains k
def setLen (m : List Str) : Int := m.eraseDups.length

/-- `*url.URL` as far as the translated functions read it (`Hostname()`, `Port()`) -/
structure URL where
  hostname : Str
  port : Str
  path : Str := []

/-- `allowedRoute` of oauthproxy.go; the compiled regex is its pattern -/
structure Route where
  method : Str
  negate : Bool
  pathRegex : Str

/-- `options.Cookie` as far as the translated functions read it -/
structure CookieOpts where
  Name : Str
  CSRFPerRequest : Bool
  Domains : List Str := []
  Path : Str := []
  HTTPOnly : Bool := false
  Secure : Bool := false
  SameSite : Str := []

/-- `http.Cookie` as `MakeCookieFromOptions` builds it (`SameSite`: 0 unset, 2 Lax, 3 Strict, 4 None;
    `MaxAge`: 0 = attribute absent, < 0 = delete now) -/
structure HttpCookie where
  Name : Str := []
  Value : Str := []
  Path : Str := []
  Domain : Str := []
  HttpOnly : Bool := false
  Secure : Bool := false
  SameSite : Int := 0
  MaxAge : Int := 0
  deriving DecidableEq

/-- `int(d.Seconds())`: whole seconds, truncated toward zero (`Seconds()` is a float64; exact for
    |d| < 2⁵³ ns ≈ 104 days … and the quotient is the same far beyond: stated, not proved) -/
def durationSecondsInt (d : Int) : Int := Int.tdiv d 1000000000

/-- `net.SplitHostPort` -/
def netSplitHostPort (E : Ext) (hp : Str) : Str × Str × Err :=
  match E.splitHostPortStd hp with
  | some (h, p) => (h, p, none)
  | none => ([], [], some "missing port in address".toList)

def urlOf : Option (Str × Str × Str) → URL × Err
  | some (h, p, pa) => (⟨h, p, pa⟩, none)
  | none => (⟨[], [], []⟩, some "parse error".toList)
def urlParse (E : Ext) (s : Str) : URL × Err := urlOf (E.urlParse s)
def urlParseRequestURI (E : Ext) (s : Str) : URL × Err := urlOf (E.urlParseRequestURI s)

def len {α} (xs : List α) : Int := xs.length

/-- `xs[i]` -/
def idx {α} (xs : List α) (i : Int) : M α :=
  if i < 0 then throw "index out of range" else
  match xs[i.toNat]? with
  | some x => pure x
  | none => throw "index out of range"

/-- `s[lo:hi]` -/
def slice {α} (xs : List α) (lo hi : Int) : M (List α) :=
  if lo < 0 ∨ hi < lo ∨ hi > xs.length then throw "slice bounds out of range"
  else pure ((xs.take hi.toNat).drop lo.toNat)

/-- `s[lo:]` -/
def sliceFrom {α} (xs : List α) (lo : Int) : M (List α) :=
  if lo < 0 ∨ lo > xs.length then throw "slice bounds out of range"
  else pure (xs.drop lo.toNat)

/-- `s[:hi]` -/
def sliceTo {α} (xs : List α) (hi : Int) : M (List α) :=
  if hi < 0 ∨ hi > xs.length then throw "slice bounds out of range"
  else pure (xs.take hi.toNat)

/-- short-circuit `a && b` / `a || b` whose right operand may panic -/
def andM (a : Bool) (b : M Bool) : M Bool := if a then b else pure false
def orM (a : Bool) (b : M Bool) : M Bool := if a then pure true else b

/-- `for _, x := range xs { body }` without assignments to outer variables: the body answers
    `some r` for `return r`, `none` for falling through / `continue`. -/
def forRange {α ρ} : List α → (α → M (Option ρ)) → M (Option ρ)
  | [], _ => pure none
  | x :: xs, body => do
    match ← body x with
    | some r => pure (some r)
    | none => forRange xs body

/-- the same with loop-carried state: the body answers `.inl r` for `return r`, `.inr s` with the
    new values of the outer variables it assigns. -/
def forRangeS {α ρ σ} : List α → σ → (α → σ → M (Sum ρ σ)) → M (Sum ρ σ)
  | [], s, _ => pure (.inr s)
  | x :: xs, s, body => do
    match ← body x s with
    | .inl r => pure (.inl r)
    | .inr s' => forRangeS xs s' body

/-! ### `strings` -/

def stringsSplit (s sep : Str) : List Str :=
  match sep with
  | [c] => splitOn c s
  | _ => [s]       -- only one-byte separators occur in the translated functions

def stringsHasPrefix (s p : Str) : Bool := hasPrefix p s
def stringsHasSuffix (s p : Str) : Bool := hasSuffix p s
def stringsTrimPrefix (s p : Str) : Str := trimPrefix p s
def stringsTrimRight (s cutset : Str) : Str := (s.reverse.dropWhile (fun c => cutset.contains c)).reverse

/-- `strings.LastIndexByte(s, c)` / `strings.LastIndex(s, string(c))` -/
def stringsLastIndexByte (s : Str) (c : Char) : Int :=
  match lastIndexOf c s with
  | some i => i
  | none => -1

def indexByte (c : Char) : Str → Option Nat
  | [] => none
  | d :: ds => if d = c then some 0 else (indexByte c ds).map (· + 1)

/-- `strings.Index(s, sub)` for a one-byte needle -/
def stringsIndex (s sub : Str) : Int :=
  match sub with
  | [c] => match indexByte c s with
    | some i => i
    | none => -1
  | _ => -1

def stringsLastIndex (s sub : Str) : Int :=
  match sub with
  | [c] => stringsLastIndexByte s c
  | _ => -1        -- only one-byte needles occur in the translated functions

/-! ### `strconv`, `fmt`, `encoding/base64` -/

def strconvAtoi (s : Str) : Int × Err :=
  match atoi s with
  | some i => (i, none)
  | none => (0, some "strconv.Atoi: parsing error".toList)

/-- `%d` -/
def fmtD (i : Int) : Str := intToStr i

/-- `base64.URLEncoding.DecodeString` -/
def b64UrlDecode (s : Str) : Str × Err :=
  match b64Decode true true s with
  | some b => (b, none)
  | none => ([], some "illegal base64 data".toList)

/-- `base64.RawURLEncoding.DecodeString` -/
def b64RawUrlDecode (s : Str) : Str × Err :=
  match b64Decode true false s with
  | some b => (b, none)
  | none => ([], some "illegal base64 data".toList)

def b64UrlEncode (s : Str) : Str := b64Encode true true s
def b64RawUrlEncode (s : Str) : Str := b64Encode true false s

/-! ### `crypto/hmac`, `crypto/sha256` — the running hash is (key, bytes written so far) -/

structure Hmac where
  key : Str
  written : Str

def hmacNew (key : Str) : Hmac := ⟨key, []⟩
def hmacWrite (h : Hmac) (b : Str) : Hmac := ⟨h.key, h.written ++ b⟩
def hmacSum (E : Ext) (h : Hmac) (b : Str) : Str := b ++ E.mac h.key h.written
def hmacEqual (a b : Str) : Bool := a == b

/-- `sha256.New()` with `Write` / `Sum`: the bytes written so far -/
structure Sha where
  written : Str
def shaNew : Sha := ⟨[]⟩
def shaWrite (h : Sha) (b : Str) : Sha := ⟨h.written ++ b⟩
def shaSum (E : Ext) (h : Sha) (b : Str) : Str := b ++ E.sha h.written

/-- `strings.SplitN(s, sep, 2)` for a one-byte separator -/
def stringsSplitN2 (s sep : Str) : List Str :=
  match sep with
  | [c] => match splitFirst c s with
    | (a, some b) => [a, b]
    | (a, none) => [a]
  | _ => [s]

/-! ### `time`: a `time.Time` is its distance from the Unix epoch in ns, as comparisons see it -/

abbrev Time := Int
def timeZero : Int := -62135596800 * 1000000000
/-- `time.Unix(sec, 0)`: wraps like the int64 the runtime stores (`effSec`) -/
def timeUnix (sec : Int) : Int := effSec sec * 1000000000
/-- `t.Unix()` of a time built by `timeUnix` / of the clock -/
def timeToUnix (t : Time) : Int := t / 1000000000
/-- `*t` / a method call on a `*time.Time`: nil is a panic -/
def derefTime (t : Option Int) : M Int :=
  match t with
  | some x => pure x
  | none => throw "invalid memory address or nil pointer dereference"
def timeMinute : Int := 60 * 1000000000
def timeSecond : Int := 1000000000
/-- `t.Truncate(d)`: rounds down to a multiple of `d` since the zero time (`d ≤ 0` returns `t`) -/
def timeTruncate (t : Int) (d : Int) : Int :=
  if d ≤ 0 then t else t - (t - timeZero) % d

end O2P.Go
