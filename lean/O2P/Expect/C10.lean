import O2P.Gen.Facts
/-! Reviewed expectations about the source facts that the model parts used for C10 encode.
    Written by bin/mkexpect.py from reviewed facts; a change of /repo that alters one of these facts breaks the `rfl`. -/
namespace O2P.Expect.C10
open O2P.Facts

theorem maxCookieLength_ok : maxCookieLength = (4000 : Int) := rfl

theorem skel_SessionStore_Save_ok : skel_SessionStore_Save = ([
  "if ss.CreatedAt == nil || ss.CreatedAt.IsZero()",
  "ss.CreatedAtNow",
  "s.cookieForSession",
  "if err != nil",
  "return err",
  "return s.setSessionCookie(rw, req, value, *ss.CreatedAt)",
  "s.setSessionCookie"] : List String) := rfl

theorem skel_SessionStore_setSessionCookie_ok : skel_SessionStore_setSessionCookie = ([
  "s.makeSessionCookie",
  "if err != nil",
  "return err",
  "s.clearCookiesExcept",
  "http.SetCookie",
  "return nil"] : List String) := rfl

theorem skel_SessionStore_Load_ok : skel_SessionStore_Load = ([
  "loadCookie",
  "if err != nil",
  "return nil, err",
  "encryption.Validate",
  "if !ok",
  "return nil, errors.New(\"cookie signature not valid\")",
  "errors.New",
  "sessions.DecodeSessionState",
  "if err != nil",
  "return nil, err",
  "return session, nil"] : List String) := rfl

theorem skel_Manager_Save_ok : skel_Manager_Save = ([
  "if s.CreatedAt == nil || s.CreatedAt.IsZero()",
  "s.CreatedAtNow",
  "decodeTicketFromRequest",
  "if err != nil",
  "newTicket",
  "if err != nil",
  "return fmt.Errorf(\"error creating a session ticket: %v\", err)",
  "tckt.saveSession",
  "func{",
  "return m.Store.Save(req.Context(), key, val, exp)",
  "m.Store.Save",
  "if err != nil",
  "return err",
  "return tckt.setCookie(rw, req, s)",
  "tckt.setCookie"] : List String) := rfl

theorem skel_Manager_Load_ok : skel_Manager_Load = ([
  "decodeTicketFromRequest",
  "if err != nil",
  "return nil, err",
  "return tckt.loadSession( func(key string) ([]byte, error) { return",
  "tckt.loadSession",
  "func{",
  "return m.Store.Load(req.Context(), key)",
  "m.Store.Load"] : List String) := rfl

theorem skel_loadCookie_ok : skel_loadCookie = ([
  "req.Cookie",
  "if err == nil",
  "return c, nil",
  "for err == nil",
  "req.Cookie",
  "splitCookieName",
  "if err == nil",
  "if len(cookies) == 0",
  "return nil, http.ErrNoCookie",
  "return joinCookies(cookies, cookieName)",
  "joinCookies"] : List String) := rfl

theorem skel_SessionStore_makeSessionCookie_ok : skel_SessionStore_makeSessionCookie = ([
  "if strValue != \"\"",
  "encryption.SignedValue",
  "if err != nil",
  "return nil, err",
  "s.makeCookie",
  "if len(c.String()) > maxCookieLength",
  "return splitCookie(c), nil",
  "splitCookie",
  "return []*http.Cookie{c}, nil"] : List String) := rfl

theorem skel_SessionStore_clearCookiesExcept_ok : skel_SessionStore_clearCookiesExcept = ([
  "req.Cookies",
  "if ok",
  "if isSessionCookieName(s.Cookie.Name, c.Name)",
  "isSessionCookieName",
  "s.makeCookie",
  "http.SetCookie"] : List String) := rfl

theorem skel_isSessionCookieName_ok : skel_isSessionCookieName = ([
  "if candidate == name",
  "return true",
  "strings.LastIndex",
  "if idx < 0",
  "return false",
  "strconv.Atoi",
  "if err != nil || count < 0",
  "return false",
  "return candidate == splitCookieName(name, count)",
  "splitCookieName"] : List String) := rfl

theorem skel_Manager_Clear_ok : skel_Manager_Clear = ([
  "decodeTicketFromRequest",
  "if err != nil",
  "tckt.clearCookie",
  "if err == http.ErrNoCookie",
  "return nil",
  "return fmt.Errorf(\"error decoding ticket to clear session: %v\", err",
  "tckt.clearCookie",
  "return tckt.clearSession(func(key string) error { return m.Store.Cl",
  "tckt.clearSession",
  "func{",
  "return m.Store.Clear(req.Context(), key)",
  "m.Store.Clear"] : List String) := rfl

theorem flags_session_ok : flags_session = ([
  "String redis-ca-path = \"\"",
  "StringSlice redis-cluster-connection-urls = []string{}",
  "Int redis-connection-idle-timeout = 0",
  "String redis-connection-url = \"\"",
  "Bool redis-insecure-skip-tls-verify = false",
  "String redis-password = \"\"",
  "StringSlice redis-sentinel-connection-urls = []string{}",
  "String redis-sentinel-master-name = \"\"",
  "String redis-sentinel-password = \"\"",
  "Bool redis-use-cluster = false",
  "Bool redis-use-sentinel = false",
  "String redis-username = \"\"",
  "Bool session-cookie-minimal = false",
  "String session-store-type = \"cookie\""] : List String) := rfl

end O2P.Expect.C10
