import O2P.Gen.Facts
/-! Reviewed expectations about the source facts that the model parts used for C10 encode.
    Written by bin/mkexpect.py from reviewed facts; a change of /repo that alters one of these facts breaks the `rfl`. -/
namespace O2P.Expect.C10
open O2P.Facts

theorem maxCookieLength_ok : maxCookieLength = (4000 : Int) := rfl

theorem skel_SessionStore_Save_ok : skel_SessionStore_Save = ([
  "if ss.CreatedAt == nil || ss.CreatedAt.IsZero()",
  "ss.CreatedAtNow",
  "s.cookieForSession",
  "if err != nil",
  "return err",
  "return s.setSessionCookie(rw, req, value, *ss.CreatedAt)",
  "s.setSessionCookie"] : List String) := rfl

theorem skel_SessionStore_setSessionCookie_ok : skel_SessionStore_setSessionCookie = ([
  "s.makeSessionCookie",
  "if err != nil",
  "return err",
  "s.clearCookiesExcept",
  "http.SetCookie",
  "return nil"] : List String) := rfl

theorem skel_SessionStore_Load_ok : skel_SessionStore_Load = ([
  "loadCookie",
  "if err != nil",
  "return nil, err",
  "encryption.Validate",
  "if !ok",
  "return nil, errors.New(\"cookie signature not valid\")",
  "sessions.DecodeSessionState",
  "if err != nil",
  "return nil, err",
  "return session, nil"] : List String) := rfl

theorem skel_Manager_Save_ok : skel_Manager_Save = ([
  "if s.CreatedAt == nil || s.CreatedAt.IsZero()",
  "s.CreatedAtNow",
  "decodeTicketFromRequest",
  "if err != nil",
  "newTicket",
  "if err != nil",
  "return fmt.Errorf(\"error creating a session ticket: %v\", err)",
  "tckt.saveSession",
  "func{",
  "return m.Store.Save(req.Context(), key, val, exp)",
  "m.Store.Save",
  "if err != nil",
  "return err",
  "return tckt.setCookie(rw, req, s)",
  "tckt.setCookie"] : List String) := rfl

theorem skel_Manager_Load_ok : skel_Manager_Load = ([
  "decodeTicketFromRequest",
  "if err != nil",
  "return nil, err",
  "return tckt.loadSession( func(key string) ([]byte, error) { return",
  "tckt.loadSession",
  "func{",
  "return m.Store.Load(req.Context(), key)",
  "m.Store.Load"] : List String) := rfl

end O2P.Expect.C10
