import O2P.Gen.Facts
/-! Reviewed expectations about the source facts that the model parts used for C17 encode.
    Written by bin/mkexpect.py from reviewed facts; a change of /repo that alters one of these facts breaks the `rfl`. -/
namespace O2P.Expect.C17
open O2P.Facts

theorem skel_OAuthProxy_Proxy_ok : skel_OAuthProxy_Proxy = ([
  "p.getAuthenticatedSession",
  "case nil",
  "p.addHeadersForProxying",
  "p.headersChain.Then(p.upstreamProxy).ServeHTTP",
  "p.headersChain.Then",
  "case ErrNeedsLogin",
  "if p.forceJSONErrors || isAjax(req) || p.isAPIPath(req)",
  "p.errorJSON",
  "return",
  "if p.SkipProviderButton",
  "p.doOAuthStart",
  "p.SignInPage",
  "case ErrAccessDenied",
  "if p.forceJSONErrors",
  "p.errorJSON",
  "p.ErrorPage",
  "case ",
  "p.ErrorPage"] : List String) := rfl

end O2P.Expect.C17
