import O2P.Gen.Facts
/-! Reviewed expectations about the source facts that the model parts used for C17 encode.
    Written by bin/mkexpect.py from reviewed facts; a change of /repo that alters one of these facts breaks the `rfl`. -/
namespace O2P.Expect.C17
open O2P.Facts

theorem skel_OAuthProxy_Proxy_ok : skel_OAuthProxy_Proxy = ([
  "p.getAuthenticatedSession",
  "case nil",
  "p.addHeadersForProxying",
  "p.headersChain.Then(p.upstreamProxy).ServeHTTP",
  "p.headersChain.Then",
  "case ErrNeedsLogin",
  "if p.forceJSONErrors || isAjax(req) || p.isAPIPath(req)",
  "p.errorJSON",
  "return",
  "if p.SkipProviderButton",
  "p.doOAuthStart",
  "p.SignInPage",
  "case ErrAccessDenied",
  "if p.forceJSONErrors",
  "p.errorJSON",
  "p.ErrorPage",
  "case ",
  "p.ErrorPage"] : List String) := rfl

theorem skel_NewProxy_ok : skel_NewProxy = ([
  "if upstreams.ProxyRawPath",
  "if upstream.Static",
  "if err != nil",
  "return nil, fmt.Errorf(\"could not register static upstream %q: %v\", upst",
  "url.Parse",
  "if err != nil",
  "return nil, fmt.Errorf(\"error parsing URI for upstream %q: %w\", upstream",
  "case fileScheme",
  "if err != nil",
  "return nil, fmt.Errorf(\"could not register file upstream %q: %v\", upstre",
  "case httpScheme, httpsScheme, unixScheme",
  "if err != nil",
  "return nil, fmt.Errorf(\"could not register %s upstream %q: %v\", u.Scheme",
  "case ",
  "return nil, fmt.Errorf(\"unknown scheme for upstream %q: %q\", upstream.ID",
  "return m, nil"] : List String) := rfl

theorem skel_sortByPathLongest_ok : skel_sortByPathLongest = ([
  "sort.Slice",
  "func{",
  "case iRW != \"\" && jRW != \"\"",
  "return len(in[i].Path) > len(in[j].Path)",
  "case iRW != \"\" && jRW == \"\"",
  "return true",
  "case iRW == \"\" && jRW != \"\"",
  "return false",
  "case ",
  "return len(in[i].Path) > len(in[j].Path)",
  "return in"] : List String) := rfl

theorem skel_multiUpstreamProxy_registerSimpleHandler_ok : skel_multiUpstreamProxy_registerSimpleHandler = ([
  "if strings.HasSuffix(path, \"/\")",
  "strings.HasSuffix",
  "m.serveMux.PathPrefix",
  "m.serveMux.Path"] : List String) := rfl

theorem skel_rewritePath_ok : skel_rewritePath = ([
  "return http.HandlerFunc(func(rw http.ResponseWriter, req *http.Requ",
  "func{",
  "url.ParseRequestURI",
  "if err != nil",
  "fmt.Sprintf",
  "return",
  "rewriteRegExp.ReplaceAllString",
  "reqURL.Query",
  "if err != nil",
  "fmt.Sprintf",
  "return",
  "next.ServeHTTP"] : List String) := rfl

theorem skel_splitPathAndQuery_ok : skel_splitPathAndQuery = ([
  "if len(s) == 1",
  "return s[0], originalQuery.Encode(), nil",
  "originalQuery.Encode",
  "url.ParseQuery",
  "if err != nil",
  "return \"\", \"\", err",
  "originalQuery.Add",
  "return s[0], originalQuery.Encode(), nil",
  "originalQuery.Encode"] : List String) := rfl

theorem skel_setProxyDirector_ok : skel_setProxyDirector = ([
  "func{"] : List String) := rfl

theorem flags_upstream_ok : flags_upstream = ([
  "Duration flush-interval = DefaultUpstreamFlushInterval",
  "Bool pass-host-header = true",
  "Bool proxy-websockets = true",
  "Bool ssl-upstream-insecure-skip-verify = false",
  "StringSlice upstream = []string{}",
  "Duration upstream-timeout = DefaultUpstreamTimeout"] : List String) := rfl

theorem optionTags_upstream_ok : optionTags_upstream = ([
  "flush-interval flush_interval LegacyUpstreams.FlushInterval time.Duration",
  "pass-host-header pass_host_header LegacyUpstreams.PassHostHeader bool",
  "proxy-websockets proxy_websockets LegacyUpstreams.ProxyWebSockets bool",
  "ssl-upstream-insecure-skip-verify ssl_upstream_insecure_skip_verify LegacyUpstreams.SSLUpstreamInsecureSkipVerify bool",
  "upstream upstreams LegacyUpstreams.Upstreams []string",
  "upstream-timeout upstream_timeout LegacyUpstreams.Timeout time.Duration"] : List String) := rfl

theorem cfgText_legacyUpstreams_ok : cfgText_legacyUpstreams = ([
  "func LegacyUpstreams.convert {",
  "{ upstreams := UpstreamConfig{} for _, upstreamString := range l.Upstreams { u, err := url.Parse(upstreamString) if err != nil { return UpstreamConfig{}, fmt.Errorf(\"could not parse upstream %q: %v\", upstreamString, err) } if u.Path == \"\" { u.Path = \"/\" } flushInterval := Duration(l.FlushInterval) timeout := Duration(l.Timeout) upstream := Upstream{ ID: u.Path, Path: u.Path, URI: upstreamString, InsecureSkipTLSVerify: l.SSLUpstreamInsecureSkipVerify, PassHostHeader: &l.PassHostHeader, ProxyWebSockets: &l.ProxyWebSockets, FlushInterval: &flushInterval, Timeout: &timeout, } switch u.Scheme { case \"file\": if u.Fragment != \"\" { upstream.ID = u.Fragment upstream.Path = u.Fragment upstream.URI = strings.SplitN(upstreamString, \"#\", 2)[0] } case \"static\": responseCode, err := strconv.Atoi(u.Host) if err != nil { logger.Errorf(\"unable to convert %q to int, use default \\\"200\\\"\", u.Host) responseCode = 200 } upstream.Static = true upstream.StaticCode = &responseCode upstream.ID = upstreamString upstream.Path = \"/\" upstream.URI = \"\" upstream.InsecureSkipTLSVerify = false upstream.PassHostHeader = nil upstream.ProxyWebSockets = nil upstream.FlushInterval = nil upstream.Timeout = nil case \"unix\": upstream.Path = \"/\" } upstreams.Upstreams = append(upstreams.Upstreams, upstream) } return upstreams, nil }"] : List String) := rfl

end O2P.Expect.C17
