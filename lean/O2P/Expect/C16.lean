import O2P.Gen.Facts
/-! Reviewed expectations about the source facts that the model parts used for C16 encode.
    Written by bin/mkexpect.py from reviewed facts; a change of /repo that alters one of these facts breaks the `rfl`. -/
namespace O2P.Expect.C16
open O2P.Facts

theorem fwdHeaderSites_ok : fwdHeaderSites = ([
  "pkg/ip/realclientip.go:xForwardedForClientIPParser.GetRealClientIP:h.Get(p.header)",
  "pkg/requests/util/util.go:GetRequestHost:req.Header.Get(XForwardedHost)",
  "pkg/requests/util/util.go:GetRequestProto:req.Header.Get(XForwardedProto)",
  "pkg/requests/util/util.go:GetRequestURI:req.Header.Get(XForwardedURI)"] : List String) := rfl

theorem realIPParserConfig_ok : realIPParserConfig = (["if o.ReverseProxy { o.SetRealClientIPParser }", "call"] : List String) := rfl

end O2P.Expect.C16
