import O2P.Gen.Facts
/-! Reviewed expectations about the source facts that the model parts used for C16 encode.
    Written by bin/mkexpect.py from reviewed facts; a change of /repo that alters one of these facts breaks the `rfl`. -/
namespace O2P.Expect.C16
open O2P.Facts

theorem fwdHeaderSites_ok : fwdHeaderSites = ([
  "pkg/ip/realclientip.go:xForwardedForClientIPParser.GetRealClientIP:h.Get(p.header)",
  "pkg/requests/util/util.go:GetRequestHost:req.Header.Get(XForwardedHost)",
  "pkg/requests/util/util.go:GetRequestProto:req.Header.Get(XForwardedProto)",
  "pkg/requests/util/util.go:GetRequestURI:req.Header.Get(XForwardedURI)"] : List String) := rfl

theorem realIPParserConfig_ok : realIPParserConfig = (["if o.ReverseProxy { o.SetRealClientIPParser }", "call"] : List String) := rfl

theorem skel_GetRequestPath_ok : skel_GetRequestPath = ([
  "if err == nil",
  "url.ParseRequestURI",
  "return parsedURL.Path",
  "if idx != -1",
  "strings.Index",
  "return uri[:idx]",
  "return uri"] : List String) := rfl

theorem skel_GetRequestURI_ok : skel_GetRequestURI = ([
  "req.Header.Get",
  "if !IsProxied(req) || uri == \"\"",
  "IsProxied",
  "return uri"] : List String) := rfl

theorem skel_GetRequestHost_ok : skel_GetRequestHost = ([
  "req.Header.Get",
  "if !IsProxied(req) || host == \"\"",
  "IsProxied",
  "return host"] : List String) := rfl

theorem skel_GetRequestProto_ok : skel_GetRequestProto = ([
  "req.Header.Get",
  "if !IsProxied(req) || proto == \"\"",
  "IsProxied",
  "return proto"] : List String) := rfl

theorem skel_redirectToHTTPS_ok : skel_redirectToHTTPS = ([
  "return http.HandlerFunc(func(rw http.ResponseWriter, req *http.Requ",
  "func{",
  "if strings.EqualFold(proto, httpsScheme) || (req.TLS != nil && proto == req.URL.Scheme)",
  "strings.EqualFold",
  "next.ServeHTTP",
  "return",
  "url.Parse",
  "if targetURL.Port() != \"\"",
  "net.SplitHostPort",
  "http.Redirect"] : List String) := rfl

theorem skel_OAuthProxy_isTrustedIP_ok : skel_OAuthProxy_isTrustedIP = ([
  "if p.trustedIPs == nil && req.RemoteAddr != \"@\"",
  "return false",
  "ip.GetClientIP",
  "if err != nil",
  "return false",
  "if remoteAddr == nil",
  "return false",
  "return p.trustedIPs.Has(remoteAddr)",
  "p.trustedIPs.Has"] : List String) := rfl

theorem skel_xForwardedForClientIPParser_GetRealClientIP_ok : skel_xForwardedForClientIPParser_GetRealClientIP = ([
  "if realIP != \"\"",
  "h.Get",
  "return nil, nil",
  "if commaIndex != -1",
  "strings.IndexRune",
  "strings.TrimSpace",
  "if err == nil",
  "net.SplitHostPort",
  "net.ParseIP",
  "if ip == nil",
  "return nil, fmt.Errorf(\"unable to parse ip (%s) from %s header\", ipStr,",
  "return ip, nil"] : List String) := rfl

theorem skel_GetClientIP_ok : skel_GetClientIP = ([
  "if p != nil",
  "return p.GetRealClientIP(req.Header)",
  "return getRemoteIP(req)"] : List String) := rfl

theorem flags_bypass_ok : flags_bypass = ([
  "StringSlice api-route = []string{}",
  "Bool force-https = false",
  "String real-client-ip-header = \"X-Real-IP\"",
  "Bool reverse-proxy = false",
  "Bool skip-auth-preflight = false",
  "StringSlice skip-auth-regex = []string{}",
  "StringSlice skip-auth-route = []string{}",
  "Bool skip-auth-strip-headers = true",
  "StringSlice trusted-ip = []string{}"] : List String) := rfl

theorem optionTags_bypass_ok : optionTags_bypass = ([
  "api-route api_routes Options.APIRoutes []string",
  "force-https force_https Options.ForceHTTPS bool",
  "real-client-ip-header real_client_ip_header Options.RealClientIPHeader string",
  "reverse-proxy reverse_proxy Options.ReverseProxy bool",
  "skip-auth-preflight skip_auth_preflight Options.SkipAuthPreflight bool",
  "skip-auth-regex skip_auth_regex Options.SkipAuthRegex []string",
  "skip-auth-route skip_auth_routes Options.SkipAuthRoutes []string",
  "skip-auth-strip-headers skip_auth_strip_headers LegacyHeaders.SkipAuthStripHeaders bool",
  "trusted-ip trusted_ips Options.TrustedIPs []string"] : List String) := rfl

end O2P.Expect.C16
