import O2P.Gen.Facts
/-! Reviewed expectations about the source facts that the model parts used for C13 encode.
    Written by bin/mkexpect.py from reviewed facts; a change of /repo that alters one of these facts breaks the `rfl`. -/
namespace O2P.Expect.C13
open O2P.Facts

theorem skel_Manager_Save_ok : skel_Manager_Save = ([
  "if s.CreatedAt == nil || s.CreatedAt.IsZero()",
  "s.CreatedAtNow",
  "decodeTicketFromRequest",
  "if err != nil",
  "newTicket",
  "if err != nil",
  "return fmt.Errorf(\"error creating a session ticket: %v\", err)",
  "tckt.saveSession",
  "func{",
  "return m.Store.Save(req.Context(), key, val, exp)",
  "m.Store.Save",
  "if err != nil",
  "return err",
  "return tckt.setCookie(rw, req, s)",
  "tckt.setCookie"] : List String) := rfl

theorem skel_Manager_Load_ok : skel_Manager_Load = ([
  "decodeTicketFromRequest",
  "if err != nil",
  "return nil, err",
  "return tckt.loadSession( func(key string) ([]byte, error) { return",
  "tckt.loadSession",
  "func{",
  "return m.Store.Load(req.Context(), key)",
  "m.Store.Load"] : List String) := rfl

theorem skel_Manager_Clear_ok : skel_Manager_Clear = ([
  "decodeTicketFromRequest",
  "if err != nil",
  "tckt.clearCookie",
  "if err == http.ErrNoCookie",
  "return nil",
  "return fmt.Errorf(\"error decoding ticket to clear session: %v\", err",
  "tckt.clearCookie",
  "return tckt.clearSession(func(key string) error { return m.Store.Cl",
  "tckt.clearSession",
  "func{",
  "return m.Store.Clear(req.Context(), key)",
  "m.Store.Clear"] : List String) := rfl

theorem skel_storedSessionLoader_loadSession_ok : skel_storedSessionLoader_loadSession = ([
  "return http.HandlerFunc(func(rw http.ResponseWriter, req *http.Requ",
  "func{",
  "if scope.Session != nil",
  "next.ServeHTTP",
  "return",
  "s.getValidatedSession",
  "if err != nil && !errors.Is(err, http.ErrNoCookie)",
  "s.store.Clear",
  "if err != nil",
  "next.ServeHTTP"] : List String) := rfl

theorem skel_OAuthProxy_SignOut_ok : skel_OAuthProxy_SignOut = ([
  "p.appDirector.GetRedirect",
  "if err != nil",
  "p.ErrorPage",
  "return",
  "p.ClearSessionCookie",
  "if err != nil",
  "p.ErrorPage",
  "return",
  "p.backendLogout",
  "http.Redirect"] : List String) := rfl

theorem skel_NewReadynessCheck_ok : skel_NewReadynessCheck = ([
  "return func(next http.Handler) http.Handler { return readynessCheck",
  "func{",
  "return readynessCheck(path, verifiable, next)"] : List String) := rfl

theorem gcmDecrypt_guards_ok : gcmDecrypt_guards = (["err != nil", "len(ciphertext) < nonceSize", "err != nil"] : List String) := rfl

theorem cfbDecrypt_guards_ok : cfbDecrypt_guards = (["len(ciphertext) < aes.BlockSize"] : List String) := rfl

theorem skel_readynessCheck_ok : skel_readynessCheck = ([
  "return http.HandlerFunc(func(rw http.ResponseWriter, req *http.Requ",
  "func{",
  "if path != \"\" && req.URL.EscapedPath() == path",
  "if err != nil",
  "verifiable.VerifyConnection",
  "rw.WriteHeader",
  "fmt.Fprintf",
  "return",
  "rw.WriteHeader",
  "fmt.Fprintf",
  "return",
  "next.ServeHTTP"] : List String) := rfl

theorem skel_storedSessionLoader_refreshSessionIfNeeded_ok : skel_storedSessionLoader_refreshSessionIfNeeded = ([
  "if !needsRefresh(s.refreshPeriod, session)",
  "needsRefresh",
  "return nil",
  "defer",
  "for !lockObtained",
  "return errors.New(\"timeout obtaining session lock\")",
  "errors.New",
  "session.ObtainLock",
  "if err != nil && !errors.Is(err, sessionsapi.ErrLockNotObtained)",
  "return fmt.Errorf(\"error occurred while trying to obtain lock: %v\",",
  "if errors.Is(err, sessionsapi.ErrLockNotObtained)",
  "defer",
  "func{",
  "if session == nil",
  "return",
  "if err != nil",
  "session.ReleaseLock",
  "s.store.Load",
  "if err != nil",
  "return fmt.Errorf(\"could not load session: %v\", err)",
  "if freshSession == nil",
  "return errors.New(\"session no longer exists, it may have been remov",
  "errors.New",
  "if !needsRefresh(s.refreshPeriod, session)",
  "needsRefresh",
  "return nil",
  "if err != nil",
  "s.refreshSession",
  "return s.validateSession(req.Context(), session)",
  "s.validateSession"] : List String) := rfl

theorem skel_Lock_Obtain_ok : skel_Lock_Obtain = ([
  "l.locker.Obtain",
  "if errors.Is(err, redislock.ErrNotObtained)",
  "return sessions.ErrLockNotObtained",
  "if err != nil",
  "return err",
  "return nil"] : List String) := rfl

theorem skel_ticket_loadSession_ok : skel_ticket_loadSession = ([
  "if err != nil",
  "return nil, fmt.Errorf(\"failed to load the session state with the ticket",
  "if err != nil",
  "return nil, err",
  "sessions.DecodeSessionState",
  "if err != nil",
  "return nil, err",
  "return sessionState, nil"] : List String) := rfl

theorem skel_ticket_saveSession_ok : skel_ticket_saveSession = ([
  "if err != nil",
  "return err",
  "if err != nil",
  "return fmt.Errorf(\"failed to encode the session state with the tick",
  "return saver(t.id, ciphertext, t.options.Expire)"] : List String) := rfl

theorem skel_client_Get_ok : skel_client_Get = ([
  "return c.Client.Get(ctx, key).Bytes()",
  "c.Client.Get(ctx, key).Bytes",
  "c.Client.Get"] : List String) := rfl

theorem skel_client_Set_ok : skel_client_Set = ([
  "return c.Client.Set(ctx, key, value, expiration).Err()",
  "c.Client.Set(ctx, key, value, expiration).Err",
  "c.Client.Set"] : List String) := rfl

theorem skel_client_Del_ok : skel_client_Del = ([
  "return c.Client.Del(ctx, key).Err()",
  "c.Client.Del(ctx, key).Err",
  "c.Client.Del"] : List String) := rfl

theorem skel_client_Ping_ok : skel_client_Ping = ([
  "return c.Client.Ping(ctx).Err()",
  "c.Client.Ping(ctx).Err",
  "c.Client.Ping"] : List String) := rfl

theorem skel_clusterClient_Get_ok : skel_clusterClient_Get = ([
  "return c.ClusterClient.Get(ctx, key).Bytes()",
  "c.ClusterClient.Get(ctx, key).Bytes",
  "c.ClusterClient.Get"] : List String) := rfl

theorem skel_clusterClient_Set_ok : skel_clusterClient_Set = ([
  "return c.ClusterClient.Set(ctx, key, value, expiration).Err()",
  "c.ClusterClient.Set(ctx, key, value, expiration).Err",
  "c.ClusterClient.Set"] : List String) := rfl

theorem skel_clusterClient_Del_ok : skel_clusterClient_Del = ([
  "return c.ClusterClient.Del(ctx, key).Err()",
  "c.ClusterClient.Del(ctx, key).Err",
  "c.ClusterClient.Del"] : List String) := rfl

theorem skel_clusterClient_Ping_ok : skel_clusterClient_Ping = ([
  "return c.ClusterClient.Ping(ctx).Err()",
  "c.ClusterClient.Ping(ctx).Err",
  "c.ClusterClient.Ping"] : List String) := rfl

theorem flags_session_ok : flags_session = ([
  "String redis-ca-path = \"\"",
  "StringSlice redis-cluster-connection-urls = []string{}",
  "Int redis-connection-idle-timeout = 0",
  "String redis-connection-url = \"\"",
  "Bool redis-insecure-skip-tls-verify = false",
  "String redis-password = \"\"",
  "StringSlice redis-sentinel-connection-urls = []string{}",
  "String redis-sentinel-master-name = \"\"",
  "String redis-sentinel-password = \"\"",
  "Bool redis-use-cluster = false",
  "Bool redis-use-sentinel = false",
  "String redis-username = \"\"",
  "Bool session-cookie-minimal = false",
  "String session-store-type = \"cookie\""] : List String) := rfl

theorem optionTags_session_ok : optionTags_session = ([
  "redis-ca-path redis_ca_path RedisStoreOptions.CAPath string",
  "redis-cluster-connection-urls redis_cluster_connection_urls RedisStoreOptions.ClusterConnectionURLs []string",
  "redis-connection-idle-timeout redis_connection_idle_timeout RedisStoreOptions.IdleTimeout int",
  "redis-connection-url redis_connection_url RedisStoreOptions.ConnectionURL string",
  "redis-insecure-skip-tls-verify redis_insecure_skip_tls_verify RedisStoreOptions.InsecureSkipTLSVerify bool",
  "redis-password redis_password RedisStoreOptions.Password string",
  "redis-sentinel-connection-urls redis_sentinel_connection_urls RedisStoreOptions.SentinelConnectionURLs []string",
  "redis-sentinel-master-name redis_sentinel_master_name RedisStoreOptions.SentinelMasterName string",
  "redis-sentinel-password redis_sentinel_password RedisStoreOptions.SentinelPassword string",
  "redis-use-cluster redis_use_cluster RedisStoreOptions.UseCluster bool",
  "redis-use-sentinel redis_use_sentinel RedisStoreOptions.UseSentinel bool",
  "redis-username redis_username RedisStoreOptions.Username string",
  "session-cookie-minimal session_cookie_minimal CookieStoreOptions.Minimal bool",
  "session-store-type session_store_type SessionOptions.Type string"] : List String) := rfl

end O2P.Expect.C13
