import O2P.Gen.Facts
/-! Reviewed expectations about the source facts that the model parts used for C01 encode.
    Written by bin/mkexpect.py from reviewed facts; a change of /repo that alters one of these facts breaks the `rfl`. -/
namespace O2P.Expect.C01
open O2P.Facts

theorem routeTable_ok : routeTable = ([
  "buildServeMux: r.Use(p.preAuthChain.Then)",
  "buildServeMux: r.Path(robotsPath).HandlerFunc(p.pageWriter.WriteRobotsTxt)",
  "buildServeMux: r.Path(proxyPrefix + authOnlyPath).Handler(p.sessionChain.ThenFunc(p.AuthOnly))",
  "buildServeMux: p.buildProxySubrouter(r.PathPrefix(proxyPrefix).Subrouter())",
  "buildServeMux: r.PathPrefix(\"/\").Handler(p.sessionChain.ThenFunc(p.Proxy))",
  "buildProxySubrouter: s.Use(prepareNoCacheMiddleware)",
  "buildProxySubrouter: s.Path(signInPath).HandlerFunc(p.SignIn)",
  "buildProxySubrouter: s.Path(oauthStartPath).HandlerFunc(p.OAuthStart)",
  "buildProxySubrouter: s.Path(oauthCallbackPath).HandlerFunc(p.OAuthCallback)",
  "buildProxySubrouter: s.PathPrefix(staticPathPrefix).Handler(http.StripPrefix(p.ProxyPrefix, http.FileServer(http.FS(staticFiles))))",
  "buildProxySubrouter: s.Path(userInfoPath).Handler(p.sessionChain.ThenFunc(p.UserInfo))",
  "buildProxySubrouter: s.Path(signOutPath).Handler(p.sessionChain.ThenFunc(p.SignOut))"] : List String) := rfl

theorem skel_OAuthProxy_getAuthenticatedSession_ok : skel_OAuthProxy_getAuthenticatedSession = ([
  "if p.IsAllowedRequest(req)",
  "p.IsAllowedRequest",
  "return session, nil",
  "if session == nil",
  "return nil, ErrNeedsLogin",
  "p.Validator",
  "p.provider.Authorize",
  "if err != nil",
  "if invalidEmail || !authorized",
  "if invalidEmail",
  "p.ClearSessionCookie",
  "if err != nil",
  "return nil, ErrAccessDenied",
  "return session, nil"] : List String) := rfl

theorem skel_OAuthProxy_Proxy_ok : skel_OAuthProxy_Proxy = ([
  "p.getAuthenticatedSession",
  "case nil",
  "p.addHeadersForProxying",
  "p.headersChain.Then(p.upstreamProxy).ServeHTTP",
  "p.headersChain.Then",
  "case ErrNeedsLogin",
  "if p.forceJSONErrors || isAjax(req) || p.isAPIPath(req)",
  "p.errorJSON",
  "return",
  "if p.SkipProviderButton",
  "p.doOAuthStart",
  "p.SignInPage",
  "case ErrAccessDenied",
  "if p.forceJSONErrors",
  "p.errorJSON",
  "p.ErrorPage",
  "case ",
  "p.ErrorPage"] : List String) := rfl

theorem skel_OAuthProxy_AuthOnly_ok : skel_OAuthProxy_AuthOnly = ([
  "p.getAuthenticatedSession",
  "if err != nil",
  "return",
  "if !authOnlyAuthorize(req, session)",
  "authOnlyAuthorize",
  "return",
  "p.addHeadersForProxying",
  "p.headersChain.Then(http.HandlerFunc(func(rw http.ResponseWriter, _ *http.Request) { rw.WriteHeader(http.StatusAccepted) })).ServeHTTP",
  "p.headersChain.Then",
  "func{",
  "rw.WriteHeader"] : List String) := rfl

theorem skel_OAuthProxy_UserInfo_ok : skel_OAuthProxy_UserInfo = ([
  "p.getAuthenticatedSession",
  "if err != nil",
  "return",
  "rw.Header().Set",
  "rw.WriteHeader",
  "if session == nil",
  "if err != nil",
  "rw.Write",
  "p.ErrorPage",
  "return",
  "if err != nil",
  "json.NewEncoder(rw).Encode",
  "p.ErrorPage"] : List String) := rfl

theorem skel_OAuthProxy_IsAllowedRequest_ok : skel_OAuthProxy_IsAllowedRequest = ([
  "return isPreflightRequestAllowed || p.isAllowedRoute(req) || p.isTr",
  "p.isAllowedRoute",
  "p.isTrustedIP"] : List String) := rfl

theorem skel_storedSessionLoader_loadSession_ok : skel_storedSessionLoader_loadSession = ([
  "return http.HandlerFunc(func(rw http.ResponseWriter, req *http.Requ",
  "func{",
  "if scope.Session != nil",
  "next.ServeHTTP",
  "return",
  "s.getValidatedSession",
  "if err != nil && !errors.Is(err, http.ErrNoCookie)",
  "s.store.Clear",
  "if err != nil",
  "next.ServeHTTP"] : List String) := rfl

theorem skel_storedSessionLoader_getValidatedSession_ok : skel_storedSessionLoader_getValidatedSession = ([
  "s.store.Load",
  "if err != nil || session == nil",
  "return nil, err",
  "s.refreshSessionIfNeeded",
  "if err != nil",
  "return nil, fmt.Errorf(\"error refreshing access token for session (%s):",
  "return session, nil"] : List String) := rfl

theorem skel_SessionStore_Load_ok : skel_SessionStore_Load = ([
  "loadCookie",
  "if err != nil",
  "return nil, err",
  "encryption.Validate",
  "if !ok",
  "return nil, errors.New(\"cookie signature not valid\")",
  "errors.New",
  "sessions.DecodeSessionState",
  "if err != nil",
  "return nil, err",
  "return session, nil"] : List String) := rfl

theorem skel_Manager_Load_ok : skel_Manager_Load = ([
  "decodeTicketFromRequest",
  "if err != nil",
  "return nil, err",
  "return tckt.loadSession( func(key string) ([]byte, error) { return",
  "tckt.loadSession",
  "func{",
  "return m.Store.Load(req.Context(), key)",
  "m.Store.Load"] : List String) := rfl

theorem skel_storedSessionLoader_refreshSessionIfNeeded_ok : skel_storedSessionLoader_refreshSessionIfNeeded = ([
  "if !needsRefresh(s.refreshPeriod, session)",
  "needsRefresh",
  "return nil",
  "defer",
  "for !lockObtained",
  "return errors.New(\"timeout obtaining session lock\")",
  "errors.New",
  "session.ObtainLock",
  "if err != nil && !errors.Is(err, sessionsapi.ErrLockNotObtained)",
  "return fmt.Errorf(\"error occurred while trying to obtain lock: %v\",",
  "if errors.Is(err, sessionsapi.ErrLockNotObtained)",
  "defer",
  "func{",
  "if session == nil",
  "return",
  "if err != nil",
  "session.ReleaseLock",
  "s.store.Load",
  "if err != nil",
  "return fmt.Errorf(\"could not load session: %v\", err)",
  "if freshSession == nil",
  "return errors.New(\"session no longer exists, it may have been remov",
  "errors.New",
  "if !needsRefresh(s.refreshPeriod, session)",
  "needsRefresh",
  "return nil",
  "if err != nil",
  "s.refreshSession",
  "return s.validateSession(req.Context(), session)",
  "s.validateSession"] : List String) := rfl

theorem skel_OAuthProxy_OAuthCallback_ok : skel_OAuthProxy_OAuthCallback = ([
  "if err != nil",
  "p.ErrorPage",
  "return",
  "req.Form.Get",
  "if errorString != \"\"",
  "fmt.Sprintf",
  "p.ErrorPage",
  "return",
  "decodeState",
  "req.Form.Get",
  "if err != nil",
  "p.ErrorPage",
  "return",
  "cookies.GenerateCookieName",
  "cookies.LoadCSRFCookie",
  "if err != nil",
  "p.ErrorPage",
  "return",
  "p.redeemCode",
  "csrf.GetCodeVerifier",
  "if err != nil",
  "p.ErrorPage",
  "return",
  "p.enrichSessionState",
  "if err != nil",
  "p.ErrorPage",
  "return",
  "csrf.ClearCookie",
  "if !csrf.CheckOAuthState(nonce)",
  "csrf.CheckOAuthState",
  "p.ErrorPage",
  "return",
  "csrf.SetSessionNonce",
  "if !p.provider.ValidateSession(req.Context(), session)",
  "p.provider.ValidateSession",
  "p.ErrorPage",
  "return",
  "if !p.redirectValidator.IsValidRedirect(appRedirect)",
  "p.redirectValidator.IsValidRedirect",
  "p.provider.Authorize",
  "if err != nil",
  "if p.Validator(session.Email) && authorized",
  "p.Validator",
  "p.SaveSession",
  "if err != nil",
  "p.ErrorPage",
  "return",
  "http.Redirect",
  "p.ErrorPage"] : List String) := rfl

theorem skel_GetRequestPath_ok : skel_GetRequestPath = ([
  "if err == nil",
  "url.ParseRequestURI",
  "return parsedURL.Path",
  "if idx != -1",
  "strings.Index",
  "return uri[:idx]",
  "return uri"] : List String) := rfl

theorem skel_isAllowedPath_ok : skel_isAllowedPath = ([
  "route.pathRegex.MatchString",
  "if route.negate",
  "return !matches",
  "return matches"] : List String) := rfl

theorem skel_isAllowedMethod_ok : skel_isAllowedMethod = ([
  "return route.method == \"\" || req.Method == route.method"] : List String) := rfl

theorem skel_jwtSessionLoader_getJwtSession_ok : skel_jwtSessionLoader_getJwtSession = ([
  "req.Header.Get",
  "if auth == \"\"",
  "return nil, nil",
  "if err != nil",
  "return nil, err",
  "errors.New",
  "if err != nil",
  "return session, nil",
  "return nil, k8serrors.NewAggregate(errs)"] : List String) := rfl

theorem skel_jwtSessionLoader_findTokenFromHeader_ok : skel_jwtSessionLoader_findTokenFromHeader = ([
  "splitAuthHeader",
  "if err != nil",
  "return \"\", err",
  "if tokenType == \"Bearer\" && j.jwtRegex.MatchString(token)",
  "j.jwtRegex.MatchString",
  "return token, nil",
  "if tokenType == \"Basic\"",
  "return j.getBasicToken(token)",
  "return \"\", fmt.Errorf(\"no valid bearer token found in authorization hea"] : List String) := rfl

theorem skel_getBasicSession_ok : skel_getBasicSession = ([
  "req.Header.Get",
  "if auth == \"\"",
  "return nil, nil",
  "if err != nil",
  "return nil, err",
  "if validator.Validate(user, password)",
  "validator.Validate",
  "return &sessionsapi.SessionState{User: user, Groups: sessionGroups}, nil",
  "return nil, nil"] : List String) := rfl

theorem skel_decodeTicketFromRequest_ok : skel_decodeTicketFromRequest = ([
  "req.Cookie",
  "if err != nil",
  "return nil, err",
  "encryption.Validate",
  "if !ok",
  "return nil, fmt.Errorf(\"session ticket cookie failed validation: %v\", er",
  "return decodeTicket(string(val), cookieOpts)"] : List String) := rfl

theorem skel_ticket_loadSession_ok : skel_ticket_loadSession = ([
  "if err != nil",
  "return nil, fmt.Errorf(\"failed to load the session state with the ticket",
  "if err != nil",
  "return nil, err",
  "sessions.DecodeSessionState",
  "if err != nil",
  "return nil, err",
  "return sessionState, nil"] : List String) := rfl

theorem skel_WatchFileForUpdates_ok : skel_WatchFileForUpdates = ([
  "filepath.Clean",
  "fsnotify.NewWatcher",
  "if err != nil",
  "return fmt.Errorf(\"failed to create watcher for '%s': %s\", filename",
  "fmt.Errorf",
  "func{",
  "defer",
  "for",
  "return",
  "filterEvent",
  "logger.Errorf",
  "if err != nil",
  "watcher.Add",
  "return fmt.Errorf(\"failed to add '%s' to watcher: %v\", filename, er",
  "fmt.Errorf",
  "return nil"] : List String) := rfl

theorem skel_filterEvent_ok : skel_filterEvent = ([
  "filepath.Clean",
  "case event.Op&fsnotify.Remove != 0",
  "WaitForReplacement",
  "action",
  "case event.Op&(fsnotify.Create|fsnotify.Write) != 0",
  "action"] : List String) := rfl

theorem skel_WaitForReplacement_ok : skel_WaitForReplacement = ([
  "if op&fsnotify.Chmod != 0",
  "time.Sleep",
  "for",
  "if err == nil",
  "os.Stat",
  "if err == nil",
  "watcher.Add",
  "return",
  "time.Sleep"] : List String) := rfl

theorem skel_validateToken_ok : skel_validateToken = ([
  "if accessToken == \"\" || p.Data().ValidateURL == nil || p.Data().ValidateURL.String() == \"\"",
  "return false",
  "if len(header) == 0",
  "if hasQueryParams(endpoint)",
  "params.Encode",
  "params.Encode",
  "requests.New",
  "if result.Error() != nil",
  "result.Error",
  "logger.Errorf",
  "logger.Errorf",
  "result.Error",
  "return false",
  "if result.StatusCode() == 200",
  "return true",
  "logger.Errorf",
  "return false"] : List String) := rfl

theorem flags_bypass_ok : flags_bypass = ([
  "StringSlice api-route = []string{}",
  "Bool force-https = false",
  "String real-client-ip-header = \"X-Real-IP\"",
  "Bool reverse-proxy = false",
  "Bool skip-auth-preflight = false",
  "StringSlice skip-auth-regex = []string{}",
  "StringSlice skip-auth-route = []string{}",
  "Bool skip-auth-strip-headers = true",
  "StringSlice trusted-ip = []string{}"] : List String) := rfl

theorem flags_authz_ok : flags_authz = ([
  "StringSlice allowed-group = []string{}",
  "StringSlice allowed-role = []string{}",
  "String authenticated-emails-file = \"\"",
  "StringSlice email-domain = []string{}",
  "String htpasswd-file = \"\"",
  "StringSlice htpasswd-user-group = []string{}"] : List String) := rfl

end O2P.Expect.C01
