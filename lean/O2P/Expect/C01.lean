import O2P.Gen.Facts
/-! Reviewed expectations about the source facts that the model parts used for C01 encode.
    Written by bin/mkexpect.py from reviewed facts; a change of /repo that alters one of these facts breaks the `rfl`. -/
namespace O2P.Expect.C01
open O2P.Facts

theorem routeTable_ok : routeTable = ([
  "buildServeMux: r.Use(p.preAuthChain.Then)",
  "buildServeMux: r.Path(robotsPath).HandlerFunc(p.pageWriter.WriteRobotsTxt)",
  "buildServeMux: r.Path(proxyPrefix + authOnlyPath).Handler(p.sessionChain.ThenFunc(p.AuthOnly))",
  "buildServeMux: p.buildProxySubrouter(r.PathPrefix(proxyPrefix).Subrouter())",
  "buildServeMux: r.PathPrefix(\"/\").Handler(p.sessionChain.ThenFunc(p.Proxy))",
  "buildProxySubrouter: s.Use(prepareNoCacheMiddleware)",
  "buildProxySubrouter: s.Path(signInPath).HandlerFunc(p.SignIn)",
  "buildProxySubrouter: s.Path(oauthStartPath).HandlerFunc(p.OAuthStart)",
  "buildProxySubrouter: s.Path(oauthCallbackPath).HandlerFunc(p.OAuthCallback)",
  "buildProxySubrouter: s.PathPrefix(staticPathPrefix).Handler(http.StripPrefix(p.ProxyPrefix, http.FileServer(http.FS(staticFiles))))",
  "buildProxySubrouter: s.Path(userInfoPath).Handler(p.sessionChain.ThenFunc(p.UserInfo))",
  "buildProxySubrouter: s.Path(signOutPath).Handler(p.sessionChain.ThenFunc(p.SignOut))"] : List String) := rfl

theorem skel_OAuthProxy_getAuthenticatedSession_ok : skel_OAuthProxy_getAuthenticatedSession = ([
  "if p.IsAllowedRequest(req)",
  "p.IsAllowedRequest",
  "return session, nil",
  "if session == nil",
  "return nil, ErrNeedsLogin",
  "p.Validator",
  "p.provider.Authorize",
  "if err != nil",
  "if invalidEmail || !authorized",
  "if invalidEmail",
  "p.ClearSessionCookie",
  "if err != nil",
  "return nil, ErrAccessDenied",
  "return session, nil"] : List String) := rfl

theorem skel_OAuthProxy_Proxy_ok : skel_OAuthProxy_Proxy = ([
  "p.getAuthenticatedSession",
  "case nil",
  "p.addHeadersForProxying",
  "p.headersChain.Then(p.upstreamProxy).ServeHTTP",
  "p.headersChain.Then",
  "case ErrNeedsLogin",
  "if p.forceJSONErrors || isAjax(req) || p.isAPIPath(req)",
  "p.errorJSON",
  "return",
  "if p.SkipProviderButton",
  "p.doOAuthStart",
  "p.SignInPage",
  "case ErrAccessDenied",
  "if p.forceJSONErrors",
  "p.errorJSON",
  "p.ErrorPage",
  "case ",
  "p.ErrorPage"] : List String) := rfl

theorem skel_OAuthProxy_AuthOnly_ok : skel_OAuthProxy_AuthOnly = ([
  "p.getAuthenticatedSession",
  "if err != nil",
  "return",
  "if !authOnlyAuthorize(req, session)",
  "authOnlyAuthorize",
  "return",
  "p.addHeadersForProxying",
  "p.headersChain.Then(http.HandlerFunc(func(rw http.ResponseWriter, _ *http.Request) { rw.WriteHeader(http.StatusAccepted) })).ServeHTTP",
  "p.headersChain.Then",
  "func{",
  "rw.WriteHeader"] : List String) := rfl

theorem skel_OAuthProxy_UserInfo_ok : skel_OAuthProxy_UserInfo = ([
  "p.getAuthenticatedSession",
  "if err != nil",
  "return",
  "rw.WriteHeader",
  "if session == nil",
  "if err != nil",
  "rw.Write",
  "p.ErrorPage",
  "return",
  "if err != nil",
  "json.NewEncoder(rw).Encode",
  "p.ErrorPage"] : List String) := rfl

theorem skel_OAuthProxy_IsAllowedRequest_ok : skel_OAuthProxy_IsAllowedRequest = ([
  "return isPreflightRequestAllowed || p.isAllowedRoute(req) || p.isTr",
  "p.isAllowedRoute",
  "p.isTrustedIP"] : List String) := rfl

theorem skel_storedSessionLoader_loadSession_ok : skel_storedSessionLoader_loadSession = ([
  "return http.HandlerFunc(func(rw http.ResponseWriter, req *http.Requ",
  "func{",
  "if scope.Session != nil",
  "next.ServeHTTP",
  "return",
  "s.getValidatedSession",
  "if err != nil && !errors.Is(err, http.ErrNoCookie)",
  "s.store.Clear",
  "if err != nil",
  "next.ServeHTTP"] : List String) := rfl

theorem skel_storedSessionLoader_getValidatedSession_ok : skel_storedSessionLoader_getValidatedSession = ([
  "s.store.Load",
  "if err != nil || session == nil",
  "return nil, err",
  "s.refreshSessionIfNeeded",
  "if err != nil",
  "return nil, fmt.Errorf(\"error refreshing access token for session (%s):",
  "return session, nil"] : List String) := rfl

theorem skel_SessionStore_Load_ok : skel_SessionStore_Load = ([
  "loadCookie",
  "if err != nil",
  "return nil, err",
  "encryption.Validate",
  "if !ok",
  "return nil, errors.New(\"cookie signature not valid\")",
  "sessions.DecodeSessionState",
  "if err != nil",
  "return nil, err",
  "return session, nil"] : List String) := rfl

theorem skel_Manager_Load_ok : skel_Manager_Load = ([
  "decodeTicketFromRequest",
  "if err != nil",
  "return nil, err",
  "return tckt.loadSession( func(key string) ([]byte, error) { return",
  "tckt.loadSession",
  "func{",
  "return m.Store.Load(req.Context(), key)",
  "m.Store.Load"] : List String) := rfl

end O2P.Expect.C01
