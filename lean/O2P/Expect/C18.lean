import O2P.Gen.Facts
/-! Reviewed expectations about the source facts that the model parts used for C18 encode.
    Written by bin/mkexpect.py from reviewed facts; a change of /repo that alters one of these facts breaks the `rfl`. -/
namespace O2P.Expect.C18
open O2P.Facts

theorem cookieLiteralSites_ok : cookieLiteralSites = ([
  "pkg/cookies/cookies.go:MakeCookieFromOptions",
  "pkg/sessions/cookie/session_store.go:copyCookie",
  "pkg/validation/cookie.go:validateCookieName"] : List String) := rfl

theorem setCookieSites_ok : setCookieSites = ([
  "pkg/cookies/csrf.go:csrf.ClearCookie:MakeCookieFromOptions",
  "pkg/cookies/csrf.go:csrf.SetCookie:cookie",
  "pkg/sessions/cookie/session_store.go:SessionStore.clearCookiesExcept:clearCookie",
  "pkg/sessions/cookie/session_store.go:SessionStore.setSessionCookie:c",
  "pkg/sessions/persistence/ticket.go:ticket.clearCookie:cookies.MakeCookieFromOptions",
  "pkg/sessions/persistence/ticket.go:ticket.setCookie:ticketCookie"] : List String) := rfl

theorem skel_MakeCookieFromOptions_ok : skel_MakeCookieFromOptions = ([
  "if domain == \"\" && len(opts.Domains) > 0",
  "if expiration > time.Duration(0)",
  "if expiration < time.Duration(0)",
  "return c"] : List String) := rfl

theorem skel_GetCookieDomain_ok : skel_GetCookieDomain = ([
  "if err == nil",
  "net.SplitHostPort",
  "if strings.HasSuffix(host, domain)",
  "strings.HasSuffix",
  "return domain",
  "return \"\""] : List String) := rfl

end O2P.Expect.C18
