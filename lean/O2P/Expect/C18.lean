import O2P.Gen.Facts
/-! Reviewed expectations about the source facts that the model parts used for C18 encode.
    Written by bin/mkexpect.py from reviewed facts; a change of /repo that alters one of these facts breaks the `rfl`. -/
namespace O2P.Expect.C18
open O2P.Facts

theorem cookieLiteralSites_ok : cookieLiteralSites = ([
  "pkg/cookies/cookies.go:MakeCookieFromOptions",
  "pkg/sessions/cookie/session_store.go:copyCookie",
  "pkg/validation/cookie.go:validateCookieName"] : List String) := rfl

theorem setCookieSites_ok : setCookieSites = ([
  "pkg/cookies/csrf.go:csrf.ClearCookie:MakeCookieFromOptions",
  "pkg/cookies/csrf.go:csrf.SetCookie:cookie",
  "pkg/sessions/cookie/session_store.go:SessionStore.clearCookiesExcept:clearCookie",
  "pkg/sessions/cookie/session_store.go:SessionStore.setSessionCookie:c",
  "pkg/sessions/persistence/ticket.go:ticket.clearCookie:cookies.MakeCookieFromOptions",
  "pkg/sessions/persistence/ticket.go:ticket.setCookie:ticketCookie"] : List String) := rfl

end O2P.Expect.C18
