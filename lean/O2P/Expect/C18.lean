import O2P.Gen.Facts
/-! Reviewed expectations about the source facts that the model parts used for C18 encode.
    Written by bin/mkexpect.py from reviewed facts; a change of /repo that alters one of these facts breaks the `rfl`. -/
namespace O2P.Expect.C18
open O2P.Facts

theorem cookieLiteralSites_ok : cookieLiteralSites = ([
  "pkg/cookies/cookies.go:MakeCookieFromOptions",
  "pkg/sessions/cookie/session_store.go:copyCookie",
  "pkg/validation/cookie.go:validateCookieName"] : List String) := rfl

theorem setCookieSites_ok : setCookieSites = ([
  "pkg/cookies/csrf.go:csrf.ClearCookie:MakeCookieFromOptions",
  "pkg/cookies/csrf.go:csrf.SetCookie:cookie",
  "pkg/sessions/cookie/session_store.go:SessionStore.clearCookiesExcept:clearCookie",
  "pkg/sessions/cookie/session_store.go:SessionStore.setSessionCookie:c",
  "pkg/sessions/persistence/ticket.go:ticket.clearCookie:cookies.MakeCookieFromOptions",
  "pkg/sessions/persistence/ticket.go:ticket.setCookie:ticketCookie"] : List String) := rfl

theorem skel_MakeCookieFromOptions_ok : skel_MakeCookieFromOptions = ([
  "if domain == \"\" && len(opts.Domains) > 0",
  "strings.Join",
  "if expiration > time.Duration(0)",
  "if expiration < time.Duration(0)",
  "return c"] : List String) := rfl

theorem skel_GetCookieDomain_ok : skel_GetCookieDomain = ([
  "if err == nil",
  "net.SplitHostPort",
  "if strings.HasSuffix(host, domain)",
  "strings.HasSuffix",
  "return domain",
  "return \"\""] : List String) := rfl

theorem skel_csrf_SetCookie_ok : skel_csrf_SetCookie = ([
  "if err != nil",
  "return nil, err",
  "MakeCookieFromOptions",
  "http.SetCookie",
  "return cookie, nil"] : List String) := rfl

theorem skel_csrf_ClearCookie_ok : skel_csrf_ClearCookie = ([
  "http.SetCookie",
  "MakeCookieFromOptions"] : List String) := rfl

theorem skel_SessionStore_makeSessionCookie_ok : skel_SessionStore_makeSessionCookie = ([
  "if strValue != \"\"",
  "encryption.SignedValue",
  "if err != nil",
  "return nil, err",
  "s.makeCookie",
  "if len(c.String()) > maxCookieLength",
  "return splitCookie(c), nil",
  "splitCookie",
  "return []*http.Cookie{c}, nil"] : List String) := rfl

end O2P.Expect.C18
