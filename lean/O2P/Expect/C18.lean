import O2P.Gen.Facts
/-! Reviewed expectations about the source facts that the model parts used for C18 encode.
    Written by bin/mkexpect.py from reviewed facts; a change of /repo that alters one of these facts breaks the `rfl`. -/
namespace O2P.Expect.C18
open O2P.Facts

theorem cookieLiteralSites_ok : cookieLiteralSites = ([
  "pkg/cookies/cookies.go:MakeCookieFromOptions",
  "pkg/sessions/cookie/session_store.go:copyCookie",
  "pkg/validation/cookie.go:validateCookieName"] : List String) := rfl

theorem setCookieSites_ok : setCookieSites = ([
  "pkg/cookies/csrf.go:csrf.ClearCookie:MakeCookieFromOptions",
  "pkg/cookies/csrf.go:csrf.SetCookie:cookie",
  "pkg/sessions/cookie/session_store.go:SessionStore.clearCookiesExcept:clearCookie",
  "pkg/sessions/cookie/session_store.go:SessionStore.setSessionCookie:c",
  "pkg/sessions/persistence/ticket.go:ticket.clearCookie:cookies.MakeCookieFromOptions",
  "pkg/sessions/persistence/ticket.go:ticket.setCookie:ticketCookie"] : List String) := rfl

theorem skel_MakeCookieFromOptions_ok : skel_MakeCookieFromOptions = ([
  "if domain == \"\" && len(opts.Domains) > 0",
  "strings.Join",
  "if expiration > time.Duration(0)",
  "if expiration < time.Duration(0)",
  "return c"] : List String) := rfl

theorem skel_GetCookieDomain_ok : skel_GetCookieDomain = ([
  "if err == nil",
  "net.SplitHostPort",
  "if strings.HasSuffix(host, domain)",
  "strings.HasSuffix",
  "return domain",
  "return \"\""] : List String) := rfl

theorem skel_csrf_SetCookie_ok : skel_csrf_SetCookie = ([
  "if err != nil",
  "return nil, err",
  "MakeCookieFromOptions",
  "http.SetCookie",
  "return cookie, nil"] : List String) := rfl

theorem skel_csrf_ClearCookie_ok : skel_csrf_ClearCookie = ([
  "http.SetCookie",
  "MakeCookieFromOptions"] : List String) := rfl

theorem skel_SessionStore_makeSessionCookie_ok : skel_SessionStore_makeSessionCookie = ([
  "if strValue != \"\"",
  "encryption.SignedValue",
  "if err != nil",
  "return nil, err",
  "s.makeCookie",
  "if len(c.String()) > maxCookieLength",
  "return splitCookie(c), nil",
  "splitCookie",
  "return []*http.Cookie{c}, nil"] : List String) := rfl

theorem flags_cookie_ok : flags_cookie = ([
  "Duration cookie-csrf-expire = time.Duration(15) * time.Minute",
  "Bool cookie-csrf-per-request = false",
  "StringSlice cookie-domain = []string{}",
  "Duration cookie-expire = time.Duration(168) * time.Hour",
  "Bool cookie-httponly = true",
  "String cookie-name = \"_oauth2_proxy\"",
  "String cookie-path = \"/\"",
  "Duration cookie-refresh = time.Duration(0)",
  "String cookie-samesite = \"\"",
  "String cookie-secret = \"\"",
  "Bool cookie-secure = true"] : List String) := rfl

theorem optionTags_cookie_ok : optionTags_cookie = ([
  "cookie-csrf-expire cookie_csrf_expire Cookie.CSRFExpire time.Duration",
  "cookie-csrf-per-request cookie_csrf_per_request Cookie.CSRFPerRequest bool",
  "cookie-domain cookie_domains Cookie.Domains []string",
  "cookie-expire cookie_expire Cookie.Expire time.Duration",
  "cookie-httponly cookie_httponly Cookie.HTTPOnly bool",
  "cookie-name cookie_name Cookie.Name string",
  "cookie-path cookie_path Cookie.Path string",
  "cookie-refresh cookie_refresh Cookie.Refresh time.Duration",
  "cookie-samesite cookie_samesite Cookie.SameSite string",
  "cookie-secret cookie_secret Cookie.Secret string",
  "cookie-secure cookie_secure Cookie.Secure bool"] : List String) := rfl

theorem cfgText_cookieDefaults_ok : cfgText_cookieDefaults = ([
  "func cookieDefaults {",
  "{ return Cookie{ Name: \"_oauth2_proxy\", Secret: \"\", Domains: nil, Path: \"/\", Expire: time.Duration(168) * time.Hour, Refresh: time.Duration(0), Secure: true, HTTPOnly: true, SameSite: \"\", CSRFPerRequest: false, CSRFExpire: time.Duration(15) * time.Minute, } }",
  "func sessionOptionsDefaults {",
  "{ return SessionOptions{ Type: CookieSessionStoreType, Cookie: CookieStoreOptions{ Minimal: false, }, } }"] : List String) := rfl

theorem cfgText_loader_ok : cfgText_loader = ([
  "func loadConfiguration {",
  "{ if alphaConfig != \"\" { logger.Printf(\"WARNING: You are using alpha configuration. The structure in this configuration file may change without notice. You MUST remove conflicting options from your existing configuration.\") return loadAlphaOptions(config, alphaConfig, extraFlags, args) } return loadLegacyOptions(config, extraFlags, args) }",
  "func loadLegacyOptions {",
  "{ optionsFlagSet := options.NewLegacyFlagSet() optionsFlagSet.AddFlagSet(extraFlags) if err := optionsFlagSet.Parse(args); err != nil { return nil, fmt.Errorf(\"failed to parse flags: %v\", err) } legacyOpts := options.NewLegacyOptions() if err := options.Load(config, optionsFlagSet, legacyOpts); err != nil { return nil, fmt.Errorf(\"failed to load config: %v\", err) } opts, err := legacyOpts.ToOptions() if err != nil { return nil, fmt.Errorf(\"failed to convert config: %v\", err) } return opts, nil }",
  "func loadAlphaOptions {",
  "{ opts, err := loadOptions(config, extraFlags, args) if err != nil { return nil, fmt.Errorf(\"failed to load core options: %v\", err) } alphaOpts := &options.AlphaOptions{} if err := options.LoadYAML(alphaConfig, alphaOpts); err != nil { return nil, fmt.Errorf(\"failed to load alpha options: %v\", err) } alphaOpts.MergeInto(opts) return opts, nil }",
  "func loadOptions {",
  "{ optionsFlagSet := options.NewFlagSet() optionsFlagSet.AddFlagSet(extraFlags) if err := optionsFlagSet.Parse(args); err != nil { return nil, fmt.Errorf(\"failed to parse flags: %v\", err) } opts := options.NewOptions() if err := options.Load(config, optionsFlagSet, opts); err != nil { return nil, fmt.Errorf(\"failed to load config: %v\", err) } return opts, nil }",
  "func Load {",
  "{ v := viper.New() v.SetConfigFile(configFileName) v.SetConfigType(\"toml\") v.SetEnvPrefix(\"OAUTH2_PROXY\") v.AutomaticEnv() v.SetTypeByDefaultValue(true) if configFileName != \"\" { err := v.ReadInConfig() if err != nil { return fmt.Errorf(\"unable to load config file: %w\", err) } } err := registerFlags(v, \"\", flagSet, into) if err != nil { return fmt.Errorf(\"unable to register flags: %w\", err) } err = v.UnmarshalExact(into, decodeFromCfgTag) if err != nil { return fmt.Errorf(\"error unmarshalling config: %w\", err) } return nil }",
  "func registerFlags {",
  "{ val := reflect.ValueOf(options) var typ reflect.Type if val.Kind() == reflect.Ptr { typ = val.Elem().Type() } else { typ = val.Type() } for i := 0; i < typ.NumField(); i++ { field := typ.Field(i) fieldV := reflect.Indirect(val).Field(i) fieldName := strings.Join([]string{prefix, field.Name}, \".\") cfgName := field.Tag.Get(\"cfg\") if cfgName == \",internal\" { continue } if isUnexported(field.Name) { continue } if field.Type.Kind() == reflect.Struct { if cfgName != \",squash\" { return fmt.Errorf(\"field %q does not have required cfg tag: `,squash`\", fieldName) } err := registerFlags(v, fieldName, flagSet, fieldV.Interface()) if err != nil { return err } continue } flagName := field.Tag.Get(\"flag\") if flagName == \"\" || cfgName == \"\" { return fmt.Errorf(\"field %q does not have required tags (cfg, flag)\", fieldName) } if flagSet == nil { return fmt.Errorf(\"flagset cannot be nil\") } f := flagSet.Lookup(flagName) if f == nil { return fmt.Errorf(\"field %q does not have a registered flag\", flagName) } err := v.BindPFlag(cfgName, f) if err != nil { return fmt.Errorf(\"error binding flag for field %q: %w\", fieldName, err) } } return nil }",
  "func LoadYAML {",
  "{ buffer, err := loadAndParseYaml(configFileName) if err != nil { return err } if err := yaml.UnmarshalStrict(buffer, into, yaml.DisallowUnknownFields); err != nil { return fmt.Errorf(\"error unmarshalling config: %w\", err) } return nil }",
  "func loadAndParseYaml {",
  "{ if configFileName == \"\" { return nil, errors.New(\"no configuration file provided\") } unparsedBuffer, err := os.ReadFile(configFileName) if err != nil { return nil, fmt.Errorf(\"unable to load config file: %w\", err) } buffer, err := envsubst.Bytes(unparsedBuffer) if err != nil { return nil, fmt.Errorf(\"error in substituting env variables : %w\", err) } return buffer, nil }",
  "func AlphaOptions.MergeInto {",
  "{ opts.UpstreamServers = a.UpstreamConfig opts.InjectRequestHeaders = a.InjectRequestHeaders opts.InjectResponseHeaders = a.InjectResponseHeaders opts.Server = a.Server opts.MetricsServer = a.MetricsServer opts.Providers = a.Providers }",
  "func LegacyOptions.ToOptions {",
  "{ upstreams, err := l.LegacyUpstreams.convert() if err != nil { return nil, fmt.Errorf(\"error converting upstreams: %v\", err) } l.Options.UpstreamServers = upstreams l.Options.InjectRequestHeaders, l.Options.InjectResponseHeaders = l.LegacyHeaders.convert() l.Options.Server, l.Options.MetricsServer = l.LegacyServer.convert() l.Options.LegacyPreferEmailToUser = l.LegacyHeaders.PreferEmailToUser providers, err := l.LegacyProvider.convert() if err != nil { return nil, fmt.Errorf(\"error converting provider: %v\", err) } l.Options.Providers = providers return &l.Options, nil }",
  "func NewLegacyOptions {",
  "{ return &LegacyOptions{ LegacyUpstreams: LegacyUpstreams{ PassHostHeader: true, ProxyWebSockets: true, FlushInterval: DefaultUpstreamFlushInterval, Timeout: DefaultUpstreamTimeout, }, LegacyHeaders: LegacyHeaders{ PassBasicAuth: true, PassUserHeaders: true, SkipAuthStripHeaders: true, }, LegacyServer: LegacyServer{ HTTPAddress: \"127.0.0.1:4180\", HTTPSAddress: \":443\", }, LegacyProvider: LegacyProvider{ ProviderType: \"google\", AzureTenant: \"common\", ApprovalPrompt: \"force\", UserIDClaim: \"email\", OIDCEmailClaim: \"email\", OIDCGroupsClaim: \"groups\", OIDCAudienceClaims: []string{\"aud\"}, OIDCExtraAudiences: []string{}, InsecureOIDCSkipNonce: true, }, Options: *NewOptions(), } }",
  "func NewOptions {",
  "{ return &Options{ ProxyPrefix: \"/oauth2\", Providers: providerDefaults(), PingPath: \"/ping\", ReadyPath: \"/ready\", RealClientIPHeader: \"X-Real-IP\", ForceHTTPS: false, Cookie: cookieDefaults(), Session: sessionOptionsDefaults(), Templates: templatesDefaults(), SkipAuthPreflight: false, Logging: loggingDefaults(), } }"] : List String) := rfl

end O2P.Expect.C18
