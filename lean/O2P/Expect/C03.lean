import O2P.Gen.Facts
/-! Reviewed expectations about the source facts that the model parts used for C03 encode.
    Written by bin/mkexpect.py from reviewed facts; a change of /repo that alters one of these facts breaks the `rfl`. -/
namespace O2P.Expect.C03
open O2P.Facts

theorem skel_OAuthProxy_OAuthCallback_ok : skel_OAuthProxy_OAuthCallback = ([
  "if err != nil",
  "p.ErrorPage",
  "return",
  "req.Form.Get",
  "if errorString != \"\"",
  "fmt.Sprintf",
  "p.ErrorPage",
  "return",
  "decodeState",
  "req.Form.Get",
  "if err != nil",
  "p.ErrorPage",
  "return",
  "cookies.GenerateCookieName",
  "cookies.LoadCSRFCookie",
  "if err != nil",
  "p.ErrorPage",
  "return",
  "p.redeemCode",
  "csrf.GetCodeVerifier",
  "if err != nil",
  "p.ErrorPage",
  "return",
  "p.enrichSessionState",
  "if err != nil",
  "p.ErrorPage",
  "return",
  "csrf.ClearCookie",
  "if !csrf.CheckOAuthState(nonce)",
  "csrf.CheckOAuthState",
  "p.ErrorPage",
  "return",
  "csrf.SetSessionNonce",
  "if !p.provider.ValidateSession(req.Context(), session)",
  "p.provider.ValidateSession",
  "p.ErrorPage",
  "return",
  "if !p.redirectValidator.IsValidRedirect(appRedirect)",
  "p.redirectValidator.IsValidRedirect",
  "p.provider.Authorize",
  "if err != nil",
  "if p.Validator(session.Email) && authorized",
  "p.Validator",
  "p.SaveSession",
  "if err != nil",
  "p.ErrorPage",
  "return",
  "http.Redirect",
  "p.ErrorPage"] : List String) := rfl

theorem skel_OAuthProxy_doOAuthStart_ok : skel_OAuthProxy_doOAuthStart = ([
  "if p.provider.Data().CodeChallengeMethod != \"\"",
  "encryption.GenerateCodeVerifierString",
  "if err != nil",
  "p.ErrorPage",
  "return",
  "encryption.GenerateCodeChallenge",
  "if err != nil",
  "p.ErrorPage",
  "return",
  "extraParams.Add",
  "extraParams.Add",
  "cookies.NewCSRF",
  "if err != nil",
  "p.ErrorPage",
  "return",
  "p.appDirector.GetRedirect",
  "if err != nil",
  "p.ErrorPage",
  "return",
  "p.getOAuthRedirectURI",
  "p.provider.GetLoginURL",
  "encodeState",
  "csrf.HashOAuthState",
  "csrf.HashOIDCNonce",
  "if err != nil",
  "csrf.SetCookie",
  "p.ErrorPage",
  "return",
  "http.Redirect"] : List String) := rfl

theorem newCSRF_nonceArgs_ok : newCSRF_nonceArgs = (["32", "32"] : List String) := rfl

theorem csrfStateLength_ok : csrfStateLength = (9 : Int) := rfl

theorem skel_LoadCSRFCookie_ok : skel_LoadCSRFCookie = ([
  "req.Cookies",
  "if cookie.Name != cookieName",
  "if err != nil",
  "return csrf, nil",
  "return nil, fmt.Errorf(\"CSRF cookie with name '%v' was not found\", cooki"] : List String) := rfl

theorem skel_decodeCSRFCookie_ok : skel_decodeCSRFCookie = ([
  "encryption.Validate",
  "if !ok",
  "return nil, errors.New(\"CSRF cookie failed validation\")",
  "errors.New",
  "decrypt",
  "if err != nil",
  "return nil, err",
  "msgpack.Unmarshal",
  "if err != nil",
  "return nil, fmt.Errorf(\"error unmarshalling data to CSRF: %v\", err)",
  "return csrf, nil"] : List String) := rfl

theorem skel_csrf_cookieName_ok : skel_csrf_cookieName = ([
  "if c.cookieOpts.CSRFPerRequest",
  "return csrfCookieName(c.cookieOpts, stateSubstring)"] : List String) := rfl

theorem skel_ExtractStateSubstring_ok : skel_ExtractStateSubstring = ([
  "if lastChar <= len(state)",
  "return stateSubstring"] : List String) := rfl

theorem skel_csrf_ClearCookie_ok : skel_csrf_ClearCookie = ([
  "http.SetCookie",
  "MakeCookieFromOptions"] : List String) := rfl

theorem skel_csrf_SetCookie_ok : skel_csrf_SetCookie = ([
  "if err != nil",
  "return nil, err",
  "MakeCookieFromOptions",
  "http.SetCookie",
  "return cookie, nil"] : List String) := rfl

theorem skel_CheckNonce_ok : skel_CheckNonce = ([
  "return hmac.Equal([]byte(HashNonce(nonce)), []byte(hashed))",
  "hmac.Equal"] : List String) := rfl

theorem skel_HashNonce_ok : skel_HashNonce = ([
  "if nonce == nil",
  "return \"\"",
  "sha256.New",
  "hasher.Write",
  "hasher.Sum",
  "return base64.RawURLEncoding.EncodeToString(sum)",
  "base64.RawURLEncoding.EncodeToString"] : List String) := rfl

theorem skel_NewCSRF_ok : skel_NewCSRF = ([
  "encryption.Nonce",
  "if err != nil",
  "return nil, err",
  "encryption.Nonce",
  "if err != nil",
  "return nil, err",
  "return &csrf{ OAuthState: state, OIDCNonce: nonce, CodeVerifier: co, nil"] : List String) := rfl

theorem skel_decodeState_ok : skel_decodeState = ([
  "if encode",
  "base64.RawURLEncoding.DecodeString",
  "if len(parsedState) != 2",
  "return \"\", \"\", errors.New(\"invalid length\")",
  "errors.New",
  "return parsedState[0], parsedState[1], nil"] : List String) := rfl

theorem skel_encodeState_ok : skel_encodeState = ([
  "fmt.Sprintf",
  "if encode",
  "return base64.RawURLEncoding.EncodeToString([]byte(rawString))",
  "base64.RawURLEncoding.EncodeToString",
  "return rawString"] : List String) := rfl

theorem skel_ProviderData_LoginURLParams_ok : skel_ProviderData_LoginURLParams = ([
  "if len(overrides) > 0",
  "if ok",
  "if re.MatchString(val)",
  "re.MatchString",
  "if len(actualValues) > 0",
  "params.Del",
  "return params"] : List String) := rfl

theorem flags_cookie_ok : flags_cookie = ([
  "Duration cookie-csrf-expire = time.Duration(15) * time.Minute",
  "Bool cookie-csrf-per-request = false",
  "StringSlice cookie-domain = []string{}",
  "Duration cookie-expire = time.Duration(168) * time.Hour",
  "Bool cookie-httponly = true",
  "String cookie-name = \"_oauth2_proxy\"",
  "String cookie-path = \"/\"",
  "Duration cookie-refresh = time.Duration(0)",
  "String cookie-samesite = \"\"",
  "String cookie-secret = \"\"",
  "Bool cookie-secure = true"] : List String) := rfl

end O2P.Expect.C03
