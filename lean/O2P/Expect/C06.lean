import O2P.Gen.Facts
/-! Reviewed expectations about the source facts that the model parts used for C06 encode.
    Written by bin/mkexpect.py from reviewed facts; a change of /repo that alters one of these facts breaks the `rfl`. -/
namespace O2P.Expect.C06
open O2P.Facts

theorem invalidRedirectRegex_ok : invalidRedirectRegex = ("[/\\\\](?:[\\s\\v]*|\\.{1,2})[/\\\\]" : String) := rfl

theorem skel_OAuthProxy_SignOut_ok : skel_OAuthProxy_SignOut = ([
  "p.appDirector.GetRedirect",
  "if err != nil",
  "p.ErrorPage",
  "return",
  "p.ClearSessionCookie",
  "if err != nil",
  "p.ErrorPage",
  "return",
  "p.backendLogout",
  "http.Redirect"] : List String) := rfl

theorem skel_OAuthProxy_SignIn_ok : skel_OAuthProxy_SignIn = ([
  "p.appDirector.GetRedirect",
  "if err != nil",
  "p.ErrorPage",
  "return",
  "p.ManualSignIn",
  "if ok",
  "p.SaveSession",
  "if err != nil",
  "p.ErrorPage",
  "return",
  "http.Redirect",
  "if p.SkipProviderButton",
  "p.OAuthStart",
  "p.SignInPage"] : List String) := rfl

theorem skel_OAuthProxy_OAuthCallback_ok : skel_OAuthProxy_OAuthCallback = ([
  "if err != nil",
  "p.ErrorPage",
  "return",
  "req.Form.Get",
  "if errorString != \"\"",
  "fmt.Sprintf",
  "p.ErrorPage",
  "return",
  "decodeState",
  "req.Form.Get",
  "if err != nil",
  "p.ErrorPage",
  "return",
  "cookies.GenerateCookieName",
  "cookies.LoadCSRFCookie",
  "if err != nil",
  "p.ErrorPage",
  "return",
  "p.redeemCode",
  "csrf.GetCodeVerifier",
  "if err != nil",
  "p.ErrorPage",
  "return",
  "p.enrichSessionState",
  "if err != nil",
  "p.ErrorPage",
  "return",
  "csrf.ClearCookie",
  "if !csrf.CheckOAuthState(nonce)",
  "csrf.CheckOAuthState",
  "p.ErrorPage",
  "return",
  "csrf.SetSessionNonce",
  "if !p.provider.ValidateSession(req.Context(), session)",
  "p.provider.ValidateSession",
  "p.ErrorPage",
  "return",
  "if !p.redirectValidator.IsValidRedirect(appRedirect)",
  "p.redirectValidator.IsValidRedirect",
  "p.provider.Authorize",
  "if err != nil",
  "if p.Validator(session.Email) && authorized",
  "p.Validator",
  "p.SaveSession",
  "if err != nil",
  "p.ErrorPage",
  "return",
  "http.Redirect",
  "p.ErrorPage"] : List String) := rfl

theorem skel_validator_IsValidRedirect_ok : skel_validator_IsValidRedirect = ([
  "case redirect == \"\"",
  "return false",
  "case strings.HasPrefix(redirect, \"/\") && !strings.HasPrefix(redirect, \"//\") && !invalidRedirectRegex.MatchString(redirect)",
  "strings.HasPrefix",
  "strings.HasPrefix",
  "invalidRedirectRegex.MatchString",
  "return true",
  "case strings.HasPrefix(redirect, \"http://\") || strings.HasPrefix(redirect, \"https://\")",
  "strings.HasPrefix",
  "strings.HasPrefix",
  "url.Parse",
  "if err != nil",
  "return false",
  "if util.IsEndpointAllowed(redirectURL, v.allowedDomains)",
  "util.IsEndpointAllowed",
  "return true",
  "return false",
  "case ",
  "return false"] : List String) := rfl

theorem skel_appDirector_GetRedirect_ok : skel_appDirector_GetRedirect = ([
  "if err != nil",
  "return \"\", err",
  "if redirect != \"\" && a.validator.IsValidRedirect(redirect)",
  "a.validator.IsValidRedirect",
  "return redirect, nil",
  "return \"/\", nil"] : List String) := rfl

theorem skel_decodeState_ok : skel_decodeState = ([
  "if encode",
  "base64.RawURLEncoding.DecodeString",
  "if len(parsedState) != 2",
  "return \"\", \"\", errors.New(\"invalid length\")",
  "errors.New",
  "return parsedState[0], parsedState[1], nil"] : List String) := rfl

theorem skel_IsEndpointAllowed_ok : skel_IsEndpointAllowed = ([
  "if hostname == \"\"",
  "return false",
  "SplitHostPort",
  "if allowedHost == \"\"",
  "if isHostnameAllowed(hostname, allowedHost)",
  "if allowedPort == \"*\" || allowedPort == redirectPort || (allowedPort == \"\" && redirectPort == \"\")",
  "return true",
  "return false"] : List String) := rfl

theorem skel_isHostnameAllowed_ok : skel_isHostnameAllowed = ([
  "if hostname == strings.TrimPrefix(allowedHost, \".\") || hostname == strings.TrimPrefix(allowedHost, \"*.\")",
  "return true",
  "if (strings.HasPrefix(allowedHost, \".\") && strings.HasSuffix(hostname, allowedHost)) || (strings.HasPrefix(allowedHost, \"*.\") && strings.HasSuffix(hostname, allowedHost[1:]))",
  "strings.HasPrefix",
  "strings.HasSuffix",
  "strings.HasPrefix",
  "strings.HasSuffix",
  "return true",
  "return false"] : List String) := rfl

theorem skel_appDirector_hasProxyPrefix_ok : skel_appDirector_hasProxyPrefix = ([
  "return strings.HasPrefix(path, a.proxyPrefix)",
  "strings.HasPrefix"] : List String) := rfl

theorem skel_appDirector_validateRedirect_ok : skel_appDirector_validateRedirect = ([
  "if a.validator.IsValidRedirect(redirect)",
  "a.validator.IsValidRedirect",
  "return redirect",
  "if redirect != \"\"",
  "logger.Errorf",
  "return \"\""] : List String) := rfl

theorem flags_redirect_ok : flags_redirect = ([
  "Bool encode-state = false",
  "String proxy-prefix = \"/oauth2\"",
  "String redirect-url = \"\"",
  "Bool relative-redirect-url = false",
  "Bool skip-provider-button = false",
  "StringSlice whitelist-domain = []string{}"] : List String) := rfl

theorem optionTags_redirect_ok : optionTags_redirect = ([
  "encode-state encode_state Options.EncodeState bool",
  "proxy-prefix proxy_prefix Options.ProxyPrefix string",
  "redirect-url redirect_url Options.RawRedirectURL string",
  "relative-redirect-url relative_redirect_url Options.RelativeRedirectURL bool",
  "skip-provider-button skip_provider_button Options.SkipProviderButton bool",
  "whitelist-domain whitelist_domains Options.WhitelistDomains []string"] : List String) := rfl

end O2P.Expect.C06
