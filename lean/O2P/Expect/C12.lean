import O2P.Gen.Facts
/-! Reviewed expectations about the source facts that the model parts used for C12 encode.
    Written by bin/mkexpect.py from reviewed facts; a change of /repo that alters one of these facts breaks the `rfl`. -/
namespace O2P.Expect.C12
open O2P.Facts

theorem sessionRefreshObtainTimeout_ok : sessionRefreshObtainTimeout = (5000000000 : Int) := rfl

theorem sessionRefreshLockDuration_ok : sessionRefreshLockDuration = (2000000000 : Int) := rfl

theorem sessionRefreshRetryPeriod_ok : sessionRefreshRetryPeriod = (10000000 : Int) := rfl

theorem skel_storedSessionLoader_refreshSessionIfNeeded_ok : skel_storedSessionLoader_refreshSessionIfNeeded = ([
  "if !needsRefresh(s.refreshPeriod, session)",
  "needsRefresh",
  "return nil",
  "defer",
  "for !lockObtained",
  "return errors.New(\"timeout obtaining session lock\")",
  "errors.New",
  "session.ObtainLock",
  "if err != nil && !errors.Is(err, sessionsapi.ErrLockNotObtained)",
  "return fmt.Errorf(\"error occurred while trying to obtain lock: %v\",",
  "if errors.Is(err, sessionsapi.ErrLockNotObtained)",
  "defer",
  "func{",
  "if session == nil",
  "return",
  "if err != nil",
  "session.ReleaseLock",
  "s.store.Load",
  "if err != nil",
  "return fmt.Errorf(\"could not load session: %v\", err)",
  "if freshSession == nil",
  "return errors.New(\"session no longer exists, it may have been remov",
  "errors.New",
  "if !needsRefresh(s.refreshPeriod, session)",
  "needsRefresh",
  "return nil",
  "if err != nil",
  "s.refreshSession",
  "return s.validateSession(req.Context(), session)",
  "s.validateSession"] : List String) := rfl

theorem skel_storedSessionLoader_refreshSession_ok : skel_storedSessionLoader_refreshSession = ([
  "s.sessionRefresher",
  "if err != nil && !errors.Is(err, providers.ErrNotImplemented)",
  "return fmt.Errorf(\"error refreshing tokens: %v\", err)",
  "if errors.Is(err, providers.ErrNotImplemented)",
  "if !refreshed",
  "return nil",
  "session.CreatedAtNow",
  "s.store.Save",
  "if err != nil",
  "return fmt.Errorf(\"error saving session: %v\", err)",
  "return nil"] : List String) := rfl

theorem skel_storedSessionLoader_validateSession_ok : skel_storedSessionLoader_validateSession = ([
  "if session.IsExpired()",
  "session.IsExpired",
  "return errors.New(\"session is expired\")",
  "errors.New",
  "if !s.sessionValidator(ctx, session)",
  "s.sessionValidator",
  "return errors.New(\"session is invalid\")",
  "errors.New",
  "return nil"] : List String) := rfl

theorem skel_storedSessionLoader_getValidatedSession_ok : skel_storedSessionLoader_getValidatedSession = ([
  "s.store.Load",
  "if err != nil || session == nil",
  "return nil, err",
  "s.refreshSessionIfNeeded",
  "if err != nil",
  "return nil, fmt.Errorf(\"error refreshing access token for session (%s):",
  "return session, nil"] : List String) := rfl

theorem skel_storedSessionLoader_loadSession_ok : skel_storedSessionLoader_loadSession = ([
  "return http.HandlerFunc(func(rw http.ResponseWriter, req *http.Requ",
  "func{",
  "if scope.Session != nil",
  "next.ServeHTTP",
  "return",
  "s.getValidatedSession",
  "if err != nil && !errors.Is(err, http.ErrNoCookie)",
  "s.store.Clear",
  "if err != nil",
  "next.ServeHTTP"] : List String) := rfl

theorem skel_Lock_Obtain_ok : skel_Lock_Obtain = ([
  "l.locker.Obtain",
  "if errors.Is(err, redislock.ErrNotObtained)",
  "return sessions.ErrLockNotObtained",
  "if err != nil",
  "return err",
  "return nil"] : List String) := rfl

theorem skel_Lock_Release_ok : skel_Lock_Release = ([
  "if l.lock == nil",
  "return sessions.ErrNotLocked",
  "l.lock.Release",
  "if errors.Is(err, redislock.ErrLockNotHeld)",
  "return sessions.ErrNotLocked",
  "return err"] : List String) := rfl

theorem providerRefresh_ok : providerRefresh = ([
  "## providers/adfs.go ADFSProvider.RefreshSession",
  "if err != nil || s.Email != \"\"",
  "return refreshed, err",
  "return refreshed, err",
  "## providers/azure.go AzureProvider.RefreshSession",
  "if s == nil || s.RefreshToken == \"\"",
  "return false, nil",
  "p.redeemRefreshToken",
  "if err != nil",
  "return false, fmt.Errorf(\"unable to redeem refresh token: %v\", err)",
  "fmt.Errorf",
  "return true, nil",
  "## providers/gitlab.go GitLabProvider.RefreshSession",
  "if refreshed && err == nil",
  "return refreshed, err",
  "## providers/google.go GoogleProvider.RefreshSession",
  "if s == nil || s.RefreshToken == \"\"",
  "return false, nil",
  "p.redeemRefreshToken",
  "if err != nil",
  "return false, err",
  "if !p.groupValidator(s)",
  "return false, fmt.Errorf(\"%s is no longer in the group(s)\", s.Email)",
  "fmt.Errorf",
  "return true, nil",
  "## providers/keycloak_oidc.go KeycloakOIDCProvider.RefreshSession",
  "if err != nil || !refreshed",
  "return refreshed, err",
  "return true, p.extractRoles(ctx, s)",
  "p.extractRoles",
  "## providers/oidc.go OIDCProvider.RefreshSession",
  "if s == nil || s.RefreshToken == \"\"",
  "return false, nil",
  "p.redeemRefreshToken",
  "if err != nil",
  "return false, fmt.Errorf(\"unable to redeem refresh token: %v\", err)",
  "fmt.Errorf",
  "return true, nil",
  "## providers/provider_default.go ProviderData.RefreshSession",
  "return false, ErrNotImplemented"] : List String) := rfl

end O2P.Expect.C12
