import O2P.Gen.Facts
/-! Reviewed expectations about the source facts that the model parts used for C04 encode.
    Written by bin/mkexpect.py from reviewed facts; a change of /repo that alters one of these facts breaks the `rfl`. -/
namespace O2P.Expect.C04
open O2P.Facts

theorem skel_idTokenVerifier_Verify_ok : skel_idTokenVerifier_Verify = ([
  "v.verifier.Verify",
  "if err != nil",
  "return nil, fmt.Errorf(\"failed to verify token: %v\", err)",
  "if err != nil",
  "token.Claims",
  "return nil, fmt.Errorf(\"failed to parse default id_token claims: %v\", er",
  "if !isValidAudience",
  "v.verifyAudience",
  "return nil, err",
  "return token, err"] : List String) := rfl

theorem skel_OIDCProvider_createSession_ok : skel_OIDCProvider_createSession = ([
  "p.verifyIDToken",
  "if err != nil",
  "case ErrMissingIDToken",
  "if !refresh",
  "return nil, errors.New(\"token response did not contain an id_token\")",
  "errors.New",
  "case ",
  "return nil, fmt.Errorf(\"could not verify id_token: %v\", err)",
  "p.buildSessionFromClaims",
  "if err != nil",
  "return nil, err",
  "ss.CreatedAtNow",
  "return ss, nil"] : List String) := rfl

theorem skel_OIDCProvider_CreateSessionFromToken_ok : skel_OIDCProvider_CreateSessionFromToken = ([
  "p.Verifier.Verify",
  "if err != nil",
  "return nil, err",
  "p.buildSessionFromClaims",
  "if err != nil",
  "return nil, err",
  "if ss.Email == \"\"",
  "ss.CreatedAtNow",
  "return ss, nil"] : List String) := rfl

theorem skel_CreateTokenToSessionFunc_ok : skel_CreateTokenToSessionFunc = ([
  "return func(ctx context.Context, token string) (*sessionsapi.Sessio",
  "func{",
  "if err != nil",
  "return nil, err",
  "if err != nil",
  "idToken.Claims",
  "return nil, fmt.Errorf(\"failed to parse bearer token claims: %v\", err)",
  "if claims.Email == \"\"",
  "if claims.Verified != nil && !*claims.Verified",
  "return nil, fmt.Errorf(\"email in id_token (%s) isn't verified\", claims.E",
  "return newSession, nil"] : List String) := rfl

theorem verifier_skipClientIDCheck_ok : verifier_skipClientIDCheck = (["true"] : List String) := rfl

theorem skel_ProviderData_buildSessionFromClaims_ok : skel_ProviderData_buildSessionFromClaims = ([
  "if rawIDToken == \"\"",
  "return ss, nil",
  "if err != nil",
  "return nil, err",
  "if err != nil",
  "extractor.GetClaimInto",
  "return nil, err",
  "if verifyEmail",
  "extractor.GetClaimInto",
  "if err != nil",
  "return nil, err",
  "if exists && !verified",
  "return nil, fmt.Errorf(\"email in id_token (%s) isn't verified\", ss.Email",
  "return ss, nil"] : List String) := rfl

theorem skel_ProviderData_verifyIDToken_ok : skel_ProviderData_verifyIDToken = ([
  "if strings.TrimSpace(rawIDToken) == \"\"",
  "strings.TrimSpace",
  "return nil, ErrMissingIDToken",
  "if p.Verifier == nil",
  "return nil, ErrMissingOIDCVerifier",
  "return p.Verifier.Verify(ctx, rawIDToken)",
  "p.Verifier.Verify"] : List String) := rfl

theorem skel_ProviderData_checkNonce_ok : skel_ProviderData_checkNonce = ([
  "if err != nil",
  "return fmt.Errorf(\"id_token claims extraction failed: %v\", err)",
  "if err != nil",
  "extractor.GetClaimInto",
  "return fmt.Errorf(\"could not extract nonce from ID Token: %v\", err)",
  "if !s.CheckNonce(nonce)",
  "s.CheckNonce",
  "return errors.New(\"id_token nonce claim does not match the session",
  "errors.New",
  "return nil"] : List String) := rfl

theorem skel_idTokenVerifier_verifyAudience_ok : skel_idTokenVerifier_verifyAudience = ([
  "if audienceClaimExists",
  "case []interface{}",
  "if err != nil",
  "return false, fmt.Errorf(\"audience claim %s holds unsupported value: %v\",",
  "case string",
  "case ",
  "return false, fmt.Errorf(\"audience claim %s holds unsupported type %T\", au",
  "return v.isValidAudience(audienceClaim, token.Audience, v.allowedAu",
  "v.isValidAudience",
  "return false, fmt.Errorf(\"audience claims %v do not exist in claims: %v\","] : List String) := rfl

theorem skel_idTokenVerifier_isValidAudience_ok : skel_idTokenVerifier_isValidAudience = ([
  "if allowedAudienceExists",
  "return true, nil",
  "return false, fmt.Errorf( \"audience from claim %s with value %s does not m"] : List String) := rfl

theorem skel_claimExtractor_GetClaim_ok : skel_claimExtractor_GetClaim = ([
  "if claim == \"\"",
  "return nil, false, nil",
  "if value != nil",
  "getClaimFrom",
  "return value, true, nil",
  "if c.profileClaims == nil",
  "c.loadProfileClaims",
  "if err != nil",
  "return nil, false, fmt.Errorf(\"failed to fetch claims from profile URL: %v\", er",
  "if value != nil",
  "getClaimFrom",
  "return value, true, nil",
  "return nil, false, nil"] : List String) := rfl

theorem skel_claimExtractor_GetClaimInto_ok : skel_claimExtractor_GetClaimInto = ([
  "c.GetClaim",
  "if err != nil",
  "return false, fmt.Errorf(\"could not get claim %q: %v\", claim, err)",
  "if !exists",
  "return false, nil",
  "if err != nil",
  "coerceClaim",
  "return false, fmt.Errorf(\"could no coerce claim: %v\", err)",
  "return true, nil"] : List String) := rfl

theorem skel_OIDCProvider_redeemRefreshToken_ok : skel_OIDCProvider_redeemRefreshToken = ([
  "if err != nil",
  "return err",
  "time.Now().Add",
  "c.TokenSource(ctx, t).Token",
  "c.TokenSource",
  "if err != nil",
  "return fmt.Errorf(\"failed to get token: %v\", err)",
  "p.createSession",
  "if err != nil",
  "return fmt.Errorf(\"unable create new session state from response: %",
  "if newSession.IDToken != \"\"",
  "return nil"] : List String) := rfl

theorem skel_jwtSessionLoader_getJwtSession_ok : skel_jwtSessionLoader_getJwtSession = ([
  "req.Header.Get",
  "if auth == \"\"",
  "return nil, nil",
  "if err != nil",
  "return nil, err",
  "errors.New",
  "if err != nil",
  "return session, nil",
  "return nil, k8serrors.NewAggregate(errs)"] : List String) := rfl

theorem skel_jwtSessionLoader_findTokenFromHeader_ok : skel_jwtSessionLoader_findTokenFromHeader = ([
  "splitAuthHeader",
  "if err != nil",
  "return \"\", err",
  "if tokenType == \"Bearer\" && j.jwtRegex.MatchString(token)",
  "j.jwtRegex.MatchString",
  "return token, nil",
  "if tokenType == \"Basic\"",
  "return j.getBasicToken(token)",
  "return \"\", fmt.Errorf(\"no valid bearer token found in authorization hea"] : List String) := rfl

theorem skel_jwtSessionLoader_getBasicToken_ok : skel_jwtSessionLoader_getBasicToken = ([
  "getBasicAuthCredentials",
  "if err != nil",
  "return \"\", err",
  "if j.jwtRegex.MatchString(user)",
  "j.jwtRegex.MatchString",
  "if password == \"x-oauth-basic\" || password == \"\"",
  "return user, nil",
  "if j.jwtRegex.MatchString(password)",
  "j.jwtRegex.MatchString",
  "return password, nil",
  "return \"\", fmt.Errorf(\"invalid basic auth token found in authorization"] : List String) := rfl

end O2P.Expect.C04
