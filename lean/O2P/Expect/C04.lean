import O2P.Gen.Facts
/-! Reviewed expectations about the source facts that the model parts used for C04 encode.
    Written by bin/mkexpect.py from reviewed facts; a change of /repo that alters one of these facts breaks the `rfl`. -/
namespace O2P.Expect.C04
open O2P.Facts

theorem skel_idTokenVerifier_Verify_ok : skel_idTokenVerifier_Verify = ([
  "v.verifier.Verify",
  "if err != nil",
  "return nil, fmt.Errorf(\"failed to verify token: %v\", err)",
  "if err != nil",
  "token.Claims",
  "return nil, fmt.Errorf(\"failed to parse default id_token claims: %v\", er",
  "if !isValidAudience",
  "v.verifyAudience",
  "return nil, err",
  "return token, err"] : List String) := rfl

theorem skel_OIDCProvider_createSession_ok : skel_OIDCProvider_createSession = ([
  "p.verifyIDToken",
  "if err != nil",
  "case ErrMissingIDToken",
  "if !refresh",
  "return nil, errors.New(\"token response did not contain an id_token\")",
  "case ",
  "return nil, fmt.Errorf(\"could not verify id_token: %v\", err)",
  "p.buildSessionFromClaims",
  "if err != nil",
  "return nil, err",
  "ss.CreatedAtNow",
  "return ss, nil"] : List String) := rfl

theorem skel_OIDCProvider_CreateSessionFromToken_ok : skel_OIDCProvider_CreateSessionFromToken = ([
  "p.Verifier.Verify",
  "if err != nil",
  "return nil, err",
  "p.buildSessionFromClaims",
  "if err != nil",
  "return nil, err",
  "if ss.Email == \"\"",
  "ss.CreatedAtNow",
  "return ss, nil"] : List String) := rfl

theorem skel_CreateTokenToSessionFunc_ok : skel_CreateTokenToSessionFunc = ([
  "return func(ctx context.Context, token string) (*sessionsapi.Sessio",
  "func{",
  "if err != nil",
  "return nil, err",
  "if err != nil",
  "idToken.Claims",
  "return nil, fmt.Errorf(\"failed to parse bearer token claims: %v\", err)",
  "if claims.Email == \"\"",
  "if claims.Verified != nil && !*claims.Verified",
  "return nil, fmt.Errorf(\"email in id_token (%s) isn't verified\", claims.E",
  "return newSession, nil"] : List String) := rfl

theorem verifier_skipClientIDCheck_ok : verifier_skipClientIDCheck = (["true"] : List String) := rfl

end O2P.Expect.C04
