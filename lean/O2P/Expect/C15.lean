import O2P.Gen.Facts
/-! Reviewed expectations about the source facts that the model parts used for C15 encode.
    Written by bin/mkexpect.py from reviewed facts; a change of /repo that alters one of these facts breaks the `rfl`. -/
namespace O2P.Expect.C15
open O2P.Facts

theorem isAllowedPath_matchArgs_ok : isAllowedPath_matchArgs = (["requestutil.GetRequestPath(req)"] : List String) := rfl

theorem skel_OAuthProxy_IsAllowedRequest_ok : skel_OAuthProxy_IsAllowedRequest = ([
  "return isPreflightRequestAllowed || p.isAllowedRoute(req) || p.isTr",
  "p.isAllowedRoute",
  "p.isTrustedIP"] : List String) := rfl

theorem skel_isAllowedMethod_ok : skel_isAllowedMethod = ([
  "return route.method == \"\" || req.Method == route.method"] : List String) := rfl

theorem skel_isAllowedPath_ok : skel_isAllowedPath = ([
  "route.pathRegex.MatchString",
  "if route.negate",
  "return !matches",
  "return matches"] : List String) := rfl

theorem skel_OAuthProxy_isAllowedRoute_ok : skel_OAuthProxy_isAllowedRoute = ([
  "if isAllowedMethod(req, route) && isAllowedPath(req, route)",
  "isAllowedMethod",
  "isAllowedPath",
  "return true",
  "return false"] : List String) := rfl

theorem skel_OAuthProxy_isTrustedIP_ok : skel_OAuthProxy_isTrustedIP = ([
  "if p.trustedIPs == nil && req.RemoteAddr != \"@\"",
  "return false",
  "ip.GetClientIP",
  "if err != nil",
  "return false",
  "if remoteAddr == nil",
  "return false",
  "return p.trustedIPs.Has(remoteAddr)",
  "p.trustedIPs.Has"] : List String) := rfl

theorem skel_GetRequestPath_ok : skel_GetRequestPath = ([
  "if err == nil",
  "url.ParseRequestURI",
  "return parsedURL.Path",
  "if idx != -1",
  "strings.Index",
  "return uri[:idx]",
  "return uri"] : List String) := rfl

theorem skel_GetRequestURI_ok : skel_GetRequestURI = ([
  "req.Header.Get",
  "if !IsProxied(req) || uri == \"\"",
  "IsProxied",
  "return uri"] : List String) := rfl

theorem skel_NetSet_Has_ok : skel_NetSet_Has = ([
  "if netMap.has(ip)",
  "return true",
  "return false"] : List String) := rfl

theorem skel_NetSet_AddIPNet_ok : skel_NetSet_AddIPNet = ([
  "ipNet.Mask.Size",
  "for len(*netMaps) > i",
  "if netMapOnes == ones",
  "(*netMaps)[i].mask.Size",
  "if netMap == nil",
  "return"] : List String) := rfl

theorem skel_NetSet_getNetMaps_ok : skel_NetSet_getNetMaps = ([
  "case ip.To4() != nil",
  "ip.To4",
  "case ip.To16() != nil",
  "ip.To16",
  "case ",
  "fmt.Sprintf",
  "return netMaps"] : List String) := rfl

theorem skel_ipNetMap_has_ok : skel_ipNetMap_has = ([
  "ip.Mask",
  "if ipMasked == nil",
  "fmt.Sprintf",
  "if ok",
  "return true",
  "return false"] : List String) := rfl

theorem skel_ParseIPNet_ok : skel_ParseIPNet = ([
  "if !strings.ContainsRune(s, '/')",
  "net.ParseIP",
  "if ip == nil",
  "return nil",
  "case ip.To4() != nil",
  "ip.To4",
  "case ip.To16() != nil",
  "ip.To16",
  "case ",
  "return nil",
  "return &net.IPNet{ IP: ip, Mask: mask, }",
  "net.ParseCIDR",
  "case err != nil",
  "return nil",
  "case !ipNet.IP.Equal(ip)",
  "ipNet.IP.Equal",
  "return nil",
  "case ",
  "return ipNet"] : List String) := rfl

theorem skel_xForwardedForClientIPParser_GetRealClientIP_ok : skel_xForwardedForClientIPParser_GetRealClientIP = ([
  "if realIP != \"\"",
  "h.Get",
  "return nil, nil",
  "if commaIndex != -1",
  "strings.IndexRune",
  "strings.TrimSpace",
  "if err == nil",
  "net.SplitHostPort",
  "net.ParseIP",
  "if ip == nil",
  "return nil, fmt.Errorf(\"unable to parse ip (%s) from %s header\", ipStr,",
  "return ip, nil"] : List String) := rfl

theorem skel_GetClientIP_ok : skel_GetClientIP = ([
  "if p != nil",
  "return p.GetRealClientIP(req.Header)",
  "return getRemoteIP(req)"] : List String) := rfl

theorem skel_NewOAuthProxy_ok : skel_NewOAuthProxy = ([
  "if err != nil",
  "return nil, fmt.Errorf(\"error initialising session store: %v\", err)",
  "fmt.Errorf",
  "if opts.HtpasswdFile != \"\"",
  "if err != nil",
  "return nil, fmt.Errorf(\"could not validate htpasswd: %v\", err)",
  "fmt.Errorf",
  "if err != nil",
  "return nil, fmt.Errorf(\"error initialising provider: %v\", err)",
  "fmt.Errorf",
  "if err != nil",
  "return nil, fmt.Errorf(\"error initialising page writer: %v\", err)",
  "fmt.Errorf",
  "if err != nil",
  "return nil, fmt.Errorf(\"error initialising upstream proxy: %v\", err)",
  "fmt.Errorf",
  "if opts.SkipJwtBearerTokens",
  "if redirectURL.Path == \"\"",
  "fmt.Sprintf",
  "if opts.Cookie.Refresh != time.Duration(0)",
  "fmt.Sprintf",
  "strings.Join",
  "if ipNet != nil",
  "return nil, fmt.Errorf(\"could not parse IP network (%s)\", ipStr)",
  "fmt.Errorf",
  "if err != nil",
  "return nil, err",
  "if err != nil",
  "return nil, err",
  "if err != nil",
  "return nil, fmt.Errorf(\"could not build pre-auth chain: %v\", err)",
  "fmt.Errorf",
  "if err != nil",
  "return nil, fmt.Errorf(\"could not build headers chain: %v\", err)",
  "fmt.Errorf",
  "fmt.Sprintf",
  "if err != nil",
  "return nil, fmt.Errorf(\"error setting up server: %v\", err)",
  "fmt.Errorf",
  "return p, nil"] : List String) := rfl

theorem flags_bypass_ok : flags_bypass = ([
  "StringSlice api-route = []string{}",
  "Bool force-https = false",
  "String real-client-ip-header = \"X-Real-IP\"",
  "Bool reverse-proxy = false",
  "Bool skip-auth-preflight = false",
  "StringSlice skip-auth-regex = []string{}",
  "StringSlice skip-auth-route = []string{}",
  "Bool skip-auth-strip-headers = true",
  "StringSlice trusted-ip = []string{}"] : List String) := rfl

theorem optionTags_bypass_ok : optionTags_bypass = ([
  "api-route api_routes Options.APIRoutes []string",
  "force-https force_https Options.ForceHTTPS bool",
  "real-client-ip-header real_client_ip_header Options.RealClientIPHeader string",
  "reverse-proxy reverse_proxy Options.ReverseProxy bool",
  "skip-auth-preflight skip_auth_preflight Options.SkipAuthPreflight bool",
  "skip-auth-regex skip_auth_regex Options.SkipAuthRegex []string",
  "skip-auth-route skip_auth_routes Options.SkipAuthRoutes []string",
  "skip-auth-strip-headers skip_auth_strip_headers LegacyHeaders.SkipAuthStripHeaders bool",
  "trusted-ip trusted_ips Options.TrustedIPs []string"] : List String) := rfl

theorem cfgText_loader_ok : cfgText_loader = ([
  "func loadConfiguration {",
  "{ if alphaConfig != \"\" { logger.Printf(\"WARNING: You are using alpha configuration. The structure in this configuration file may change without notice. You MUST remove conflicting options from your existing configuration.\") return loadAlphaOptions(config, alphaConfig, extraFlags, args) } return loadLegacyOptions(config, extraFlags, args) }",
  "func loadLegacyOptions {",
  "{ optionsFlagSet := options.NewLegacyFlagSet() optionsFlagSet.AddFlagSet(extraFlags) if err := optionsFlagSet.Parse(args); err != nil { return nil, fmt.Errorf(\"failed to parse flags: %v\", err) } legacyOpts := options.NewLegacyOptions() if err := options.Load(config, optionsFlagSet, legacyOpts); err != nil { return nil, fmt.Errorf(\"failed to load config: %v\", err) } opts, err := legacyOpts.ToOptions() if err != nil { return nil, fmt.Errorf(\"failed to convert config: %v\", err) } return opts, nil }",
  "func loadAlphaOptions {",
  "{ opts, err := loadOptions(config, extraFlags, args) if err != nil { return nil, fmt.Errorf(\"failed to load core options: %v\", err) } alphaOpts := &options.AlphaOptions{} if err := options.LoadYAML(alphaConfig, alphaOpts); err != nil { return nil, fmt.Errorf(\"failed to load alpha options: %v\", err) } alphaOpts.MergeInto(opts) return opts, nil }",
  "func loadOptions {",
  "{ optionsFlagSet := options.NewFlagSet() optionsFlagSet.AddFlagSet(extraFlags) if err := optionsFlagSet.Parse(args); err != nil { return nil, fmt.Errorf(\"failed to parse flags: %v\", err) } opts := options.NewOptions() if err := options.Load(config, optionsFlagSet, opts); err != nil { return nil, fmt.Errorf(\"failed to load config: %v\", err) } return opts, nil }",
  "func Load {",
  "{ v := viper.New() v.SetConfigFile(configFileName) v.SetConfigType(\"toml\") v.SetEnvPrefix(\"OAUTH2_PROXY\") v.AutomaticEnv() v.SetTypeByDefaultValue(true) if configFileName != \"\" { err := v.ReadInConfig() if err != nil { return fmt.Errorf(\"unable to load config file: %w\", err) } } err := registerFlags(v, \"\", flagSet, into) if err != nil { return fmt.Errorf(\"unable to register flags: %w\", err) } err = v.UnmarshalExact(into, decodeFromCfgTag) if err != nil { return fmt.Errorf(\"error unmarshalling config: %w\", err) } return nil }",
  "func registerFlags {",
  "{ val := reflect.ValueOf(options) var typ reflect.Type if val.Kind() == reflect.Ptr { typ = val.Elem().Type() } else { typ = val.Type() } for i := 0; i < typ.NumField(); i++ { field := typ.Field(i) fieldV := reflect.Indirect(val).Field(i) fieldName := strings.Join([]string{prefix, field.Name}, \".\") cfgName := field.Tag.Get(\"cfg\") if cfgName == \",internal\" { continue } if isUnexported(field.Name) { continue } if field.Type.Kind() == reflect.Struct { if cfgName != \",squash\" { return fmt.Errorf(\"field %q does not have required cfg tag: `,squash`\", fieldName) } err := registerFlags(v, fieldName, flagSet, fieldV.Interface()) if err != nil { return err } continue } flagName := field.Tag.Get(\"flag\") if flagName == \"\" || cfgName == \"\" { return fmt.Errorf(\"field %q does not have required tags (cfg, flag)\", fieldName) } if flagSet == nil { return fmt.Errorf(\"flagset cannot be nil\") } f := flagSet.Lookup(flagName) if f == nil { return fmt.Errorf(\"field %q does not have a registered flag\", flagName) } err := v.BindPFlag(cfgName, f) if err != nil { return fmt.Errorf(\"error binding flag for field %q: %w\", fieldName, err) } } return nil }",
  "func LoadYAML {",
  "{ buffer, err := loadAndParseYaml(configFileName) if err != nil { return err } if err := yaml.UnmarshalStrict(buffer, into, yaml.DisallowUnknownFields); err != nil { return fmt.Errorf(\"error unmarshalling config: %w\", err) } return nil }",
  "func loadAndParseYaml {",
  "{ if configFileName == \"\" { return nil, errors.New(\"no configuration file provided\") } unparsedBuffer, err := os.ReadFile(configFileName) if err != nil { return nil, fmt.Errorf(\"unable to load config file: %w\", err) } buffer, err := envsubst.Bytes(unparsedBuffer) if err != nil { return nil, fmt.Errorf(\"error in substituting env variables : %w\", err) } return buffer, nil }",
  "func AlphaOptions.MergeInto {",
  "{ opts.UpstreamServers = a.UpstreamConfig opts.InjectRequestHeaders = a.InjectRequestHeaders opts.InjectResponseHeaders = a.InjectResponseHeaders opts.Server = a.Server opts.MetricsServer = a.MetricsServer opts.Providers = a.Providers }",
  "func LegacyOptions.ToOptions {",
  "{ upstreams, err := l.LegacyUpstreams.convert() if err != nil { return nil, fmt.Errorf(\"error converting upstreams: %v\", err) } l.Options.UpstreamServers = upstreams l.Options.InjectRequestHeaders, l.Options.InjectResponseHeaders = l.LegacyHeaders.convert() l.Options.Server, l.Options.MetricsServer = l.LegacyServer.convert() l.Options.LegacyPreferEmailToUser = l.LegacyHeaders.PreferEmailToUser providers, err := l.LegacyProvider.convert() if err != nil { return nil, fmt.Errorf(\"error converting provider: %v\", err) } l.Options.Providers = providers return &l.Options, nil }",
  "func NewLegacyOptions {",
  "{ return &LegacyOptions{ LegacyUpstreams: LegacyUpstreams{ PassHostHeader: true, ProxyWebSockets: true, FlushInterval: DefaultUpstreamFlushInterval, Timeout: DefaultUpstreamTimeout, }, LegacyHeaders: LegacyHeaders{ PassBasicAuth: true, PassUserHeaders: true, SkipAuthStripHeaders: true, }, LegacyServer: LegacyServer{ HTTPAddress: \"127.0.0.1:4180\", HTTPSAddress: \":443\", }, LegacyProvider: LegacyProvider{ ProviderType: \"google\", AzureTenant: \"common\", ApprovalPrompt: \"force\", UserIDClaim: \"email\", OIDCEmailClaim: \"email\", OIDCGroupsClaim: \"groups\", OIDCAudienceClaims: []string{\"aud\"}, OIDCExtraAudiences: []string{}, InsecureOIDCSkipNonce: true, }, Options: *NewOptions(), } }",
  "func NewOptions {",
  "{ return &Options{ ProxyPrefix: \"/oauth2\", Providers: providerDefaults(), PingPath: \"/ping\", ReadyPath: \"/ready\", RealClientIPHeader: \"X-Real-IP\", ForceHTTPS: false, Cookie: cookieDefaults(), Session: sessionOptionsDefaults(), Templates: templatesDefaults(), SkipAuthPreflight: false, Logging: loggingDefaults(), } }"] : List String) := rfl

end O2P.Expect.C15
