import O2P.Gen.Facts
/-! Reviewed expectations about the source facts that the model parts used for C15 encode.
    Written by bin/mkexpect.py from reviewed facts; a change of /repo that alters one of these facts breaks the `rfl`. -/
namespace O2P.Expect.C15
open O2P.Facts

theorem isAllowedPath_matchArgs_ok : isAllowedPath_matchArgs = (["requestutil.GetRequestPath(req)"] : List String) := rfl

theorem skel_OAuthProxy_IsAllowedRequest_ok : skel_OAuthProxy_IsAllowedRequest = ([
  "return isPreflightRequestAllowed || p.isAllowedRoute(req) || p.isTr",
  "p.isAllowedRoute",
  "p.isTrustedIP"] : List String) := rfl

end O2P.Expect.C15
