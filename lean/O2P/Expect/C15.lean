import O2P.Gen.Facts
/-! Reviewed expectations about the source facts that the model parts used for C15 encode.
    Written by bin/mkexpect.py from reviewed facts; a change of /repo that alters one of these facts breaks the `rfl`. -/
namespace O2P.Expect.C15
open O2P.Facts

theorem isAllowedPath_matchArgs_ok : isAllowedPath_matchArgs = (["requestutil.GetRequestPath(req)"] : List String) := rfl

theorem skel_OAuthProxy_IsAllowedRequest_ok : skel_OAuthProxy_IsAllowedRequest = ([
  "return isPreflightRequestAllowed || p.isAllowedRoute(req) || p.isTr",
  "p.isAllowedRoute",
  "p.isTrustedIP"] : List String) := rfl

theorem skel_isAllowedMethod_ok : skel_isAllowedMethod = ([
  "return route.method == \"\" || req.Method == route.method"] : List String) := rfl

theorem skel_isAllowedPath_ok : skel_isAllowedPath = ([
  "route.pathRegex.MatchString",
  "if route.negate",
  "return !matches",
  "return matches"] : List String) := rfl

theorem skel_OAuthProxy_isAllowedRoute_ok : skel_OAuthProxy_isAllowedRoute = ([
  "if isAllowedMethod(req, route) && isAllowedPath(req, route)",
  "isAllowedMethod",
  "isAllowedPath",
  "return true",
  "return false"] : List String) := rfl

theorem skel_OAuthProxy_isTrustedIP_ok : skel_OAuthProxy_isTrustedIP = ([
  "if p.trustedIPs == nil && req.RemoteAddr != \"@\"",
  "return false",
  "ip.GetClientIP",
  "if err != nil",
  "return false",
  "if remoteAddr == nil",
  "return false",
  "return p.trustedIPs.Has(remoteAddr)",
  "p.trustedIPs.Has"] : List String) := rfl

theorem skel_GetRequestPath_ok : skel_GetRequestPath = ([
  "if err == nil",
  "url.ParseRequestURI",
  "return parsedURL.Path",
  "if idx != -1",
  "strings.Index",
  "return uri[:idx]",
  "return uri"] : List String) := rfl

theorem skel_GetRequestURI_ok : skel_GetRequestURI = ([
  "req.Header.Get",
  "if !IsProxied(req) || uri == \"\"",
  "IsProxied",
  "return uri"] : List String) := rfl

theorem skel_NetSet_Has_ok : skel_NetSet_Has = ([
  "if netMap.has(ip)",
  "return true",
  "return false"] : List String) := rfl

theorem skel_NetSet_AddIPNet_ok : skel_NetSet_AddIPNet = ([
  "ipNet.Mask.Size",
  "for len(*netMaps) > i",
  "if netMapOnes == ones",
  "(*netMaps)[i].mask.Size",
  "if netMap == nil",
  "return"] : List String) := rfl

theorem skel_NetSet_getNetMaps_ok : skel_NetSet_getNetMaps = ([
  "case ip.To4() != nil",
  "ip.To4",
  "case ip.To16() != nil",
  "ip.To16",
  "case ",
  "fmt.Sprintf",
  "return netMaps"] : List String) := rfl

theorem skel_ipNetMap_has_ok : skel_ipNetMap_has = ([
  "ip.Mask",
  "if ipMasked == nil",
  "fmt.Sprintf",
  "if ok",
  "return true",
  "return false"] : List String) := rfl

theorem skel_ParseIPNet_ok : skel_ParseIPNet = ([
  "if !strings.ContainsRune(s, '/')",
  "net.ParseIP",
  "if ip == nil",
  "return nil",
  "case ip.To4() != nil",
  "ip.To4",
  "case ip.To16() != nil",
  "ip.To16",
  "case ",
  "return nil",
  "return &net.IPNet{ IP: ip, Mask: mask, }",
  "net.ParseCIDR",
  "case err != nil",
  "return nil",
  "case !ipNet.IP.Equal(ip)",
  "ipNet.IP.Equal",
  "return nil",
  "case ",
  "return ipNet"] : List String) := rfl

theorem skel_xForwardedForClientIPParser_GetRealClientIP_ok : skel_xForwardedForClientIPParser_GetRealClientIP = ([
  "if realIP != \"\"",
  "h.Get",
  "return nil, nil",
  "if commaIndex != -1",
  "strings.IndexRune",
  "strings.TrimSpace",
  "if err == nil",
  "net.SplitHostPort",
  "net.ParseIP",
  "if ip == nil",
  "return nil, fmt.Errorf(\"unable to parse ip (%s) from %s header\", ipStr,",
  "return ip, nil"] : List String) := rfl

theorem skel_GetClientIP_ok : skel_GetClientIP = ([
  "if p != nil",
  "return p.GetRealClientIP(req.Header)",
  "return getRemoteIP(req)"] : List String) := rfl

theorem skel_NewOAuthProxy_ok : skel_NewOAuthProxy = ([
  "if err != nil",
  "return nil, fmt.Errorf(\"error initialising session store: %v\", err)",
  "fmt.Errorf",
  "if opts.HtpasswdFile != \"\"",
  "if err != nil",
  "return nil, fmt.Errorf(\"could not validate htpasswd: %v\", err)",
  "fmt.Errorf",
  "if err != nil",
  "return nil, fmt.Errorf(\"error initialising provider: %v\", err)",
  "fmt.Errorf",
  "if err != nil",
  "return nil, fmt.Errorf(\"error initialising page writer: %v\", err)",
  "fmt.Errorf",
  "if err != nil",
  "return nil, fmt.Errorf(\"error initialising upstream proxy: %v\", err)",
  "fmt.Errorf",
  "if opts.SkipJwtBearerTokens",
  "if redirectURL.Path == \"\"",
  "fmt.Sprintf",
  "if opts.Cookie.Refresh != time.Duration(0)",
  "fmt.Sprintf",
  "strings.Join",
  "if ipNet != nil",
  "return nil, fmt.Errorf(\"could not parse IP network (%s)\", ipStr)",
  "fmt.Errorf",
  "if err != nil",
  "return nil, err",
  "if err != nil",
  "return nil, err",
  "if err != nil",
  "return nil, fmt.Errorf(\"could not build pre-auth chain: %v\", err)",
  "fmt.Errorf",
  "if err != nil",
  "return nil, fmt.Errorf(\"could not build headers chain: %v\", err)",
  "fmt.Errorf",
  "fmt.Sprintf",
  "if err != nil",
  "return nil, fmt.Errorf(\"error setting up server: %v\", err)",
  "fmt.Errorf",
  "return p, nil"] : List String) := rfl

end O2P.Expect.C15
