import O2P.Gen.Facts
/-! Reviewed expectations about the source facts that the model parts used for C20 encode.
    Written by bin/mkexpect.py from reviewed facts; a change of /repo that alters one of these facts breaks the `rfl`. -/
namespace O2P.Expect.C20
open O2P.Facts

theorem sharedAccesses_ok : sharedAccesses = ([
  "createHtpasswdMap|users[]|read|none|private",
  "createHtpasswdMap|users|read|none|private",
  "htpasswdMap.GetUsers|users[]|read|W|plain",
  "htpasswdMap.GetUsers|users|read|W|plain",
  "htpasswdMap.Validate|users[]|read|R|plain",
  "htpasswdMap.Validate|users|read|R|plain",
  "htpasswdMap.loadHTPasswdFile|users|write|W|plain",
  "htpasswdMap.loadHTPasswdFile|users|read|none|private",
  "passShaOrBcrypt|users[]|write|none|private",
  "passShaOrBcrypt|users|read|none|private",
  "NewUserMap|m|write|none|atomic",
  "UserMap.IsValid|m|read|none|atomic",
  "UserMap.IsValid|m[]|read|none|plain",
  "UserMap.LoadAuthenticatedEmailsFile|m[]|write|none|private",
  "UserMap.LoadAuthenticatedEmailsFile|m|write|none|atomic"] : List String) := rfl

theorem skel_htpasswdMap_loadHTPasswdFile_ok : skel_htpasswdMap_loadHTPasswdFile = ([
  "if err != nil",
  "return fmt.Errorf(\"could not open htpasswd file: %v\", err)",
  "defer",
  "func{",
  "if cerr != nil",
  "csvReader.ReadAll",
  "if err != nil",
  "return fmt.Errorf(\"could not read htpasswd file: %v\", err)",
  "createHtpasswdMap",
  "if err != nil",
  "return fmt.Errorf(\"htpasswd entries error: %v\", err)",
  "h.rwm.Lock",
  "h.rwm.Unlock",
  "return nil"] : List String) := rfl

theorem skel_htpasswdMap_Validate_ok : skel_htpasswdMap_Validate = ([
  "h.rwm.RLock",
  "h.rwm.RUnlock",
  "if !exists",
  "return false",
  "case sha1Pass",
  "sha1.New",
  "d.Write",
  "if err != nil",
  "return false",
  "return string(rp) == base64.StdEncoding.EncodeToString(d.Sum(nil))",
  "base64.StdEncoding.EncodeToString",
  "d.Sum",
  "case bcryptPass",
  "return bcrypt.CompareHashAndPassword([]byte(rp), []byte(password))",
  "case ",
  "return false"] : List String) := rfl

theorem skel_UserMap_IsValid_ok : skel_UserMap_IsValid = ([
  "atomic.LoadPointer",
  "return"] : List String) := rfl

theorem skel_UserMap_LoadAuthenticatedEmailsFile_ok : skel_UserMap_LoadAuthenticatedEmailsFile = ([
  "if err != nil",
  "defer",
  "func{",
  "if cerr != nil",
  "csvReader.ReadAll",
  "if err != nil",
  "return",
  "strings.ToLower",
  "strings.TrimSpace",
  "atomic.StorePointer"] : List String) := rfl

theorem skel_WatchFileForUpdates_ok : skel_WatchFileForUpdates = ([
  "filepath.Clean",
  "fsnotify.NewWatcher",
  "if err != nil",
  "return fmt.Errorf(\"failed to create watcher for '%s': %s\", filename",
  "fmt.Errorf",
  "func{",
  "defer",
  "for",
  "return",
  "filterEvent",
  "logger.Errorf",
  "if err != nil",
  "watcher.Add",
  "return fmt.Errorf(\"failed to add '%s' to watcher: %v\", filename, er",
  "fmt.Errorf",
  "return nil"] : List String) := rfl

theorem skel_filterEvent_ok : skel_filterEvent = ([
  "filepath.Clean",
  "case event.Op&fsnotify.Remove != 0",
  "WaitForReplacement",
  "action",
  "case event.Op&(fsnotify.Create|fsnotify.Write) != 0",
  "action"] : List String) := rfl

theorem skel_WaitForReplacement_ok : skel_WaitForReplacement = ([
  "if op&fsnotify.Chmod != 0",
  "time.Sleep",
  "for",
  "if err == nil",
  "os.Stat",
  "if err == nil",
  "watcher.Add",
  "return",
  "time.Sleep"] : List String) := rfl

end O2P.Expect.C20
