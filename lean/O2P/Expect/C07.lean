import O2P.Gen.Facts
/-! Reviewed expectations about the source facts that the model parts used for C07 encode.
    Written by bin/mkexpect.py from reviewed facts; a change of /repo that alters one of these facts breaks the `rfl`. -/
namespace O2P.Expect.C07
open O2P.Facts

theorem skel_OAuthProxy_Proxy_ok : skel_OAuthProxy_Proxy = ([
  "p.getAuthenticatedSession",
  "case nil",
  "p.addHeadersForProxying",
  "p.headersChain.Then(p.upstreamProxy).ServeHTTP",
  "p.headersChain.Then",
  "case ErrNeedsLogin",
  "if p.forceJSONErrors || isAjax(req) || p.isAPIPath(req)",
  "p.errorJSON",
  "return",
  "if p.SkipProviderButton",
  "p.doOAuthStart",
  "p.SignInPage",
  "case ErrAccessDenied",
  "if p.forceJSONErrors",
  "p.errorJSON",
  "p.ErrorPage",
  "case ",
  "p.ErrorPage"] : List String) := rfl

theorem skel_OAuthProxy_AuthOnly_ok : skel_OAuthProxy_AuthOnly = ([
  "p.getAuthenticatedSession",
  "if err != nil",
  "return",
  "if !authOnlyAuthorize(req, session)",
  "authOnlyAuthorize",
  "return",
  "p.addHeadersForProxying",
  "p.headersChain.Then(http.HandlerFunc(func(rw http.ResponseWriter, _ *http.Request) { rw.WriteHeader(http.StatusAccepted) })).ServeHTTP",
  "p.headersChain.Then",
  "func{",
  "rw.WriteHeader"] : List String) := rfl

theorem skel_stripHeaders_ok : skel_stripHeaders = ([
  "return http.HandlerFunc(func(rw http.ResponseWriter, req *http.Requ",
  "func{",
  "req.Header.Del",
  "next.ServeHTTP"] : List String) := rfl

theorem skel_injectRequestHeaders_ok : skel_injectRequestHeaders = ([
  "return http.HandlerFunc(func(rw http.ResponseWriter, req *http.Requ",
  "func{",
  "next.ServeHTTP"] : List String) := rfl

theorem skel_injectResponseHeaders_ok : skel_injectResponseHeaders = ([
  "return http.HandlerFunc(func(rw http.ResponseWriter, req *http.Requ",
  "func{",
  "next.ServeHTTP"] : List String) := rfl

theorem skel_NewRequestHeaderInjector_ok : skel_NewRequestHeaderInjector = ([
  "if err != nil",
  "return nil, fmt.Errorf(\"error building request header injector: %v\", err",
  "if strip != nil",
  "return alice.New(strip, headerInjector).Then, nil",
  "alice.New",
  "return headerInjector, nil"] : List String) := rfl

theorem skel_flattenHeaders_ok : skel_flattenHeaders = ([
  "if len(values) > 1 && name != \"Set-Cookie\"",
  "headers.Set",
  "strings.Join"] : List String) := rfl

theorem skel_newClaimInjector_ok : skel_newClaimInjector = ([
  "case source.BasicAuthPassword != nil",
  "if err != nil",
  "return nil, fmt.Errorf(\"error loading basicAuthPassword: %v\", err)",
  "return newInjectorFunc(func(header http.Header, session *sessionsap, nil",
  "func{",
  "session.GetClaim",
  "if claim == \"\"",
  "header.Add",
  "fmt.Sprintf",
  "base64.StdEncoding.EncodeToString",
  "case source.Prefix != \"\"",
  "return newInjectorFunc(func(header http.Header, session *sessionsap, nil",
  "func{",
  "session.GetClaim",
  "if claim == \"\"",
  "header.Add",
  "case ",
  "return newInjectorFunc(func(header http.Header, session *sessionsap, nil",
  "func{",
  "session.GetClaim",
  "if claim == \"\"",
  "header.Add"] : List String) := rfl

theorem flags_headers_ok : flags_headers = ([
  "String basic-auth-password = \"\"",
  "Bool pass-access-token = false",
  "Bool pass-authorization-header = false",
  "Bool pass-basic-auth = true",
  "Bool pass-user-headers = true",
  "Bool prefer-email-to-user = false",
  "Bool set-authorization-header = false",
  "Bool set-basic-auth = false",
  "Bool set-xauthrequest = false",
  "Bool skip-auth-strip-headers = true"] : List String) := rfl

theorem optionTags_headers_ok : optionTags_headers = ([
  "basic-auth-password basic_auth_password LegacyHeaders.BasicAuthPassword string",
  "pass-access-token pass_access_token LegacyHeaders.PassAccessToken bool",
  "pass-authorization-header pass_authorization_header LegacyHeaders.PassAuthorization bool",
  "pass-basic-auth pass_basic_auth LegacyHeaders.PassBasicAuth bool",
  "pass-user-headers pass_user_headers LegacyHeaders.PassUserHeaders bool",
  "prefer-email-to-user prefer_email_to_user LegacyHeaders.PreferEmailToUser bool",
  "set-authorization-header set_authorization_header LegacyHeaders.SetAuthorization bool",
  "set-basic-auth set_basic_auth LegacyHeaders.SetBasicAuth bool",
  "set-xauthrequest set_xauthrequest LegacyHeaders.SetXAuthRequest bool",
  "skip-auth-strip-headers skip_auth_strip_headers LegacyHeaders.SkipAuthStripHeaders bool"] : List String) := rfl

theorem cfgText_legacyHeaders_ok : cfgText_legacyHeaders = ([
  "func LegacyHeaders.convert {",
  "{ return l.getRequestHeaders(), l.getResponseHeaders() }",
  "func LegacyHeaders.getRequestHeaders {",
  "{ requestHeaders := []Header{} if l.PassBasicAuth && l.BasicAuthPassword != \"\" { requestHeaders = append(requestHeaders, getBasicAuthHeader(l.PreferEmailToUser, l.BasicAuthPassword)) } if l.PassBasicAuth || l.PassUserHeaders { requestHeaders = append(requestHeaders, getPassUserHeaders(l.PreferEmailToUser)...) requestHeaders = append(requestHeaders, getPreferredUsernameHeader()) } if l.PassAccessToken { requestHeaders = append(requestHeaders, getPassAccessTokenHeader()) } if l.PassAuthorization { requestHeaders = append(requestHeaders, getAuthorizationHeader()) } for i := range requestHeaders { requestHeaders[i].PreserveRequestValue = !l.SkipAuthStripHeaders } return requestHeaders }",
  "func LegacyHeaders.getResponseHeaders {",
  "{ responseHeaders := []Header{} if l.SetXAuthRequest { responseHeaders = append(responseHeaders, getXAuthRequestHeaders()...) if l.PassAccessToken { responseHeaders = append(responseHeaders, getXAuthRequestAccessTokenHeader()) } } if l.SetBasicAuth { responseHeaders = append(responseHeaders, getBasicAuthHeader(l.PreferEmailToUser, l.BasicAuthPassword)) } if l.SetAuthorization { responseHeaders = append(responseHeaders, getAuthorizationHeader()) } return responseHeaders }",
  "func getBasicAuthHeader {",
  "{ claim := \"user\" if preferEmailToUser { claim = \"email\" } return Header{ Name: \"Authorization\", Values: []HeaderValue{ { ClaimSource: &ClaimSource{ Claim: claim, Prefix: \"Basic \", BasicAuthPassword: &SecretSource{ Value: []byte(basicAuthPassword), }, }, }, }, } }",
  "func getPassUserHeaders {",
  "{ headers := []Header{ { Name: \"X-Forwarded-Groups\", Values: []HeaderValue{ { ClaimSource: &ClaimSource{ Claim: \"groups\", }, }, }, }, } if preferEmailToUser { return append(headers, Header{ Name: \"X-Forwarded-User\", Values: []HeaderValue{ { ClaimSource: &ClaimSource{ Claim: \"email\", }, }, }, }, ) } return append(headers, Header{ Name: \"X-Forwarded-User\", Values: []HeaderValue{ { ClaimSource: &ClaimSource{ Claim: \"user\", }, }, }, }, Header{ Name: \"X-Forwarded-Email\", Values: []HeaderValue{ { ClaimSource: &ClaimSource{ Claim: \"email\", }, }, }, }, ) }",
  "func getPassAccessTokenHeader {",
  "{ return Header{ Name: \"X-Forwarded-Access-Token\", Values: []HeaderValue{ { ClaimSource: &ClaimSource{ Claim: \"access_token\", }, }, }, } }",
  "func getAuthorizationHeader {",
  "{ return Header{ Name: \"Authorization\", Values: []HeaderValue{ { ClaimSource: &ClaimSource{ Claim: \"id_token\", Prefix: \"Bearer \", }, }, }, } }",
  "func getPreferredUsernameHeader {",
  "{ return Header{ Name: \"X-Forwarded-Preferred-Username\", Values: []HeaderValue{ { ClaimSource: &ClaimSource{ Claim: \"preferred_username\", }, }, }, } }",
  "func getXAuthRequestHeaders {",
  "{ headers := []Header{ { Name: \"X-Auth-Request-User\", Values: []HeaderValue{ { ClaimSource: &ClaimSource{ Claim: \"user\", }, }, }, }, { Name: \"X-Auth-Request-Email\", Values: []HeaderValue{ { ClaimSource: &ClaimSource{ Claim: \"email\", }, }, }, }, { Name: \"X-Auth-Request-Preferred-Username\", Values: []HeaderValue{ { ClaimSource: &ClaimSource{ Claim: \"preferred_username\", }, }, }, }, { Name: \"X-Auth-Request-Groups\", Values: []HeaderValue{ { ClaimSource: &ClaimSource{ Claim: \"groups\", }, }, }, }, } return headers }",
  "func getXAuthRequestAccessTokenHeader {",
  "{ return Header{ Name: \"X-Auth-Request-Access-Token\", Values: []HeaderValue{ { ClaimSource: &ClaimSource{ Claim: \"access_token\", }, }, }, } }"] : List String) := rfl

theorem cfgText_loader_ok : cfgText_loader = ([
  "func loadConfiguration {",
  "{ if alphaConfig != \"\" { logger.Printf(\"WARNING: You are using alpha configuration. The structure in this configuration file may change without notice. You MUST remove conflicting options from your existing configuration.\") return loadAlphaOptions(config, alphaConfig, extraFlags, args) } return loadLegacyOptions(config, extraFlags, args) }",
  "func loadLegacyOptions {",
  "{ optionsFlagSet := options.NewLegacyFlagSet() optionsFlagSet.AddFlagSet(extraFlags) if err := optionsFlagSet.Parse(args); err != nil { return nil, fmt.Errorf(\"failed to parse flags: %v\", err) } legacyOpts := options.NewLegacyOptions() if err := options.Load(config, optionsFlagSet, legacyOpts); err != nil { return nil, fmt.Errorf(\"failed to load config: %v\", err) } opts, err := legacyOpts.ToOptions() if err != nil { return nil, fmt.Errorf(\"failed to convert config: %v\", err) } return opts, nil }",
  "func loadAlphaOptions {",
  "{ opts, err := loadOptions(config, extraFlags, args) if err != nil { return nil, fmt.Errorf(\"failed to load core options: %v\", err) } alphaOpts := &options.AlphaOptions{} if err := options.LoadYAML(alphaConfig, alphaOpts); err != nil { return nil, fmt.Errorf(\"failed to load alpha options: %v\", err) } alphaOpts.MergeInto(opts) return opts, nil }",
  "func loadOptions {",
  "{ optionsFlagSet := options.NewFlagSet() optionsFlagSet.AddFlagSet(extraFlags) if err := optionsFlagSet.Parse(args); err != nil { return nil, fmt.Errorf(\"failed to parse flags: %v\", err) } opts := options.NewOptions() if err := options.Load(config, optionsFlagSet, opts); err != nil { return nil, fmt.Errorf(\"failed to load config: %v\", err) } return opts, nil }",
  "func Load {",
  "{ v := viper.New() v.SetConfigFile(configFileName) v.SetConfigType(\"toml\") v.SetEnvPrefix(\"OAUTH2_PROXY\") v.AutomaticEnv() v.SetTypeByDefaultValue(true) if configFileName != \"\" { err := v.ReadInConfig() if err != nil { return fmt.Errorf(\"unable to load config file: %w\", err) } } err := registerFlags(v, \"\", flagSet, into) if err != nil { return fmt.Errorf(\"unable to register flags: %w\", err) } err = v.UnmarshalExact(into, decodeFromCfgTag) if err != nil { return fmt.Errorf(\"error unmarshalling config: %w\", err) } return nil }",
  "func registerFlags {",
  "{ val := reflect.ValueOf(options) var typ reflect.Type if val.Kind() == reflect.Ptr { typ = val.Elem().Type() } else { typ = val.Type() } for i := 0; i < typ.NumField(); i++ { field := typ.Field(i) fieldV := reflect.Indirect(val).Field(i) fieldName := strings.Join([]string{prefix, field.Name}, \".\") cfgName := field.Tag.Get(\"cfg\") if cfgName == \",internal\" { continue } if isUnexported(field.Name) { continue } if field.Type.Kind() == reflect.Struct { if cfgName != \",squash\" { return fmt.Errorf(\"field %q does not have required cfg tag: `,squash`\", fieldName) } err := registerFlags(v, fieldName, flagSet, fieldV.Interface()) if err != nil { return err } continue } flagName := field.Tag.Get(\"flag\") if flagName == \"\" || cfgName == \"\" { return fmt.Errorf(\"field %q does not have required tags (cfg, flag)\", fieldName) } if flagSet == nil { return fmt.Errorf(\"flagset cannot be nil\") } f := flagSet.Lookup(flagName) if f == nil { return fmt.Errorf(\"field %q does not have a registered flag\", flagName) } err := v.BindPFlag(cfgName, f) if err != nil { return fmt.Errorf(\"error binding flag for field %q: %w\", fieldName, err) } } return nil }",
  "func LoadYAML {",
  "{ buffer, err := loadAndParseYaml(configFileName) if err != nil { return err } if err := yaml.UnmarshalStrict(buffer, into, yaml.DisallowUnknownFields); err != nil { return fmt.Errorf(\"error unmarshalling config: %w\", err) } return nil }",
  "func loadAndParseYaml {",
  "{ if configFileName == \"\" { return nil, errors.New(\"no configuration file provided\") } unparsedBuffer, err := os.ReadFile(configFileName) if err != nil { return nil, fmt.Errorf(\"unable to load config file: %w\", err) } buffer, err := envsubst.Bytes(unparsedBuffer) if err != nil { return nil, fmt.Errorf(\"error in substituting env variables : %w\", err) } return buffer, nil }",
  "func AlphaOptions.MergeInto {",
  "{ opts.UpstreamServers = a.UpstreamConfig opts.InjectRequestHeaders = a.InjectRequestHeaders opts.InjectResponseHeaders = a.InjectResponseHeaders opts.Server = a.Server opts.MetricsServer = a.MetricsServer opts.Providers = a.Providers }",
  "func LegacyOptions.ToOptions {",
  "{ upstreams, err := l.LegacyUpstreams.convert() if err != nil { return nil, fmt.Errorf(\"error converting upstreams: %v\", err) } l.Options.UpstreamServers = upstreams l.Options.InjectRequestHeaders, l.Options.InjectResponseHeaders = l.LegacyHeaders.convert() l.Options.Server, l.Options.MetricsServer = l.LegacyServer.convert() l.Options.LegacyPreferEmailToUser = l.LegacyHeaders.PreferEmailToUser providers, err := l.LegacyProvider.convert() if err != nil { return nil, fmt.Errorf(\"error converting provider: %v\", err) } l.Options.Providers = providers return &l.Options, nil }",
  "func NewLegacyOptions {",
  "{ return &LegacyOptions{ LegacyUpstreams: LegacyUpstreams{ PassHostHeader: true, ProxyWebSockets: true, FlushInterval: DefaultUpstreamFlushInterval, Timeout: DefaultUpstreamTimeout, }, LegacyHeaders: LegacyHeaders{ PassBasicAuth: true, PassUserHeaders: true, SkipAuthStripHeaders: true, }, LegacyServer: LegacyServer{ HTTPAddress: \"127.0.0.1:4180\", HTTPSAddress: \":443\", }, LegacyProvider: LegacyProvider{ ProviderType: \"google\", AzureTenant: \"common\", ApprovalPrompt: \"force\", UserIDClaim: \"email\", OIDCEmailClaim: \"email\", OIDCGroupsClaim: \"groups\", OIDCAudienceClaims: []string{\"aud\"}, OIDCExtraAudiences: []string{}, InsecureOIDCSkipNonce: true, }, Options: *NewOptions(), } }",
  "func NewOptions {",
  "{ return &Options{ ProxyPrefix: \"/oauth2\", Providers: providerDefaults(), PingPath: \"/ping\", ReadyPath: \"/ready\", RealClientIPHeader: \"X-Real-IP\", ForceHTTPS: false, Cookie: cookieDefaults(), Session: sessionOptionsDefaults(), Templates: templatesDefaults(), SkipAuthPreflight: false, Logging: loggingDefaults(), } }"] : List String) := rfl

end O2P.Expect.C07
