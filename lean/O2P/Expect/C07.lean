import O2P.Gen.Facts
/-! Reviewed expectations about the source facts that the model parts used for C07 encode.
    Written by bin/mkexpect.py from reviewed facts; a change of /repo that alters one of these facts breaks the `rfl`. -/
namespace O2P.Expect.C07
open O2P.Facts

theorem skel_OAuthProxy_Proxy_ok : skel_OAuthProxy_Proxy = ([
  "p.getAuthenticatedSession",
  "case nil",
  "p.addHeadersForProxying",
  "p.headersChain.Then(p.upstreamProxy).ServeHTTP",
  "p.headersChain.Then",
  "case ErrNeedsLogin",
  "if p.forceJSONErrors || isAjax(req) || p.isAPIPath(req)",
  "p.errorJSON",
  "return",
  "if p.SkipProviderButton",
  "p.doOAuthStart",
  "p.SignInPage",
  "case ErrAccessDenied",
  "if p.forceJSONErrors",
  "p.errorJSON",
  "p.ErrorPage",
  "case ",
  "p.ErrorPage"] : List String) := rfl

theorem skel_OAuthProxy_AuthOnly_ok : skel_OAuthProxy_AuthOnly = ([
  "p.getAuthenticatedSession",
  "if err != nil",
  "return",
  "if !authOnlyAuthorize(req, session)",
  "authOnlyAuthorize",
  "return",
  "p.addHeadersForProxying",
  "p.headersChain.Then(http.HandlerFunc(func(rw http.ResponseWriter, _ *http.Request) { rw.WriteHeader(http.StatusAccepted) })).ServeHTTP",
  "p.headersChain.Then",
  "func{",
  "rw.WriteHeader"] : List String) := rfl

theorem skel_stripHeaders_ok : skel_stripHeaders = ([
  "return http.HandlerFunc(func(rw http.ResponseWriter, req *http.Requ",
  "func{",
  "req.Header.Del",
  "next.ServeHTTP"] : List String) := rfl

theorem skel_injectRequestHeaders_ok : skel_injectRequestHeaders = ([
  "return http.HandlerFunc(func(rw http.ResponseWriter, req *http.Requ",
  "func{",
  "next.ServeHTTP"] : List String) := rfl

theorem skel_injectResponseHeaders_ok : skel_injectResponseHeaders = ([
  "return http.HandlerFunc(func(rw http.ResponseWriter, req *http.Requ",
  "func{",
  "next.ServeHTTP"] : List String) := rfl

theorem skel_NewRequestHeaderInjector_ok : skel_NewRequestHeaderInjector = ([
  "if err != nil",
  "return nil, fmt.Errorf(\"error building request header injector: %v\", err",
  "if strip != nil",
  "return alice.New(strip, headerInjector).Then, nil",
  "alice.New",
  "return headerInjector, nil"] : List String) := rfl

theorem skel_flattenHeaders_ok : skel_flattenHeaders = ([
  "if len(values) > 1 && name != \"Set-Cookie\"",
  "headers.Set",
  "strings.Join"] : List String) := rfl

theorem skel_newClaimInjector_ok : skel_newClaimInjector = ([
  "case source.BasicAuthPassword != nil",
  "if err != nil",
  "return nil, fmt.Errorf(\"error loading basicAuthPassword: %v\", err)",
  "return newInjectorFunc(func(header http.Header, session *sessionsap, nil",
  "func{",
  "session.GetClaim",
  "if claim == \"\"",
  "header.Add",
  "fmt.Sprintf",
  "base64.StdEncoding.EncodeToString",
  "case source.Prefix != \"\"",
  "return newInjectorFunc(func(header http.Header, session *sessionsap, nil",
  "func{",
  "session.GetClaim",
  "if claim == \"\"",
  "header.Add",
  "case ",
  "return newInjectorFunc(func(header http.Header, session *sessionsap, nil",
  "func{",
  "session.GetClaim",
  "if claim == \"\"",
  "header.Add"] : List String) := rfl

end O2P.Expect.C07
