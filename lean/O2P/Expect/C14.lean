import O2P.Gen.Facts
/-! Reviewed expectations about the source facts that the model parts used for C14 encode.
    Written by bin/mkexpect.py from reviewed facts; a change of /repo that alters one of these facts breaks the `rfl`. -/
namespace O2P.Expect.C14
open O2P.Facts

theorem skel_OAuthProxy_OAuthCallback_ok : skel_OAuthProxy_OAuthCallback = ([
  "if err != nil",
  "p.ErrorPage",
  "return",
  "req.Form.Get",
  "if errorString != \"\"",
  "fmt.Sprintf",
  "p.ErrorPage",
  "return",
  "decodeState",
  "req.Form.Get",
  "if err != nil",
  "p.ErrorPage",
  "return",
  "cookies.GenerateCookieName",
  "cookies.LoadCSRFCookie",
  "if err != nil",
  "p.ErrorPage",
  "return",
  "p.redeemCode",
  "csrf.GetCodeVerifier",
  "if err != nil",
  "p.ErrorPage",
  "return",
  "p.enrichSessionState",
  "if err != nil",
  "p.ErrorPage",
  "return",
  "csrf.ClearCookie",
  "if !csrf.CheckOAuthState(nonce)",
  "csrf.CheckOAuthState",
  "p.ErrorPage",
  "return",
  "csrf.SetSessionNonce",
  "if !p.provider.ValidateSession(req.Context(), session)",
  "p.provider.ValidateSession",
  "p.ErrorPage",
  "return",
  "if !p.redirectValidator.IsValidRedirect(appRedirect)",
  "p.redirectValidator.IsValidRedirect",
  "p.provider.Authorize",
  "if err != nil",
  "if p.Validator(session.Email) && authorized",
  "p.Validator",
  "p.SaveSession",
  "if err != nil",
  "p.ErrorPage",
  "return",
  "http.Redirect",
  "p.ErrorPage"] : List String) := rfl

theorem skel_OAuthProxy_redeemCode_ok : skel_OAuthProxy_redeemCode = ([
  "req.Form.Get",
  "if code == \"\"",
  "return nil, providers.ErrMissingCode",
  "p.getOAuthRedirectURI",
  "if err != nil",
  "return nil, err",
  "if s.CreatedAt == nil",
  "s.CreatedAtNow",
  "if s.ExpiresOn == nil",
  "return s, nil"] : List String) := rfl

theorem skel_OIDCProvider_createSession_ok : skel_OIDCProvider_createSession = ([
  "p.verifyIDToken",
  "if err != nil",
  "case ErrMissingIDToken",
  "if !refresh",
  "return nil, errors.New(\"token response did not contain an id_token\")",
  "errors.New",
  "case ",
  "return nil, fmt.Errorf(\"could not verify id_token: %v\", err)",
  "p.buildSessionFromClaims",
  "if err != nil",
  "return nil, err",
  "ss.CreatedAtNow",
  "return ss, nil"] : List String) := rfl

theorem skel_OIDCProvider_RefreshSession_ok : skel_OIDCProvider_RefreshSession = ([
  "if s == nil || s.RefreshToken == \"\"",
  "return false, nil",
  "p.redeemRefreshToken",
  "if err != nil",
  "return false, fmt.Errorf(\"unable to redeem refresh token: %v\", err)",
  "return true, nil"] : List String) := rfl

theorem skel_storedSessionLoader_refreshSession_ok : skel_storedSessionLoader_refreshSession = ([
  "s.sessionRefresher",
  "if err != nil && !errors.Is(err, providers.ErrNotImplemented)",
  "return fmt.Errorf(\"error refreshing tokens: %v\", err)",
  "if errors.Is(err, providers.ErrNotImplemented)",
  "if !refreshed",
  "return nil",
  "session.CreatedAtNow",
  "s.store.Save",
  "if err != nil",
  "return fmt.Errorf(\"error saving session: %v\", err)",
  "return nil"] : List String) := rfl

theorem skel_idTokenVerifier_Verify_ok : skel_idTokenVerifier_Verify = ([
  "v.verifier.Verify",
  "if err != nil",
  "return nil, fmt.Errorf(\"failed to verify token: %v\", err)",
  "if err != nil",
  "token.Claims",
  "return nil, fmt.Errorf(\"failed to parse default id_token claims: %v\", er",
  "if !isValidAudience",
  "v.verifyAudience",
  "return nil, err",
  "return token, err"] : List String) := rfl

theorem skel_builder_Do_ok : skel_builder_Do = ([
  "if r.result != nil",
  "return r.result",
  "if r.context == nil",
  "return r.do()",
  "r.do"] : List String) := rfl

theorem skel_builder_do_ok : skel_builder_do = ([
  "if err != nil",
  "return r.result",
  "DefaultHTTPClient.Do",
  "if err != nil",
  "return r.result",
  "defer",
  "io.ReadAll",
  "if err != nil",
  "return r.result",
  "return r.result"] : List String) := rfl

theorem skel_result_UnmarshalInto_ok : skel_result_UnmarshalInto = ([
  "if err != nil",
  "return err",
  "if err != nil",
  "json.Unmarshal",
  "return fmt.Errorf(\"error unmarshalling body: %v\", err)",
  "return nil"] : List String) := rfl

theorem skel_result_getBodyForUnmarshal_ok : skel_result_getBodyForUnmarshal = ([
  "if r.Error() != nil",
  "return nil, r.Error()",
  "if r.StatusCode() != http.StatusOK",
  "return nil, fmt.Errorf(\"unexpected status \\\"%d\\\": %s\", r.StatusCode(), r",
  "return r.Body(), nil"] : List String) := rfl

theorem skel_OIDCProvider_redeemRefreshToken_ok : skel_OIDCProvider_redeemRefreshToken = ([
  "if err != nil",
  "return err",
  "time.Now().Add",
  "c.TokenSource(ctx, t).Token",
  "c.TokenSource",
  "if err != nil",
  "return fmt.Errorf(\"failed to get token: %v\", err)",
  "p.createSession",
  "if err != nil",
  "return fmt.Errorf(\"unable create new session state from response: %",
  "if newSession.IDToken != \"\"",
  "return nil"] : List String) := rfl

theorem skel_OIDCProvider_Redeem_ok : skel_OIDCProvider_Redeem = ([
  "if err != nil",
  "return nil, err",
  "if codeVerifier != \"\"",
  "c.Exchange",
  "if err != nil",
  "return nil, fmt.Errorf(\"token exchange failed: %v\", err)",
  "return p.createSession(ctx, token, false)",
  "p.createSession"] : List String) := rfl

theorem skel_ProviderData_buildSessionFromClaims_ok : skel_ProviderData_buildSessionFromClaims = ([
  "if rawIDToken == \"\"",
  "return ss, nil",
  "if err != nil",
  "return nil, err",
  "if err != nil",
  "extractor.GetClaimInto",
  "return nil, err",
  "if verifyEmail",
  "extractor.GetClaimInto",
  "if err != nil",
  "return nil, err",
  "if exists && !verified",
  "return nil, fmt.Errorf(\"email in id_token (%s) isn't verified\", ss.Email",
  "return ss, nil"] : List String) := rfl

theorem skel_ProviderData_verifyIDToken_ok : skel_ProviderData_verifyIDToken = ([
  "if strings.TrimSpace(rawIDToken) == \"\"",
  "strings.TrimSpace",
  "return nil, ErrMissingIDToken",
  "if p.Verifier == nil",
  "return nil, ErrMissingOIDCVerifier",
  "return p.Verifier.Verify(ctx, rawIDToken)",
  "p.Verifier.Verify"] : List String) := rfl

theorem skel_claimExtractor_GetClaim_ok : skel_claimExtractor_GetClaim = ([
  "if claim == \"\"",
  "return nil, false, nil",
  "if value != nil",
  "getClaimFrom",
  "return value, true, nil",
  "if c.profileClaims == nil",
  "c.loadProfileClaims",
  "if err != nil",
  "return nil, false, fmt.Errorf(\"failed to fetch claims from profile URL: %v\", er",
  "if value != nil",
  "getClaimFrom",
  "return value, true, nil",
  "return nil, false, nil"] : List String) := rfl

theorem skel_claimExtractor_GetClaimInto_ok : skel_claimExtractor_GetClaimInto = ([
  "c.GetClaim",
  "if err != nil",
  "return false, fmt.Errorf(\"could not get claim %q: %v\", claim, err)",
  "if !exists",
  "return false, nil",
  "if err != nil",
  "coerceClaim",
  "return false, fmt.Errorf(\"could no coerce claim: %v\", err)",
  "return true, nil"] : List String) := rfl

theorem skel_CreateTokenToSessionFunc_ok : skel_CreateTokenToSessionFunc = ([
  "return func(ctx context.Context, token string) (*sessionsapi.Sessio",
  "func{",
  "if err != nil",
  "return nil, err",
  "if err != nil",
  "idToken.Claims",
  "return nil, fmt.Errorf(\"failed to parse bearer token claims: %v\", err)",
  "if claims.Email == \"\"",
  "if claims.Verified != nil && !*claims.Verified",
  "return nil, fmt.Errorf(\"email in id_token (%s) isn't verified\", claims.E",
  "return newSession, nil"] : List String) := rfl

end O2P.Expect.C14
