import O2P.Gen.Facts
/-! Reviewed expectations about the source facts that the model parts used for C14 encode.
    Written by bin/mkexpect.py from reviewed facts; a change of /repo that alters one of these facts breaks the `rfl`. -/
namespace O2P.Expect.C14
open O2P.Facts

theorem skel_OAuthProxy_OAuthCallback_ok : skel_OAuthProxy_OAuthCallback = ([
  "if err != nil",
  "p.ErrorPage",
  "return",
  "req.Form.Get",
  "if errorString != \"\"",
  "p.ErrorPage",
  "return",
  "decodeState",
  "req.Form.Get",
  "if err != nil",
  "p.ErrorPage",
  "return",
  "cookies.GenerateCookieName",
  "cookies.LoadCSRFCookie",
  "if err != nil",
  "p.ErrorPage",
  "return",
  "p.redeemCode",
  "csrf.GetCodeVerifier",
  "if err != nil",
  "p.ErrorPage",
  "return",
  "p.enrichSessionState",
  "if err != nil",
  "p.ErrorPage",
  "return",
  "csrf.ClearCookie",
  "if !csrf.CheckOAuthState(nonce)",
  "csrf.CheckOAuthState",
  "p.ErrorPage",
  "return",
  "csrf.SetSessionNonce",
  "if !p.provider.ValidateSession(req.Context(), session)",
  "p.provider.ValidateSession",
  "p.ErrorPage",
  "return",
  "if !p.redirectValidator.IsValidRedirect(appRedirect)",
  "p.redirectValidator.IsValidRedirect",
  "p.provider.Authorize",
  "if err != nil",
  "if p.Validator(session.Email) && authorized",
  "p.Validator",
  "p.SaveSession",
  "if err != nil",
  "p.ErrorPage",
  "return",
  "http.Redirect",
  "p.ErrorPage"] : List String) := rfl

theorem skel_OAuthProxy_redeemCode_ok : skel_OAuthProxy_redeemCode = ([
  "req.Form.Get",
  "if code == \"\"",
  "return nil, providers.ErrMissingCode",
  "p.getOAuthRedirectURI",
  "if err != nil",
  "return nil, err",
  "if s.CreatedAt == nil",
  "s.CreatedAtNow",
  "if s.ExpiresOn == nil",
  "return s, nil"] : List String) := rfl

theorem skel_OIDCProvider_createSession_ok : skel_OIDCProvider_createSession = ([
  "p.verifyIDToken",
  "if err != nil",
  "case ErrMissingIDToken",
  "if !refresh",
  "return nil, errors.New(\"token response did not contain an id_token\")",
  "case ",
  "return nil, fmt.Errorf(\"could not verify id_token: %v\", err)",
  "p.buildSessionFromClaims",
  "if err != nil",
  "return nil, err",
  "ss.CreatedAtNow",
  "return ss, nil"] : List String) := rfl

theorem skel_OIDCProvider_RefreshSession_ok : skel_OIDCProvider_RefreshSession = ([
  "if s == nil || s.RefreshToken == \"\"",
  "return false, nil",
  "p.redeemRefreshToken",
  "if err != nil",
  "return false, fmt.Errorf(\"unable to redeem refresh token: %v\", err)",
  "return true, nil"] : List String) := rfl

theorem skel_storedSessionLoader_refreshSession_ok : skel_storedSessionLoader_refreshSession = ([
  "s.sessionRefresher",
  "if err != nil && !errors.Is(err, providers.ErrNotImplemented)",
  "return fmt.Errorf(\"error refreshing tokens: %v\", err)",
  "if errors.Is(err, providers.ErrNotImplemented)",
  "if !refreshed",
  "return nil",
  "session.CreatedAtNow",
  "s.store.Save",
  "if err != nil",
  "return fmt.Errorf(\"error saving session: %v\", err)",
  "return nil"] : List String) := rfl

theorem skel_idTokenVerifier_Verify_ok : skel_idTokenVerifier_Verify = ([
  "v.verifier.Verify",
  "if err != nil",
  "return nil, fmt.Errorf(\"failed to verify token: %v\", err)",
  "if err != nil",
  "token.Claims",
  "return nil, fmt.Errorf(\"failed to parse default id_token claims: %v\", er",
  "if !isValidAudience",
  "v.verifyAudience",
  "return nil, err",
  "return token, err"] : List String) := rfl

end O2P.Expect.C14
