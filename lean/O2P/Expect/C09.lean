import O2P.Gen.Facts
/-! Reviewed expectations about the source facts that the model parts used for C09 encode.
    Written by bin/mkexpect.py from reviewed facts; a change of /repo that alters one of these facts breaks the `rfl`. -/
namespace O2P.Expect.C09
open O2P.Facts

theorem validate_windowArgs_ok : validate_windowArgs = (["time.Now().Add(expiration * -1)", "time.Now().Add(time.Minute * 5)"] : List String) := rfl

theorem storeLoad_validateArgs_ok : storeLoad_validateArgs = (["c, s.Cookie.Secret, s.Cookie.Expire"] : List String) := rfl

theorem ticket_validateArgs_ok : ticket_validateArgs = (["requestCookie, cookieOpts.Secret, cookieOpts.Expire"] : List String) := rfl

theorem csrf_validateArgs_ok : csrf_validateArgs = (["cookie, opts.Secret, opts.Expire"] : List String) := rfl

theorem ticket_saveArgs_ok : ticket_saveArgs = (["t.id, ciphertext, t.options.Expire"] : List String) := rfl

theorem skel_storedSessionLoader_refreshSession_ok : skel_storedSessionLoader_refreshSession = ([
  "s.sessionRefresher",
  "if err != nil && !errors.Is(err, providers.ErrNotImplemented)",
  "return fmt.Errorf(\"error refreshing tokens: %v\", err)",
  "if errors.Is(err, providers.ErrNotImplemented)",
  "if !refreshed",
  "return nil",
  "session.CreatedAtNow",
  "s.store.Save",
  "if err != nil",
  "return fmt.Errorf(\"error saving session: %v\", err)",
  "return nil"] : List String) := rfl

theorem skel_Validate_ok : skel_Validate = ([
  "strings.Split",
  "if len(parts) != 3",
  "return",
  "if checkSignature(parts[2], seed, cookie.Name, parts[0], parts[1])",
  "strconv.Atoi",
  "if err != nil",
  "return",
  "if (expiration == time.Duration(0)) || (t.After(time.Now().Add(expiration*-1)) && t.Before(time.Now().Add(time.Minute*5)))",
  "t.After",
  "time.Now().Add",
  "t.Before",
  "time.Now().Add",
  "base64.URLEncoding.DecodeString",
  "if err == nil",
  "return",
  "return"] : List String) := rfl

theorem skel_decodeCSRFCookie_ok : skel_decodeCSRFCookie = ([
  "encryption.Validate",
  "if !ok",
  "return nil, errors.New(\"CSRF cookie failed validation\")",
  "errors.New",
  "decrypt",
  "if err != nil",
  "return nil, err",
  "msgpack.Unmarshal",
  "if err != nil",
  "return nil, fmt.Errorf(\"error unmarshalling data to CSRF: %v\", err)",
  "return csrf, nil"] : List String) := rfl

theorem skel_decodeTicketFromRequest_ok : skel_decodeTicketFromRequest = ([
  "req.Cookie",
  "if err != nil",
  "return nil, err",
  "encryption.Validate",
  "if !ok",
  "return nil, fmt.Errorf(\"session ticket cookie failed validation: %v\", er",
  "return decodeTicket(string(val), cookieOpts)"] : List String) := rfl

theorem skel_ticket_saveSession_ok : skel_ticket_saveSession = ([
  "if err != nil",
  "return err",
  "if err != nil",
  "return fmt.Errorf(\"failed to encode the session state with the tick",
  "return saver(t.id, ciphertext, t.options.Expire)"] : List String) := rfl

theorem providerValidate_ok : providerValidate = ([
  "## providers/azure.go AzureProvider.ValidateSession",
  "return validateToken(ctx, p, s.AccessToken, makeAzureHeader(s.Acces",
  "validateToken",
  "## providers/digitalocean.go DigitalOceanProvider.ValidateSession",
  "return validateToken(ctx, p, s.AccessToken, makeOIDCHeader(s.Access",
  "validateToken",
  "makeOIDCHeader",
  "## providers/facebook.go FacebookProvider.ValidateSession",
  "return validateToken(ctx, p, s.AccessToken, makeOIDCHeader(s.Access",
  "validateToken",
  "makeOIDCHeader",
  "## providers/github.go GitHubProvider.ValidateSession",
  "return validateToken(ctx, p, s.AccessToken, makeGitHubHeader(s.Acce",
  "validateToken",
  "## providers/keycloak.go KeycloakProvider.ValidateSession",
  "return validateToken(ctx, p, s.AccessToken, makeOIDCHeader(s.Access",
  "validateToken",
  "makeOIDCHeader",
  "## providers/linkedin.go LinkedInProvider.ValidateSession",
  "return validateToken(ctx, p, s.AccessToken, makeLinkedInHeader(s.Ac",
  "validateToken",
  "## providers/logingov.go LoginGovProvider.ValidateSession",
  "return validateToken(ctx, p, s.AccessToken, makeOIDCHeader(s.Access",
  "validateToken",
  "makeOIDCHeader",
  "## providers/ms_entra_id.go MicrosoftEntraIDProvider.ValidateSession",
  "p.getTenantFromToken",
  "if err != nil",
  "logger.Errorf",
  "return false",
  "if len(p.multiTenantAllowedTenants) > 0",
  "p.checkTenantMatchesTenantList",
  "if !tenantAllowed",
  "return false",
  "return p.OIDCProvider.ValidateSession(ctx, session)",
  "p.OIDCProvider.ValidateSession",
  "## providers/nextcloud.go NextcloudProvider.ValidateSession",
  "return validateToken(ctx, p, s.AccessToken, makeOIDCHeader(s.Access",
  "validateToken",
  "makeOIDCHeader",
  "## providers/oidc.go OIDCProvider.ValidateSession",
  "p.Verifier.Verify",
  "if err != nil",
  "logger.Errorf",
  "return false",
  "if p.SkipNonce",
  "return true",
  "p.checkNonce",
  "if err != nil",
  "logger.Errorf",
  "return false",
  "return true",
  "## providers/provider_default.go ProviderData.ValidateSession",
  "return validateToken(ctx, p, s.AccessToken, nil)",
  "validateToken"] : List String) := rfl

theorem skel_ProviderVerifierOptions_toOIDCConfig_ok : skel_ProviderVerifierOptions_toOIDCConfig = ([
  "return &oidc.Config{ ClientID: p.ClientID, SkipIssuerCheck: p.SkipI"] : List String) := rfl

theorem skel_Manager_Load_ok : skel_Manager_Load = ([
  "decodeTicketFromRequest",
  "if err != nil",
  "return nil, err",
  "return tckt.loadSession( func(key string) ([]byte, error) { return",
  "tckt.loadSession",
  "func{",
  "return m.Store.Load(req.Context(), key)",
  "m.Store.Load"] : List String) := rfl

theorem skel_Manager_Save_ok : skel_Manager_Save = ([
  "if s.CreatedAt == nil || s.CreatedAt.IsZero()",
  "s.CreatedAtNow",
  "decodeTicketFromRequest",
  "if err != nil",
  "newTicket",
  "if err != nil",
  "return fmt.Errorf(\"error creating a session ticket: %v\", err)",
  "tckt.saveSession",
  "func{",
  "return m.Store.Save(req.Context(), key, val, exp)",
  "m.Store.Save",
  "if err != nil",
  "return err",
  "return tckt.setCookie(rw, req, s)",
  "tckt.setCookie"] : List String) := rfl

theorem skel_storedSessionLoader_refreshSessionIfNeeded_ok : skel_storedSessionLoader_refreshSessionIfNeeded = ([
  "if !needsRefresh(s.refreshPeriod, session)",
  "needsRefresh",
  "return nil",
  "defer",
  "for !lockObtained",
  "return errors.New(\"timeout obtaining session lock\")",
  "errors.New",
  "session.ObtainLock",
  "if err != nil && !errors.Is(err, sessionsapi.ErrLockNotObtained)",
  "return fmt.Errorf(\"error occurred while trying to obtain lock: %v\",",
  "if errors.Is(err, sessionsapi.ErrLockNotObtained)",
  "defer",
  "func{",
  "if session == nil",
  "return",
  "if err != nil",
  "session.ReleaseLock",
  "s.store.Load",
  "if err != nil",
  "return fmt.Errorf(\"could not load session: %v\", err)",
  "if freshSession == nil",
  "return errors.New(\"session no longer exists, it may have been remov",
  "errors.New",
  "if !needsRefresh(s.refreshPeriod, session)",
  "needsRefresh",
  "return nil",
  "if err != nil",
  "s.refreshSession",
  "return s.validateSession(req.Context(), session)",
  "s.validateSession"] : List String) := rfl

theorem skel_MakeCookieFromOptions_ok : skel_MakeCookieFromOptions = ([
  "if domain == \"\" && len(opts.Domains) > 0",
  "strings.Join",
  "if expiration > time.Duration(0)",
  "if expiration < time.Duration(0)",
  "return c"] : List String) := rfl

theorem skel_SessionStore_makeSessionCookie_ok : skel_SessionStore_makeSessionCookie = ([
  "if strValue != \"\"",
  "encryption.SignedValue",
  "if err != nil",
  "return nil, err",
  "s.makeCookie",
  "if len(c.String()) > maxCookieLength",
  "return splitCookie(c), nil",
  "splitCookie",
  "return []*http.Cookie{c}, nil"] : List String) := rfl

theorem flags_cookie_ok : flags_cookie = ([
  "Duration cookie-csrf-expire = time.Duration(15) * time.Minute",
  "Bool cookie-csrf-per-request = false",
  "StringSlice cookie-domain = []string{}",
  "Duration cookie-expire = time.Duration(168) * time.Hour",
  "Bool cookie-httponly = true",
  "String cookie-name = \"_oauth2_proxy\"",
  "String cookie-path = \"/\"",
  "Duration cookie-refresh = time.Duration(0)",
  "String cookie-samesite = \"\"",
  "String cookie-secret = \"\"",
  "Bool cookie-secure = true"] : List String) := rfl

theorem cfgText_cookieDefaults_ok : cfgText_cookieDefaults = ([
  "func cookieDefaults {",
  "{ return Cookie{ Name: \"_oauth2_proxy\", Secret: \"\", Domains: nil, Path: \"/\", Expire: time.Duration(168) * time.Hour, Refresh: time.Duration(0), Secure: true, HTTPOnly: true, SameSite: \"\", CSRFPerRequest: false, CSRFExpire: time.Duration(15) * time.Minute, } }",
  "func sessionOptionsDefaults {",
  "{ return SessionOptions{ Type: CookieSessionStoreType, Cookie: CookieStoreOptions{ Minimal: false, }, } }"] : List String) := rfl

theorem providerRefresh_ok : providerRefresh = ([
  "## providers/adfs.go ADFSProvider.RefreshSession",
  "if err != nil || s.Email != \"\"",
  "return refreshed, err",
  "return refreshed, err",
  "## providers/azure.go AzureProvider.RefreshSession",
  "if s == nil || s.RefreshToken == \"\"",
  "return false, nil",
  "p.redeemRefreshToken",
  "if err != nil",
  "return false, fmt.Errorf(\"unable to redeem refresh token: %v\", err)",
  "fmt.Errorf",
  "return true, nil",
  "## providers/azure.go AzureProvider.redeemRefreshToken",
  "if err != nil",
  "return err",
  "params.Add",
  "params.Add",
  "params.Add",
  "params.Add",
  "requests.New",
  "params.Encode",
  "if err != nil",
  "return err",
  "s.CreatedAtNow",
  "if err != nil",
  "return nil",
  "## providers/gitlab.go GitLabProvider.RefreshSession",
  "if refreshed && err == nil",
  "return refreshed, err",
  "## providers/google.go GoogleProvider.RefreshSession",
  "if s == nil || s.RefreshToken == \"\"",
  "return false, nil",
  "p.redeemRefreshToken",
  "if err != nil",
  "return false, err",
  "if !p.groupValidator(s)",
  "return false, fmt.Errorf(\"%s is no longer in the group(s)\", s.Email)",
  "fmt.Errorf",
  "return true, nil",
  "## providers/google.go GoogleProvider.redeemRefreshToken",
  "if err != nil",
  "return err",
  "params.Add",
  "params.Add",
  "params.Add",
  "params.Add",
  "requests.New",
  "params.Encode",
  "if err != nil",
  "return err",
  "s.CreatedAtNow",
  "return nil",
  "## providers/keycloak_oidc.go KeycloakOIDCProvider.RefreshSession",
  "if err != nil || !refreshed",
  "return refreshed, err",
  "return true, p.extractRoles(ctx, s)",
  "p.extractRoles",
  "## providers/oidc.go OIDCProvider.RefreshSession",
  "if s == nil || s.RefreshToken == \"\"",
  "return false, nil",
  "p.redeemRefreshToken",
  "if err != nil",
  "return false, fmt.Errorf(\"unable to redeem refresh token: %v\", err)",
  "fmt.Errorf",
  "return true, nil",
  "## providers/oidc.go OIDCProvider.redeemRefreshToken",
  "if err != nil",
  "return err",
  "time.Now().Add",
  "c.TokenSource(ctx, t).Token",
  "c.TokenSource",
  "if err != nil",
  "return fmt.Errorf(\"failed to get token: %v\", err)",
  "fmt.Errorf",
  "p.createSession",
  "if err != nil",
  "return fmt.Errorf(\"unable create new session state from response: %",
  "fmt.Errorf",
  "if newSession.IDToken != \"\"",
  "return nil",
  "## providers/provider_default.go ProviderData.RefreshSession",
  "return false, ErrNotImplemented"] : List String) := rfl

theorem skel_OAuthProxy_redeemCode_ok : skel_OAuthProxy_redeemCode = ([
  "req.Form.Get",
  "if code == \"\"",
  "return nil, providers.ErrMissingCode",
  "p.getOAuthRedirectURI",
  "if err != nil",
  "return nil, err",
  "if s.CreatedAt == nil",
  "s.CreatedAtNow",
  "if s.ExpiresOn == nil",
  "return s, nil"] : List String) := rfl

end O2P.Expect.C09
