import O2P.Gen.Facts
/-! Reviewed expectations about the source facts that the model parts used for C09 encode.
    Written by bin/mkexpect.py from reviewed facts; a change of /repo that alters one of these facts breaks the `rfl`. -/
namespace O2P.Expect.C09
open O2P.Facts

theorem validate_windowArgs_ok : validate_windowArgs = (["time.Now().Add(expiration * -1)", "time.Now().Add(time.Minute * 5)"] : List String) := rfl

theorem storeLoad_validateArgs_ok : storeLoad_validateArgs = (["c, s.Cookie.Secret, s.Cookie.Expire"] : List String) := rfl

theorem ticket_validateArgs_ok : ticket_validateArgs = (["requestCookie, cookieOpts.Secret, cookieOpts.Expire"] : List String) := rfl

theorem csrf_validateArgs_ok : csrf_validateArgs = (["cookie, opts.Secret, opts.Expire"] : List String) := rfl

theorem ticket_saveArgs_ok : ticket_saveArgs = (["t.id, ciphertext, t.options.Expire"] : List String) := rfl

theorem skel_storedSessionLoader_refreshSession_ok : skel_storedSessionLoader_refreshSession = ([
  "s.sessionRefresher",
  "if err != nil && !errors.Is(err, providers.ErrNotImplemented)",
  "return fmt.Errorf(\"error refreshing tokens: %v\", err)",
  "if errors.Is(err, providers.ErrNotImplemented)",
  "if !refreshed",
  "return nil",
  "session.CreatedAtNow",
  "s.store.Save",
  "if err != nil",
  "return fmt.Errorf(\"error saving session: %v\", err)",
  "return nil"] : List String) := rfl

theorem skel_Validate_ok : skel_Validate = ([
  "strings.Split",
  "if len(parts) != 3",
  "return",
  "if checkSignature(parts[2], seed, cookie.Name, parts[0], parts[1])",
  "strconv.Atoi",
  "if err != nil",
  "return",
  "if (expiration == time.Duration(0)) || (t.After(time.Now().Add(expiration*-1)) && t.Before(time.Now().Add(time.Minute*5)))",
  "t.After",
  "time.Now().Add",
  "t.Before",
  "time.Now().Add",
  "base64.URLEncoding.DecodeString",
  "if err == nil",
  "return",
  "return"] : List String) := rfl

theorem skel_decodeCSRFCookie_ok : skel_decodeCSRFCookie = ([
  "encryption.Validate",
  "if !ok",
  "return nil, errors.New(\"CSRF cookie failed validation\")",
  "errors.New",
  "decrypt",
  "if err != nil",
  "return nil, err",
  "msgpack.Unmarshal",
  "if err != nil",
  "return nil, fmt.Errorf(\"error unmarshalling data to CSRF: %v\", err)",
  "return csrf, nil"] : List String) := rfl

theorem skel_decodeTicketFromRequest_ok : skel_decodeTicketFromRequest = ([
  "req.Cookie",
  "if err != nil",
  "return nil, err",
  "encryption.Validate",
  "if !ok",
  "return nil, fmt.Errorf(\"session ticket cookie failed validation: %v\", er",
  "return decodeTicket(string(val), cookieOpts)"] : List String) := rfl

theorem skel_ticket_saveSession_ok : skel_ticket_saveSession = ([
  "if err != nil",
  "return err",
  "if err != nil",
  "return fmt.Errorf(\"failed to encode the session state with the tick",
  "return saver(t.id, ciphertext, t.options.Expire)"] : List String) := rfl

end O2P.Expect.C09
