import O2P.Gen.Facts
/-! Reviewed expectations about the source facts that the model parts used for C09 encode.
    Written by bin/mkexpect.py from reviewed facts; a change of /repo that alters one of these facts breaks the `rfl`. -/
namespace O2P.Expect.C09
open O2P.Facts

theorem validate_windowArgs_ok : validate_windowArgs = (["time.Now().Add(expiration * -1)", "time.Now().Add(time.Minute * 5)"] : List String) := rfl

theorem storeLoad_validateArgs_ok : storeLoad_validateArgs = (["c, s.Cookie.Secret, s.Cookie.Expire"] : List String) := rfl

theorem ticket_validateArgs_ok : ticket_validateArgs = (["requestCookie, cookieOpts.Secret, cookieOpts.Expire"] : List String) := rfl

theorem csrf_validateArgs_ok : csrf_validateArgs = (["cookie, opts.Secret, opts.Expire"] : List String) := rfl

theorem ticket_saveArgs_ok : ticket_saveArgs = (["t.id, ciphertext, t.options.Expire"] : List String) := rfl

theorem skel_storedSessionLoader_refreshSession_ok : skel_storedSessionLoader_refreshSession = ([
  "s.sessionRefresher",
  "if err != nil && !errors.Is(err, providers.ErrNotImplemented)",
  "return fmt.Errorf(\"error refreshing tokens: %v\", err)",
  "if errors.Is(err, providers.ErrNotImplemented)",
  "if !refreshed",
  "return nil",
  "session.CreatedAtNow",
  "s.store.Save",
  "if err != nil",
  "return fmt.Errorf(\"error saving session: %v\", err)",
  "return nil"] : List String) := rfl

end O2P.Expect.C09
