import O2P.Gen.Facts
/-! Reviewed expectations about the source facts that the model parts used for C05 encode.
    Written by bin/mkexpect.py from reviewed facts; a change of /repo that alters one of these facts breaks the `rfl`. -/
namespace O2P.Expect.C05
open O2P.Facts

theorem skel_OAuthProxy_OAuthCallback_ok : skel_OAuthProxy_OAuthCallback = ([
  "if err != nil",
  "p.ErrorPage",
  "return",
  "req.Form.Get",
  "if errorString != \"\"",
  "p.ErrorPage",
  "return",
  "decodeState",
  "req.Form.Get",
  "if err != nil",
  "p.ErrorPage",
  "return",
  "cookies.GenerateCookieName",
  "cookies.LoadCSRFCookie",
  "if err != nil",
  "p.ErrorPage",
  "return",
  "p.redeemCode",
  "csrf.GetCodeVerifier",
  "if err != nil",
  "p.ErrorPage",
  "return",
  "p.enrichSessionState",
  "if err != nil",
  "p.ErrorPage",
  "return",
  "csrf.ClearCookie",
  "if !csrf.CheckOAuthState(nonce)",
  "csrf.CheckOAuthState",
  "p.ErrorPage",
  "return",
  "csrf.SetSessionNonce",
  "if !p.provider.ValidateSession(req.Context(), session)",
  "p.provider.ValidateSession",
  "p.ErrorPage",
  "return",
  "if !p.redirectValidator.IsValidRedirect(appRedirect)",
  "p.redirectValidator.IsValidRedirect",
  "p.provider.Authorize",
  "if err != nil",
  "if p.Validator(session.Email) && authorized",
  "p.Validator",
  "p.SaveSession",
  "if err != nil",
  "p.ErrorPage",
  "return",
  "http.Redirect",
  "p.ErrorPage"] : List String) := rfl

theorem skel_OAuthProxy_doOAuthStart_ok : skel_OAuthProxy_doOAuthStart = ([
  "if p.provider.Data().CodeChallengeMethod != \"\"",
  "encryption.GenerateCodeVerifierString",
  "if err != nil",
  "p.ErrorPage",
  "return",
  "encryption.GenerateCodeChallenge",
  "if err != nil",
  "p.ErrorPage",
  "return",
  "cookies.NewCSRF",
  "if err != nil",
  "p.ErrorPage",
  "return",
  "p.appDirector.GetRedirect",
  "if err != nil",
  "p.ErrorPage",
  "return",
  "p.getOAuthRedirectURI",
  "p.provider.GetLoginURL",
  "encodeState",
  "csrf.HashOAuthState",
  "csrf.HashOIDCNonce",
  "if err != nil",
  "csrf.SetCookie",
  "p.ErrorPage",
  "return",
  "http.Redirect"] : List String) := rfl

theorem skel_OIDCProvider_ValidateSession_ok : skel_OIDCProvider_ValidateSession = ([
  "p.Verifier.Verify",
  "if err != nil",
  "return false",
  "if p.SkipNonce",
  "return true",
  "p.checkNonce",
  "if err != nil",
  "return false",
  "return true"] : List String) := rfl

theorem oauthStart_verifierArgs_ok : oauthStart_verifierArgs = (["96"] : List String) := rfl

theorem newCSRF_nonceArgs_ok : newCSRF_nonceArgs = (["32", "32"] : List String) := rfl

theorem asciiCharset_ok : asciiCharset = ("-.0123456789ABCDEFGHIJKLMNOPQRSTUVWXYZ_abcdefghijklmnopqrstuvwxyz~" : String) := rfl

end O2P.Expect.C05
