import O2P.Gen.Facts
/-! Reviewed expectations about the source facts that the model parts used for C05 encode.
    Written by bin/mkexpect.py from reviewed facts; a change of /repo that alters one of these facts breaks the `rfl`. -/
namespace O2P.Expect.C05
open O2P.Facts

theorem skel_OAuthProxy_OAuthCallback_ok : skel_OAuthProxy_OAuthCallback = ([
  "if err != nil",
  "p.ErrorPage",
  "return",
  "req.Form.Get",
  "if errorString != \"\"",
  "fmt.Sprintf",
  "p.ErrorPage",
  "return",
  "decodeState",
  "req.Form.Get",
  "if err != nil",
  "p.ErrorPage",
  "return",
  "cookies.GenerateCookieName",
  "cookies.LoadCSRFCookie",
  "if err != nil",
  "p.ErrorPage",
  "return",
  "p.redeemCode",
  "csrf.GetCodeVerifier",
  "if err != nil",
  "p.ErrorPage",
  "return",
  "p.enrichSessionState",
  "if err != nil",
  "p.ErrorPage",
  "return",
  "csrf.ClearCookie",
  "if !csrf.CheckOAuthState(nonce)",
  "csrf.CheckOAuthState",
  "p.ErrorPage",
  "return",
  "csrf.SetSessionNonce",
  "if !p.provider.ValidateSession(req.Context(), session)",
  "p.provider.ValidateSession",
  "p.ErrorPage",
  "return",
  "if !p.redirectValidator.IsValidRedirect(appRedirect)",
  "p.redirectValidator.IsValidRedirect",
  "p.provider.Authorize",
  "if err != nil",
  "if p.Validator(session.Email) && authorized",
  "p.Validator",
  "p.SaveSession",
  "if err != nil",
  "p.ErrorPage",
  "return",
  "http.Redirect",
  "p.ErrorPage"] : List String) := rfl

theorem skel_OAuthProxy_doOAuthStart_ok : skel_OAuthProxy_doOAuthStart = ([
  "if p.provider.Data().CodeChallengeMethod != \"\"",
  "encryption.GenerateCodeVerifierString",
  "if err != nil",
  "p.ErrorPage",
  "return",
  "encryption.GenerateCodeChallenge",
  "if err != nil",
  "p.ErrorPage",
  "return",
  "extraParams.Add",
  "extraParams.Add",
  "cookies.NewCSRF",
  "if err != nil",
  "p.ErrorPage",
  "return",
  "p.appDirector.GetRedirect",
  "if err != nil",
  "p.ErrorPage",
  "return",
  "p.getOAuthRedirectURI",
  "p.provider.GetLoginURL",
  "encodeState",
  "csrf.HashOAuthState",
  "csrf.HashOIDCNonce",
  "if err != nil",
  "csrf.SetCookie",
  "p.ErrorPage",
  "return",
  "http.Redirect"] : List String) := rfl

theorem skel_OIDCProvider_ValidateSession_ok : skel_OIDCProvider_ValidateSession = ([
  "p.Verifier.Verify",
  "if err != nil",
  "return false",
  "if p.SkipNonce",
  "return true",
  "p.checkNonce",
  "if err != nil",
  "return false",
  "return true"] : List String) := rfl

theorem oauthStart_verifierArgs_ok : oauthStart_verifierArgs = (["96"] : List String) := rfl

theorem newCSRF_nonceArgs_ok : newCSRF_nonceArgs = (["32", "32"] : List String) := rfl

theorem asciiCharset_ok : asciiCharset = ("-.0123456789ABCDEFGHIJKLMNOPQRSTUVWXYZ_abcdefghijklmnopqrstuvwxyz~" : String) := rfl

theorem skel_NewCSRF_ok : skel_NewCSRF = ([
  "encryption.Nonce",
  "if err != nil",
  "return nil, err",
  "encryption.Nonce",
  "if err != nil",
  "return nil, err",
  "return &csrf{ OAuthState: state, OIDCNonce: nonce, CodeVerifier: co, nil"] : List String) := rfl

theorem skel_CheckNonce_ok : skel_CheckNonce = ([
  "return hmac.Equal([]byte(HashNonce(nonce)), []byte(hashed))",
  "hmac.Equal"] : List String) := rfl

theorem skel_HashNonce_ok : skel_HashNonce = ([
  "if nonce == nil",
  "return \"\"",
  "sha256.New",
  "hasher.Write",
  "hasher.Sum",
  "return base64.RawURLEncoding.EncodeToString(sum)",
  "base64.RawURLEncoding.EncodeToString"] : List String) := rfl

theorem skel_ProviderData_checkNonce_ok : skel_ProviderData_checkNonce = ([
  "if err != nil",
  "return fmt.Errorf(\"id_token claims extraction failed: %v\", err)",
  "if err != nil",
  "extractor.GetClaimInto",
  "return fmt.Errorf(\"could not extract nonce from ID Token: %v\", err)",
  "if !s.CheckNonce(nonce)",
  "s.CheckNonce",
  "return errors.New(\"id_token nonce claim does not match the session",
  "errors.New",
  "return nil"] : List String) := rfl

theorem skel_OIDCProvider_Redeem_ok : skel_OIDCProvider_Redeem = ([
  "if err != nil",
  "return nil, err",
  "if codeVerifier != \"\"",
  "c.Exchange",
  "if err != nil",
  "return nil, fmt.Errorf(\"token exchange failed: %v\", err)",
  "return p.createSession(ctx, token, false)",
  "p.createSession"] : List String) := rfl

end O2P.Expect.C05
