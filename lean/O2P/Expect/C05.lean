import O2P.Gen.Facts
/-! Reviewed expectations about the source facts that the model parts used for C05 encode.
    Written by bin/mkexpect.py from reviewed facts; a change of /repo that alters one of these facts breaks the `rfl`. -/
namespace O2P.Expect.C05
open O2P.Facts

theorem skel_OAuthProxy_OAuthCallback_ok : skel_OAuthProxy_OAuthCallback = ([
  "if err != nil",
  "p.ErrorPage",
  "return",
  "req.Form.Get",
  "if errorString != \"\"",
  "fmt.Sprintf",
  "p.ErrorPage",
  "return",
  "decodeState",
  "req.Form.Get",
  "if err != nil",
  "p.ErrorPage",
  "return",
  "cookies.GenerateCookieName",
  "cookies.LoadCSRFCookie",
  "if err != nil",
  "p.ErrorPage",
  "return",
  "p.redeemCode",
  "csrf.GetCodeVerifier",
  "if err != nil",
  "p.ErrorPage",
  "return",
  "p.enrichSessionState",
  "if err != nil",
  "p.ErrorPage",
  "return",
  "csrf.ClearCookie",
  "if !csrf.CheckOAuthState(nonce)",
  "csrf.CheckOAuthState",
  "p.ErrorPage",
  "return",
  "csrf.SetSessionNonce",
  "if !p.provider.ValidateSession(req.Context(), session)",
  "p.provider.ValidateSession",
  "p.ErrorPage",
  "return",
  "if !p.redirectValidator.IsValidRedirect(appRedirect)",
  "p.redirectValidator.IsValidRedirect",
  "p.provider.Authorize",
  "if err != nil",
  "if p.Validator(session.Email) && authorized",
  "p.Validator",
  "p.SaveSession",
  "if err != nil",
  "p.ErrorPage",
  "return",
  "http.Redirect",
  "p.ErrorPage"] : List String) := rfl

theorem skel_OAuthProxy_doOAuthStart_ok : skel_OAuthProxy_doOAuthStart = ([
  "if p.provider.Data().CodeChallengeMethod != \"\"",
  "encryption.GenerateCodeVerifierString",
  "if err != nil",
  "p.ErrorPage",
  "return",
  "encryption.GenerateCodeChallenge",
  "if err != nil",
  "p.ErrorPage",
  "return",
  "extraParams.Add",
  "extraParams.Add",
  "cookies.NewCSRF",
  "if err != nil",
  "p.ErrorPage",
  "return",
  "p.appDirector.GetRedirect",
  "if err != nil",
  "p.ErrorPage",
  "return",
  "p.getOAuthRedirectURI",
  "p.provider.GetLoginURL",
  "encodeState",
  "csrf.HashOAuthState",
  "csrf.HashOIDCNonce",
  "if err != nil",
  "csrf.SetCookie",
  "p.ErrorPage",
  "return",
  "http.Redirect"] : List String) := rfl

theorem skel_OIDCProvider_ValidateSession_ok : skel_OIDCProvider_ValidateSession = ([
  "p.Verifier.Verify",
  "if err != nil",
  "return false",
  "if p.SkipNonce",
  "return true",
  "p.checkNonce",
  "if err != nil",
  "return false",
  "return true"] : List String) := rfl

theorem oauthStart_verifierArgs_ok : oauthStart_verifierArgs = (["96"] : List String) := rfl

theorem newCSRF_nonceArgs_ok : newCSRF_nonceArgs = (["32", "32"] : List String) := rfl

theorem asciiCharset_ok : asciiCharset = ("-.0123456789ABCDEFGHIJKLMNOPQRSTUVWXYZ_abcdefghijklmnopqrstuvwxyz~" : String) := rfl

theorem skel_NewCSRF_ok : skel_NewCSRF = ([
  "encryption.Nonce",
  "if err != nil",
  "return nil, err",
  "encryption.Nonce",
  "if err != nil",
  "return nil, err",
  "return &csrf{ OAuthState: state, OIDCNonce: nonce, CodeVerifier: co, nil"] : List String) := rfl

theorem skel_CheckNonce_ok : skel_CheckNonce = ([
  "return hmac.Equal([]byte(HashNonce(nonce)), []byte(hashed))",
  "hmac.Equal"] : List String) := rfl

theorem skel_HashNonce_ok : skel_HashNonce = ([
  "if nonce == nil",
  "return \"\"",
  "sha256.New",
  "hasher.Write",
  "hasher.Sum",
  "return base64.RawURLEncoding.EncodeToString(sum)",
  "base64.RawURLEncoding.EncodeToString"] : List String) := rfl

theorem skel_ProviderData_checkNonce_ok : skel_ProviderData_checkNonce = ([
  "if err != nil",
  "return fmt.Errorf(\"id_token claims extraction failed: %v\", err)",
  "if err != nil",
  "extractor.GetClaimInto",
  "return fmt.Errorf(\"could not extract nonce from ID Token: %v\", err)",
  "if !s.CheckNonce(nonce)",
  "s.CheckNonce",
  "return errors.New(\"id_token nonce claim does not match the session",
  "errors.New",
  "return nil"] : List String) := rfl

theorem skel_OIDCProvider_Redeem_ok : skel_OIDCProvider_Redeem = ([
  "if err != nil",
  "return nil, err",
  "if codeVerifier != \"\"",
  "c.Exchange",
  "if err != nil",
  "return nil, fmt.Errorf(\"token exchange failed: %v\", err)",
  "return p.createSession(ctx, token, false)",
  "p.createSession"] : List String) := rfl

theorem providerValidate_ok : providerValidate = ([
  "## providers/azure.go AzureProvider.ValidateSession",
  "return validateToken(ctx, p, s.AccessToken, makeAzureHeader(s.Acces",
  "validateToken",
  "## providers/digitalocean.go DigitalOceanProvider.ValidateSession",
  "return validateToken(ctx, p, s.AccessToken, makeOIDCHeader(s.Access",
  "validateToken",
  "makeOIDCHeader",
  "## providers/facebook.go FacebookProvider.ValidateSession",
  "return validateToken(ctx, p, s.AccessToken, makeOIDCHeader(s.Access",
  "validateToken",
  "makeOIDCHeader",
  "## providers/github.go GitHubProvider.ValidateSession",
  "return validateToken(ctx, p, s.AccessToken, makeGitHubHeader(s.Acce",
  "validateToken",
  "## providers/keycloak.go KeycloakProvider.ValidateSession",
  "return validateToken(ctx, p, s.AccessToken, makeOIDCHeader(s.Access",
  "validateToken",
  "makeOIDCHeader",
  "## providers/linkedin.go LinkedInProvider.ValidateSession",
  "return validateToken(ctx, p, s.AccessToken, makeLinkedInHeader(s.Ac",
  "validateToken",
  "## providers/logingov.go LoginGovProvider.ValidateSession",
  "return validateToken(ctx, p, s.AccessToken, makeOIDCHeader(s.Access",
  "validateToken",
  "makeOIDCHeader",
  "## providers/ms_entra_id.go MicrosoftEntraIDProvider.ValidateSession",
  "p.getTenantFromToken",
  "if err != nil",
  "logger.Errorf",
  "return false",
  "if len(p.multiTenantAllowedTenants) > 0",
  "p.checkTenantMatchesTenantList",
  "if !tenantAllowed",
  "return false",
  "return p.OIDCProvider.ValidateSession(ctx, session)",
  "p.OIDCProvider.ValidateSession",
  "## providers/nextcloud.go NextcloudProvider.ValidateSession",
  "return validateToken(ctx, p, s.AccessToken, makeOIDCHeader(s.Access",
  "validateToken",
  "makeOIDCHeader",
  "## providers/oidc.go OIDCProvider.ValidateSession",
  "p.Verifier.Verify",
  "if err != nil",
  "logger.Errorf",
  "return false",
  "if p.SkipNonce",
  "return true",
  "p.checkNonce",
  "if err != nil",
  "logger.Errorf",
  "return false",
  "return true",
  "## providers/provider_default.go ProviderData.ValidateSession",
  "return validateToken(ctx, p, s.AccessToken, nil)",
  "validateToken"] : List String) := rfl

theorem providerLogin_ok : providerLogin = ([
  "## providers/adfs.go ADFSProvider.GetLoginURL",
  "if !p.SkipNonce",
  "extraParams.Add",
  "if p.skipScope",
  "loginURL.Query",
  "q.Del",
  "q.Encode",
  "return loginURL.String()",
  "## providers/azure.go AzureProvider.GetLoginURL",
  "if p.ProtectedResource != nil && p.ProtectedResource.String() != \"\" && !p.isV2Endpoint",
  "extraParams.Add",
  "return a.String()",
  "## providers/logingov.go LoginGovProvider.GetLoginURL",
  "if len(extraParams[\"acr_values\"]) == 0",
  "extraParams.Add",
  "extraParams.Add",
  "return a.String()",
  "## providers/oidc.go OIDCProvider.GetLoginURL",
  "if !p.SkipNonce",
  "extraParams.Add",
  "return loginURL.String()",
  "## providers/provider_default.go ProviderData.Authorize",
  "if len(p.AllowedGroups) == 0",
  "return true, nil",
  "if ok",
  "return true, nil",
  "return false, nil",
  "## providers/provider_default.go ProviderData.GetLoginURL",
  "if p.AuthRequestResponseMode != \"\"",
  "extraParams.Add",
  "return loginURL.String()"] : List String) := rfl

theorem skel_newProviderDataFromConfig_ok : skel_newProviderDataFromConfig = ([
  "if err != nil",
  "return nil, err",
  "if needsVerifier",
  "if err != nil",
  "return nil, fmt.Errorf(\"error building OIDC ProviderVerifier: %v\", err)",
  "fmt.Errorf",
  "if pv.DiscoveryEnabled()",
  "url.Parse",
  "if err != nil",
  "fmt.Errorf",
  "if len(errs) > 0",
  "return nil, k8serrors.NewAggregate(errs)",
  "if len(p.SupportedCodeChallengeMethods) != 0 && p.CodeChallengeMethod == \"\"",
  "if providerConfig.OIDCConfig.UserIDClaim == \"\"",
  "if providerConfig.OIDCConfig.EmailClaim == options.OIDCEmailClaim && providerConfig.OIDCConfig.UserIDClaim != options.OIDCEmailClaim",
  "p.setAllowedGroups",
  "return p, nil"] : List String) := rfl

theorem skel_parseCodeChallengeMethod_ok : skel_parseCodeChallengeMethod = ([
  "case providerConfig.CodeChallengeMethod != \"\"",
  "return providerConfig.CodeChallengeMethod",
  "case ",
  "return \"\""] : List String) := rfl

theorem skel_ProviderData_LoginURLParams_ok : skel_ProviderData_LoginURLParams = ([
  "if len(overrides) > 0",
  "if ok",
  "if re.MatchString(val)",
  "re.MatchString",
  "if len(actualValues) > 0",
  "params.Del",
  "return params"] : List String) := rfl

theorem skel_ProviderData_GetLoginURL_ok : skel_ProviderData_GetLoginURL = ([
  "if p.AuthRequestResponseMode != \"\"",
  "extraParams.Add",
  "return loginURL.String()"] : List String) := rfl

theorem skel_OIDCProvider_GetLoginURL_ok : skel_OIDCProvider_GetLoginURL = ([
  "if !p.SkipNonce",
  "extraParams.Add",
  "return loginURL.String()"] : List String) := rfl

theorem flags_tokens_ok : flags_tokens = ([
  "String approval-prompt = \"force\"",
  "String backend-logout-url = \"\"",
  "String client-id = \"\"",
  "String code-challenge-method = \"\"",
  "StringSlice extra-jwt-issuers = []string{}",
  "String force-code-challenge-method = \"\"",
  "Bool insecure-oidc-allow-unverified-email = false",
  "Bool insecure-oidc-skip-issuer-verification = false",
  "Bool insecure-oidc-skip-nonce = true",
  "String login-url = \"\"",
  "StringSlice oidc-audience-claim = OIDCAudienceClaims",
  "String oidc-email-claim = OIDCEmailClaim",
  "StringSlice oidc-extra-audience = []string{}",
  "String oidc-groups-claim = OIDCGroupsClaim",
  "String oidc-issuer-url = \"\"",
  "String oidc-jwks-url = \"\"",
  "StringSlice oidc-public-key-file = []string{}",
  "String profile-url = \"\"",
  "String prompt = \"\"",
  "String provider = \"google\"",
  "String redeem-url = \"\"",
  "String scope = \"\"",
  "Bool skip-claims-from-profile-url = false",
  "Bool skip-jwt-bearer-tokens = false",
  "Bool skip-oidc-discovery = false",
  "String user-id-claim = OIDCEmailClaim",
  "String validate-url = \"\""] : List String) := rfl

theorem cfgText_legacyProvider_ok : cfgText_legacyProvider = ([
  "func LegacyProvider.convert {",
  "{ providers := Providers{} provider := Provider{ ClientID: l.ClientID, ClientSecret: l.ClientSecret, ClientSecretFile: l.ClientSecretFile, Type: ProviderType(l.ProviderType), CAFiles: l.ProviderCAFiles, UseSystemTrustStore: l.UseSystemTrustStore, LoginURL: l.LoginURL, RedeemURL: l.RedeemURL, ProfileURL: l.ProfileURL, SkipClaimsFromProfileURL: l.SkipClaimsFromProfileURL, ProtectedResource: l.ProtectedResource, ValidateURL: l.ValidateURL, Scope: l.Scope, AllowedGroups: l.AllowedGroups, CodeChallengeMethod: l.CodeChallengeMethod, BackendLogoutURL: l.BackendLogoutURL, AuthRequestResponseMode: l.AuthRequestResponseMode, } provider.OIDCConfig = OIDCOptions{ IssuerURL: l.OIDCIssuerURL, InsecureAllowUnverifiedEmail: l.InsecureOIDCAllowUnverifiedEmail, InsecureSkipIssuerVerification: l.InsecureOIDCSkipIssuerVerification, InsecureSkipNonce: l.InsecureOIDCSkipNonce, SkipDiscovery: l.SkipOIDCDiscovery, JwksURL: l.OIDCJwksURL, UserIDClaim: l.UserIDClaim, EmailClaim: l.OIDCEmailClaim, GroupsClaim: l.OIDCGroupsClaim, AudienceClaims: l.OIDCAudienceClaims, ExtraAudiences: l.OIDCExtraAudiences, PublicKeyFiles: l.OIDCPublicKeyFiles, } if l.ForceCodeChallengeMethod != \"\" && l.CodeChallengeMethod == \"\" { provider.CodeChallengeMethod = l.ForceCodeChallengeMethod } provider.AzureConfig = AzureOptions{ Tenant: l.AzureTenant, GraphGroupField: l.AzureGraphGroupField, } switch provider.Type { case \"github\": provider.GitHubConfig = GitHubOptions{ Org: l.GitHubOrg, Team: l.GitHubTeam, Repo: l.GitHubRepo, Token: l.GitHubToken, Users: l.GitHubUsers, } case \"keycloak-oidc\": provider.KeycloakConfig = KeycloakOptions{ Groups: l.KeycloakGroups, Roles: l.AllowedRoles, } case \"keycloak\": provider.KeycloakConfig = KeycloakOptions{ Groups: l.KeycloakGroups, } case \"gitlab\": provider.GitLabConfig = GitLabOptions{ Group: l.GitLabGroup, Projects: l.GitLabProjects, } case \"login.gov\": provider.LoginGovConfig = LoginGovOptions{ JWTKey: l.JWTKey, JWTKeyFile: l.JWTKeyFile, PubJWKURL: l.PubJWKURL, } case \"bitbucket\": provider.BitbucketConfig = BitbucketOptions{ Team: l.BitbucketTeam, Repository: l.BitbucketRepository, } case \"google\": if len(l.GoogleGroupsLegacy) != 0 && !reflect.DeepEqual(l.GoogleGroupsLegacy, l.GoogleGroups) { logger.Error( \"WARNING: The 'OAUTH2_PROXY_GOOGLE_GROUP' environment variable is deprecated and will likely be removed in the next major release. Use 'OAUTH2_PROXY_GOOGLE_GROUPS' instead.\", ) l.GoogleGroups = l.GoogleGroupsLegacy } provider.GoogleConfig = GoogleOptions{ Groups: l.GoogleGroups, AdminEmail: l.GoogleAdminEmail, ServiceAccountJSON: l.GoogleServiceAccountJSON, UseApplicationDefaultCredentials: l.GoogleUseApplicationDefaultCredentials, TargetPrincipal: l.GoogleTargetPrincipal, } case \"entra-id\": provider.MicrosoftEntraIDConfig = MicrosoftEntraIDOptions{ AllowedTenants: l.EntraIDAllowedTenants, FederatedTokenAuth: l.EntraIDFederatedTokenAuth, } } if l.ProviderName != \"\" { provider.ID = l.ProviderName provider.Name = l.ProviderName } else { provider.ID = l.ProviderType + \"=\" + l.ClientID } // handle AcrValues, Prompt and ApprovalPrompt var urlParams []LoginURLParameter if l.AcrValues != \"\" { urlParams = append(urlParams, LoginURLParameter{Name: \"acr_values\", Default: []string{l.AcrValues}}) } switch { case l.Prompt != \"\": urlParams = append(urlParams, LoginURLParameter{Name: \"prompt\", Default: []string{l.Prompt}}) case l.ApprovalPrompt != \"\": urlParams = append(urlParams, LoginURLParameter{Name: \"approval_prompt\", Default: []string{l.ApprovalPrompt}}) default: urlParams = append(urlParams, LoginURLParameter{Name: \"approval_prompt\", Default: []string{\"force\"}}) } provider.LoginURLParameters = urlParams providers = append(providers, provider) return providers, nil }",
  "func providerDefaults {",
  "{ providers := Providers{ { Type: \"google\", AzureConfig: AzureOptions{ Tenant: \"common\", }, OIDCConfig: OIDCOptions{ InsecureAllowUnverifiedEmail: false, InsecureSkipNonce: true, SkipDiscovery: false, UserIDClaim: OIDCEmailClaim, EmailClaim: OIDCEmailClaim, GroupsClaim: OIDCGroupsClaim, AudienceClaims: OIDCAudienceClaims, ExtraAudiences: []string{}, }, }, } return providers }"] : List String) := rfl

end O2P.Expect.C05
