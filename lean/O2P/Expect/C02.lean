import O2P.Gen.Facts
/-! Reviewed expectations about the source facts that the model parts used for C02 encode.
    Written by bin/mkexpect.py from reviewed facts; a change of /repo that alters one of these facts breaks the `rfl`. -/
namespace O2P.Expect.C02
open O2P.Facts

theorem validate_splitArgs_ok : validate_splitArgs = (["cookie.Value, \"|\""] : List String) := rfl

theorem validate_sigArgs_ok : validate_sigArgs = (["parts[2], seed, cookie.Name, parts[0], parts[1]"] : List String) := rfl

theorem signedValue_sigArgs_ok : signedValue_sigArgs = (["sha256.New, seed, key, encodedValue, timeStr"] : List String) := rfl

theorem storeLoad_validateArgs_ok : storeLoad_validateArgs = (["c, s.Cookie.Secret, s.Cookie.Expire"] : List String) := rfl

theorem ticket_validateArgs_ok : ticket_validateArgs = (["requestCookie, cookieOpts.Secret, cookieOpts.Expire"] : List String) := rfl

theorem csrf_validateArgs_ok : csrf_validateArgs = (["cookie, opts.Secret, opts.Expire"] : List String) := rfl

theorem skel_SessionStore_Load_ok : skel_SessionStore_Load = ([
  "loadCookie",
  "if err != nil",
  "return nil, err",
  "encryption.Validate",
  "if !ok",
  "return nil, errors.New(\"cookie signature not valid\")",
  "errors.New",
  "sessions.DecodeSessionState",
  "if err != nil",
  "return nil, err",
  "return session, nil"] : List String) := rfl

theorem skel_Manager_Load_ok : skel_Manager_Load = ([
  "decodeTicketFromRequest",
  "if err != nil",
  "return nil, err",
  "return tckt.loadSession( func(key string) ([]byte, error) { return",
  "tckt.loadSession",
  "func{",
  "return m.Store.Load(req.Context(), key)",
  "m.Store.Load"] : List String) := rfl

theorem skel_Validate_ok : skel_Validate = ([
  "strings.Split",
  "if len(parts) != 3",
  "return",
  "if checkSignature(parts[2], seed, cookie.Name, parts[0], parts[1])",
  "strconv.Atoi",
  "if err != nil",
  "return",
  "if (expiration == time.Duration(0)) || (t.After(time.Now().Add(expiration*-1)) && t.Before(time.Now().Add(time.Minute*5)))",
  "t.After",
  "time.Now().Add",
  "t.Before",
  "time.Now().Add",
  "base64.URLEncoding.DecodeString",
  "if err == nil",
  "return",
  "return"] : List String) := rfl

theorem skel_SignedValue_ok : skel_SignedValue = ([
  "base64.URLEncoding.EncodeToString",
  "fmt.Sprintf",
  "if err != nil",
  "return \"\", err",
  "fmt.Sprintf",
  "return cookieVal, nil"] : List String) := rfl

theorem skel_cookieSignature_ok : skel_cookieSignature = ([
  "hmac.New",
  "h.Write",
  "if err != nil",
  "return \"\", err",
  "h.Sum",
  "return base64.URLEncoding.EncodeToString(b), nil",
  "base64.URLEncoding.EncodeToString"] : List String) := rfl

theorem skel_checkHmac_ok : skel_checkHmac = ([
  "base64.URLEncoding.DecodeString",
  "if err1 == nil",
  "base64.URLEncoding.DecodeString",
  "if err2 == nil",
  "return hmac.Equal(inputMAC, expectedMAC)",
  "hmac.Equal",
  "return false"] : List String) := rfl

theorem skel_newTicket_ok : skel_newTicket = ([
  "if err != nil",
  "io.ReadFull",
  "return nil, fmt.Errorf(\"failed to create new ticket ID: %v\", err)",
  "fmt.Sprintf",
  "hex.EncodeToString",
  "if err != nil",
  "io.ReadFull",
  "return nil, fmt.Errorf(\"failed to create encryption secret: %v\", err)",
  "return &ticket{ id: ticketID, secret: secret, options: cookieOpts, , nil"] : List String) := rfl

theorem skel_decodeTicketFromRequest_ok : skel_decodeTicketFromRequest = ([
  "req.Cookie",
  "if err != nil",
  "return nil, err",
  "encryption.Validate",
  "if !ok",
  "return nil, fmt.Errorf(\"session ticket cookie failed validation: %v\", er",
  "return decodeTicket(string(val), cookieOpts)"] : List String) := rfl

theorem skel_decodeCSRFCookie_ok : skel_decodeCSRFCookie = ([
  "encryption.Validate",
  "if !ok",
  "return nil, errors.New(\"CSRF cookie failed validation\")",
  "errors.New",
  "decrypt",
  "if err != nil",
  "return nil, err",
  "msgpack.Unmarshal",
  "if err != nil",
  "return nil, fmt.Errorf(\"error unmarshalling data to CSRF: %v\", err)",
  "return csrf, nil"] : List String) := rfl

theorem skel_ticket_saveSession_ok : skel_ticket_saveSession = ([
  "if err != nil",
  "return err",
  "if err != nil",
  "return fmt.Errorf(\"failed to encode the session state with the tick",
  "return saver(t.id, ciphertext, t.options.Expire)"] : List String) := rfl

end O2P.Expect.C02
