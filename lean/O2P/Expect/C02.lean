import O2P.Gen.Facts
/-! Reviewed expectations about the source facts that the model parts used for C02 encode.
    Written by bin/mkexpect.py from reviewed facts; a change of /repo that alters one of these facts breaks the `rfl`. -/
namespace O2P.Expect.C02
open O2P.Facts

theorem validate_splitArgs_ok : validate_splitArgs = (["cookie.Value, \"|\""] : List String) := rfl

theorem validate_sigArgs_ok : validate_sigArgs = (["parts[2], seed, cookie.Name, parts[0], parts[1]"] : List String) := rfl

theorem signedValue_sigArgs_ok : signedValue_sigArgs = (["sha256.New, seed, key, encodedValue, timeStr"] : List String) := rfl

theorem storeLoad_validateArgs_ok : storeLoad_validateArgs = (["c, s.Cookie.Secret, s.Cookie.Expire"] : List String) := rfl

theorem ticket_validateArgs_ok : ticket_validateArgs = (["requestCookie, cookieOpts.Secret, cookieOpts.Expire"] : List String) := rfl

theorem csrf_validateArgs_ok : csrf_validateArgs = (["cookie, opts.Secret, opts.Expire"] : List String) := rfl

theorem skel_SessionStore_Load_ok : skel_SessionStore_Load = ([
  "loadCookie",
  "if err != nil",
  "return nil, err",
  "encryption.Validate",
  "if !ok",
  "return nil, errors.New(\"cookie signature not valid\")",
  "sessions.DecodeSessionState",
  "if err != nil",
  "return nil, err",
  "return session, nil"] : List String) := rfl

theorem skel_Manager_Load_ok : skel_Manager_Load = ([
  "decodeTicketFromRequest",
  "if err != nil",
  "return nil, err",
  "return tckt.loadSession( func(key string) ([]byte, error) { return",
  "tckt.loadSession",
  "func{",
  "return m.Store.Load(req.Context(), key)",
  "m.Store.Load"] : List String) := rfl

end O2P.Expect.C02
