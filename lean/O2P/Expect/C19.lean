import O2P.Gen.Facts
/-! Reviewed expectations about the source facts that the model parts used for C19 encode.
    Written by bin/mkexpect.py from reviewed facts; a change of /repo that alters one of these facts breaks the `rfl`. -/
namespace O2P.Expect.C19
open O2P.Facts

theorem panicSites_ok : panicSites = ([
  "pkg/apis/sessions/session_state.go:SessionState.GetClaim idx=0 slice=0 assert=0 panic=0 mustcompile=0 timederef=2",
  "pkg/encryption/cipher.go:cfbCipher.Decrypt idx=0 slice=2 assert=0 panic=0 mustcompile=0 timederef=0",
  "pkg/encryption/cipher.go:cfbCipher.Encrypt idx=0 slice=2 assert=0 panic=0 mustcompile=0 timederef=0",
  "pkg/encryption/cipher.go:gcmCipher.Decrypt idx=0 slice=2 assert=0 panic=0 mustcompile=0 timederef=0",
  "pkg/encryption/utils.go:GenerateCodeChallenge idx=0 slice=1 assert=0 panic=0 mustcompile=0 timederef=0",
  "pkg/encryption/utils.go:Validate idx=5 slice=0 assert=0 panic=0 mustcompile=0 timederef=0",
  "pkg/encryption/utils.go:cookieSignature idx=1 slice=1 assert=0 panic=0 mustcompile=0 timederef=0",
  "pkg/cookies/csrf.go:ExtractStateSubstring idx=0 slice=1 assert=0 panic=0 mustcompile=0 timederef=0",
  "pkg/cookies/csrf.go:csrf.cookieName idx=0 slice=1 assert=0 panic=0 mustcompile=0 timederef=0",
  "pkg/cookies/cookies.go:MakeCookieFromOptions idx=1 slice=0 assert=0 panic=0 mustcompile=0 timederef=0",
  "pkg/cookies/cookies.go:ParseSameSite idx=0 slice=0 assert=0 panic=1 mustcompile=0 timederef=0",
  "pkg/middleware/session_utils.go:getBasicAuthCredentials idx=2 slice=0 assert=0 panic=0 mustcompile=0 timederef=0",
  "pkg/middleware/session_utils.go:splitAuthHeader idx=2 slice=0 assert=0 panic=0 mustcompile=0 timederef=0",
  "pkg/ip/net_set.go:NetSet.AddIPNet idx=3 slice=0 assert=0 panic=0 mustcompile=0 timederef=0",
  "pkg/ip/net_set.go:NetSet.getNetMaps idx=0 slice=0 assert=0 panic=1 mustcompile=0 timederef=0",
  "pkg/ip/net_set.go:ipNetMap.has idx=1 slice=0 assert=0 panic=1 mustcompile=0 timederef=0",
  "pkg/ip/realclientip.go:xForwardedForClientIPParser.GetRealClientIP idx=0 slice=1 assert=0 panic=0 mustcompile=0 timederef=0",
  "pkg/sessions/cookie/session_store.go:SessionStore.clearCookiesExcept idx=1 slice=0 assert=0 panic=0 mustcompile=0 timederef=0",
  "pkg/sessions/cookie/session_store.go:SessionStore.dropWrittenSessionCookies idx=2 slice=0 assert=0 panic=0 mustcompile=0 timederef=0",
  "pkg/sessions/cookie/session_store.go:SessionStore.setSessionCookie idx=1 slice=0 assert=0 panic=0 mustcompile=0 timederef=0",
  "pkg/sessions/cookie/session_store.go:isSessionCookieName idx=0 slice=1 assert=0 panic=0 mustcompile=0 timederef=0",
  "pkg/sessions/cookie/session_store.go:joinCookies idx=3 slice=0 assert=0 panic=0 mustcompile=0 timederef=0",
  "pkg/sessions/cookie/session_store.go:splitCookie idx=0 slice=2 assert=0 panic=0 mustcompile=0 timederef=0",
  "pkg/sessions/cookie/session_store.go:splitCookieName idx=0 slice=1 assert=0 panic=0 mustcompile=0 timederef=0",
  "pkg/sessions/persistence/ticket.go:decodeTicketID idx=3 slice=0 assert=0 panic=0 mustcompile=0 timederef=0",
  "pkg/sessions/persistence/ticket.go:decodeTicketSecret idx=3 slice=0 assert=0 panic=0 mustcompile=0 timederef=0",
  "pkg/providers/oidc/verifier.go:NewVerifier idx=2 slice=0 assert=0 panic=0 mustcompile=0 timederef=0",
  "pkg/providers/oidc/verifier.go:idTokenVerifier.isValidAudience idx=1 slice=0 assert=0 panic=0 mustcompile=0 timederef=0",
  "pkg/providers/oidc/verifier.go:idTokenVerifier.verifyAudience idx=1 slice=0 assert=0 panic=0 mustcompile=0 timederef=0",
  "pkg/providers/util/claim_extractor.go:parseJWT idx=1 slice=0 assert=0 panic=0 mustcompile=0 timederef=0",
  "pkg/util/util.go:RemoveDuplicateStr idx=2 slice=0 assert=0 panic=0 mustcompile=0 timederef=0",
  "pkg/util/util.go:SplitHostPort idx=0 slice=4 assert=0 panic=0 mustcompile=0 timederef=0",
  "pkg/util/util.go:isHostnameAllowed idx=0 slice=1 assert=0 panic=0 mustcompile=0 timederef=0",
  "pkg/util/util.go:validOptionalPort idx=1 slice=1 assert=0 panic=0 mustcompile=0 timederef=0",
  "pkg/requests/util/util.go:GetRequestPath idx=0 slice=1 assert=0 panic=0 mustcompile=0 timederef=0",
  "pkg/upstream/rewrite.go:splitPathAndQuery idx=3 slice=0 assert=0 panic=0 mustcompile=0 timederef=0",
  "pkg/upstream/proxy.go:sortByPathLongest idx=6 slice=0 assert=0 panic=0 mustcompile=0 timederef=0",
  "pkg/upstream/http.go:newReverseProxy idx=0 slice=0 assert=1 panic=0 mustcompile=0 timederef=0",
  "pkg/upstream/http.go:newWebSocketReverseProxy idx=0 slice=0 assert=1 panic=0 mustcompile=0 timederef=0",
  "pkg/authentication/basic/htpasswd.go:createHtpasswdMap idx=3 slice=0 assert=0 panic=0 mustcompile=0 timederef=0",
  "pkg/authentication/basic/htpasswd.go:htpasswdMap.GetUsers idx=1 slice=0 assert=0 panic=0 mustcompile=0 timederef=0",
  "pkg/authentication/basic/htpasswd.go:htpasswdMap.Validate idx=1 slice=0 assert=0 panic=0 mustcompile=0 timederef=0",
  "pkg/authentication/basic/htpasswd.go:passShaOrBcrypt idx=2 slice=6 assert=0 panic=0 mustcompile=0 timederef=0",
  "validator.go:UserMap.IsValid idx=1 slice=0 assert=0 panic=0 mustcompile=0 timederef=0",
  "validator.go:UserMap.LoadAuthenticatedEmailsFile idx=2 slice=0 assert=0 panic=0 mustcompile=0 timederef=0",
  "validator.go:isEmailValidWithDomains idx=2 slice=1 assert=0 panic=0 mustcompile=0 timederef=0",
  "validator.go:newValidatorImpl idx=1 slice=0 assert=0 panic=0 mustcompile=0 timederef=0",
  "oauthproxy.go:NewOAuthProxy idx=4 slice=0 assert=0 panic=0 mustcompile=0 timederef=0",
  "oauthproxy.go:OAuthProxy.Start idx=0 slice=0 assert=0 panic=1 mustcompile=0 timederef=0",
  "oauthproxy.go:buildRoutesAllowlist idx=3 slice=0 assert=0 panic=0 mustcompile=0 timederef=0",
  "oauthproxy.go:buildSignInMessage idx=2 slice=0 assert=0 panic=0 mustcompile=0 timederef=0",
  "oauthproxy.go:checkAllowedEmailDomains idx=1 slice=0 assert=0 panic=0 mustcompile=0 timederef=0",
  "oauthproxy.go:checkAllowedGroups idx=1 slice=0 assert=0 panic=0 mustcompile=0 timederef=0",
  "oauthproxy.go:decodeState idx=2 slice=0 assert=0 panic=0 mustcompile=0 timederef=0",
  "oauthproxy.go:extractAllowedEntities idx=2 slice=0 assert=0 panic=0 mustcompile=0 timederef=0",
  "providers/provider_data.go:ProviderData.LoginURLParams idx=3 slice=0 assert=0 panic=0 mustcompile=0 timederef=0",
  "providers/provider_data.go:ProviderData.compileLoginParams idx=1 slice=0 assert=0 panic=0 mustcompile=0 timederef=0",
  "providers/provider_data.go:ProviderData.convertAllowRules idx=1 slice=0 assert=0 panic=0 mustcompile=0 timederef=0",
  "providers/provider_data.go:ProviderData.seenParameter idx=2 slice=0 assert=0 panic=0 mustcompile=0 timederef=0",
  "providers/provider_data.go:ProviderData.setAllowedGroups idx=1 slice=0 assert=0 panic=0 mustcompile=0 timederef=0",
  "providers/provider_default.go:ProviderData.Authorize idx=1 slice=0 assert=0 panic=0 mustcompile=0 timederef=0"] : List String) := rfl

theorem gcmDecrypt_guards_ok : gcmDecrypt_guards = (["err != nil", "len(ciphertext) < nonceSize", "err != nil"] : List String) := rfl

theorem cfbDecrypt_guards_ok : cfbDecrypt_guards = (["len(ciphertext) < aes.BlockSize"] : List String) := rfl

theorem getClaim_guards_ok : getClaim_guards = (["s == nil", "s.CreatedAt == nil", "s.ExpiresOn == nil"] : List String) := rfl

theorem validate_guards_ok : validate_guards = (["len(parts) != 3", "checkSignature(parts[2], seed, cookie.Name, parts[0], parts[1])", "err != nil", "(expiration == time.Duration(0)) || (t.After(time.Now().Add(expiration*-1)) && t.Before(time.Now().Add(time.Minute*5)))", "err == nil"] : List String) := rfl

theorem extractState_guards_ok : extractState_guards = (["lastChar <= len(state)"] : List String) := rfl

theorem skel_csrf_cookieName_ok : skel_csrf_cookieName = ([
  "if c.cookieOpts.CSRFPerRequest",
  "return csrfCookieName(c.cookieOpts, stateSubstring)"] : List String) := rfl

theorem skel_ExtractStateSubstring_ok : skel_ExtractStateSubstring = ([
  "if lastChar <= len(state)",
  "return stateSubstring"] : List String) := rfl

theorem skel_checkAllowedEmailDomains_ok : skel_checkAllowedEmailDomains = ([
  "if len(allowedEmailDomains) == 0",
  "return true",
  "strings.Split",
  "if len(splitEmail) != 2",
  "return false",
  "url.Parse",
  "return util.IsEndpointAllowed(endpoint, allowedEmailDomainsList)",
  "util.IsEndpointAllowed"] : List String) := rfl

theorem skel_redirectToHTTPS_ok : skel_redirectToHTTPS = ([
  "return http.HandlerFunc(func(rw http.ResponseWriter, req *http.Requ",
  "func{",
  "if strings.EqualFold(proto, httpsScheme) || (req.TLS != nil && proto == req.URL.Scheme)",
  "strings.EqualFold",
  "next.ServeHTTP",
  "return",
  "url.Parse",
  "if targetURL.Port() != \"\"",
  "net.SplitHostPort",
  "http.Redirect"] : List String) := rfl

theorem skel_NewOAuthProxy_ok : skel_NewOAuthProxy = ([
  "if err != nil",
  "return nil, fmt.Errorf(\"error initialising session store: %v\", err)",
  "fmt.Errorf",
  "if opts.HtpasswdFile != \"\"",
  "if err != nil",
  "return nil, fmt.Errorf(\"could not validate htpasswd: %v\", err)",
  "fmt.Errorf",
  "if err != nil",
  "return nil, fmt.Errorf(\"error initialising provider: %v\", err)",
  "fmt.Errorf",
  "if err != nil",
  "return nil, fmt.Errorf(\"error initialising page writer: %v\", err)",
  "fmt.Errorf",
  "if err != nil",
  "return nil, fmt.Errorf(\"error initialising upstream proxy: %v\", err)",
  "fmt.Errorf",
  "if opts.SkipJwtBearerTokens",
  "if redirectURL.Path == \"\"",
  "fmt.Sprintf",
  "if opts.Cookie.Refresh != time.Duration(0)",
  "fmt.Sprintf",
  "strings.Join",
  "if ipNet != nil",
  "return nil, fmt.Errorf(\"could not parse IP network (%s)\", ipStr)",
  "fmt.Errorf",
  "if err != nil",
  "return nil, err",
  "if err != nil",
  "return nil, err",
  "if err != nil",
  "return nil, fmt.Errorf(\"could not build pre-auth chain: %v\", err)",
  "fmt.Errorf",
  "if err != nil",
  "return nil, fmt.Errorf(\"could not build headers chain: %v\", err)",
  "fmt.Errorf",
  "fmt.Sprintf",
  "if err != nil",
  "return nil, fmt.Errorf(\"error setting up server: %v\", err)",
  "fmt.Errorf",
  "return p, nil"] : List String) := rfl

end O2P.Expect.C19
