import O2P.Gen.Facts
/-! Reviewed expectations about the source facts that the model parts used for C11 encode.
    Written by bin/mkexpect.py from reviewed facts; a change of /repo that alters one of these facts breaks the `rfl`. -/
namespace O2P.Expect.C11
open O2P.Facts

theorem skel_OAuthProxy_SignOut_ok : skel_OAuthProxy_SignOut = ([
  "p.appDirector.GetRedirect",
  "if err != nil",
  "p.ErrorPage",
  "return",
  "p.ClearSessionCookie",
  "if err != nil",
  "p.ErrorPage",
  "return",
  "p.backendLogout",
  "http.Redirect"] : List String) := rfl

theorem skel_Manager_Clear_ok : skel_Manager_Clear = ([
  "decodeTicketFromRequest",
  "if err != nil",
  "tckt.clearCookie",
  "if err == http.ErrNoCookie",
  "return nil",
  "return fmt.Errorf(\"error decoding ticket to clear session: %v\", err",
  "tckt.clearCookie",
  "return tckt.clearSession(func(key string) error { return m.Store.Cl",
  "tckt.clearSession",
  "func{",
  "return m.Store.Clear(req.Context(), key)",
  "m.Store.Clear"] : List String) := rfl

theorem skel_SessionStore_Clear_ok : skel_SessionStore_Clear = ([
  "s.clearCookiesExcept",
  "return nil"] : List String) := rfl

theorem clear_maxAgeArgs_ok : clear_maxAgeArgs = (["req, c.Name, \"\", time.Hour * -1"] : List String) := rfl

theorem skel_SessionStore_clearCookiesExcept_ok : skel_SessionStore_clearCookiesExcept = ([
  "req.Cookies",
  "if ok",
  "if isSessionCookieName(s.Cookie.Name, c.Name)",
  "isSessionCookieName",
  "s.makeCookie",
  "http.SetCookie"] : List String) := rfl

theorem skel_isSessionCookieName_ok : skel_isSessionCookieName = ([
  "if candidate == name",
  "return true",
  "strings.LastIndex",
  "if idx < 0",
  "return false",
  "strconv.Atoi",
  "if err != nil || count < 0",
  "return false",
  "return candidate == splitCookieName(name, count)",
  "splitCookieName"] : List String) := rfl

theorem skel_storedSessionLoader_refreshSessionIfNeeded_ok : skel_storedSessionLoader_refreshSessionIfNeeded = ([
  "if !needsRefresh(s.refreshPeriod, session)",
  "needsRefresh",
  "return nil",
  "defer",
  "for !lockObtained",
  "return errors.New(\"timeout obtaining session lock\")",
  "errors.New",
  "session.ObtainLock",
  "if err != nil && !errors.Is(err, sessionsapi.ErrLockNotObtained)",
  "return fmt.Errorf(\"error occurred while trying to obtain lock: %v\",",
  "if errors.Is(err, sessionsapi.ErrLockNotObtained)",
  "defer",
  "func{",
  "if session == nil",
  "return",
  "if err != nil",
  "session.ReleaseLock",
  "s.store.Load",
  "if err != nil",
  "return fmt.Errorf(\"could not load session: %v\", err)",
  "if freshSession == nil",
  "return errors.New(\"session no longer exists, it may have been remov",
  "errors.New",
  "if !needsRefresh(s.refreshPeriod, session)",
  "needsRefresh",
  "return nil",
  "if err != nil",
  "s.refreshSession",
  "return s.validateSession(req.Context(), session)",
  "s.validateSession"] : List String) := rfl

theorem skel_client_Del_ok : skel_client_Del = ([
  "return c.Client.Del(ctx, key).Err()",
  "c.Client.Del(ctx, key).Err",
  "c.Client.Del"] : List String) := rfl

theorem skel_clusterClient_Del_ok : skel_clusterClient_Del = ([
  "return c.ClusterClient.Del(ctx, key).Err()",
  "c.ClusterClient.Del(ctx, key).Err",
  "c.ClusterClient.Del"] : List String) := rfl

theorem flags_session_ok : flags_session = ([
  "String redis-ca-path = \"\"",
  "StringSlice redis-cluster-connection-urls = []string{}",
  "Int redis-connection-idle-timeout = 0",
  "String redis-connection-url = \"\"",
  "Bool redis-insecure-skip-tls-verify = false",
  "String redis-password = \"\"",
  "StringSlice redis-sentinel-connection-urls = []string{}",
  "String redis-sentinel-master-name = \"\"",
  "String redis-sentinel-password = \"\"",
  "Bool redis-use-cluster = false",
  "Bool redis-use-sentinel = false",
  "String redis-username = \"\"",
  "Bool session-cookie-minimal = false",
  "String session-store-type = \"cookie\""] : List String) := rfl

theorem optionTags_session_ok : optionTags_session = ([
  "redis-ca-path redis_ca_path RedisStoreOptions.CAPath string",
  "redis-cluster-connection-urls redis_cluster_connection_urls RedisStoreOptions.ClusterConnectionURLs []string",
  "redis-connection-idle-timeout redis_connection_idle_timeout RedisStoreOptions.IdleTimeout int",
  "redis-connection-url redis_connection_url RedisStoreOptions.ConnectionURL string",
  "redis-insecure-skip-tls-verify redis_insecure_skip_tls_verify RedisStoreOptions.InsecureSkipTLSVerify bool",
  "redis-password redis_password RedisStoreOptions.Password string",
  "redis-sentinel-connection-urls redis_sentinel_connection_urls RedisStoreOptions.SentinelConnectionURLs []string",
  "redis-sentinel-master-name redis_sentinel_master_name RedisStoreOptions.SentinelMasterName string",
  "redis-sentinel-password redis_sentinel_password RedisStoreOptions.SentinelPassword string",
  "redis-use-cluster redis_use_cluster RedisStoreOptions.UseCluster bool",
  "redis-use-sentinel redis_use_sentinel RedisStoreOptions.UseSentinel bool",
  "redis-username redis_username RedisStoreOptions.Username string",
  "session-cookie-minimal session_cookie_minimal CookieStoreOptions.Minimal bool",
  "session-store-type session_store_type SessionOptions.Type string"] : List String) := rfl

end O2P.Expect.C11
