import O2P.Gen.Facts
/-! Reviewed expectations about the source facts that the model parts used for C08 encode.
    Written by bin/mkexpect.py from reviewed facts; a change of /repo that alters one of these facts breaks the `rfl`. -/
namespace O2P.Expect.C08
open O2P.Facts

theorem skel_OAuthProxy_getAuthenticatedSession_ok : skel_OAuthProxy_getAuthenticatedSession = ([
  "if p.IsAllowedRequest(req)",
  "p.IsAllowedRequest",
  "return session, nil",
  "if session == nil",
  "return nil, ErrNeedsLogin",
  "p.Validator",
  "p.provider.Authorize",
  "if err != nil",
  "if invalidEmail || !authorized",
  "if invalidEmail",
  "p.ClearSessionCookie",
  "if err != nil",
  "return nil, ErrAccessDenied",
  "return session, nil"] : List String) := rfl

theorem skel_OAuthProxy_AuthOnly_ok : skel_OAuthProxy_AuthOnly = ([
  "p.getAuthenticatedSession",
  "if err != nil",
  "return",
  "if !authOnlyAuthorize(req, session)",
  "authOnlyAuthorize",
  "return",
  "p.addHeadersForProxying",
  "p.headersChain.Then(http.HandlerFunc(func(rw http.ResponseWriter, _ *http.Request) { rw.WriteHeader(http.StatusAccepted) })).ServeHTTP",
  "p.headersChain.Then",
  "func{",
  "rw.WriteHeader"] : List String) := rfl

theorem skel_OAuthProxy_OAuthCallback_ok : skel_OAuthProxy_OAuthCallback = ([
  "if err != nil",
  "p.ErrorPage",
  "return",
  "req.Form.Get",
  "if errorString != \"\"",
  "fmt.Sprintf",
  "p.ErrorPage",
  "return",
  "decodeState",
  "req.Form.Get",
  "if err != nil",
  "p.ErrorPage",
  "return",
  "cookies.GenerateCookieName",
  "cookies.LoadCSRFCookie",
  "if err != nil",
  "p.ErrorPage",
  "return",
  "p.redeemCode",
  "csrf.GetCodeVerifier",
  "if err != nil",
  "p.ErrorPage",
  "return",
  "p.enrichSessionState",
  "if err != nil",
  "p.ErrorPage",
  "return",
  "csrf.ClearCookie",
  "if !csrf.CheckOAuthState(nonce)",
  "csrf.CheckOAuthState",
  "p.ErrorPage",
  "return",
  "csrf.SetSessionNonce",
  "if !p.provider.ValidateSession(req.Context(), session)",
  "p.provider.ValidateSession",
  "p.ErrorPage",
  "return",
  "if !p.redirectValidator.IsValidRedirect(appRedirect)",
  "p.redirectValidator.IsValidRedirect",
  "p.provider.Authorize",
  "if err != nil",
  "if p.Validator(session.Email) && authorized",
  "p.Validator",
  "p.SaveSession",
  "if err != nil",
  "p.ErrorPage",
  "return",
  "http.Redirect",
  "p.ErrorPage"] : List String) := rfl

theorem skel_extractAllowedEntities_ok : skel_extractAllowedEntities = ([
  "req.URL.Query",
  "strings.Split",
  "if entity != \"\"",
  "return entities"] : List String) := rfl

theorem skel_checkAllowedEmailDomains_ok : skel_checkAllowedEmailDomains = ([
  "if len(allowedEmailDomains) == 0",
  "return true",
  "strings.Split",
  "if len(splitEmail) != 2",
  "return false",
  "url.Parse",
  "return util.IsEndpointAllowed(endpoint, allowedEmailDomainsList)",
  "util.IsEndpointAllowed"] : List String) := rfl

theorem skel_checkAllowedGroups_ok : skel_checkAllowedGroups = ([
  "if len(allowedGroups) == 0",
  "return true",
  "if ok",
  "return true",
  "return false"] : List String) := rfl

theorem skel_checkAllowedEmails_ok : skel_checkAllowedEmails = ([
  "if len(allowedEmails) == 0",
  "return true",
  "if email == s.Email",
  "return allowed"] : List String) := rfl

theorem skel_authOnlyAuthorize_ok : skel_authOnlyAuthorize = ([
  "if s == nil",
  "return true",
  "if !constraint(req, s)",
  "return false",
  "return true"] : List String) := rfl

theorem skel_isEmailValidWithDomains_ok : skel_isEmailValidWithDomains = ([
  "if strings.HasSuffix(email, \"@\"+domain)",
  "strings.HasSuffix",
  "return true",
  "strings.Split",
  "if (strings.HasPrefix(domain, \".\") && strings.HasSuffix(atoms[len(atoms)-1], domain)) || (strings.HasPrefix(domain, \"*.\") && strings.HasSuffix(atoms[len(atoms)-1], domain[1:]))",
  "strings.HasPrefix",
  "strings.HasSuffix",
  "strings.HasPrefix",
  "strings.HasSuffix",
  "return true",
  "return false"] : List String) := rfl

theorem skel_newValidatorImpl_ok : skel_newValidatorImpl = ([
  "if domain == \"*\"",
  "strings.ToLower",
  "func{",
  "if email == \"\"",
  "return",
  "strings.ToLower",
  "if !valid",
  "if allowAll",
  "return valid",
  "return validator"] : List String) := rfl

theorem skel_UserMap_LoadAuthenticatedEmailsFile_ok : skel_UserMap_LoadAuthenticatedEmailsFile = ([
  "if err != nil",
  "defer",
  "func{",
  "if cerr != nil",
  "csvReader.ReadAll",
  "if err != nil",
  "return",
  "strings.ToLower",
  "strings.TrimSpace",
  "atomic.StorePointer"] : List String) := rfl

theorem skel_WatchFileForUpdates_ok : skel_WatchFileForUpdates = ([
  "filepath.Clean",
  "fsnotify.NewWatcher",
  "if err != nil",
  "return fmt.Errorf(\"failed to create watcher for '%s': %s\", filename",
  "fmt.Errorf",
  "func{",
  "defer",
  "for",
  "return",
  "filterEvent",
  "logger.Errorf",
  "if err != nil",
  "watcher.Add",
  "return fmt.Errorf(\"failed to add '%s' to watcher: %v\", filename, er",
  "fmt.Errorf",
  "return nil"] : List String) := rfl

theorem skel_filterEvent_ok : skel_filterEvent = ([
  "filepath.Clean",
  "case event.Op&fsnotify.Remove != 0",
  "WaitForReplacement",
  "action",
  "case event.Op&(fsnotify.Create|fsnotify.Write) != 0",
  "action"] : List String) := rfl

theorem skel_WaitForReplacement_ok : skel_WaitForReplacement = ([
  "if op&fsnotify.Chmod != 0",
  "time.Sleep",
  "for",
  "if err == nil",
  "os.Stat",
  "if err == nil",
  "watcher.Add",
  "return",
  "time.Sleep"] : List String) := rfl

theorem skel_newProviderDataFromConfig_ok : skel_newProviderDataFromConfig = ([
  "if err != nil",
  "return nil, err",
  "if needsVerifier",
  "if err != nil",
  "return nil, fmt.Errorf(\"error building OIDC ProviderVerifier: %v\", err)",
  "fmt.Errorf",
  "if pv.DiscoveryEnabled()",
  "url.Parse",
  "if err != nil",
  "fmt.Errorf",
  "if len(errs) > 0",
  "return nil, k8serrors.NewAggregate(errs)",
  "if len(p.SupportedCodeChallengeMethods) != 0 && p.CodeChallengeMethod == \"\"",
  "if providerConfig.OIDCConfig.UserIDClaim == \"\"",
  "if providerConfig.OIDCConfig.EmailClaim == options.OIDCEmailClaim && providerConfig.OIDCConfig.UserIDClaim != options.OIDCEmailClaim",
  "p.setAllowedGroups",
  "return p, nil"] : List String) := rfl

theorem flags_authz_ok : flags_authz = ([
  "StringSlice allowed-group = []string{}",
  "StringSlice allowed-role = []string{}",
  "String authenticated-emails-file = \"\"",
  "StringSlice email-domain = []string{}",
  "String htpasswd-file = \"\"",
  "StringSlice htpasswd-user-group = []string{}"] : List String) := rfl

theorem optionTags_authz_ok : optionTags_authz = ([
  "allowed-group allowed_groups LegacyProvider.AllowedGroups []string",
  "allowed-role allowed_roles LegacyProvider.AllowedRoles []string",
  "authenticated-emails-file authenticated_emails_file Options.AuthenticatedEmailsFile string",
  "email-domain email_domains Options.EmailDomains []string",
  "htpasswd-file htpasswd_file Options.HtpasswdFile string",
  "htpasswd-user-group htpasswd_user_groups Options.HtpasswdUserGroups []string"] : List String) := rfl

end O2P.Expect.C08
