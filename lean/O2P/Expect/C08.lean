import O2P.Gen.Facts
/-! Reviewed expectations about the source facts that the model parts used for C08 encode.
    Written by bin/mkexpect.py from reviewed facts; a change of /repo that alters one of these facts breaks the `rfl`. -/
namespace O2P.Expect.C08
open O2P.Facts

theorem skel_OAuthProxy_getAuthenticatedSession_ok : skel_OAuthProxy_getAuthenticatedSession = ([
  "if p.IsAllowedRequest(req)",
  "p.IsAllowedRequest",
  "return session, nil",
  "if session == nil",
  "return nil, ErrNeedsLogin",
  "p.Validator",
  "p.provider.Authorize",
  "if err != nil",
  "if invalidEmail || !authorized",
  "if invalidEmail",
  "p.ClearSessionCookie",
  "if err != nil",
  "return nil, ErrAccessDenied",
  "return session, nil"] : List String) := rfl

theorem skel_OAuthProxy_AuthOnly_ok : skel_OAuthProxy_AuthOnly = ([
  "p.getAuthenticatedSession",
  "if err != nil",
  "return",
  "if !authOnlyAuthorize(req, session)",
  "authOnlyAuthorize",
  "return",
  "p.addHeadersForProxying",
  "p.headersChain.Then(http.HandlerFunc(func(rw http.ResponseWriter, _ *http.Request) { rw.WriteHeader(http.StatusAccepted) })).ServeHTTP",
  "p.headersChain.Then",
  "func{",
  "rw.WriteHeader"] : List String) := rfl

theorem skel_OAuthProxy_OAuthCallback_ok : skel_OAuthProxy_OAuthCallback = ([
  "if err != nil",
  "p.ErrorPage",
  "return",
  "if errorString != \"\"",
  "p.ErrorPage",
  "return",
  "decodeState",
  "if err != nil",
  "p.ErrorPage",
  "return",
  "cookies.GenerateCookieName",
  "cookies.LoadCSRFCookie",
  "if err != nil",
  "p.ErrorPage",
  "return",
  "p.redeemCode",
  "csrf.GetCodeVerifier",
  "if err != nil",
  "p.ErrorPage",
  "return",
  "p.enrichSessionState",
  "if err != nil",
  "p.ErrorPage",
  "return",
  "csrf.ClearCookie",
  "if !csrf.CheckOAuthState(nonce)",
  "csrf.CheckOAuthState",
  "p.ErrorPage",
  "return",
  "csrf.SetSessionNonce",
  "if !p.provider.ValidateSession(req.Context(), session)",
  "p.provider.ValidateSession",
  "p.ErrorPage",
  "return",
  "if !p.redirectValidator.IsValidRedirect(appRedirect)",
  "p.redirectValidator.IsValidRedirect",
  "p.provider.Authorize",
  "if err != nil",
  "if p.Validator(session.Email) && authorized",
  "p.Validator",
  "p.SaveSession",
  "if err != nil",
  "p.ErrorPage",
  "return",
  "http.Redirect",
  "p.ErrorPage"] : List String) := rfl

end O2P.Expect.C08
